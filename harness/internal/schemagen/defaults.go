package schemagen

// defaults.go: the VALUE SPACE of field defaults (rule FIELD_SAME_DEFAULT, field_default.go).
//
//   - DefaultCases: a matrix of (type, old literal, new literal) triples covering, for every
//     scalar kind and enums, boundary and near-boundary values (0, +-1, min, max, min+1, max-1,
//     2^24+-1, 2^53+-1, 2^63, values that differ only in the last bit, float denormals, inf, nan,
//     values equal after float32 rounding but distinct as double, strings / bytes that differ only
//     in case, an escape, a trailing NUL, invalid UTF-8), each either a VALUE CHANGE (must be
//     reported, C03) or the SAME value in another spelling (`1e3` / `1000.0`, `0x10` / `16`,
//     `"\x41"` / `"A"`, an explicit zero / no option: must not be reported, C04).
//   - RenderDefaultMatrix: one field per case in a message / extension block / editions file.
//   - DefaultOutcome: what the two compiled sides say about a case (from protoreflect only).
//   - defaultPools / nearDefault / respellDefault: the same value space for the RANDOM operators
//     (FieldChangeDefault, FieldAddDefault, zoo fields) and the cosmetic RespellDefaults edit.

import (
	"fmt"
	"math"
	"sort"
	"strconv"
	"strings"

	"github.com/bufbuild/verifharness/internal/hx"
	"google.golang.org/protobuf/reflect/protoreflect"
)

// DefaultCase is one field of the defaults matrix.
type DefaultCase struct {
	Type     string // scalar type name, or "enum"
	Old, New string // default literal as written ("" = no default option)
	Same     bool   // both sides denote the same value: only the spelling differs
	Observe  bool   // +-0: the sides differ in the sign of zero only; neither outcome is demanded
	Note     string
	// enum cases: the body of the case's own enum on the two sides; Closed: needs a closed enum
	// (first value not zero), skipped in editions / proto3
	EnumOld, EnumNew string
	Closed           bool
}

func (c DefaultCase) String() string {
	return fmt.Sprintf("%s: [%s] -> [%s] (%s)", c.Type, c.Old, c.New, c.Note)
}

var (
	int32Like  = []string{"int32", "sint32", "sfixed32"}
	uint32Like = []string{"uint32", "fixed32"}
	int64Like  = []string{"int64", "sint64", "sfixed64"}
	uint64Like = []string{"uint64", "fixed64"}
)

// clusters of pairwise DISTINCT values; every ordered pair within a cluster is a change case
var changeClusters = []struct {
	types    []string
	clusters [][]string
}{
	{int32Like, [][]string{
		{"0", "1", "-1", "2"}, {"2147483647", "2147483646"}, {"-2147483648", "-2147483647"},
		{"16777216", "16777217"}, {"65535", "65536"}, {"2147483647", "-2147483648"}, {"-1", "2147483647"},
	}},
	{uint32Like, [][]string{
		{"0", "1", "2"}, {"4294967295", "4294967294"}, {"2147483648", "2147483647"},
		{"16777216", "16777217"}, {"1", "4294967295"},
	}},
	{int64Like, [][]string{
		{"0", "1", "-1"}, {"9223372036854775807", "9223372036854775806"}, {"-9223372036854775808", "-9223372036854775807"},
		{"9007199254740992", "9007199254740993", "9007199254740991", "9007199254740994"},
		{"-9007199254740992", "-9007199254740993"}, {"4611686018427387904", "4611686018427387905"},
		{"1152921504606846976", "1152921504606846977"}, {"2147483647", "2147483648"}, {"4294967295", "4294967296"},
		{"9223372036854775807", "-9223372036854775808"}, {"16777216", "16777217"},
	}},
	{uint64Like, [][]string{
		{"0", "1"}, {"18446744073709551615", "18446744073709551614", "18446744073709549568"},
		{"9223372036854775808", "9223372036854775807", "9223372036854775809"},
		{"9007199254740992", "9007199254740993"}, {"4294967295", "4294967296"}, {"16777216", "16777217"},
		{"1", "18446744073709551615"},
	}},
	{[]string{"float"}, [][]string{
		{"0", "1", "-1", "1.5"}, {"3.4028235e38", "3.4028233e38"}, {"1e-45", "3e-45"},
		{"1.17549435e-38", "1.1754942e-38"}, {"inf", "-inf", "nan", "3.4028235e38"},
		{"16777216", "16777218"}, {"0.1", "0.2"}, {"1", "1.0000001"}, {"-3.4028235e38", "-inf"},
	}},
	{[]string{"double"}, [][]string{
		{"0", "1", "-1", "1.5"}, {"1.7976931348623157e308", "1.7976931348623155e308"}, {"5e-324", "1e-323"},
		{"2.2250738585072014e-308", "2.225073858507201e-308"}, {"inf", "-inf", "nan", "1.7976931348623157e308"},
		{"9007199254740992", "9007199254740994"}, {"0.1", "0.10000000000000002"}, {"0.1", "0.10000000149011612"},
		{"16777216", "16777217"}, {"1", "1.0000000000000002"}, {"1e-45", "1.4e-45"},
	}},
	{[]string{"bool"}, [][]string{{"true", "false"}}},
	{[]string{"string"}, [][]string{
		{`"abc"`, `"ABC"`, `"Abc"`}, {`"a b"`, `"a  b"`}, {`"é"`, `"e\314\201"`, `"e"`}, {`"x"`, `"x\n"`},
		{`""`, `" "`}, {`"\\n"`, `"\n"`}, {`"a"`, `"a\001"`}, {`"A"`, `"\x42"`}, {`"straße"`, `"strasse"`, `"STRASSE"`},
	}},
	{[]string{"bytes"}, [][]string{
		{`"\377"`, `"\376"`}, {`"\377\376"`, `"\377"`}, {`"a"`, `"a\000"`}, {`"abc"`, `"ABC"`},
		{`"\000"`, `"\000\000"`, `""`}, {`"\x80"`, `"\x81"`}, {`"\300\200"`, `"\000"`},
	}},
}

// the same value in two spellings
var spellingPairs = []struct {
	types []string
	pairs [][2]string
}{
	{int32Like, [][2]string{{"16", "0x10"}, {"16", "020"}, {"-1", "-0x1"}, {"2147483647", "0x7FFFFFFF"}, {"-2147483648", "-0x80000000"}, {"0", ""}, {"0", "-0"}, {"0x0", ""}}},
	{uint32Like, [][2]string{{"16", "0x10"}, {"4294967295", "0xFFFFFFFF"}, {"4294967295", "0xffffffff"}, {"0", ""}, {"8", "010"}}},
	{int64Like, [][2]string{{"9007199254740993", "0x20000000000001"}, {"9223372036854775807", "0x7FFFFFFFFFFFFFFF"}, {"-9223372036854775808", "-0x8000000000000000"}, {"0", ""}, {"1000", "01750"}}},
	{uint64Like, [][2]string{{"18446744073709551615", "0xFFFFFFFFFFFFFFFF"}, {"9223372036854775808", "0x8000000000000000"}, {"0", ""}, {"4294967296", "040000000000"}}},
	{[]string{"float"}, [][2]string{
		{"1e3", "1000.0"}, {"1000", "1e3"}, {".5", "0.5"}, {"5e-1", "0.5"}, {"1.5", "15e-1"}, {"0", ""}, {"0.0", ""}, {"nan", "-nan"},
		// equal after rounding to float32
		{"16777216", "16777217"}, {"0.1", "0.10000000149011612"}, {"1e-45", "1.4e-45"}, {"3.4028235e38", "3.4028234663852886e38"},
		{"1", "1.00000001"}, {"inf", "inf"},
	}},
	{[]string{"double"}, [][2]string{
		{"1e3", "1000.0"}, {"1000", "1e3"}, {".5", "0.5"}, {"5e-1", "0.5"}, {"1.5", "15e-1"}, {"0", ""}, {"0.0", ""}, {"nan", "-nan"},
		// equal after rounding to float64
		{"9007199254740992", "9007199254740993"}, {"0.1", "0.1000000000000000055511151231257827"}, {"5e-324", "4.9406564584124654e-324"},
		{"1", "1.00000000000000001"},
	}},
	{[]string{"bool"}, [][2]string{{"false", ""}}},
	{[]string{"string"}, [][2]string{
		{`"A"`, `"\x41"`}, {`"A"`, `"\101"`}, {`"A"`, `'A'`}, {`"ab"`, `"a" "b"`}, {`"é"`, `"\303\251"`}, {`"\n"`, `"\012"`},
		{`""`, ""}, {`"q\"x"`, `'q"x'`}, {`"A"`, `"A"`},
	}},
	{[]string{"bytes"}, [][2]string{
		{`"\377"`, `"\xff"`}, {`"\xff"`, `"\xFF"`}, {`"A"`, `"\x41"`}, {`""`, ""}, {`"\000"`, `"\x00"`}, {`"ab"`, `'ab'`},
	}},
}

func zeroLiteral(typ, lit string) bool {
	switch lit {
	case "", "0", "0.0", "0x0", "-0", "false", `""`:
		return true
	}
	return false
}

// DefaultCases is the matrix.
func DefaultCases() []DefaultCase {
	var out []DefaultCase
	for _, g := range changeClusters {
		for _, typ := range g.types {
			for _, cl := range g.clusters {
				for _, a := range cl {
					for _, b := range cl {
						if a == b || (zeroLiteral(typ, a) && zeroLiteral(typ, b)) {
							continue
						}
						out = append(out, DefaultCase{Type: typ, Old: a, New: b, Note: "value change"})
					}
				}
			}
			// a default appears / disappears (the other side is the type's zero value)
			for _, cl := range g.clusters {
				for _, v := range cl {
					if !zeroLiteral(typ, v) {
						out = append(out, DefaultCase{Type: typ, Old: "", New: v, Note: "default added"},
							DefaultCase{Type: typ, Old: v, New: "", Note: "default removed"})
						break
					}
				}
			}
		}
	}
	for _, g := range spellingPairs {
		for _, typ := range g.types {
			for _, p := range g.pairs {
				out = append(out, DefaultCase{Type: typ, Old: p[0], New: p[1], Same: true, Note: "same value, other spelling"},
					DefaultCase{Type: typ, Old: p[1], New: p[0], Same: true, Note: "same value, other spelling"})
			}
		}
	}
	// the sign of zero
	for _, typ := range []string{"float", "double"} {
		out = append(out, DefaultCase{Type: typ, Old: "0", New: "-0.0", Observe: true, Note: "+0 -> -0"},
			DefaultCase{Type: typ, Old: "-0.0", New: "", Observe: true, Note: "-0 -> no default"},
			DefaultCase{Type: typ, Old: "-0.0", New: "1", Note: "value change"})
	}
	// enums
	abc := "A = 0; B = 1; C = 2;"
	out = append(out,
		DefaultCase{Type: "enum", Old: "B", New: "C", EnumOld: abc, EnumNew: abc, Note: "other value"},
		DefaultCase{Type: "enum", Old: "B", New: "B", EnumOld: abc, EnumNew: "A = 0; B = 5; C = 2;", Note: "same name, number changed"},
		DefaultCase{Type: "enum", Old: "B", New: "B", EnumOld: "A = 0; B = 2147483647;", EnumNew: "A = 0; B = 2147483646;", Note: "same name, number max -> max-1"},
		DefaultCase{Type: "enum", Old: "B", New: "B", EnumOld: "A = 0; B = -2147483648;", EnumNew: "A = 0; B = -2147483647;", Note: "same name, number min -> min+1"},
		DefaultCase{Type: "enum", Old: "", New: "B", EnumOld: abc, EnumNew: abc, Note: "default added"},
		DefaultCase{Type: "enum", Old: "C", New: "", EnumOld: abc, EnumNew: abc, Note: "default removed"},
		DefaultCase{Type: "enum", Old: "Y", New: "", EnumOld: "X = 3; Y = 4;", EnumNew: "X = 3; Y = 4;", Closed: true, Note: "default removed, first value not zero"},
		DefaultCase{Type: "enum", Old: "", New: "", EnumOld: "X = 3; Y = 4;", EnumNew: "X = 4; Y = 3;", Closed: true, Note: "implicit default: the first value's number changed"},
		DefaultCase{Type: "enum", Old: "B", New: "B2", EnumOld: "option allow_alias = true; A = 0; B = 1; B2 = 1;", EnumNew: "option allow_alias = true; A = 0; B = 1; B2 = 1;", Same: true, Note: "other NAME of the same number (alias)"},
		DefaultCase{Type: "enum", Old: "A", New: "", EnumOld: abc, EnumNew: abc, Same: true, Note: "explicit first value / no default"},
		DefaultCase{Type: "enum", Old: "X", New: "", EnumOld: "X = 3; Y = 4;", EnumNew: "X = 3; Y = 4;", Same: true, Closed: true, Note: "explicit first value / no default, first value not zero"},
	)
	return out
}

// Matrix layouts.
const (
	MatrixProto2Message = iota // optional / required fields and oneof members of a proto2 message
	MatrixProto2Nested         // fields of a message nested two levels deep, in a second file of another package
	MatrixProto2Extension      // extension fields (file level and nested in a message)
	MatrixEditions             // edition 2023 fields
	NumMatrixLayouts
)

var MatrixLayoutNames = []string{"proto2-message", "proto2-nested", "proto2-extension", "editions"}

// MatrixField says where case i ended up.
type MatrixField struct {
	Case     int
	FullName string // of the field / extension
}

// RenderDefaultMatrix renders one side (old = true: the previous schema) of the matrix in the
// given layout.  Fields are numbered 1.. in case order; cases a layout cannot hold are skipped.
func RenderDefaultMatrix(cases []DefaultCase, layout int, old bool) (map[string]string, []MatrixField) {
	var fields []MatrixField
	var sb, enums strings.Builder
	ed := layout == MatrixEditions
	pkg := "dm"
	indent := "  "
	lit := func(c DefaultCase) string {
		if old {
			return c.Old
		}
		return c.New
	}
	n := 0
	var lines []string
	for i, c := range cases {
		if c.Closed && ed {
			continue
		}
		// the first layout holds every case, the others a third each
		if layout != MatrixProto2Message && i%3 != layout%3 {
			continue
		}
		n++
		num := n
		if num >= 19000 {
			num += 1000
		}
		typ := c.Type
		if typ == "enum" {
			typ = fmt.Sprintf("E%d", i)
			body := c.EnumNew
			if old {
				body = c.EnumOld
			}
			enums.WriteString(fmt.Sprintf("enum %s { %s }\n", typ, prefixEnumValues(body, typ)))
		}
		l := lit(c)
		if c.Type == "enum" && l != "" {
			l = fmt.Sprintf("E%d_%s", i, l)
		}
		opt := ""
		if l != "" {
			opt = " [default = " + l + "]"
		}
		label := "optional "
		switch {
		case ed:
			label = ""
		case layout == MatrixProto2Message && i%5 == 3:
			label = "required "
		}
		name := fmt.Sprintf("f%d", i)
		lines = append(lines, fmt.Sprintf("%s%s %s = %d%s;", label, typ, name, num, opt))
		fields = append(fields, MatrixField{Case: i})
	}
	switch layout {
	case MatrixProto2Message, MatrixEditions:
		if ed {
			sb.WriteString("edition = \"2023\";\n")
		} else {
			sb.WriteString("syntax = \"proto2\";\n")
		}
		sb.WriteString("package " + pkg + ";\n" + enums.String() + "message DM {\n")
		// every 7th field of the proto2 layout is the single member of its own oneof
		for k, l := range lines {
			if layout == MatrixProto2Message && k%7 == 2 && strings.HasPrefix(l, "optional ") {
				sb.WriteString(fmt.Sprintf("%soneof o%d { %s }\n", indent, k, strings.TrimPrefix(l, "optional ")))
			} else {
				sb.WriteString(indent + l + "\n")
			}
		}
		sb.WriteString("}\n")
		for k := range fields {
			fields[k].FullName = pkg + ".DM.f" + strconv.Itoa(fields[k].Case)
		}
		return map[string]string{"dm/dm.proto": sb.String()}, fields
	case MatrixProto2Nested:
		sb.WriteString("syntax = \"proto2\";\npackage " + pkg + ".sub;\nimport \"dm/base.proto\";\n" + enums.String() +
			"message Outer {\n  optional dm.Base base = 1;\n  message Mid {\n    message DM {\n")
		for _, l := range lines {
			sb.WriteString("      " + l + "\n")
		}
		sb.WriteString("    }\n  }\n}\n")
		for k := range fields {
			fields[k].FullName = pkg + ".sub.Outer.Mid.DM.f" + strconv.Itoa(fields[k].Case)
		}
		return map[string]string{"dm/sub/dm.proto": sb.String(), "dm/base.proto": "syntax = \"proto2\";\npackage dm;\nmessage Base { optional int32 x = 1; }\n"}, fields
	case MatrixProto2Extension:
		sb.WriteString("syntax = \"proto2\";\npackage " + pkg + ";\n" + enums.String() +
			"message Base { extensions 1 to max; }\nmessage Host {\n  extend Base {\n")
		half := len(lines) / 2
		for _, l := range lines[:half] {
			sb.WriteString("    " + l + "\n")
		}
		sb.WriteString("  }\n}\nextend Base {\n")
		for _, l := range lines[half:] {
			sb.WriteString("  " + l + "\n")
		}
		sb.WriteString("}\n")
		for k := range fields {
			if k < half {
				fields[k].FullName = pkg + ".Host.f" + strconv.Itoa(fields[k].Case)
			} else {
				fields[k].FullName = pkg + ".f" + strconv.Itoa(fields[k].Case)
			}
		}
		return map[string]string{"dm/dm.proto": sb.String()}, fields
	}
	return nil, nil
}

// prefixEnumValues makes the value names of a case's enum unique in the file scope: `B = 1;` ->
// `E7_B = 1;` (enum value names are siblings of the enum).
func prefixEnumValues(body, enum string) string {
	parts := strings.Split(body, ";")
	for i, p := range parts {
		t := strings.TrimSpace(p)
		if t == "" || strings.HasPrefix(t, "option ") {
			continue
		}
		parts[i] = " " + enum + "_" + t
	}
	return strings.TrimSpace(strings.Join(parts, ";"))
}

// defaultKey is the exact value of a field's default as protoreflect reports it (independent of
// field_default.go): equal keys <=> same default value.  All NaNs are one value.
func defaultKey(fd protoreflect.FieldDescriptor) string {
	d := fd.Default()
	switch fd.Kind() {
	case protoreflect.BoolKind:
		return "b:" + strconv.FormatBool(d.Bool())
	case protoreflect.EnumKind:
		return "e:" + strconv.Itoa(int(d.Enum()))
	case protoreflect.StringKind:
		return "s:" + hx.Enc(d.String())
	case protoreflect.BytesKind:
		return "s:" + hx.Enc(string(d.Bytes()))
	case protoreflect.FloatKind, protoreflect.DoubleKind:
		v := d.Float()
		if math.IsNaN(v) {
			return "f:nan"
		}
		return "f:" + strconv.FormatUint(math.Float64bits(v), 16)
	case protoreflect.Uint32Kind, protoreflect.Uint64Kind, protoreflect.Fixed32Kind, protoreflect.Fixed64Kind:
		return "i:" + strconv.FormatUint(d.Uint(), 10)
	default:
		return "i:" + strconv.FormatInt(d.Int(), 10)
	}
}

// DefaultOutcome: what the two compiled sides say about a matrix field.
type DefaultOutcome struct {
	Changed    bool   // the default VALUES differ
	CurWritten bool   // the current field has a default option (the annotation sits on it)
	File, Path string // where FIELD_SAME_DEFAULT must be located if Changed
	OldKey     string
	NewKey     string
}

func findField(c *Compiled, full string) protoreflect.FieldDescriptor {
	d, err := c.Files.FindDescriptorByName(protoreflect.FullName(full))
	if err != nil {
		return nil
	}
	fd, _ := d.(protoreflect.FieldDescriptor)
	return fd
}

// DefaultOutcomeOf reads the outcome of one matrix field off the compiled images.
func DefaultOutcomeOf(cur, prev *Compiled, full string) (DefaultOutcome, error) {
	cf, pf := findField(cur, full), findField(prev, full)
	if cf == nil || pf == nil {
		return DefaultOutcome{}, fmt.Errorf("matrix field %s not found", full)
	}
	o := DefaultOutcome{OldKey: defaultKey(pf), NewKey: defaultKey(cf), CurWritten: cf.HasDefault(), File: cf.ParentFile().Path()}
	o.Changed = o.OldKey != o.NewKey
	if o.CurWritten {
		o.Path = descPath(cf, []int32{7})
	} else {
		o.Path = descPath(cf, nil)
	}
	return o, nil
}

// ---------------------------------------------------------------------------------------------
// The value space for the random operators.

// defaultPools: clusters of near neighbours; ALL literals of a type denote pairwise distinct,
// non-zero values (for `float`: distinct after rounding to float32), written in canonical decimal
// form, so that "another literal" always is "another value".
var defaultPools = map[string][][]string{
	"int32":  {{"5", "-3", "42", "1"}, {"2147483647", "2147483646"}, {"-2147483648", "-2147483647"}, {"16777217", "16777216"}},
	"uint32": {{"7", "1", "4000000000"}, {"4294967295", "4294967294"}, {"16777217", "16777216"}},
	"int64": {{"5", "-3", "42", "1"}, {"9223372036854775807", "9223372036854775806"}, {"-9223372036854775808", "-9223372036854775807"},
		{"9007199254740993", "9007199254740992"}, {"-9007199254740993", "-9007199254740992"}},
	"uint64": {{"7", "1", "4000000000"}, {"18446744073709551615", "18446744073709551614"}, {"9007199254740993", "9007199254740992"},
		{"9223372036854775808", "9223372036854775807"}},
	"float":  {{"1.5", "-2e3", "0.25"}, {"inf", "-inf", "nan"}, {"3.4028235e38", "3.4028233e38"}, {"1e-45", "3e-45"}, {"16777216", "16777218"}},
	"double": {{"1.5", "-2e3", "0.25"}, {"inf", "-inf", "nan"}, {"1.7976931348623157e308", "1.7976931348623155e308"}, {"5e-324", "1e-323"}, {"9007199254740992", "9007199254740994"}, {"0.1", "0.10000000000000002"}},
	"string": {{`"abc"`, `"ABC"`}, {`"x y"`, `"x  y"`}, {`"q\"uote"`}, {`"a"`, `"a\001"`}},
	"bytes":  {{`"\001\377"`, `"\001\376"`}, {`"raw"`, `"RAW"`}, {`"a\000"`, `"a"`}},
}

func poolOf(typ string) [][]string {
	switch typ {
	case "sint32", "sfixed32":
		typ = "int32"
	case "fixed32":
		typ = "uint32"
	case "sint64", "sfixed64":
		typ = "int64"
	case "fixed64":
		typ = "uint64"
	}
	return defaultPools[typ]
}

func poolLit(r *hx.Rand, typ string) string {
	p := poolOf(typ)
	if len(p) == 0 {
		return ""
	}
	// half of the time an everyday value (first cluster), else a boundary cluster
	cl := p[0]
	if r.Bool() {
		cl = hx.Pick(r, p)
	}
	return hx.Pick(r, cl)
}

// nearDefault: another literal of the cluster of cur (a value next to it), "" if there is none.
func nearDefault(r *hx.Rand, typ, cur string) string {
	for _, cl := range poolOf(typ) {
		for _, l := range cl {
			if l == cur && len(cl) > 1 {
				for {
					if o := hx.Pick(r, cl); o != cur {
						return o
					}
				}
			}
		}
	}
	return ""
}

// respellings of pool literals: the same value written differently
var respell = map[string][]string{
	"5": {"0x5", "05"}, "-3": {"-0x3", "-03"}, "42": {"0x2A", "052"}, "1": {"0x1", "01"}, "7": {"0x7", "07"},
	"4000000000": {"0xEE6B2800"}, "2147483647": {"0x7FFFFFFF"}, "2147483646": {"0x7ffffffe"}, "-2147483648": {"-0x80000000"},
	"-2147483647": {"-0x7FFFFFFF"}, "16777217": {"0x1000001"}, "16777216": {"0x1000000"}, "4294967295": {"0xFFFFFFFF"},
	"4294967294": {"0xFFFFFFFE"}, "9223372036854775807": {"0x7FFFFFFFFFFFFFFF"}, "9223372036854775806": {"0x7FFFFFFFFFFFFFFE"},
	"-9223372036854775808": {"-0x8000000000000000"}, "-9223372036854775807": {"-0x7FFFFFFFFFFFFFFF"},
	"9007199254740993": {"0x20000000000001"}, "9007199254740992": {"0x20000000000000"}, "-9007199254740993": {"-0x20000000000001"},
	"-9007199254740992": {"-0x20000000000000"}, "18446744073709551615": {"0xFFFFFFFFFFFFFFFF"}, "18446744073709551614": {"0xfffffffffffffffe"},
	"9223372036854775808": {"0x8000000000000000"},
	"1.5":                 {"15e-1", "1.50"}, "-2e3": {"-2000.0", "-2000"}, "0.25": {".25", "25e-2"}, "nan": {"-nan"},
	`"abc"`: {`'abc'`, `"\x61bc"`, `"a" "bc"`}, `"ABC"`: {`"\101BC"`}, `"x y"`: {`"x\040y"`}, `"raw"`: {`'raw'`, `"\x72aw"`},
	`"\001\377"`: {`"\x01\xff"`, `"\001" "\377"`}, `"a"`: {`'a'`, `"\141"`},
}

// floatOnly: respellings that hold for `float` fields only (equal after float32 rounding)
var respellFloat32 = map[string][]string{"16777216": {"16777217"}, "3.4028235e38": {"3.4028234663852886e38"}, "1e-45": {"1.4e-45"}}

// respellFloat64: for `double` fields only
var respellFloat64 = map[string][]string{"9007199254740992": {"9007199254740993"}, "0.1": {"0.1000000000000000055511151231257827"}, "5e-324": {"4.9406564584124654e-324"}}

// RespellDefault returns another spelling of the same default value, if one is known.
func RespellDefault(r *hx.Rand, typ, lit string) (string, bool) {
	var c []string
	switch typ {
	case "float":
		c = append(c, respellFloat32[lit]...)
	case "double":
		c = append(c, respellFloat64[lit]...)
	}
	isFloat := typ == "float" || typ == "double"
	if !isFloat || strings.ContainsAny(lit, ".en") {
		// integer respellings (hex / octal) are not valid float literals
		c = append(c, respell[lit]...)
	}
	if len(c) == 0 {
		return "", false
	}
	sort.Strings(c)
	return hx.Pick(r, c), true
}
