// Package schemagen is shared by the C03 and C04 harnesses: schema generation and edit
// operators (gen.go, edits.go), in-process compilation with buf's own builder, the compact line
// encoding of a compiled image for the Lean driver, and running the REAL breaking-change
// detector (bufcheck.Client.Breaking) with canonicalised results.
package schemagen

import (
	"context"
	"errors"
	"fmt"
	"io"
	"log/slog"
	"math"
	"math/big"
	"sort"
	"strconv"
	"strings"

	descriptorv1 "buf.build/gen/go/bufbuild/bufplugin/protocolbuffers/go/buf/plugin/descriptor/v1"
	"buf.build/go/bufplugin/check"
	"buf.build/go/bufplugin/descriptor"
	"github.com/bufbuild/buf/private/bufpkg/bufanalysis"
	"github.com/bufbuild/buf/private/bufpkg/bufcheck"
	"github.com/bufbuild/buf/private/bufpkg/bufcheck/bufcheckserver"
	"github.com/bufbuild/buf/private/bufpkg/bufconfig"
	"github.com/bufbuild/buf/private/bufpkg/bufimage"
	"github.com/bufbuild/buf/private/bufpkg/bufmodule"
	"github.com/bufbuild/buf/private/bufpkg/bufmodule/bufmoduletesting"
	"github.com/bufbuild/buf/private/bufpkg/bufplugin"
	"github.com/bufbuild/buf/private/pkg/slogext"
	"github.com/bufbuild/buf/private/pkg/storage/storagemem"
	"github.com/bufbuild/buf/private/pkg/wasm"
	"github.com/bufbuild/protocompile/protoutil"
	"github.com/bufbuild/verifharness/internal/hx"
	"google.golang.org/protobuf/reflect/protodesc"
	"google.golang.org/protobuf/reflect/protoreflect"
	"google.golang.org/protobuf/reflect/protoregistry"
	"google.golang.org/protobuf/types/descriptorpb"
)

var (
	Ctx    = context.Background()
	Logger = slog.New(slog.NewTextHandler(io.Discard, nil))
)

// Categories in strictness order.
var Categories = []string{"FILE", "PACKAGE", "WIRE_JSON", "WIRE"}

// Versions of buf.yaml.
var Versions = []struct {
	Name string
	V    bufconfig.FileVersion
	Spec *check.Spec
}{
	{"v1beta1", bufconfig.FileVersionV1Beta1, bufcheckserver.V1Beta1Spec},
	{"v1", bufconfig.FileVersionV1, bufcheckserver.V1Spec},
	{"v2", bufconfig.FileVersionV2, bufcheckserver.V2Spec},
}

// Unmodelled lists the rules the Lean model does not implement (BufModel.Breaking.unmodelled);
// they are excluded on both sides of the correspondence, never from the oracle.
var Unmodelled = []string{"FIELD_SAME_CPP_STRING_TYPE", "FIELD_SAME_JAVA_UTF8_VALIDATION"}

// Compiled is one schema version: sources, image, linked descriptors.
type Compiled struct {
	Sources map[string]string
	Image   bufimage.Image
	Files   *protoregistry.Files
	enc     string
}

// Compile builds the image with buf's own builder from an in-memory module.
func Compile(sources map[string]string) (c *Compiled, err error) {
	defer func() {
		if r := recover(); r != nil {
			err = fmt.Errorf("panic in BuildImage: %v", r)
		}
	}()
	m := make(map[string][]byte, len(sources))
	for k, v := range sources {
		m[k] = []byte(v)
	}
	ms, err := bufmoduletesting.NewModuleSetForPathToData(m)
	if err != nil {
		return nil, err
	}
	img, err := bufimage.BuildImage(Ctx, Logger, bufmodule.ModuleSetToModuleReadBucketWithOnlyProtoFiles(ms))
	if err != nil {
		return nil, err
	}
	files, err := protodesc.NewFiles(bufimage.ImageToFileDescriptorSet(img))
	if err != nil {
		return nil, err
	}
	return &Compiled{Sources: sources, Image: img, Files: files}, nil
}

// Reordered returns the same compiled schema as an image whose Files() are permuted by perm
// (bufimage.NewImage keeps the given order; nothing promises callers a topological order).
func (c *Compiled) Reordered(r *hx.Rand) (*Compiled, error) {
	files := append([]bufimage.ImageFile(nil), c.Image.Files()...)
	hx.Shuffle(r, files)
	img, err := bufimage.NewImage(files)
	if err != nil {
		return nil, err
	}
	return &Compiled{Sources: c.Sources, Image: img, Files: c.Files}, nil
}

// OrderedLast returns the same compiled schema as an image in which the named files come LAST
// in Files() (in the given order), everything else keeping its relative order.
func (c *Compiled) OrderedLast(last ...string) (*Compiled, error) {
	isLast := map[string]int{}
	for i, n := range last {
		isLast[n] = i + 1
	}
	var head []bufimage.ImageFile
	tail := make([]bufimage.ImageFile, len(last))
	for _, f := range c.Image.Files() {
		if i := isLast[f.Path()]; i > 0 {
			tail[i-1] = f
		} else {
			head = append(head, f)
		}
	}
	for _, f := range tail {
		if f != nil {
			head = append(head, f)
		}
	}
	img, err := bufimage.NewImage(head)
	if err != nil {
		return nil, err
	}
	return &Compiled{Sources: c.Sources, Image: img, Files: c.Files}, nil
}

// ---------------------------------------------------------------------------------------------
// Images with IMPORT files.  An image file is an import (ImageFile.IsImport()) when it is in the
// image only because a target file imports it: `buf breaking --path a.proto` (a.proto imports
// b.proto), or a file of a dependency module.  The breaking rule handlers do not look at the flag;
// the client drops annotations located in import files only with BreakingWithExcludeImports.

// How an image with import files is built.
const (
	TargetImagePaths  = iota // bufimage.ImageWithOnlyPathsAllowNotExist on the full image (`buf breaking img.binpb --path ..`)
	TargetModulePaths        // one module built with LocalModuleWithTargetPaths (`buf breaking dir --path ..`)
	TargetDepModule          // a targeted module + a NON-targeted dependency module (workspace sibling / dep)
	NumTargetModes
)

var TargetModeNames = []string{"image-paths", "module-paths", "dep-module"}

// ImporterName is the extra file added by CompileTargeted: it imports every other file of the
// schema, so that with only this file targeted every other file is an import.
const ImporterName = "zzimp/importer.proto"

// ImportSpec says which files stay targets; every other file is in the image only if a target
// (transitively) imports it, and then as an import.
type ImportSpec struct {
	Mode     int
	Targets  []string // file names (besides the importer, which is always a target when Importer is set)
	Importer bool     // add ImporterName (imports every file)
}

func importerSource(sources map[string]string) string {
	names := make([]string, 0, len(sources))
	for n := range sources {
		names = append(names, n)
	}
	sort.Strings(names)
	var sb strings.Builder
	sb.WriteString("syntax = \"proto3\";\npackage zzimp;\n")
	for _, n := range names {
		sb.WriteString("import " + strconv.Quote(n) + ";\n")
	}
	return sb.String()
}

func buildModuleSetImage(mods []struct {
	files    map[string][]byte
	target   bool
	paths    []string
	hasPaths bool
}) (img bufimage.Image, err error) {
	b := bufmodule.NewModuleSetBuilder(Ctx, slogext.NopLogger, bufmodule.NopModuleDataProvider, bufmodule.NopCommitProvider)
	for i, m := range mods {
		bucket, err := storagemem.NewReadBucket(m.files)
		if err != nil {
			return nil, err
		}
		var opts []bufmodule.LocalModuleOption
		if m.hasPaths {
			opts = append(opts, bufmodule.LocalModuleWithTargetPaths(m.paths, nil))
		}
		b.AddLocalModule(bucket, fmt.Sprintf("verif-bucket-%d", i), m.target, opts...)
	}
	ms, err := b.Build()
	if err != nil {
		return nil, err
	}
	return bufimage.BuildImage(Ctx, Logger, bufmodule.ModuleSetToModuleReadBucketWithOnlyProtoFiles(ms))
}

// CompileTargeted builds the image of `sources` in which only spec.Targets (and the importer) are
// targets.  Targets that do not exist in this version are skipped.
func CompileTargeted(sources map[string]string, spec ImportSpec) (c *Compiled, err error) {
	defer func() {
		if r := recover(); r != nil {
			err = fmt.Errorf("panic in CompileTargeted: %v", r)
		}
	}()
	src := make(map[string]string, len(sources)+1)
	for k, v := range sources {
		src[k] = v
	}
	var targets []string
	for _, t := range spec.Targets {
		if _, ok := sources[t]; ok {
			targets = append(targets, t)
		}
	}
	if spec.Importer {
		src[ImporterName] = importerSource(sources)
		targets = append(targets, ImporterName)
	}
	if len(targets) == 0 {
		return nil, errors.New("no target exists in this version")
	}
	bytesOf := func(keep func(string) bool) map[string][]byte {
		m := map[string][]byte{}
		for k, v := range src {
			if keep(k) {
				m[k] = []byte(v)
			}
		}
		return m
	}
	type mod = struct {
		files    map[string][]byte
		target   bool
		paths    []string
		hasPaths bool
	}
	var img bufimage.Image
	switch spec.Mode {
	case TargetImagePaths:
		full, err := Compile(src)
		if err != nil {
			return nil, err
		}
		img, err = bufimage.ImageWithOnlyPathsAllowNotExist(full.Image, targets, nil)
		if err != nil {
			return nil, err
		}
	case TargetModulePaths:
		img, err = buildModuleSetImage([]mod{{files: bytesOf(func(string) bool { return true }), target: true, paths: targets, hasPaths: true}})
		if err != nil {
			return nil, err
		}
	case TargetDepModule:
		isT := map[string]bool{}
		for _, t := range targets {
			isT[t] = true
		}
		dep := bytesOf(func(k string) bool { return !isT[k] })
		if len(dep) == 0 {
			img, err = buildModuleSetImage([]mod{{files: bytesOf(func(k string) bool { return true }), target: true}})
		} else {
			img, err = buildModuleSetImage([]mod{{files: bytesOf(func(k string) bool { return isT[k] }), target: true}, {files: dep, target: false}})
		}
		if err != nil {
			return nil, err
		}
	default:
		return nil, fmt.Errorf("unknown target mode %d", spec.Mode)
	}
	files, err := protodesc.NewFiles(bufimage.ImageToFileDescriptorSet(img))
	if err != nil {
		return nil, err
	}
	return &Compiled{Sources: src, Image: img, Files: files}, nil
}

// ImportFiles lists the files of the image that are imports.
func (c *Compiled) ImportFiles() map[string]bool {
	out := map[string]bool{}
	for _, f := range c.Image.Files() {
		if f.IsImport() {
			out[f.Path()] = true
		}
	}
	return out
}

// HasFile reports whether the image contains the file.
func (c *Compiled) HasFile(name string) bool { return c.Image.GetFile(name) != nil }

// ---------------------------------------------------------------------------------------------
// Encoding for the Lean driver (see lean/Driver/Breaking.lean).

type enc struct{ sb strings.Builder }

func (e *enc) t(s string) {
	if e.sb.Len() > 0 {
		e.sb.WriteByte(' ')
	}
	e.sb.WriteString(s)
}
func (e *enc) n(i int)      { e.t(strconv.Itoa(i)) }
func (e *enc) hex(s string) { e.t(hx.Enc(s)) }
func (e *enc) b(v bool) {
	if v {
		e.t("1")
	} else {
		e.t("0")
	}
}
func bits(vs ...bool) string {
	var sb strings.Builder
	for _, v := range vs {
		if v {
			sb.WriteByte('1')
		} else {
			sb.WriteByte('0')
		}
	}
	return sb.String()
}
func dottedOrDash(s string) string {
	if s == "" {
		return "-"
	}
	return s
}

var featureSetDesc = (*descriptorpb.FeatureSet)(nil).ProtoReflect().Descriptor()

func resolveFeature(d protoreflect.Descriptor, name protoreflect.Name) int {
	v, err := protoutil.ResolveFeature(d, featureSetDesc.Fields().ByName(name))
	if err != nil {
		panic(err)
	}
	return int(v.Enum())
}

// Encode renders the image as the token stream read by Driver.Breaking.schema.
func (c *Compiled) Encode() string {
	if c.enc != "" {
		return c.enc
	}
	e := &enc{}
	files := c.Image.Files()
	e.n(len(files))
	for _, imf := range files {
		fdp := imf.FileDescriptorProto()
		fd, err := c.Files.FindFileByPath(fdp.GetName())
		if err != nil {
			panic(err)
		}
		e.hex(fdp.GetName())
		e.t(dottedOrDash(fdp.GetPackage()))
		switch {
		case imf.IsSyntaxUnspecified():
			e.t("u")
		case fdp.GetSyntax() == "proto3":
			e.t("3")
		case fdp.GetSyntax() == "editions":
			e.t("e")
		default:
			e.t("2")
		}
		o := fdp.GetOptions()
		opts := []struct {
			n int
			v string
		}{
			{31, strconv.FormatBool(o.GetCcEnableArenas())}, {16, strconv.FormatBool(o.GetCcGenericServices())},
			{37, o.GetCsharpNamespace()}, {11, o.GetGoPackage()},
			{17, strconv.FormatBool(o.GetJavaGenericServices())}, {10, strconv.FormatBool(o.GetJavaMultipleFiles())},
			{8, o.GetJavaOuterClassname()}, {1, o.GetJavaPackage()}, {36, o.GetObjcClassPrefix()},
			{9, o.GetOptimizeFor().String()}, {40, o.GetPhpClassPrefix()}, {44, o.GetPhpMetadataNamespace()},
			{41, o.GetPhpNamespace()}, {18, strconv.FormatBool(o.GetPyGenericServices())},
			{45, o.GetRubyPackage()}, {39, o.GetSwiftPrefix()},
		}
		e.n(len(opts))
		for _, x := range opts {
			e.n(x.n)
			e.hex(x.v)
		}
		locs := fdp.GetSourceCodeInfo().GetLocation()
		e.n(len(locs))
		for _, l := range locs {
			e.t(pathString(l.Path))
		}
		e.n(len(fdp.MessageType))
		for i, m := range fdp.MessageType {
			encMsg(e, m, fd.Messages().Get(i))
		}
		e.n(len(fdp.EnumType))
		for i, en := range fdp.EnumType {
			encEnum(e, en, fd.Enums().Get(i))
		}
		e.n(len(fdp.Service))
		for _, s := range fdp.Service {
			e.t(s.GetName())
			e.n(len(s.Method))
			for _, m := range s.Method {
				e.t(m.GetName())
				e.hex(strings.TrimPrefix(m.GetInputType(), "."))
				e.hex(strings.TrimPrefix(m.GetOutputType(), "."))
				e.b(m.GetClientStreaming())
				e.b(m.GetServerStreaming())
				e.n(int(m.GetOptions().GetIdempotencyLevel()))
			}
		}
		e.n(len(fdp.Extension))
		for i, x := range fdp.Extension {
			encField(e, x, fd.Extensions().Get(i), nil)
		}
		e.b(imf.IsImport())
	}
	c.enc = e.sb.String()
	return c.enc
}

func pathString[T int32 | int](p []T) string {
	if len(p) == 0 {
		return "-"
	}
	parts := make([]string, len(p))
	for i, x := range p {
		parts[i] = strconv.Itoa(int(x))
	}
	return strings.Join(parts, ".")
}

func encMsg(e *enc, m *descriptorpb.DescriptorProto, md protoreflect.MessageDescriptor) {
	e.t(m.GetName())
	const jsonAllow = int(descriptorpb.FeatureSet_ALLOW)
	e.t(bits(m.GetOptions().GetMessageSetWireFormat(), m.GetOptions().GetNoStandardDescriptorAccessor(),
		resolveFeature(md, "json_format") == jsonAllow, md.IsMapEntry()))
	e.n(len(m.Field))
	for i, f := range m.Field {
		encField(e, f, md.Fields().Get(i), m)
	}
	e.n(len(m.Extension))
	for i, f := range m.Extension {
		encField(e, f, md.Extensions().Get(i), nil)
	}
	e.n(len(m.NestedType))
	for i, n := range m.NestedType {
		encMsg(e, n, md.Messages().Get(i))
	}
	e.n(len(m.EnumType))
	for i, en := range m.EnumType {
		encEnum(e, en, md.Enums().Get(i))
	}
	e.n(len(m.OneofDecl))
	for i, o := range m.OneofDecl {
		e.t(o.GetName())
		e.b(md.Oneofs().Get(i).IsSynthetic())
	}
	e.n(len(m.ReservedRange))
	for _, r := range m.ReservedRange {
		e.n(int(r.GetStart()))
		e.n(int(r.GetEnd()) - 1) // end is exclusive for messages (message_range.go)
	}
	e.n(len(m.ReservedName))
	for _, r := range m.ReservedName {
		e.t(r)
	}
	e.n(len(m.ExtensionRange))
	for _, r := range m.ExtensionRange {
		e.n(int(r.GetStart()))
		e.n(int(r.GetEnd()) - 1)
	}
}

func encEnum(e *enc, en *descriptorpb.EnumDescriptorProto, ed protoreflect.EnumDescriptor) {
	e.t(en.GetName())
	e.b(ed.IsClosed())
	e.b(resolveFeature(ed, "json_format") == int(descriptorpb.FeatureSet_ALLOW))
	e.n(len(en.Value))
	for _, v := range en.Value {
		e.t(v.GetName())
		e.n(int(v.GetNumber()))
	}
	e.n(len(en.ReservedRange))
	for _, r := range en.ReservedRange {
		e.n(int(r.GetStart()))
		e.n(int(r.GetEnd())) // inclusive for enums
	}
	e.n(len(en.ReservedName))
	for _, r := range en.ReservedName {
		e.t(r)
	}
}

func ratString(v float64) string {
	switch {
	case math.IsInf(v, 1):
		return "inf"
	case math.IsInf(v, -1):
		return "-inf"
	case math.IsNaN(v):
		return "nan"
	}
	return new(big.Rat).SetFloat64(v).String()
}

func b01(v bool) string {
	if v {
		return "1"
	}
	return "0"
}

// defaultToken mirrors field_default.go getDefault: the dynamic type class of `comparable`.
func defaultToken(fd protoreflect.FieldDescriptor) string {
	if fd.IsList() || fd.IsMap() || fd.Message() != nil {
		return "s:-"
	}
	d := fd.Default()
	switch fd.Kind() {
	case protoreflect.BytesKind:
		return "s:" + hx.Enc(string(d.Bytes()))
	case protoreflect.StringKind:
		return "s:" + hx.Enc(d.String())
	case protoreflect.EnumKind:
		n := int64(d.Enum())
		return "n:" + big.NewRat(n, 1).String() + ":" + b01(n == 0)
	case protoreflect.BoolKind:
		if d.Bool() {
			return "n:1/1:0"
		}
		return "n:0/1:1"
	case protoreflect.FloatKind:
		v := float64(float32(d.Float()))
		// reflect.Value.IsZero on float32: math.Float32bits == 0
		return "f:" + ratString(v) + ":" + b01(math.Float32bits(float32(v)) == 0) + ":" + b01(math.IsNaN(v))
	case protoreflect.DoubleKind:
		v := d.Float()
		return "d:" + ratString(v) + ":" + ratString(float64(float32(v))) + ":" + b01(math.Float64bits(v) == 0) + ":" + b01(math.IsNaN(v))
	case protoreflect.Uint32Kind, protoreflect.Uint64Kind, protoreflect.Fixed32Kind, protoreflect.Fixed64Kind:
		u := d.Uint()
		return "n:" + new(big.Rat).SetInt(new(big.Int).SetUint64(u)).String() + ":" + b01(u == 0)
	default:
		n := d.Int()
		return "n:" + big.NewRat(n, 1).String() + ":" + b01(n == 0)
	}
}

func encField(e *enc, f *descriptorpb.FieldDescriptorProto, fd protoreflect.FieldDescriptor, parent *descriptorpb.DescriptorProto) {
	e.n(int(f.GetNumber()))
	e.t(f.GetName())
	e.hex(string(fd.FullName()))
	e.hex(f.GetJsonName())
	switch f.GetLabel() {
	case descriptorpb.FieldDescriptorProto_LABEL_REQUIRED:
		e.t("q")
	case descriptorpb.FieldDescriptorProto_LABEL_REPEATED:
		e.t("r")
	default:
		e.t("o")
	}
	e.n(int(f.GetType()))
	e.n(int(fd.Kind()))
	e.t(dottedOrDash(strings.TrimPrefix(f.GetTypeName(), ".")))
	if f.OneofIndex != nil && parent != nil {
		e.t(parent.OneofDecl[f.GetOneofIndex()].GetName())
		e.b(fd.ContainingOneof().IsSynthetic())
	} else {
		e.t("-")
		e.t("0")
	}
	e.t(bits(fd.IsMap(), fd.HasPresence(), fd.ContainingMessage().IsMapEntry(), fd.Cardinality() == protoreflect.Required))
	e.hex(strings.TrimPrefix(f.GetExtendee(), "."))
	e.n(int(f.GetOptions().GetJstype()))
	e.n(resolveFeature(fd, "utf8_validation"))
	e.t(defaultToken(fd))
}

// ---------------------------------------------------------------------------------------------
// Running the real detector.

// Ann is a canonical annotation: rule id, file path ("" = no file location), source path
// ("-" = none).
type Ann struct {
	Rule, File, Path string
	Message          string
	// Line, Col: start of the span as the CLI annotation carries it (0, 0 without a location);
	// not part of Key() / the protocol, used by the position oracle of the C03 nest family.
	Line, Col int
}

func (a Ann) Key() string { return a.Rule + ":" + hx.Enc(a.File) + ":" + a.Path }

// RenderSet is the canonical rendering compared with Driver.Breaking.renderSet.
func RenderSet(as []Ann) string {
	keys := map[string]struct{}{}
	for _, a := range as {
		keys[a.Key()] = struct{}{}
	}
	out := make([]string, 0, len(keys))
	for k := range keys {
		out = append(out, k)
	}
	sort.Strings(out)
	return strings.Join(out, ",")
}

// Runner holds the real clients.
type Runner struct {
	client bufcheck.Client
	sdk    check.Client // V2 spec: source paths of annotations (bufanalysis keeps only line:col)
	sdkIDs []string
	Calls  int
}

func NewRunner() (*Runner, error) {
	client, err := bufcheck.NewClient(Logger, bufcheck.NewLocalRunnerProvider(wasm.UnimplementedRuntime, bufplugin.NopPluginKeyProvider, bufplugin.NopPluginDataProvider))
	if err != nil {
		return nil, err
	}
	sdk, err := check.NewClientForSpec(bufcheckserver.V2Spec)
	if err != nil {
		return nil, err
	}
	r := &Runner{client: client, sdk: sdk}
	for _, rs := range bufcheckserver.V2Spec.Rules {
		if rs.Type == check.RuleTypeBreaking && !rs.Deprecated {
			r.sdkIDs = append(r.sdkIDs, rs.ID)
		}
	}
	return r, nil
}

// BreakingRuleIDs lists the non-deprecated breaking rules of a version with their categories.
func BreakingRuleIDs(spec *check.Spec) map[string][]string {
	out := map[string][]string{}
	for _, rs := range spec.Rules {
		if rs.Type == check.RuleTypeBreaking && !rs.Deprecated {
			out[rs.ID] = rs.CategoryIDs
		}
	}
	return out
}

func toFileDescriptors(img bufimage.Image) ([]descriptor.FileDescriptor, error) {
	var protos []*descriptorv1.FileDescriptor
	for _, f := range img.Files() {
		protos = append(protos, &descriptorv1.FileDescriptor{
			FileDescriptorProto: f.FileDescriptorProto(),
			IsImport:            f.IsImport(),
			IsSyntaxUnspecified: f.IsSyntaxUnspecified(),
			UnusedDependency:    f.UnusedDependencyIndexes(),
		})
	}
	return descriptor.FileDescriptorsForProtoFileDescriptors(protos)
}

type spanKey struct {
	rule, file     string
	sl, sc, el, ec int
	msg            string
}

// PathIndex maps (rule, file, span, message) of an annotation to the source paths the rule
// handlers attached (one SDK-level run of all V2 breaking rules on the pair).
type PathIndex map[spanKey][]string

func (r *Runner) Paths(cur, prev *Compiled) (PathIndex, error) {
	fds, err := toFileDescriptors(cur.Image)
	if err != nil {
		return nil, err
	}
	afds, err := toFileDescriptors(prev.Image)
	if err != nil {
		return nil, err
	}
	req, err := check.NewRequest(fds, check.WithRuleIDs(r.sdkIDs...), check.WithAgainstFileDescriptors(afds))
	if err != nil {
		return nil, err
	}
	resp, err := r.sdk.Check(Ctx, req)
	if err != nil {
		return nil, err
	}
	idx := PathIndex{}
	for _, a := range resp.Annotations() {
		k := spanKey{rule: a.RuleID(), msg: a.Message()}
		p := "-"
		if fl := a.FileLocation(); fl != nil {
			k.file = fl.FileDescriptor().ProtoreflectFileDescriptor().Path()
			k.sl, k.sc, k.el, k.ec = fl.StartLine()+1, fl.StartColumn()+1, fl.EndLine()+1, fl.EndColumn()+1
			p = pathString([]int32(fl.SourcePath()))
		}
		idx[k] = append(idx[k], p)
	}
	return idx, nil
}

// ErrBreaking is a non-annotation error of Client.Breaking.
type ErrBreaking struct{ Err error }

func (e *ErrBreaking) Error() string { return e.Err.Error() }

// Run calls the real bufcheck.Client.Breaking with `use` (category or rule ids) and `except`,
// and canonicalises the annotations; every annotation's source path is recovered through idx.
func (r *Runner) Run(v bufconfig.FileVersion, use, except []string, cur, prev *Compiled, idx PathIndex) (anns []Ann, err error) {
	return r.RunX(v, use, except, cur, prev, idx, false)
}

// RunX is Run with the client's exclude-imports option (`buf breaking --exclude-imports`).
func (r *Runner) RunX(v bufconfig.FileVersion, use, except []string, cur, prev *Compiled, idx PathIndex, excludeImports bool) (anns []Ann, err error) {
	defer func() {
		if rec := recover(); rec != nil {
			err = &ErrBreaking{fmt.Errorf("panic: %v", rec)}
		}
	}()
	r.Calls++
	cc, err := bufconfig.NewEnabledCheckConfig(v, use, except, nil, nil, false)
	if err != nil {
		return nil, &ErrBreaking{err}
	}
	var opts []bufcheck.BreakingOption
	if excludeImports {
		opts = append(opts, bufcheck.BreakingWithExcludeImports())
	}
	err = r.client.Breaking(Ctx, bufconfig.NewBreakingConfig(cc, false), cur.Image, prev.Image, opts...)
	if err == nil {
		return nil, nil
	}
	var fas bufanalysis.FileAnnotationSet
	if !errors.As(err, &fas) {
		return nil, &ErrBreaking{err}
	}
	for _, fa := range fas.FileAnnotations() {
		k := spanKey{rule: fa.Type(), msg: fa.Message()}
		if fi := fa.FileInfo(); fi != nil {
			k.file = fi.Path()
			k.sl, k.sc, k.el, k.ec = fa.StartLine(), fa.StartColumn(), fa.EndLine(), fa.EndColumn()
		}
		paths, ok := idx[k]
		if !ok {
			// not explained by the SDK-level run: keep the raw span so that it shows up in a diff
			paths = []string{fmt.Sprintf("?%d:%d-%d:%d", k.sl, k.sc, k.el, k.ec)}
		}
		for _, p := range paths {
			anns = append(anns, Ann{Rule: fa.Type(), File: k.file, Path: p, Message: fa.Message(), Line: k.sl, Col: k.sc})
		}
	}
	return anns, nil
}

// ---------------------------------------------------------------------------------------------
// Which tree are we running against?  The Lean model has two dispatch tables: the tree with
// handoff/C03-package-last-element.diff (protocol ops `pair` / `rules`, the one the theorems are
// about) and the tree without it (`pairold` / `rulesold`).  The probe deletes the only enum of a
// package that survives and looks whether the REAL PACKAGE_ENUM_NO_DELETE reports it.

var (
	treeProbed bool
	treeFixed  bool
)

// TreeHasPackageFix probes the implementation once.
func TreeHasPackageFix() bool {
	if treeProbed {
		return treeFixed
	}
	treeProbed = true
	prev, err1 := Compile(map[string]string{"p.proto": "syntax = \"proto3\";\npackage probe;\nmessage M {}\nenum E { E_0 = 0; }\n"})
	cur, err2 := Compile(map[string]string{"p.proto": "syntax = \"proto3\";\npackage probe;\nmessage M {}\n"})
	rn, err3 := NewRunner()
	if err1 != nil || err2 != nil || err3 != nil {
		return false
	}
	idx, err := rn.Paths(cur, prev)
	if err != nil {
		return false
	}
	anns, err := rn.Run(Versions[2].V, []string{"PACKAGE_ENUM_NO_DELETE"}, nil, cur, prev, idx)
	treeFixed = err == nil && len(anns) > 0
	return treeFixed
}

// PairOp / RulesOp are the protocol ops matching the tree under test.
func PairOp() string {
	if TreeHasPackageFix() {
		return "pair"
	}
	return "pairold"
}

func RulesOp() string {
	if TreeHasPackageFix() {
		return "rules"
	}
	return "rulesold"
}
