package schemagen

// breaking.go: the breaking catalogue, part 1: field-level operators.  Every operator returns
// the annotations (rule id, file, locator) the edit must produce.

import (
	"strings"

	"github.com/bufbuild/verifharness/internal/hx"
)

// compatibility groups, transcribed from bufcheckserverhandle/breaking_util.go (kinds by name)
var wireGroup = map[string]int{
	"int32": 1, "int64": 1, "uint32": 1, "uint64": 1, "bool": 1, "sint32": 2, "sint64": 2, "string": 3, "bytes": 4,
	"fixed32": 5, "sfixed32": 5, "fixed64": 6, "sfixed64": 6, "double": 7, "float": 8, "group": 9, "message": 10, "enum": 11,
}
var wireJSONGroup = map[string]int{
	"int32": 1, "uint32": 1, "int64": 2, "uint64": 2, "fixed32": 3, "sfixed32": 3, "fixed64": 4, "sfixed64": 4, "bool": 5,
	"sint32": 6, "sint64": 7, "string": 8, "bytes": 9, "double": 10, "float": 11, "group": 12, "message": 13, "enum": 14,
}

// kindOf is the protoreflect Kind of the field by name: proto2 groups and editions delimited
// message fields (feature on the field or inherited from the file) are "group".
func kindOf(f *File, fl *Field) string {
	switch {
	case fl.Group != nil || Delimited(f, fl):
		return "group"
	case fl.Ref == RefMsg:
		return "message"
	case fl.Ref == RefEnum:
		return "enum"
	}
	return fl.Type
}

// typeExpects: expectations of a kind change old -> new (different kinds).
func typeExpects(ml *MsgLoc, fl *Field, oldKind, newKind string) []Expect {
	suffix := ":type"
	if newKind == "message" || newKind == "enum" || newKind == "group" {
		suffix = ":typename"
	}
	out := []Expect{eField("FIELD_SAME_TYPE", ml, fl, suffix)}
	if wireJSONGroup[oldKind] != wireJSONGroup[newKind] {
		out = append(out, eField("FIELD_WIRE_JSON_COMPATIBLE_TYPE", ml, fl, suffix))
	}
	if wireGroup[oldKind] != wireGroup[newKind] && !(oldKind == "string" && newKind == "bytes") {
		out = append(out, eField("FIELD_WIRE_COMPATIBLE_TYPE", ml, fl, suffix))
	}
	return out
}

func typeNameExpects(ml *MsgLoc, fl *Field, wireToo bool) []Expect {
	out := []Expect{eField("FIELD_SAME_TYPE", ml, fl, ":typename")}
	if wireToo {
		out = append(out, eField("FIELD_WIRE_JSON_COMPATIBLE_TYPE", ml, fl, ":typename"), eField("FIELD_WIRE_COMPATIBLE_TYPE", ml, fl, ":typename"))
	}
	return out
}

// retype switches a field to a new element type and drops options that depend on the type.
func retype(fl *Field, typ string, ref int) {
	fl.Type, fl.Ref = typ, ref
	fl.Default, fl.JSType, fl.CType = "", "", ""
	if ref == RefMsg && fl.Feature("field_presence") == "IMPLICIT" {
		fl.SetFeature("field_presence", "")
	}
	fl.SetFeature("utf8_validation", "")
	if ref != RefMsg {
		fl.SetFeature("message_encoding", "")
	}
	if !packable(fl) {
		fl.Packed = ""
		fl.SetFeature("repeated_field_encoding", "")
	}
}

func isExt(ml *MsgLoc) bool { return ml.Ext != nil }

// unlabelled the field after it stopped being repeated
func unpack(fl *Field) {
	fl.Packed = ""
	fl.SetFeature("repeated_field_encoding", "")
}

// reqExpect: MESSAGE_SAME_REQUIRED_FIELDS looks at the PROTO label, which stays "optional" for
// an editions field with features.field_presence = LEGACY_REQUIRED; the rule therefore does not
// see such fields.  Counted as an observation, not an oracle failure (the cardinality rules do
// report the change).
func reqExpect(ml *MsgLoc, e Expect) Expect {
	if ml.F.IsEditions() {
		e.Class = ObservePrefix + "editions-legacy-required-not-seen-by-MESSAGE_SAME_REQUIRED_FIELDS"
	}
	return e
}

func plainField(fl *Field) bool { return fl.MapKey == "" && fl.Group == nil }

func deleteExpects(ml *MsgLoc, numReserved, nameReserved bool) []Expect {
	out := []Expect{eMsg("FIELD_NO_DELETE", ml, "")}
	if !numReserved {
		out = append(out, eMsg("FIELD_NO_DELETE_UNLESS_NUMBER_RESERVED", ml, ""))
	}
	if !nameReserved {
		out = append(out, eMsg("FIELD_NO_DELETE_UNLESS_NAME_RESERVED", ml, ""))
	}
	return out
}

func deleteFieldOp(name string, resNum, resName bool, pred func(fl *Field) bool) *Op {
	return &Op{Name: name, Kind: Breaking, KindOf: fieldSiteKind, Sites: func(s *Schema) []Site {
		return fieldSites(s, func(ml *MsgLoc, fl *Field) bool {
			if isExt(ml) || !pred(fl) {
				return false
			}
			if fl.Group != nil && s.ExternalRefs(ml.Full+"."+fl.Group.Name) > 0 {
				return false
			}
			return true
		})
	}, Apply: func(s *Schema, site Site, r *hx.Rand) ([]Expect, bool) {
		ml, fl := s.fieldAt(site)
		if fl == nil {
			return nil, false
		}
		exp := deleteExpects(ml, resNum, resName)
		if fl.Oneof != "" && ml.M.oneofMembers(fl.Oneof) == 1 {
			exp = append(exp, eMsg("ONEOF_NO_DELETE", ml, ""))
		}
		if isRequired(fl) {
			exp = append(exp, reqExpect(ml, eMsg("MESSAGE_SAME_REQUIRED_FIELDS", ml, "")))
		}
		if fl.Group != nil {
			exp = append(exp, eMsg("MESSAGE_NO_DELETE", ml, ""))
		}
		ml.M.removeField(fl.Num)
		if resNum {
			ml.M.Reserved = append(ml.M.Reserved, Range{Lo: fl.Num, Hi: fl.Num})
		}
		if resName {
			ml.M.ReservedNames = append(ml.M.ReservedNames, fl.Name)
		}
		return exp, true
	}}
}

func fieldOp(name string, pred func(s *Schema, ml *MsgLoc, fl *Field) bool, apply func(s *Schema, ml *MsgLoc, fl *Field, r *hx.Rand) ([]Expect, bool)) *Op {
	return &Op{Name: name, Kind: Breaking, KindOf: fieldSiteKind, Sites: func(s *Schema) []Site {
		return fieldSites(s, func(ml *MsgLoc, fl *Field) bool { return pred(s, ml, fl) })
	}, Apply: func(s *Schema, site Site, r *hx.Rand) ([]Expect, bool) {
		ml, fl := s.fieldAt(site)
		if fl == nil {
			return nil, false
		}
		exp, ok := apply(s, ml, fl, r)
		return exp, ok && s.WellFormed()
	}}
}

// scalarRetypeOp changes a scalar field to another scalar chosen by `want(old, new)`.
func scalarRetypeOp(name string, want func(o, n string) bool) *Op {
	cands := func(o string) []string {
		var out []string
		for _, n := range scalarTypes {
			if n != o && want(o, n) {
				out = append(out, n)
			}
		}
		return out
	}
	return fieldOp(name, func(s *Schema, ml *MsgLoc, fl *Field) bool {
		return plainField(fl) && fl.Ref == RefScalar && len(cands(fl.Type)) > 0
	}, func(s *Schema, ml *MsgLoc, fl *Field, r *hx.Rand) ([]Expect, bool) {
		old := fl.Type
		nw := hx.Pick(r, cands(old))
		retype(fl, nw, RefScalar)
		return typeExpects(ml, fl, old, nw), true
	})
}

func cardExpects(ml *MsgLoc, fl *Field, wireJSON, wire bool) []Expect {
	out := []Expect{eField("FIELD_SAME_CARDINALITY", ml, fl, "")}
	if wireJSON {
		out = append(out, eField("FIELD_WIRE_JSON_COMPATIBLE_CARDINALITY", ml, fl, ""))
	}
	if wire {
		out = append(out, eField("FIELD_WIRE_COMPATIBLE_CARDINALITY", ml, fl, ""))
	}
	return out
}

// singular: an ordinary non-repeated, non-required field outside oneofs
func singular(fl *Field) bool {
	return plainField(fl) && fl.Oneof == "" && fl.Label != "repeated" && !isRequired(fl)
}

// singularG: like singular, proto2 group fields included
func singularG(fl *Field) bool {
	return fl.MapKey == "" && fl.Oneof == "" && fl.Label != "repeated" && !isRequired(fl)
}

func canDefault(ml *MsgLoc, fl *Field) bool {
	return !ml.F.IsProto3() && plainField(fl) && fl.Label != "repeated" && fl.Ref != RefMsg && fl.Feature("field_presence") != "IMPLICIT"
}

// otherDefault picks a default literal whose value differs from cur ("" = the type's zero).
func otherDefault(s *Schema, fl *Field, r *hx.Rand) string {
	if fl.Ref == RefEnum {
		el := s.EnumByName(fl.Type)
		curNum := el.E.Values[0].Num
		if fl.Default != "" {
			if v, _ := el.E.Value(fl.Default); v != nil {
				curNum = v.Num
			}
		}
		var c []string
		for _, v := range el.E.Values {
			if v.Num != curNum {
				c = append(c, v.Name)
			}
		}
		if len(c) == 0 {
			return ""
		}
		return hx.Pick(r, c)
	}
	// mostly a NEAR value (max -> max-1, 2^53+1 -> 2^53, "abc" -> "ABC" ...), else any other one
	if fl.Default != "" && r.Chance(2, 3) {
		if d := nearDefault(r, fl.Type, fl.Default); d != "" {
			return d
		}
	}
	for i := 0; i < 20; i++ {
		d := defaultLit(r, fl.Type)
		if d != fl.Default {
			return d
		}
	}
	return ""
}

// hasOtherDefault: otherDefault can succeed (bool has a single literal in the pool; an enum needs a
// value with another number).
func hasOtherDefault(s *Schema, fl *Field) bool {
	if fl.Ref == RefEnum {
		el := s.EnumByName(fl.Type)
		if el == nil {
			return false
		}
		for _, v := range el.E.Values {
			if v.Num != el.E.Values[0].Num {
				return true
			}
		}
		return false
	}
	return fl.Type != "bool"
}

func defaultIsNonZero(s *Schema, fl *Field) bool {
	if fl.Default == "" {
		return false
	}
	if fl.Ref == RefEnum {
		el := s.EnumByName(fl.Type)
		v, _ := el.E.Value(fl.Default)
		return v != nil && v.Num != el.E.Values[0].Num
	}
	return true // the literal pool has no zero values
}

func jsEff(v string) string {
	if v == "" {
		return "JS_NORMAL"
	}
	return v
}

// BreakingFieldOps is part 1 of the catalogue.
var BreakingFieldOps = []*Op{
	deleteFieldOp("DeleteField", false, false, func(fl *Field) bool { return true }),
	deleteFieldOp("DeleteFieldReserveNumber", true, false, func(fl *Field) bool { return true }),
	deleteFieldOp("DeleteFieldReserveName", false, true, func(fl *Field) bool { return true }),
	deleteFieldOp("DeleteFieldReserveBoth", true, true, func(fl *Field) bool { return true }),
	deleteFieldOp("DeleteRequiredField", false, false, isRequired),

	{Name: "AddRequiredField", Kind: Breaking, Sites: func(s *Schema) []Site {
		return msgSites(s, func(ml *MsgLoc) bool { return !ml.F.IsProto3() })
	}, Apply: func(s *Schema, site Site, r *hx.Rand) ([]Expect, bool) {
		ml := s.Msg(site.Msg)
		fl := &Field{Name: "must_" + s.fresh(""), Num: ml.M.nextNum(r), Type: hx.Pick(r, scalarTypes)}
		if ml.F.IsEditions() {
			fl.SetFeature("field_presence", "LEGACY_REQUIRED")
		} else {
			fl.Label = "required"
		}
		ml.M.Fields = append(ml.M.Fields, fl)
		e := reqExpect(ml, eField("MESSAGE_SAME_REQUIRED_FIELDS", ml, fl, ""))
		e.NewElem = true
		return []Expect{e}, true
	}},

	scalarRetypeOp("FieldTypeSameGroups", func(o, n string) bool {
		return wireJSONGroup[o] == wireJSONGroup[n] && wireGroup[o] == wireGroup[n]
	}),
	scalarRetypeOp("FieldTypeWireCompatibleOnly", func(o, n string) bool {
		return wireJSONGroup[o] != wireJSONGroup[n] && wireGroup[o] == wireGroup[n]
	}),
	scalarRetypeOp("FieldTypeIncompatibleScalar", func(o, n string) bool {
		return wireGroup[o] != wireGroup[n] && !(o == "string" && n == "bytes") && !(o == "bytes" && n == "string")
	}),
	scalarRetypeOp("FieldTypeStringToBytes", func(o, n string) bool { return o == "string" && n == "bytes" }),
	scalarRetypeOp("FieldTypeBytesToString", func(o, n string) bool { return o == "bytes" && n == "string" }),

	fieldOp("FieldTypeScalarToMessage", func(s *Schema, ml *MsgLoc, fl *Field) bool {
		return plainField(fl) && fl.Ref == RefScalar
	}, func(s *Schema, ml *MsgLoc, fl *Field, r *hx.Rand) ([]Expect, bool) {
		old := fl.Type
		g := newGen(s, r, ml.F)
		retype(fl, hx.Pick(r, g.msgs).Full, RefMsg)
		// "group" when the file default makes the new message field delimited
		return typeExpects(ml, fl, old, kindOf(ml.F, fl)), true
	}),
	fieldOp("FieldTypeMessageToScalar", func(s *Schema, ml *MsgLoc, fl *Field) bool {
		return plainField(fl) && fl.Ref == RefMsg
	}, func(s *Schema, ml *MsgLoc, fl *Field, r *hx.Rand) ([]Expect, bool) {
		old := kindOf(ml.F, fl)
		nw := hx.Pick(r, scalarTypes)
		retype(fl, nw, RefScalar)
		return typeExpects(ml, fl, old, nw), true
	}),
	// also the value type of a map and delimited fields: the type NAME changes, kind and
	// encoding stay
	fieldOp("FieldTypeMessageToMessage", func(s *Schema, ml *MsgLoc, fl *Field) bool {
		return fl.Group == nil && fl.Ref == RefMsg && len(newGen(s, nil, ml.F).msgs) > 1
	}, func(s *Schema, ml *MsgLoc, fl *Field, r *hx.Rand) ([]Expect, bool) {
		g := newGen(s, r, ml.F)
		for i := 0; i < 10; i++ {
			if t := hx.Pick(r, g.msgs).Full; t != fl.Type {
				fl.Type = t
				return typeNameExpects(ml, fl, true), true
			}
		}
		return nil, false
	}),
	fieldOp("FieldTypeEnumToScalar", func(s *Schema, ml *MsgLoc, fl *Field) bool {
		return plainField(fl) && fl.Ref == RefEnum
	}, func(s *Schema, ml *MsgLoc, fl *Field, r *hx.Rand) ([]Expect, bool) {
		nw := hx.Pick(r, []string{"int32", "int32", "uint32", "int64", "string"})
		retype(fl, nw, RefScalar)
		return typeExpects(ml, fl, "enum", nw), true
	}),
	// enum -> a NEW enum with the same short name and a superset of the values (declared in a
	// fresh holder message of the field's file): only FIELD_SAME_TYPE
	fieldOp("FieldTypeEnumToCompatibleEnum", func(s *Schema, ml *MsgLoc, fl *Field) bool {
		return plainField(fl) && fl.Ref == RefEnum
	}, func(s *Schema, ml *MsgLoc, fl *Field, r *hx.Rand) ([]Expect, bool) {
		el := s.EnumByName(fl.Type)
		if el == nil {
			return nil, false
		}
		ne := &Enum{Name: el.E.Name, AllowAlias: el.E.AllowAlias, HiNum: el.E.HiNum, LoNum: el.E.LoNum}
		for _, v := range el.E.Values {
			ne.Values = append(ne.Values, &EnumValue{Name: v.Name, Num: v.Num})
		}
		if !ml.F.IsProto3() && !ml.F.IsEditions() {
			// stays closed in a proto2 file
		} else if ne.Values[0].Num != 0 {
			return nil, false
		}
		if r.Bool() {
			ne.Values = append(ne.Values, &EnumValue{Name: upper(ne.Name) + "_MORE" + s.fresh(""), Num: ne.nextNum(nil)})
		}
		holder := &Message{Name: "Holder" + s.fresh(""), Enums: []*Enum{ne}}
		ml.F.Messages = append(ml.F.Messages, holder)
		def := fl.Default
		retype(fl, ml.F.prefix()+holder.Name+"."+ne.Name, RefEnum)
		fl.Default = def
		return typeNameExpects(ml, fl, false), true
	}),
	fieldOp("FieldTypeEnumToOtherEnum", func(s *Schema, ml *MsgLoc, fl *Field) bool {
		return fl.Group == nil && fl.Ref == RefEnum
	}, func(s *Schema, ml *MsgLoc, fl *Field, r *hx.Rand) ([]Expect, bool) {
		ne := &Enum{Name: "Other" + s.fresh("")}
		ne.Values = []*EnumValue{{Name: upper(ne.Name) + "_ZERO", Num: 0}, {Name: upper(ne.Name) + "_ONE", Num: 1}}
		ne.HiNum = 1
		if ml.F.IsEditions() && ml.F.Feature("enum_type") == "CLOSED" && r.Bool() {
			ne.EnumType = "OPEN"
		}
		if !isExt(ml) && r.Bool() {
			ml.M.Enums = append(ml.M.Enums, ne)
			retype(fl, ml.Full+"."+ne.Name, RefEnum)
		} else {
			ml.F.Enums = append(ml.F.Enums, ne)
			retype(fl, ml.F.prefix()+ne.Name, RefEnum)
		}
		return typeNameExpects(ml, fl, true), true
	}),
	fieldOp("MapValueTypeChange", func(s *Schema, ml *MsgLoc, fl *Field) bool {
		return fl.MapKey != "" && fl.Ref == RefScalar
	}, func(s *Schema, ml *MsgLoc, fl *Field, r *hx.Rand) ([]Expect, bool) {
		old := fl.Type
		nw := old
		for nw == old {
			nw = hx.Pick(r, scalarTypes)
		}
		fl.Type = nw
		fl.JSType = ""
		// the synthetic value field has no source location of its own: bufprotosource maps it
		// onto the map field's type_name
		out := []Expect{eField("FIELD_SAME_TYPE", ml, fl, ":typename")}
		if wireJSONGroup[old] != wireJSONGroup[nw] {
			out = append(out, eField("FIELD_WIRE_JSON_COMPATIBLE_TYPE", ml, fl, ":typename"))
		}
		if wireGroup[old] != wireGroup[nw] && !(old == "string" && nw == "bytes") {
			out = append(out, eField("FIELD_WIRE_COMPATIBLE_TYPE", ml, fl, ":typename"))
		}
		return out, true
	}),

	// cardinality
	fieldOp("FieldOptionalToRepeated", func(s *Schema, ml *MsgLoc, fl *Field) bool { return singularG(fl) },
		func(s *Schema, ml *MsgLoc, fl *Field, r *hx.Rand) ([]Expect, bool) {
			fl.Label, fl.Default = "repeated", ""
			fl.SetFeature("field_presence", "")
			return cardExpects(ml, fl, true, true), true
		}),
	fieldOp("FieldRepeatedToOptional", func(s *Schema, ml *MsgLoc, fl *Field) bool { return fl.MapKey == "" && fl.Label == "repeated" },
		func(s *Schema, ml *MsgLoc, fl *Field, r *hx.Rand) ([]Expect, bool) {
			fl.Label = ""
			unpack(fl)
			if ml.F.IsProto2() {
				fl.Label = "optional"
			}
			return cardExpects(ml, fl, true, true), true
		}),
	fieldOp("FieldOptionalToRequired", func(s *Schema, ml *MsgLoc, fl *Field) bool {
		return !isExt(ml) && !ml.F.IsProto3() && singularG(fl) && fl.Feature("field_presence") == ""
	}, func(s *Schema, ml *MsgLoc, fl *Field, r *hx.Rand) ([]Expect, bool) {
		if ml.F.IsEditions() {
			fl.SetFeature("field_presence", "LEGACY_REQUIRED")
		} else {
			fl.Label = "required"
		}
		return append(cardExpects(ml, fl, true, true), reqExpect(ml, eField("MESSAGE_SAME_REQUIRED_FIELDS", ml, fl, ""))), true
	}),
	fieldOp("FieldRequiredToOptional", func(s *Schema, ml *MsgLoc, fl *Field) bool { return fl.MapKey == "" && isRequired(fl) },
		func(s *Schema, ml *MsgLoc, fl *Field, r *hx.Rand) ([]Expect, bool) {
			if ml.F.IsEditions() {
				fl.SetFeature("field_presence", "")
			} else {
				fl.Label = "optional"
			}
			return append(cardExpects(ml, fl, true, true), reqExpect(ml, eMsg("MESSAGE_SAME_REQUIRED_FIELDS", ml, ""))), true
		}),
	fieldOp("FieldImplicitToExplicitPresence", func(s *Schema, ml *MsgLoc, fl *Field) bool {
		if isExt(ml) || !singular(fl) || fl.Ref == RefMsg {
			return false
		}
		return (ml.F.IsProto3() && fl.Label == "") || (ml.F.IsEditions() && fl.Feature("field_presence") == "IMPLICIT")
	}, func(s *Schema, ml *MsgLoc, fl *Field, r *hx.Rand) ([]Expect, bool) {
		if ml.F.IsProto3() {
			fl.Label = "optional"
		} else {
			fl.SetFeature("field_presence", "")
		}
		return cardExpects(ml, fl, false, false), true
	}),
	fieldOp("FieldExplicitToImplicitPresence", func(s *Schema, ml *MsgLoc, fl *Field) bool {
		if isExt(ml) || !singular(fl) || fl.Ref == RefMsg {
			return false
		}
		return (ml.F.IsProto3() && fl.Label == "optional") ||
			(ml.F.IsEditions() && fl.Ref == RefScalar && fl.Feature("field_presence") == "" && fl.Default == "")
	}, func(s *Schema, ml *MsgLoc, fl *Field, r *hx.Rand) ([]Expect, bool) {
		if ml.F.IsProto3() {
			fl.Label = ""
		} else {
			fl.SetFeature("field_presence", "IMPLICIT")
		}
		return cardExpects(ml, fl, false, false), true
	}),
	fieldOp("FieldRepeatedToMap", func(s *Schema, ml *MsgLoc, fl *Field) bool {
		if fl.Ref == RefEnum {
			if el := s.EnumByName(fl.Type); el == nil || el.E.Values[0].Num != 0 {
				return false
			}
		}
		return !isExt(ml) && plainField(fl) && fl.Label == "repeated"
	},
		func(s *Schema, ml *MsgLoc, fl *Field, r *hx.Rand) ([]Expect, bool) {
			wasDelimited := Delimited(ml.F, fl)
			fl.Label, fl.MapKey, fl.JSType, fl.CType = "", hx.Pick(r, mapKeyTypes), "", ""
			fl.SetFeature("utf8_validation", "")
			fl.SetFeature("message_encoding", "")
			unpack(fl)
			out := cardExpects(ml, fl, true, false)
			if wasDelimited {
				// a map value is never delimited: the element kind changes as well
				out = append(out, typeExpects(ml, fl, "group", "message")...)
			}
			return out, true
		}),
	fieldOp("FieldMapToRepeated", func(s *Schema, ml *MsgLoc, fl *Field) bool { return fl.MapKey != "" },
		func(s *Schema, ml *MsgLoc, fl *Field, r *hx.Rand) ([]Expect, bool) {
			fl.Label, fl.MapKey = "repeated", ""
			out := cardExpects(ml, fl, true, false)
			if Delimited(ml.F, fl) {
				out = append(out, typeExpects(ml, fl, "message", "group")...)
			}
			return out, true
		}),

	// names
	fieldOp("FieldRename", func(s *Schema, ml *MsgLoc, fl *Field) bool { return fl.Group == nil },
		func(s *Schema, ml *MsgLoc, fl *Field, r *hx.Rand) ([]Expect, bool) {
			about := ""
			if isExt(ml) {
				about = "ext:" + extFull(ml.Ext.xl, fl) // the locator below uses the NEW full name
			}
			fl.Name = "renamed_" + s.fresh("")
			out := []Expect{eField("FIELD_SAME_NAME", ml, fl, ":name")}
			out[0].About = about
			if fl.JSONName == "" && !isExt(ml) { // FIELD_SAME_JSON_NAME skips extensions
				out = append(out, eField("FIELD_SAME_JSON_NAME", ml, fl, ""))
			}
			return out, true
		}),
	fieldOp("FieldChangeJSONName", func(s *Schema, ml *MsgLoc, fl *Field) bool { return !isExt(ml) && fl.Group == nil && fl.JSONName != "" },
		func(s *Schema, ml *MsgLoc, fl *Field, r *hx.Rand) ([]Expect, bool) {
			fl.JSONName = "jn" + s.fresh("")
			return []Expect{eField("FIELD_SAME_JSON_NAME", ml, fl, ":json")}, true
		}),
	fieldOp("FieldAddJSONName", func(s *Schema, ml *MsgLoc, fl *Field) bool { return !isExt(ml) && fl.Group == nil && fl.JSONName == "" },
		func(s *Schema, ml *MsgLoc, fl *Field, r *hx.Rand) ([]Expect, bool) {
			fl.JSONName = "jn" + s.fresh("")
			return []Expect{eField("FIELD_SAME_JSON_NAME", ml, fl, ":json")}, true
		}),
	fieldOp("FieldRemoveJSONName", func(s *Schema, ml *MsgLoc, fl *Field) bool { return !isExt(ml) && fl.Group == nil && fl.JSONName != "" },
		func(s *Schema, ml *MsgLoc, fl *Field, r *hx.Rand) ([]Expect, bool) {
			fl.JSONName = ""
			return []Expect{eField("FIELD_SAME_JSON_NAME", ml, fl, "")}, true
		}),

	// oneofs
	fieldOp("FieldMoveIntoOneof", func(s *Schema, ml *MsgLoc, fl *Field) bool { return !isExt(ml) && singularG(fl) },
		func(s *Schema, ml *MsgLoc, fl *Field, r *hx.Rand) ([]Expect, bool) {
			names := ml.M.oneofNames()
			if len(names) > 0 && r.Bool() {
				fl.Oneof = hx.Pick(r, names)
			} else {
				fl.Oneof = "choice_" + s.fresh("")
			}
			fl.Label = ""
			fl.SetFeature("field_presence", "")
			// keep members contiguous: move the field to the end
			ml.M.removeField(fl.Num)
			ml.M.Fields = append(ml.M.Fields, fl)
			return []Expect{eField("FIELD_SAME_ONEOF", ml, fl, "")}, true
		}),
	fieldOp("FieldMoveOutOfOneof", func(s *Schema, ml *MsgLoc, fl *Field) bool { return fl.Oneof != "" },
		func(s *Schema, ml *MsgLoc, fl *Field, r *hx.Rand) ([]Expect, bool) {
			out := []Expect{eField("FIELD_SAME_ONEOF", ml, fl, "")}
			if ml.M.oneofMembers(fl.Oneof) == 1 {
				out = append(out, eMsg("ONEOF_NO_DELETE", ml, ""))
			}
			fl.Oneof = ""
			if ml.F.IsProto2() {
				fl.Label = "optional"
			}
			ml.M.removeField(fl.Num)
			ml.M.Fields = append(ml.M.Fields, fl)
			return out, true
		}),
	fieldOp("FieldMoveBetweenOneofs", func(s *Schema, ml *MsgLoc, fl *Field) bool { return fl.Oneof != "" },
		func(s *Schema, ml *MsgLoc, fl *Field, r *hx.Rand) ([]Expect, bool) {
			out := []Expect{eField("FIELD_SAME_ONEOF", ml, fl, "")}
			if ml.M.oneofMembers(fl.Oneof) == 1 {
				out = append(out, eMsg("ONEOF_NO_DELETE", ml, ""))
			}
			var others []string
			for _, n := range ml.M.oneofNames() {
				if n != fl.Oneof {
					others = append(others, n)
				}
			}
			if len(others) > 0 && r.Bool() {
				fl.Oneof = hx.Pick(r, others)
			} else {
				fl.Oneof = "choice_" + s.fresh("")
			}
			ml.M.removeField(fl.Num)
			ml.M.Fields = append(ml.M.Fields, fl)
			return out, true
		}),

	// defaults (FIELD_SAME_DEFAULT exists in v2 only)
	fieldOp("FieldChangeDefault", func(s *Schema, ml *MsgLoc, fl *Field) bool {
		return canDefault(ml, fl) && fl.Default != "" && hasOtherDefault(s, fl)
	},
		func(s *Schema, ml *MsgLoc, fl *Field, r *hx.Rand) ([]Expect, bool) {
			d := otherDefault(s, fl, r)
			if d == "" {
				return nil, false
			}
			fl.Default = d
			return []Expect{eField("FIELD_SAME_DEFAULT", ml, fl, ":default")}, true
		}),
	fieldOp("FieldAddDefault", func(s *Schema, ml *MsgLoc, fl *Field) bool {
		return canDefault(ml, fl) && fl.Default == "" && (fl.Ref != RefEnum || hasOtherDefault(s, fl))
	},
		func(s *Schema, ml *MsgLoc, fl *Field, r *hx.Rand) ([]Expect, bool) {
			d := otherDefault(s, fl, r)
			if d == "" {
				return nil, false
			}
			fl.Default = d
			return []Expect{eField("FIELD_SAME_DEFAULT", ml, fl, ":default")}, true
		}),
	fieldOp("FieldRemoveDefault", func(s *Schema, ml *MsgLoc, fl *Field) bool { return canDefault(ml, fl) && defaultIsNonZero(s, fl) },
		func(s *Schema, ml *MsgLoc, fl *Field, r *hx.Rand) ([]Expect, bool) {
			fl.Default = ""
			return []Expect{eField("FIELD_SAME_DEFAULT", ml, fl, "")}, true
		}),

	// jstype / ctype / utf8
	fieldOp("FieldChangeJSType", func(s *Schema, ml *MsgLoc, fl *Field) bool {
		return plainField(fl) && fl.Ref == RefScalar && is64(fl.Type)
	}, func(s *Schema, ml *MsgLoc, fl *Field, r *hx.Rand) ([]Expect, bool) {
		old := jsEff(fl.JSType)
		var c []string
		for _, v := range []string{"", "JS_NORMAL", "JS_STRING", "JS_NUMBER"} {
			if jsEff(v) != old {
				c = append(c, v)
			}
		}
		fl.JSType = hx.Pick(r, c)
		if fl.JSType == "" {
			return []Expect{eField("FIELD_SAME_JSTYPE", ml, fl, "")}, true
		}
		return []Expect{eField("FIELD_SAME_JSTYPE", ml, fl, ":jstype")}, true
	}),
	fieldOp("FieldSetCType", func(s *Schema, ml *MsgLoc, fl *Field) bool {
		return !isExt(ml) && plainField(fl) && fl.Ref == RefScalar && (fl.Type == "string" || fl.Type == "bytes") && fl.CType == ""
	}, func(s *Schema, ml *MsgLoc, fl *Field, r *hx.Rand) ([]Expect, bool) {
		fl.CType = "CORD"
		return []Expect{eField("FIELD_SAME_CPP_STRING_TYPE", ml, fl, ":ctype")}, true
	}),
	fieldOp("FieldUtf8ValidationNone", func(s *Schema, ml *MsgLoc, fl *Field) bool {
		return ml.F.IsEditions() && plainField(fl) && fl.Ref == RefScalar && fl.Type == "string" && fl.Feature("utf8_validation") == ""
	}, func(s *Schema, ml *MsgLoc, fl *Field, r *hx.Rand) ([]Expect, bool) {
		// the opposite of the file default
		if ml.F.Feature("utf8_validation") == "NONE" {
			fl.SetFeature("utf8_validation", "VERIFY")
		} else {
			fl.SetFeature("utf8_validation", "NONE")
		}
		return []Expect{eField("FIELD_SAME_UTF8_VALIDATION", ml, fl, ":feat4"), eField("FIELD_SAME_JAVA_UTF8_VALIDATION", ml, fl, "")}, true
	}),

	// ---- group / delimited encoded fields: the message TYPE NAME changes, number and encoding stay
	// (proto2: the group is re-declared under another name, which also renames the field)
	fieldOp("GroupChangeTypeName", func(s *Schema, ml *MsgLoc, fl *Field) bool {
		return !isExt(ml) && fl.Group != nil && s.ExternalRefs(ml.Full+"."+fl.Group.Name) == 0
	}, func(s *Schema, ml *MsgLoc, fl *Field, r *hx.Rand) ([]Expect, bool) {
		fl.Group.Name = "Grp" + s.fresh("") + "x"
		fl.Name = strings.ToLower(fl.Group.Name)
		out := typeNameExpects(ml, fl, true)
		out = append(out, eField("FIELD_SAME_NAME", ml, fl, ":name"), eField("FIELD_SAME_JSON_NAME", ml, fl, ""),
			eMsg("MESSAGE_NO_DELETE", ml, ""))
		return out, true
	}),
	// delimited <-> length-prefixed flip of one editions message field (feature on the field)
	fieldOp("FieldToggleDelimited", func(s *Schema, ml *MsgLoc, fl *Field) bool {
		return ml.F.IsEditions() && fl.Ref == RefMsg && fl.MapKey == "" && fl.Group == nil
	}, func(s *Schema, ml *MsgLoc, fl *Field, r *hx.Rand) ([]Expect, bool) {
		old := kindOf(ml.F, fl)
		inherited := ml.F.Feature("message_encoding") == "DELIMITED"
		switch {
		case old == "group" && inherited:
			fl.SetFeature("message_encoding", "LENGTH_PREFIXED")
		case old == "group":
			fl.SetFeature("message_encoding", hx.Pick(r, []string{"", "LENGTH_PREFIXED"}))
		case inherited: // explicit LENGTH_PREFIXED so far
			fl.SetFeature("message_encoding", hx.Pick(r, []string{"", "DELIMITED"}))
		default:
			fl.SetFeature("message_encoding", "DELIMITED")
		}
		return typeExpects(ml, fl, old, kindOf(ml.F, fl)), true
	}),
	// the key type of a map: the synthetic key field has no location of its own (reported at the
	// map field's type name)
	fieldOp("MapKeyTypeChange", func(s *Schema, ml *MsgLoc, fl *Field) bool { return fl.MapKey != "" },
		func(s *Schema, ml *MsgLoc, fl *Field, r *hx.Rand) ([]Expect, bool) {
			old := fl.MapKey
			nw := old
			for nw == old {
				nw = hx.Pick(r, mapKeyTypes)
			}
			fl.MapKey = nw
			out := []Expect{eField("FIELD_SAME_TYPE", ml, fl, ":typename")}
			if wireJSONGroup[old] != wireJSONGroup[nw] {
				out = append(out, eField("FIELD_WIRE_JSON_COMPATIBLE_TYPE", ml, fl, ":typename"))
			}
			if wireGroup[old] != wireGroup[nw] {
				out = append(out, eField("FIELD_WIRE_COMPATIBLE_TYPE", ml, fl, ":typename"))
			}
			return out, true
		}),
}
