package schemagen

// breaking3.go: the ALIAS family of the enum-value rules.
//
// The four rules pair enum values by NUMBER (bufprotosource.NumberToNameToEnumValue):
//
//	ENUM_VALUE_NO_DELETE                          a number of the previous enum has no value any more
//	ENUM_VALUE_NO_DELETE_UNLESS_NUMBER_RESERVED   ... and the number is not inside a reserved range
//	ENUM_VALUE_NO_DELETE_UNLESS_NAME_RESERVED     ... and not EVERY previous name of the number is reserved
//	                                              ("without reserving the names "A", "B"")
//	ENUM_VALUE_SAME_NAME                          a number that still exists lost one of its previous names
//
// With `allow_alias` a number has several names, so "the value is deleted" and "the name is
// reserved" each have a whole-number and a per-name reading.  The operators below delete whole
// numbers (1, 2, 3 names) or single names of a number, and reserve none / some / all of the
// names, the number alone, a range holding it (at its lower end, upper end, inside), a range that
// merely lies next to it, around it or far away, names that merely resemble the deleted ones, and
// the names and number of ANOTHER deleted number.  Expectations are written from the rule
// documentation above; `Absent` expectations say where a rule must stay silent (they are valid
// because the planted edit is the only deletion inside the enum).

import (
	"strconv"
	"strings"

	"github.com/bufbuild/verifharness/internal/hx"
)

// names of number n in declaration order
func (e *Enum) namesOf(n int) []string {
	var out []string
	for _, v := range e.Values {
		if v.Num == n {
			out = append(out, v.Name)
		}
	}
	return out
}

func (e *Enum) numReserved(n int) bool { return inRanges(e.Reserved, n) }

// free: no value and no reserved range uses n.
func (e *Enum) free(n int) bool { return e.countNum(n) == 0 && !e.numReserved(n) }

// reserve adds the inclusive range and keeps the high / low water marks (numbers ever used).
func (e *Enum) reserve(lo, hi int) {
	e.Reserved = append(e.Reserved, Range{Lo: lo, Hi: hi})
	if hi > e.HiNum {
		e.HiNum = hi
	}
	if lo < e.LoNum {
		e.LoNum = lo
	}
}

// dropNumber removes every value of number n; fixAlias recomputes allow_alias.
func (e *Enum) dropNumber(n int) {
	var keep []*EnumValue
	for _, v := range e.Values {
		if v.Num != n {
			keep = append(keep, v)
		}
	}
	e.Values = keep
}

func (e *Enum) fixAlias() {
	e.AllowAlias = false
	for _, v := range e.Values {
		if e.countNum(v.Num) > 1 {
			e.AllowAlias = true
		}
	}
}

// aliasKind: top|nested / open|closed / names=k (k = 3 stands for 3 and more).
func aliasKind(s *Schema, site Site) string {
	el := s.EnumByName(site.Enum)
	if el == nil {
		return "-"
	}
	k := el.E.countNum(site.Num)
	if k > 3 {
		k = 3
	}
	return enumSiteKind(s, site) + "/names=" + strconv.Itoa(k)
}

// aliasNameKind: as aliasKind plus the position of the named value among the names of its number.
func aliasNameKind(s *Schema, site Site) string {
	el := s.EnumByName(site.Enum)
	if el == nil {
		return "-"
	}
	names := el.E.namesOf(site.Num)
	pos := "mid"
	switch {
	case len(names) > 0 && names[0] == site.Name:
		pos = "first"
	case len(names) > 0 && names[len(names)-1] == site.Name:
		pos = "last"
	}
	return aliasKind(s, site) + "/" + pos
}

// deletableNumber: every value of the number may go: not the first declared value (an open enum
// must start with zero; the first value of a closed enum is the implicit default of its fields)
// and no name is an explicit default.
func deletableNumber(s *Schema, el *EnumLoc, n int) bool {
	if len(el.E.Values) == 0 || el.E.Values[0].Num == n {
		return false
	}
	for _, nm := range el.E.namesOf(n) {
		if s.usedAsDefault(el.Full, nm) {
			return false
		}
	}
	return true
}

func numberSites(s *Schema, pred func(el *EnumLoc, n int) bool) []Site {
	var out []Site
	for _, el := range s.EnumsAll() {
		el := el
		seen := map[int]bool{}
		for _, v := range el.E.Values {
			if seen[v.Num] {
				continue
			}
			seen[v.Num] = true
			if deletableNumber(s, &el, v.Num) && (pred == nil || pred(&el, v.Num)) {
				out = append(out, Site{File: el.F.Name, Enum: el.Full, Num: v.Num})
			}
		}
	}
	return out
}

func absent(e Expect) Expect {
	e.Absent = true
	return e
}

// numberDeleteExpects: what the documentation says about a number whose values are all gone.
func numberDeleteExpects(el *EnumLoc, numberCovered, allNamesReserved bool) []Expect {
	exp := []Expect{eEnum("ENUM_VALUE_NO_DELETE", el, "")}
	nr := eEnum("ENUM_VALUE_NO_DELETE_UNLESS_NUMBER_RESERVED", el, "")
	if numberCovered {
		nr = absent(nr)
	}
	na := eEnum("ENUM_VALUE_NO_DELETE_UNLESS_NAME_RESERVED", el, "")
	if allNamesReserved {
		na = absent(na)
	}
	return append(exp, nr, na)
}

// deleteNumberOp: delete every value of a number and reserve what `reserve` says; reserve returns
// (number covered by a reserved range, every name reserved, applicable).
func deleteNumberOp(name string, pred func(el *EnumLoc, n int) bool,
	reserve func(s *Schema, el *EnumLoc, n int, names []string, r *hx.Rand) (covered, allNames, ok bool)) *Op {
	return &Op{Name: name, Kind: Breaking, KindOf: aliasKind, Sites: func(s *Schema) []Site {
		return numberSites(s, pred)
	}, Apply: func(s *Schema, site Site, r *hx.Rand) ([]Expect, bool) {
		el := s.EnumByName(site.Enum)
		if el == nil || !deletableNumber(s, el, site.Num) {
			return nil, false
		}
		names := el.E.namesOf(site.Num)
		if len(names) == 0 {
			return nil, false
		}
		el.E.dropNumber(site.Num)
		covered, allNames, ok := reserve(s, el, site.Num, names, r)
		if !ok {
			return nil, false
		}
		el.E.fixAlias()
		// sanity of the expectation itself, from the edited schema
		if covered != el.E.numReserved(site.Num) {
			panic("schemagen: " + name + ": number coverage differs from the plan")
		}
		all := true
		for _, nm := range names {
			if !containsStr(el.E.ReservedNames, nm) {
				all = false
			}
		}
		if all != allNames {
			panic("schemagen: " + name + ": name reservation differs from the plan")
		}
		return numberDeleteExpects(el, covered, allNames), true
	}}
}

func containsStr(xs []string, x string) bool {
	for _, y := range xs {
		if x == y {
			return true
		}
	}
	return false
}

func multiName(el *EnumLoc, n int) bool { return el.E.countNum(n) >= 2 }

// rangeAround picks a reserved range [lo, hi] that holds n: n at its lower end, its upper end,
// strictly inside, or alone - whatever the free neighbours allow (how is reported back).
func rangeAround(e *Enum, n int, r *hx.Rand) (lo, hi int, how string) {
	below, above := 0, 0
	for below < 2 && e.free(n-below-1) {
		below++
	}
	for above < 2 && e.free(n+above+1) {
		above++
	}
	var opts []string
	if above > 0 {
		opts = append(opts, "lower-end")
	}
	if below > 0 {
		opts = append(opts, "upper-end")
	}
	if above > 0 && below > 0 {
		opts = append(opts, "inside", "inside")
	}
	if len(opts) == 0 {
		return n, n, "single"
	}
	switch how = hx.Pick(r, opts); how {
	case "lower-end":
		return n, n + 1 + r.Intn(above), how
	case "upper-end":
		return n - 1 - r.Intn(below), n, how
	}
	return n - 1 - r.Intn(below), n + 1 + r.Intn(above), "inside"
}

// nearRanges reserves ranges that do NOT hold n: directly above, directly below, both (a hole at
// n), or far away.  ok=false: no free neighbour at all and `far` not wanted.
func nearRanges(e *Enum, n int, r *hx.Rand) (how string, ok bool) {
	below, above := 0, 0
	for below < 3 && e.free(n-below-1) {
		below++
	}
	for above < 3 && e.free(n+above+1) {
		above++
	}
	var opts []string
	if above > 0 {
		opts = append(opts, "above")
	}
	if below > 0 {
		opts = append(opts, "below")
	}
	if above > 0 && below > 0 {
		opts = append(opts, "hole", "hole")
	}
	opts = append(opts, "far")
	switch how = hx.Pick(r, opts); how {
	case "above":
		e.reserve(n+1, n+1+r.Intn(above))
	case "below":
		e.reserve(n-1-r.Intn(below), n-1)
	case "hole":
		e.reserve(n-1-r.Intn(below), n-1)
		e.reserve(n+1, n+1+r.Intn(above))
	default:
		// far away on both sides: everything beyond the numbers ever used
		lo := e.HiNum + 5 + r.Intn(5)
		e.reserve(lo, lo+r.Intn(50))
		if r.Bool() {
			hi := e.LoNum - 5 - r.Intn(5)
			e.reserve(hi-r.Intn(50), hi)
		}
	}
	return how, true
}

// lookalikes: names that merely resemble nm (suffix, prefix, other case).
func lookalikes(s *Schema, nm string) []string {
	out := []string{nm + "_X" + s.fresh("")}
	if i := strings.LastIndex(nm, "_"); i > 0 {
		out = append(out, nm[:i]+s.fresh(""))
	}
	if l := strings.ToLower(nm); l != nm {
		out = append(out, l)
	}
	return out
}

func sameNameExpect(el *EnumLoc, valueName string) Expect {
	return Expect{Rule: "ENUM_VALUE_SAME_NAME", File: el.F.Name, Locator: "enumval:" + el.Full + "#" + valueName + ":number"}
}

// numberStays: the three deletion rules have nothing to say when the number still has a value.
func numberStays(el *EnumLoc) []Expect {
	return []Expect{
		absent(eEnum("ENUM_VALUE_NO_DELETE", el, "")),
		absent(eEnum("ENUM_VALUE_NO_DELETE_UNLESS_NUMBER_RESERVED", el, "")),
		absent(eEnum("ENUM_VALUE_NO_DELETE_UNLESS_NAME_RESERVED", el, "")),
	}
}

// removableName: one name of a number with several names can go when it is no explicit default
// and, if it is the first declared value, the value that becomes first has the same number (an open
// enum keeps starting with zero, the implicit default of a closed enum keeps its number).
func removableName(s *Schema, el *EnumLoc, v *EnumValue, i int) bool {
	if el.E.countNum(v.Num) < 2 || s.usedAsDefault(el.Full, v.Name) {
		return false
	}
	if i == 0 && (len(el.E.Values) < 2 || el.E.Values[1].Num != v.Num) {
		return false
	}
	return true
}

func nameSitesOf(s *Schema, pred func(el *EnumLoc, v *EnumValue, i int) bool) []Site {
	var out []Site
	for _, el := range s.EnumsAll() {
		el := el
		for i, v := range el.E.Values {
			if pred(&el, v, i) {
				out = append(out, Site{File: el.F.Name, Enum: el.Full, Name: v.Name, Num: v.Num})
			}
		}
	}
	return out
}

// removeAliasOp: `count` names of a number with more names than that go; the number stays.
func removeAliasOp(name string, count int, reserveName bool) *Op {
	return &Op{Name: name, Kind: Breaking, KindOf: aliasNameKind, Sites: func(s *Schema) []Site {
		return nameSitesOf(s, func(el *EnumLoc, v *EnumValue, i int) bool {
			return el.E.countNum(v.Num) > count && removableName(s, el, v, i)
		})
	}, Apply: func(s *Schema, site Site, r *hx.Rand) ([]Expect, bool) {
		el := s.EnumByName(site.Enum)
		if el == nil {
			return nil, false
		}
		gone := []string{site.Name}
		if count == 2 {
			// a second name of the same number (not the first declared value of the enum)
			var others []string
			for i, v := range el.E.Values {
				if v.Num == site.Num && v.Name != site.Name && i > 0 && !s.usedAsDefault(el.Full, v.Name) {
					others = append(others, v.Name)
				}
			}
			if len(others) == 0 {
				return nil, false
			}
			gone = append(gone, hx.Pick(r, others))
		}
		for _, nm := range gone {
			v, i := el.E.Value(nm)
			if v == nil || !removableName(s, el, v, i) {
				return nil, false
			}
			el.E.Values = append(el.E.Values[:i:i], el.E.Values[i+1:]...)
			if reserveName {
				el.E.ReservedNames = append(el.E.ReservedNames, nm)
			}
		}
		el.E.fixAlias()
		var exp []Expect
		for _, nm := range el.E.namesOf(site.Num) {
			exp = append(exp, sameNameExpect(el, nm))
		}
		if len(exp) == 0 {
			return nil, false
		}
		return append(exp, numberStays(el)...), true
	}}
}

// AliasOps is the alias family (part of BreakingOps).
var AliasOps = []*Op{
	// ---- a whole number goes (1, 2, 3 names)
	deleteNumberOp("DeleteEnumValue", nil, func(s *Schema, el *EnumLoc, n int, names []string, r *hx.Rand) (bool, bool, bool) {
		return false, false, true
	}),
	deleteNumberOp("DeleteEnumValueReserveNumber", nil, func(s *Schema, el *EnumLoc, n int, names []string, r *hx.Rand) (bool, bool, bool) {
		el.E.reserve(n, n)
		return true, false, true
	}),
	deleteNumberOp("DeleteEnumValueReserveName", nil, func(s *Schema, el *EnumLoc, n int, names []string, r *hx.Rand) (bool, bool, bool) {
		// ALL names of the number, in any order
		ns := append([]string(nil), names...)
		hx.Shuffle(r, ns)
		el.E.ReservedNames = append(el.E.ReservedNames, ns...)
		return false, true, true
	}),
	deleteNumberOp("DeleteEnumValueReserveBoth", nil, func(s *Schema, el *EnumLoc, n int, names []string, r *hx.Rand) (bool, bool, bool) {
		el.E.reserve(n, n)
		el.E.ReservedNames = append(el.E.ReservedNames, names...)
		return true, true, true
	}),
	// only SOME of the names are reserved (a proper, non-empty subset: the first / last / a middle
	// name, one or two of three): the name rule must still report
	deleteNumberOp("DeleteEnumValueReserveSomeNames", multiName, func(s *Schema, el *EnumLoc, n int, names []string, r *hx.Rand) (bool, bool, bool) {
		ns := append([]string(nil), names...)
		switch r.Intn(3) {
		case 0: // declaration order: the FIRST names are the reserved ones
		case 1: // the LAST names are the reserved ones
			for i, j := 0, len(ns)-1; i < j; i, j = i+1, j-1 {
				ns[i], ns[j] = ns[j], ns[i]
			}
		default:
			hx.Shuffle(r, ns)
		}
		keep := 1 + r.Intn(len(ns)-1)
		el.E.ReservedNames = append(el.E.ReservedNames, ns[:keep]...)
		if r.Chance(1, 3) {
			// ... and the number as well: only the name rule reports then
			el.E.reserve(n, n)
			return true, false, true
		}
		return false, false, true
	}),
	// the number is reserved through a RANGE that holds it (at an end or inside)
	deleteNumberOp("DeleteEnumValueReserveRange", func(el *EnumLoc, n int) bool { return el.E.free(n-1) || el.E.free(n+1) },
		func(s *Schema, el *EnumLoc, n int, names []string, r *hx.Rand) (bool, bool, bool) {
			lo, hi, _ := rangeAround(el.E, n, r)
			if lo == hi {
				return false, false, false
			}
			el.E.reserve(lo, hi)
			return true, false, true
		}),
	// ranges NEXT TO, AROUND (hole at the number) or far from the number are reserved: the number
	// itself is not, every rule reports
	deleteNumberOp("DeleteEnumValueReserveNearRange", nil, func(s *Schema, el *EnumLoc, n int, names []string, r *hx.Rand) (bool, bool, bool) {
		_, ok := nearRanges(el.E, n, r)
		return false, false, ok
	}),
	// names that merely resemble the deleted ones are reserved, and - where the enum has one -
	// ANOTHER number is deleted together with a full reservation of its number and names
	deleteNumberOp("DeleteEnumValueReserveOtherNames", nil, func(s *Schema, el *EnumLoc, n int, names []string, r *hx.Rand) (bool, bool, bool) {
		for _, nm := range names {
			ls := lookalikes(s, nm)
			el.E.ReservedNames = append(el.E.ReservedNames, ls[r.Intn(len(ls))])
		}
		var others []int
		seen := map[int]bool{n: true}
		for _, v := range el.E.Values {
			if !seen[v.Num] && deletableNumber(s, el, v.Num) {
				others = append(others, v.Num)
			}
			seen[v.Num] = true
		}
		if len(others) > 0 && r.Chance(2, 3) {
			o := hx.Pick(r, others)
			el.E.ReservedNames = append(el.E.ReservedNames, el.E.namesOf(o)...)
			el.E.dropNumber(o)
			el.E.reserve(o, o)
		}
		return false, false, true
	}),
	// ---- single names of a number go, the number stays: ENUM_VALUE_SAME_NAME at every name left
	removeAliasOp("EnumRemoveAlias", 1, false),
	removeAliasOp("EnumRemoveAliasReserveName", 1, true),
	removeAliasOp("EnumRemoveTwoAliases", 2, false),
	// one name moves to another number (an existing one or a new one): its old number lost a name
	{Name: "EnumAliasRenumber", Kind: Breaking, KindOf: aliasNameKind, Sites: func(s *Schema) []Site {
		return nameSitesOf(s, func(el *EnumLoc, v *EnumValue, i int) bool { return i > 0 && removableName(s, el, v, i) })
	}, Apply: func(s *Schema, site Site, r *hx.Rand) ([]Expect, bool) {
		el := s.EnumByName(site.Enum)
		if el == nil {
			return nil, false
		}
		v, i := el.E.Value(site.Name)
		if v == nil || i == 0 {
			return nil, false
		}
		var targets []int
		seen := map[int]bool{v.Num: true}
		for _, w := range el.E.Values {
			if !seen[w.Num] {
				targets = append(targets, w.Num)
			}
			seen[w.Num] = true
		}
		if len(targets) > 0 && r.Bool() {
			v.Num = hx.Pick(r, targets)
		} else {
			v.Num = el.E.nextNum(nil)
		}
		el.E.fixAlias()
		var exp []Expect
		for _, nm := range el.E.namesOf(site.Num) {
			exp = append(exp, sameNameExpect(el, nm))
		}
		return append(exp, numberStays(el)...), len(exp) > 0
	}},
	// a name of a number with several names is replaced by a new name: every CURRENT name of
	// the number is annotated
	{Name: "EnumRenameAlias", Kind: Breaking, KindOf: aliasNameKind, Sites: func(s *Schema) []Site {
		return nameSitesOf(s, func(el *EnumLoc, v *EnumValue, i int) bool {
			return el.E.countNum(v.Num) >= 2 && !s.usedAsDefault(el.Full, v.Name)
		})
	}, Apply: func(s *Schema, site Site, r *hx.Rand) ([]Expect, bool) {
		el := s.EnumByName(site.Enum)
		if el == nil {
			return nil, false
		}
		v, _ := el.E.Value(site.Name)
		if v == nil {
			return nil, false
		}
		old := v.Name
		v.Name = upper(el.E.Name) + "_RENAMED" + s.fresh("")
		if r.Bool() {
			el.E.ReservedNames = append(el.E.ReservedNames, old)
		}
		var exp []Expect
		for _, nm := range el.E.namesOf(site.Num) {
			exp = append(exp, sameNameExpect(el, nm))
		}
		return append(exp, numberStays(el)...), true
	}},
}
