package schemagen

// typematrix.go: the scalar TYPE matrix.  The three type rules read two tables
// (breaking_util.go fieldKindToWireCompatibilityGroup / ...WireJSONCompatibilityGroup); a wrong
// cell of a table concerns ONE ordered pair of scalar types, which the random retype operators
// only meet by luck.  The matrix holds one field per ordered pair (old scalar type, new scalar
// type), 15 x 14 = 210 fields; previous = the old types, current = the new ones.  What the
// documentation says about each pair (buf docs, "FIELD_WIRE_COMPATIBLE_TYPE" /
// "FIELD_WIRE_JSON_COMPATIBLE_TYPE": the groups int32-uint32-int64-uint64-bool, sint32-sint64,
// fixed32-sfixed32, fixed64-sfixed64, string -> bytes one way for WIRE; int32-uint32, int64-uint64,
// fixed32-sfixed32, fixed64-sfixed64 for WIRE_JSON) is the harness's own table wireGroup /
// wireJSONGroup in breaking.go.

import (
	"fmt"
	"strings"
)

// TypeCase is one cell of the matrix.
type TypeCase struct {
	Old, New string
	FullName string // full name of the field (of the extension in the extension layout)
	// what the documentation demands
	WireJSON bool // FIELD_WIRE_JSON_COMPATIBLE_TYPE reports
	Wire     bool // FIELD_WIRE_COMPATIBLE_TYPE reports
}

func (c TypeCase) String() string { return c.Old + " -> " + c.New }

const (
	TypeMatrixProto2      = iota // proto2 message, optional fields
	TypeMatrixProto3Oneof        // proto3 message, every field a member of one oneof
	TypeMatrixExtension          // proto2 extensions of one host message
	TypeMatrixRepeatedEd         // edition 2023, repeated fields
	NumTypeMatrixLayouts
)

var TypeMatrixLayoutNames = []string{"proto2-optional", "proto3-oneof", "proto2-extension", "editions-repeated"}

// TypeCases lists every ordered pair of different scalar types with the documented verdicts.
func TypeCases() []TypeCase {
	var out []TypeCase
	for _, o := range scalarTypes {
		for _, n := range scalarTypes {
			if o == n {
				continue
			}
			c := TypeCase{Old: o, New: n}
			c.WireJSON = wireJSONGroup[o] != wireJSONGroup[n]
			c.Wire = wireGroup[o] != wireGroup[n] && !(o == "string" && n == "bytes")
			out = append(out, c)
		}
	}
	return out
}

// RenderTypeMatrix renders the matrix in one layout; old = the previous side.
func RenderTypeMatrix(layout int, old bool) (map[string]string, []TypeCase) {
	cases := TypeCases()
	var sb strings.Builder
	pkg := "tm"
	typ := func(c TypeCase) string {
		if old {
			return c.Old
		}
		return c.New
	}
	switch layout {
	case TypeMatrixProto2:
		sb.WriteString("syntax = \"proto2\";\npackage tm;\nmessage M {\n")
		for i := range cases {
			cases[i].FullName = fmt.Sprintf("%s.M.f%d", pkg, i+1)
			fmt.Fprintf(&sb, "  optional %s f%d = %d;\n", typ(cases[i]), i+1, i+1)
		}
		sb.WriteString("}\n")
	case TypeMatrixProto3Oneof:
		sb.WriteString("syntax = \"proto3\";\npackage tm;\nmessage M {\n  oneof choice {\n")
		for i := range cases {
			cases[i].FullName = fmt.Sprintf("%s.M.f%d", pkg, i+1)
			fmt.Fprintf(&sb, "    %s f%d = %d;\n", typ(cases[i]), i+1, i+1)
		}
		sb.WriteString("  }\n}\n")
	case TypeMatrixExtension:
		sb.WriteString("syntax = \"proto2\";\npackage tm;\nmessage Host { extensions 100 to 999; }\nextend Host {\n")
		for i := range cases {
			cases[i].FullName = fmt.Sprintf("%s.x%d", pkg, i+1)
			fmt.Fprintf(&sb, "  optional %s x%d = %d;\n", typ(cases[i]), i+1, 100+i)
		}
		sb.WriteString("}\n")
	default:
		sb.WriteString("edition = \"2023\";\npackage tm;\nmessage M {\n")
		for i := range cases {
			cases[i].FullName = fmt.Sprintf("%s.M.f%d", pkg, i+1)
			fmt.Fprintf(&sb, "  repeated %s f%d = %d;\n", typ(cases[i]), i+1, i+1)
		}
		sb.WriteString("}\n")
	}
	return map[string]string{"tm/matrix.proto": sb.String()}, cases
}

// TypeMatrixPath: file and source path of the TYPE location (FieldDescriptorProto.type = 5) of
// the field / extension in the current image.
func TypeMatrixPath(cur *Compiled, full string) (file, path string, err error) {
	fd := findField(cur, full)
	if fd == nil {
		return "", "", fmt.Errorf("type matrix field %s not found", full)
	}
	return fd.ParentFile().Path(), descPath(fd, []int32{5}), nil
}
