package schemagen

// breaking2.go: the breaking catalogue, part 2: message / enum / service / extension / file
// operators, and the assembled BreakingOps list.

import (
	"github.com/bufbuild/verifharness/internal/hx"
)

func msgOp(name string, pred func(s *Schema, ml *MsgLoc) bool, apply func(s *Schema, ml *MsgLoc, site Site, r *hx.Rand) ([]Expect, bool)) *Op {
	return &Op{Name: name, Kind: Breaking, KindOf: msgSiteKind, Sites: func(s *Schema) []Site {
		return msgSites(s, func(ml *MsgLoc) bool { return pred(s, ml) })
	}, Apply: func(s *Schema, site Site, r *hx.Rand) ([]Expect, bool) {
		ml := s.Msg(site.Msg)
		if ml == nil {
			return nil, false
		}
		exp, ok := apply(s, ml, site, r)
		return exp, ok && s.WellFormed()
	}}
}

func enumOp(name string, pred func(s *Schema, el *EnumLoc) bool, apply func(s *Schema, el *EnumLoc, r *hx.Rand) ([]Expect, bool)) *Op {
	return &Op{Name: name, Kind: Breaking, KindOf: enumSiteKind, Sites: func(s *Schema) []Site {
		return enumSites(s, func(el *EnumLoc) bool { return pred(s, el) })
	}, Apply: func(s *Schema, site Site, r *hx.Rand) ([]Expect, bool) {
		el := s.EnumByName(site.Enum)
		if el == nil {
			return nil, false
		}
		exp, ok := apply(s, el, r)
		return exp, ok && s.WellFormed()
	}}
}

// subOp: an operator on a sub-element of a message; subs lists the sub-sites (Name / Num).
func subOp(name string, subs func(s *Schema, ml *MsgLoc) []Site, apply func(s *Schema, ml *MsgLoc, site Site, r *hx.Rand) ([]Expect, bool)) *Op {
	return &Op{Name: name, Kind: Breaking, KindOf: msgSiteKind, Sites: func(s *Schema) []Site {
		var out []Site
		for _, ml := range s.Msgs() {
			ml := ml
			for _, sub := range subs(s, &ml) {
				sub.File, sub.Msg = ml.F.Name, ml.Full
				out = append(out, sub)
			}
		}
		return out
	}, Apply: func(s *Schema, site Site, r *hx.Rand) ([]Expect, bool) {
		ml := s.Msg(site.Msg)
		if ml == nil {
			return nil, false
		}
		exp, ok := apply(s, ml, site, r)
		return exp, ok && s.WellFormed()
	}}
}

func enumSubOp(name string, subs func(el *EnumLoc) []Site, apply func(s *Schema, el *EnumLoc, site Site, r *hx.Rand) ([]Expect, bool)) *Op {
	return &Op{Name: name, Kind: Breaking, KindOf: enumSiteKind, Sites: func(s *Schema) []Site {
		var out []Site
		for _, el := range s.EnumsAll() {
			el := el
			for _, sub := range subs(&el) {
				sub.File, sub.Enum = el.F.Name, el.Full
				out = append(out, sub)
			}
		}
		return out
	}, Apply: func(s *Schema, site Site, r *hx.Rand) ([]Expect, bool) {
		el := s.EnumByName(site.Enum)
		if el == nil {
			return nil, false
		}
		return apply(s, el, site, r)
	}}
}

func rangeSites(rs []Range, shrinkable bool) []Site {
	var out []Site
	for _, rg := range rs {
		if !shrinkable || rg.Hi > rg.Lo {
			out = append(out, Site{Num: rg.Lo})
		}
	}
	return out
}

func rangeIndex(rs []Range, lo int) int {
	for i, rg := range rs {
		if rg.Lo == lo {
			return i
		}
	}
	return -1
}

func nameSites(names []string) []Site {
	var out []Site
	for _, n := range names {
		out = append(out, Site{Name: n})
	}
	return out
}

func removeName(names []string, n string) ([]string, bool) {
	for i, x := range names {
		if x == n {
			return append(names[:i:i], names[i+1:]...), true
		}
	}
	return names, false
}

// pkgLastClass marks PACKAGE_*_NO_DELETE expectations that hit the known "last element" gap.
func pkgLastClass(e Expect, remaining int) Expect {
	if remaining == 0 {
		e.Class = ClassPackageLast
	}
	return e
}

func removeMsg(list []*Message, m *Message) []*Message {
	for i, x := range list {
		if x == m {
			return append(list[:i:i], list[i+1:]...)
		}
	}
	return list
}

func removeEnum(list []*Enum, e *Enum) []*Enum {
	for i, x := range list {
		if x == e {
			return append(list[:i:i], list[i+1:]...)
		}
	}
	return list
}

// deleteMessage removes ml and returns the expectations.
func deleteMessage(s *Schema, ml *MsgLoc) []Expect {
	parentFull := ""
	if ml.Parent != nil {
		parentFull = ml.Full[:len(ml.Full)-len(ml.M.Name)-1]
		ml.Parent.Nested = removeMsg(ml.Parent.Nested, ml.M)
	} else {
		ml.F.Messages = removeMsg(ml.F.Messages, ml.M)
	}
	_, msgs, enums, exts := s.pkgCounts(ml.F.Package)
	exp := []Expect{
		eDeletedIn("MESSAGE_NO_DELETE", ml.F, parentFull),
		pkgLastClass(eDeletedIn("PACKAGE_MESSAGE_NO_DELETE", ml.F, parentFull), msgs),
	}
	// what is declared INSIDE the deleted message goes with it: its enums and extensions (at any
	// depth) are deleted elements of their own, owed an annotation at the closest SURVIVING
	// ancestor - the parent of the deleted message, not their own (deleted) parent
	innerEnum, innerExt := firstInner(ml.M, ml.Full)
	if innerEnum != "" {
		e := eDeletedIn("ENUM_NO_DELETE", ml.F, parentFull)
		e.About = "enum:" + innerEnum
		pe := pkgLastClass(eDeletedIn("PACKAGE_ENUM_NO_DELETE", ml.F, parentFull), enums)
		pe.About = e.About
		exp = append(exp, e, pe)
	}
	if innerExt != "" {
		e := eDeletedIn("EXTENSION_NO_DELETE", ml.F, parentFull)
		e.About = "ext:" + innerExt
		pe := pkgLastClass(eDeletedIn("PACKAGE_EXTENSION_NO_DELETE", ml.F, parentFull), exts)
		pe.About = e.About
		exp = append(exp, e, pe)
	}
	return exp
}

// firstInner: full names of the first enum and the first extension declared inside m (depth
// first, groups included); "" when there is none.
func firstInner(m *Message, full string) (enum, ext string) {
	if len(m.Enums) > 0 {
		enum = full + "." + m.Enums[0].Name
	}
	for _, x := range m.Extends {
		if len(x.Fields) > 0 && ext == "" {
			ext = full + "." + x.Fields[0].Name
		}
	}
	sub := func(n *Message) {
		e, x := firstInner(n, full+"."+n.Name)
		if enum == "" {
			enum = e
		}
		if ext == "" {
			ext = x
		}
	}
	for _, n := range m.Nested {
		sub(n)
	}
	for _, f := range m.Fields {
		if f.Group != nil {
			sub(f.Group)
		}
	}
	return
}

func deletableMsg(s *Schema, ml *MsgLoc) bool {
	return ml.Group == nil && s.ExternalRefs(ml.Full) == 0
}

func deleteEnum(s *Schema, el *EnumLoc) []Expect {
	if el.Parent != nil {
		el.Parent.Enums = removeEnum(el.Parent.Enums, el.E)
	} else {
		el.F.Enums = removeEnum(el.F.Enums, el.E)
	}
	_, _, enums, _ := s.pkgCounts(el.F.Package)
	return []Expect{
		eDeletedIn("ENUM_NO_DELETE", el.F, el.ParentFull),
		pkgLastClass(eDeletedIn("PACKAGE_ENUM_NO_DELETE", el.F, el.ParentFull), enums),
	}
}

func enumRefs(s *Schema, full string) int {
	n := 0
	for _, rs := range s.Refs() {
		if *rs.Ref == full {
			n++
		}
	}
	return n
}

func methodOp(name string, pred func(s *Schema, f *File, m *Method) bool, apply func(s *Schema, f *File, svcFull string, m *Method, r *hx.Rand) ([]Expect, bool)) *Op {
	return &Op{Name: name, Kind: Breaking, Sites: func(s *Schema) []Site {
		var out []Site
		for _, f := range s.Files {
			for _, sv := range f.Services {
				for _, m := range sv.Methods {
					if pred == nil || pred(s, f, m) {
						out = append(out, Site{File: f.Name, Svc: f.prefix() + sv.Name, Name: m.Name})
					}
				}
			}
		}
		return out
	}, Apply: func(s *Schema, site Site, r *hx.Rand) ([]Expect, bool) {
		f, sv := s.Service(site.Svc)
		if sv == nil {
			return nil, false
		}
		m, _ := sv.Method(site.Name)
		if m == nil {
			return nil, false
		}
		exp, ok := apply(s, f, site.Svc, m, r)
		return exp, ok && s.WellFormed()
	}}
}

func eMethod(rule string, f *File, svcFull string, m *Method, suffix string) Expect {
	return Expect{Rule: rule, File: f.Name, Locator: "method:" + svcFull + "." + m.Name + suffix}
}

func idemEff(v string) string {
	if v == "" {
		return "IDEMPOTENCY_UNKNOWN"
	}
	return v
}

func otherMsgType(s *Schema, f *File, cur string, r *hx.Rand) string {
	g := newGen(s, r, f)
	for i := 0; i < 12; i++ {
		if t := hx.Pick(r, g.msgs).Full; t != cur {
			return t
		}
	}
	return ""
}

type extSite struct {
	xl  ExtLoc
	fl  *Field
	idx int
}

func (s *Schema) extFields() []extSite {
	var out []extSite
	for _, xl := range s.ExtendsAll() {
		for i, fl := range xl.X.Fields {
			out = append(out, extSite{xl, fl, i})
		}
	}
	return out
}

func extFull(xl ExtLoc, fl *Field) string {
	if xl.ParentFull != "" {
		return xl.ParentFull + "." + fl.Name
	}
	return xl.F.prefix() + fl.Name
}

func (s *Schema) findExt(site Site) *extSite {
	for _, es := range s.extFields() {
		if extFull(es.xl, es.fl) == site.Name {
			es := es
			return &es
		}
	}
	return nil
}

func deleteExtension(s *Schema, es *extSite) []Expect {
	x := es.xl.X
	x.Fields = append(x.Fields[:es.idx:es.idx], x.Fields[es.idx+1:]...)
	if len(x.Fields) == 0 {
		if es.xl.Parent != nil {
			for i, y := range es.xl.Parent.Extends {
				if y == x {
					es.xl.Parent.Extends = append(es.xl.Parent.Extends[:i:i], es.xl.Parent.Extends[i+1:]...)
					break
				}
			}
		} else {
			for i, y := range es.xl.F.Extends {
				if y == x {
					es.xl.F.Extends = append(es.xl.F.Extends[:i:i], es.xl.F.Extends[i+1:]...)
					break
				}
			}
		}
	}
	_, _, _, exts := s.pkgCounts(es.xl.F.Package)
	return []Expect{
		eDeletedIn("EXTENSION_NO_DELETE", es.xl.F, es.xl.ParentFull),
		pkgLastClass(eDeletedIn("PACKAGE_EXTENSION_NO_DELETE", es.xl.F, es.xl.ParentFull), exts),
	}
}

// fileTypes: full names of everything declared in f.
func (s *Schema) fileTypes(f *File) map[string]bool {
	out := map[string]bool{}
	for n, df := range s.TypeIndex() {
		if df == f {
			out[n] = true
		}
	}
	return out
}

// referencedFromOutside: does a file other than those in `inside` reference a type of f?
func (s *Schema) referencedFromOutside(f *File, inside map[*File]bool) bool {
	types := s.fileTypes(f)
	for _, rs := range s.Refs() {
		if !inside[rs.F] && types[*rs.Ref] {
			return true
		}
	}
	return false
}

// deleteFileExpects: expectations for deleting file f (call before removing it).
func deleteFiles(s *Schema, del map[*File]bool) []Expect {
	var exp []Expect
	type tl struct {
		pkg   string
		kind  int
		about string
	}
	var gone []tl
	for f := range del {
		exp = append(exp, eNone("FILE_NO_DELETE"))
		for _, m := range f.Messages {
			gone = append(gone, tl{f.Package, 0, "msg:" + f.prefix() + m.Name})
		}
		for _, e := range f.Enums {
			gone = append(gone, tl{f.Package, 1, "enum:" + f.prefix() + e.Name})
		}
		for _, sv := range f.Services {
			gone = append(gone, tl{f.Package, 2, "svc:" + f.prefix() + sv.Name})
		}
	}
	var keep []*File
	for _, f := range s.Files {
		if !del[f] {
			keep = append(keep, f)
		}
	}
	s.Files = keep
	seenPkg := map[string]bool{}
	for f := range del {
		files, _, _, _ := s.pkgCounts(f.Package)
		if files == 0 && !seenPkg[f.Package] {
			seenPkg[f.Package] = true
			exp = append(exp, eNone("PACKAGE_NO_DELETE"))
		}
	}
	for _, g := range gone {
		files, msgs, enums, _ := s.pkgCounts(g.pkg)
		if files == 0 {
			continue
		}
		var e Expect
		switch g.kind {
		case 0:
			e = pkgLastClass(eNone("PACKAGE_MESSAGE_NO_DELETE"), msgs)
		case 1:
			e = pkgLastClass(eNone("PACKAGE_ENUM_NO_DELETE"), enums)
		case 2:
			e = eNone("PACKAGE_SERVICE_NO_DELETE")
		}
		e.About = g.about
		exp = append(exp, e)
	}
	return exp
}

func fileOptSites(s *Schema, pred func(f *File, name string, kind byte, o *Opt) bool) []Site {
	var out []Site
	for _, f := range s.Files {
		for _, t := range TrackedFileOptions {
			if pred(f, t.Name, t.Kind, f.Opt(t.Name)) {
				out = append(out, Site{File: f.Name, Name: t.Name})
			}
		}
	}
	return out
}

// fileOptSiteKind: the tracked option is the stratum, so that every FILE_SAME_<option> rule is
// planted by every file-option operator.
func fileOptSiteKind(s *Schema, site Site) string { return "option:" + site.Name }

func trackedOpt(name string) (n int, kind byte, rule string) {
	for _, t := range TrackedFileOptions {
		if t.Name == name {
			return t.Num, t.Kind, t.Rule
		}
	}
	panic("unknown option " + name)
}

func differentOptVal(r *hx.Rand, s *Schema, name string, kind byte, cur string) string {
	for i := 0; i < 30; i++ {
		if v := randFileOptVal(r, s, name, kind); v != cur {
			return v
		}
	}
	return ""
}

// syntax conversion helpers

func fileMsgs(s *Schema, f *File) []MsgLoc {
	var out []MsgLoc
	for _, ml := range s.Msgs() {
		if ml.F == f {
			out = append(out, ml)
		}
	}
	return out
}

func canBecomeProto3(s *Schema, f *File) bool {
	if !f.IsProto2() || len(f.Extends) > 0 {
		return false
	}
	mine := s.fileTypes(f)
	open := map[string]bool{}
	for _, el := range s.EnumsAll() {
		open[el.Full] = el.IsOpen()
		if el.F == f && el.E.Values[0].Num != 0 {
			return false
		}
	}
	for _, ml := range fileMsgs(s, f) {
		if ml.Group != nil || len(ml.M.ExtRanges) > 0 || len(ml.M.Extends) > 0 {
			return false
		}
		for _, fl := range ml.M.Fields {
			if fl.Label == "required" || fl.Default != "" || fl.Group != nil {
				return false
			}
			if fl.Ref == RefEnum && !mine[fl.Type] && !open[fl.Type] {
				return false
			}
		}
	}
	return true
}

func canBecomeProto2(s *Schema, f *File) bool {
	if !f.IsProto3() {
		return false
	}
	// enums of f become closed: no proto3 file other than f may use them
	mine := s.fileTypes(f)
	for _, rs := range s.Refs() {
		if rs.Kind == RefEnum && mine[*rs.Ref] && rs.F != f && rs.F.IsProto3() {
			return false
		}
	}
	return true
}

type fieldAt struct {
	ml *MsgLoc
	fl *Field
}

// fileFields: every field declared in f: fields of its messages (all depths, groups included) and
// its extension fields (pseudo location).
func fileFields(s *Schema, f *File) []fieldAt {
	var out []fieldAt
	for _, ml := range fileMsgs(s, f) {
		ml := ml
		for _, fl := range ml.M.Fields {
			out = append(out, fieldAt{&ml, fl})
		}
	}
	for _, es := range s.extFields() {
		es := es
		if es.xl.F == f {
			out = append(out, fieldAt{&MsgLoc{F: f, M: &Message{}, Ext: &es}, es.fl})
		}
	}
	return out
}

// inheritingMsgFields: message-typed fields whose encoding follows the file default.
func inheritingMsgFields(s *Schema, f *File) []fieldAt {
	var out []fieldAt
	for _, x := range fileFields(s, f) {
		if x.fl.Ref == RefMsg && x.fl.Group == nil && x.fl.MapKey == "" && x.fl.Feature("message_encoding") == "" {
			out = append(out, x)
		}
	}
	return out
}

// inheritingStringFields: string fields (not map fields) whose UTF-8 validation follows the file.
func inheritingStringFields(s *Schema, f *File) []fieldAt {
	var out []fieldAt
	for _, x := range fileFields(s, f) {
		if x.fl.Ref == RefScalar && x.fl.Type == "string" && x.fl.Group == nil && x.fl.MapKey == "" && x.fl.Feature("utf8_validation") == "" {
			out = append(out, x)
		}
	}
	return out
}

// inheritedEnumExpect: the enum has no option of its own for the feature; when it has another
// feature option the best-match option location may be that one (rule + file pinned only).
func inheritedEnumExpect(rule string, el *EnumLoc) Expect {
	e := eEnum(rule, el, "")
	if el.E.EnumType != "" || el.E.JSONFormat != "" {
		e.About, e.Locator = e.Locator, "anyin:"+el.F.Name
	}
	return e
}

// migrateProto2ToEditions rewrites f in place.
func migrateProto2ToEditions(s *Schema, f *File) {
	f.Syntax = "2023"
	f.Features = nil
	f.SetFeature("enum_type", "CLOSED")
	f.SetFeature("utf8_validation", "NONE")
	f.SetFeature("json_format", "LEGACY_BEST_EFFORT")
	f.SetFeature("repeated_field_encoding", "EXPANDED")
	var fix func(scope string, m *Message)
	fixField := func(scope string, host *Message, fl *Field) {
		switch fl.Label {
		case "required":
			fl.SetFeature("field_presence", "LEGACY_REQUIRED")
			fl.Label = ""
		case "optional":
			fl.Label = ""
		}
		if fl.Packed == "true" {
			fl.SetFeature("repeated_field_encoding", "PACKED")
		}
		fl.Packed = ""
		if fl.Group != nil && host != nil {
			gm := fl.Group
			fl.Group = nil
			host.Nested = append(host.Nested, gm)
			fl.Type, fl.Ref = scope+gm.Name, RefMsg
			fl.SetFeature("message_encoding", "DELIMITED")
		}
	}
	fix = func(scope string, m *Message) {
		inner := scope + m.Name + "."
		for _, fl := range m.Fields {
			fixField(inner, m, fl) // a group message moves to m.Nested
		}
		for _, x := range m.Extends {
			for _, fl := range x.Fields {
				fixField(inner, nil, fl)
			}
		}
		for _, n := range m.Nested {
			fix(inner, n)
		}
	}
	for _, m := range f.Messages {
		fix(f.prefix(), m)
	}
	for _, x := range f.Extends {
		for _, fl := range x.Fields {
			fixField(f.prefix(), nil, fl)
		}
	}
}

// BreakingOps is the whole catalogue.
var BreakingOps []*Op

func init() {
	rest := []*Op{
		// ---- messages
		msgOp("DeleteMessage", deletableMsg, func(s *Schema, ml *MsgLoc, _ Site, r *hx.Rand) ([]Expect, bool) {
			return deleteMessage(s, ml), true
		}),
		msgOp("DeleteLastMessageOfPackage", func(s *Schema, ml *MsgLoc) bool {
			if ml.Parent != nil || !deletableMsg(s, ml) {
				return false
			}
			n := 0
			for _, f := range s.Files {
				if f.Package == ml.F.Package {
					n += len(f.Messages)
				}
			}
			return n == 1
		}, func(s *Schema, ml *MsgLoc, _ Site, r *hx.Rand) ([]Expect, bool) {
			return deleteMessage(s, ml), true
		}),
		msgOp("MoveMessageSamePackage", func(s *Schema, ml *MsgLoc) bool {
			if ml.Parent != nil {
				return false
			}
			for _, f := range s.Files {
				if f != ml.F && f.Package == ml.F.Package && f.Syntax == ml.F.Syntax {
					return true
				}
			}
			return false
		}, func(s *Schema, ml *MsgLoc, _ Site, r *hx.Rand) ([]Expect, bool) {
			var targets []*File
			for _, f := range s.Files {
				if f != ml.F && f.Package == ml.F.Package && f.Syntax == ml.F.Syntax {
					targets = append(targets, f)
				}
			}
			t := hx.Pick(r, targets)
			ml.F.Messages = removeMsg(ml.F.Messages, ml.M)
			t.Messages = append(t.Messages, ml.M)
			exp := []Expect{eFileOnly("MESSAGE_NO_DELETE", ml.F)}
			for _, e := range ml.M.Enums {
				x := eFileOnly("ENUM_NO_DELETE", ml.F)
				x.About = "enum:" + ml.Full + "." + e.Name
				exp = append(exp, x)
			}
			return exp, true
		}),
		msgOp("MoveMessageOtherPackage", func(s *Schema, ml *MsgLoc) bool {
			if ml.Parent != nil {
				return false
			}
			for _, f := range s.Files {
				if f.Package != ml.F.Package && f.Syntax == ml.F.Syntax {
					return true
				}
			}
			return false
		}, func(s *Schema, ml *MsgLoc, _ Site, r *hx.Rand) ([]Expect, bool) {
			var targets []*File
			for _, f := range s.Files {
				if f.Package != ml.F.Package && f.Syntax == ml.F.Syntax {
					targets = append(targets, f)
				}
			}
			t := hx.Pick(r, targets)
			ml.F.Messages = removeMsg(ml.F.Messages, ml.M)
			s.RenameRefs(ml.Full, t.prefix()+ml.M.Name)
			t.Messages = append(t.Messages, ml.M)
			_, msgs, _, _ := s.pkgCounts(ml.F.Package)
			return []Expect{eFileOnly("MESSAGE_NO_DELETE", ml.F),
				pkgLastClass(eFileOnly("PACKAGE_MESSAGE_NO_DELETE", ml.F), msgs)}, true
		}),
		msgOp("MessageSetNoStandardDescriptorAccessor", func(s *Schema, ml *MsgLoc) bool {
			return ml.Group == nil && ml.M.NoStdAccessor != "true"
		}, func(s *Schema, ml *MsgLoc, _ Site, r *hx.Rand) ([]Expect, bool) {
			ml.M.NoStdAccessor = "true"
			return []Expect{eMsg("MESSAGE_NO_REMOVE_STANDARD_DESCRIPTOR_ACCESSOR", ml, ":nsda")}, true
		}),
		msgOp("MessageJSONFormatLegacy", func(s *Schema, ml *MsgLoc) bool {
			return ml.F.IsEditions() && MsgJSONAllow(ml.F, ml.M)
		}, func(s *Schema, ml *MsgLoc, _ Site, r *hx.Rand) ([]Expect, bool) {
			ml.M.JSONFormat = "LEGACY_BEST_EFFORT"
			return []Expect{eMsg("MESSAGE_SAME_JSON_FORMAT", ml, ":jsonformat")}, true
		}),
		subOp("DeleteOneof", func(s *Schema, ml *MsgLoc) []Site {
			var out []Site
			for _, n := range ml.M.oneofNames() {
				out = append(out, Site{Name: n})
			}
			return out
		}, func(s *Schema, ml *MsgLoc, site Site, r *hx.Rand) ([]Expect, bool) {
			var keep []*Field
			for _, fl := range ml.M.Fields {
				if fl.Oneof != site.Name {
					keep = append(keep, fl)
				}
			}
			if len(keep) == len(ml.M.Fields) {
				return nil, false
			}
			ml.M.Fields = keep
			return append(deleteExpects(ml, false, false), eMsg("ONEOF_NO_DELETE", ml, "")), true
		}),
		subOp("DeleteReservedRange", func(s *Schema, ml *MsgLoc) []Site { return rangeSites(ml.M.Reserved, false) },
			func(s *Schema, ml *MsgLoc, site Site, r *hx.Rand) ([]Expect, bool) {
				i := rangeIndex(ml.M.Reserved, site.Num)
				if i < 0 {
					return nil, false
				}
				ml.M.Reserved = append(ml.M.Reserved[:i:i], ml.M.Reserved[i+1:]...)
				return []Expect{eMsg("RESERVED_MESSAGE_NO_DELETE", ml, "")}, true
			}),
		subOp("ShrinkReservedRange", func(s *Schema, ml *MsgLoc) []Site { return rangeSites(ml.M.Reserved, true) },
			func(s *Schema, ml *MsgLoc, site Site, r *hx.Rand) ([]Expect, bool) {
				i := rangeIndex(ml.M.Reserved, site.Num)
				if i < 0 {
					return nil, false
				}
				rg := &ml.M.Reserved[i]
				if rg.Max || r.Bool() {
					rg.Lo++
				} else {
					rg.Hi--
				}
				return []Expect{eMsg("RESERVED_MESSAGE_NO_DELETE", ml, "")}, true
			}),
		subOp("DeleteReservedName", func(s *Schema, ml *MsgLoc) []Site { return nameSites(ml.M.ReservedNames) },
			func(s *Schema, ml *MsgLoc, site Site, r *hx.Rand) ([]Expect, bool) {
				var ok bool
				ml.M.ReservedNames, ok = removeName(ml.M.ReservedNames, site.Name)
				return []Expect{eMsg("RESERVED_MESSAGE_NO_DELETE", ml, "")}, ok
			}),
		subOp("DeleteExtensionRange", func(s *Schema, ml *MsgLoc) []Site {
			var out []Site
			for _, i := range freeExtRanges(s, ml) {
				out = append(out, Site{Num: ml.M.ExtRanges[i].Lo})
			}
			return out
		}, func(s *Schema, ml *MsgLoc, site Site, r *hx.Rand) ([]Expect, bool) {
			i := rangeIndex(ml.M.ExtRanges, site.Num)
			if i < 0 {
				return nil, false
			}
			ml.M.ExtRanges = append(ml.M.ExtRanges[:i:i], ml.M.ExtRanges[i+1:]...)
			return []Expect{eMsg("EXTENSION_MESSAGE_NO_DELETE", ml, "")}, true
		}),

		// ---- enums
		enumOp("DeleteEnum", func(s *Schema, el *EnumLoc) bool { return enumRefs(s, el.Full) == 0 },
			func(s *Schema, el *EnumLoc, r *hx.Rand) ([]Expect, bool) { return deleteEnum(s, el), true }),
		enumOp("DeleteLastEnumOfPackage", func(s *Schema, el *EnumLoc) bool {
			_, _, enums, _ := s.pkgCounts(el.F.Package)
			return enums == 1 && enumRefs(s, el.Full) == 0
		}, func(s *Schema, el *EnumLoc, r *hx.Rand) ([]Expect, bool) { return deleteEnum(s, el), true }),
		{Name: "EnumValueRename", Kind: Breaking, KindOf: enumSiteKind, Sites: func(s *Schema) []Site {
			var out []Site
			for _, el := range s.EnumsAll() {
				for _, v := range el.E.Values {
					if !s.usedAsDefault(el.Full, v.Name) {
						out = append(out, Site{File: el.F.Name, Enum: el.Full, Name: v.Name})
					}
				}
			}
			return out
		}, Apply: func(s *Schema, site Site, r *hx.Rand) ([]Expect, bool) {
			el := s.EnumByName(site.Enum)
			v, _ := el.E.Value(site.Name)
			if v == nil {
				return nil, false
			}
			v.Name = upper(el.E.Name) + "_RENAMED" + s.fresh("")
			return []Expect{{Rule: "ENUM_VALUE_SAME_NAME", File: el.F.Name, Locator: "enumval:" + el.Full + "#" + v.Name + ":number"}}, true
		}},
		// ENUM_VALUE_SAME_NAME demands that every PREVIOUS name of a number still exists
		// (slicesext.ElementsContained(names, previousNames)): removing one of several names of
		// a number is reported at the number of every remaining name; adding a name is not.
		// The deletion / alias operators are the ALIAS family of breaking3.go (AliasOps).
		enumSubOp("DeleteEnumReservedRange", func(el *EnumLoc) []Site { return rangeSites(el.E.Reserved, false) },
			func(s *Schema, el *EnumLoc, site Site, r *hx.Rand) ([]Expect, bool) {
				i := rangeIndex(el.E.Reserved, site.Num)
				if i < 0 {
					return nil, false
				}
				el.E.Reserved = append(el.E.Reserved[:i:i], el.E.Reserved[i+1:]...)
				return []Expect{eEnum("RESERVED_ENUM_NO_DELETE", el, "")}, true
			}),
		enumSubOp("DeleteEnumReservedName", func(el *EnumLoc) []Site { return nameSites(el.E.ReservedNames) },
			func(s *Schema, el *EnumLoc, site Site, r *hx.Rand) ([]Expect, bool) {
				var ok bool
				el.E.ReservedNames, ok = removeName(el.E.ReservedNames, site.Name)
				return []Expect{eEnum("RESERVED_ENUM_NO_DELETE", el, "")}, ok
			}),
		enumOp("EnumToggleClosed", func(s *Schema, el *EnumLoc) bool {
			if !el.F.IsEditions() {
				return false
			}
			if !el.IsOpen() {
				return el.E.Values[0].Num == 0
			}
			return true
		}, func(s *Schema, el *EnumLoc, r *hx.Rand) ([]Expect, bool) {
			fileClosed := el.F.Feature("enum_type") == "CLOSED"
			switch {
			case !el.IsOpen() && fileClosed:
				el.E.EnumType = "OPEN"
			case !el.IsOpen():
				el.E.EnumType = hx.Pick(r, []string{"", "OPEN"})
			case fileClosed: // explicit OPEN so far
				el.E.EnumType = hx.Pick(r, []string{"", "CLOSED"})
			default:
				el.E.EnumType = "CLOSED"
			}
			if el.E.EnumType == "" {
				return []Expect{eEnum("ENUM_SAME_TYPE", el, "")}, true
			}
			return []Expect{eEnum("ENUM_SAME_TYPE", el, ":enumtype")}, true
		}),
		enumOp("EnumJSONFormatLegacy", func(s *Schema, el *EnumLoc) bool {
			return el.F.IsEditions() && EnumJSONAllow(el.F, el.E)
		}, func(s *Schema, el *EnumLoc, r *hx.Rand) ([]Expect, bool) {
			el.E.JSONFormat = "LEGACY_BEST_EFFORT"
			return []Expect{eEnum("ENUM_SAME_JSON_FORMAT", el, ":jsonformat")}, true
		}),

		// ---- services
		{Name: "DeleteService", Kind: Breaking, Sites: func(s *Schema) []Site {
			var out []Site
			for _, f := range s.Files {
				for _, sv := range f.Services {
					out = append(out, Site{File: f.Name, Svc: f.prefix() + sv.Name})
				}
			}
			return out
		}, Apply: func(s *Schema, site Site, r *hx.Rand) ([]Expect, bool) {
			f, sv := s.Service(site.Svc)
			if sv == nil {
				return nil, false
			}
			for i, x := range f.Services {
				if x == sv {
					f.Services = append(f.Services[:i:i], f.Services[i+1:]...)
					break
				}
			}
			return []Expect{eFileOnly("SERVICE_NO_DELETE", f), eFileOnly("PACKAGE_SERVICE_NO_DELETE", f)}, true
		}},
		methodOp("DeleteRPC", nil, func(s *Schema, f *File, svc string, m *Method, r *hx.Rand) ([]Expect, bool) {
			_, sv := s.Service(svc)
			_, i := sv.Method(m.Name)
			sv.Methods = append(sv.Methods[:i:i], sv.Methods[i+1:]...)
			return []Expect{{Rule: "RPC_NO_DELETE", File: f.Name, Locator: "svc:" + svc}}, true
		}),
		methodOp("RPCChangeRequestType", func(s *Schema, f *File, m *Method) bool { return len(newGen(s, nil, f).msgs) > 1 },
			func(s *Schema, f *File, svc string, m *Method, r *hx.Rand) ([]Expect, bool) {
				t := otherMsgType(s, f, m.In, r)
				if t == "" {
					return nil, false
				}
				m.In = t
				return []Expect{eMethod("RPC_SAME_REQUEST_TYPE", f, svc, m, ":in")}, true
			}),
		methodOp("RPCChangeResponseType", func(s *Schema, f *File, m *Method) bool { return len(newGen(s, nil, f).msgs) > 1 },
			func(s *Schema, f *File, svc string, m *Method, r *hx.Rand) ([]Expect, bool) {
				t := otherMsgType(s, f, m.Out, r)
				if t == "" {
					return nil, false
				}
				m.Out = t
				return []Expect{eMethod("RPC_SAME_RESPONSE_TYPE", f, svc, m, ":out")}, true
			}),
		methodOp("RPCToggleClientStreaming", nil, func(s *Schema, f *File, svc string, m *Method, r *hx.Rand) ([]Expect, bool) {
			m.CS = !m.CS
			return []Expect{eMethod("RPC_SAME_CLIENT_STREAMING", f, svc, m, "")}, true
		}),
		methodOp("RPCToggleServerStreaming", nil, func(s *Schema, f *File, svc string, m *Method, r *hx.Rand) ([]Expect, bool) {
			m.SS = !m.SS
			return []Expect{eMethod("RPC_SAME_SERVER_STREAMING", f, svc, m, "")}, true
		}),
		methodOp("RPCChangeIdempotency", nil, func(s *Schema, f *File, svc string, m *Method, r *hx.Rand) ([]Expect, bool) {
			old := idemEff(m.Idem)
			var c []string
			for _, v := range []string{"", "IDEMPOTENCY_UNKNOWN", "IDEMPOTENT", "NO_SIDE_EFFECTS"} {
				if idemEff(v) != old {
					c = append(c, v)
				}
			}
			m.Idem = hx.Pick(r, c)
			if m.Idem == "" {
				return []Expect{eFileOnly("RPC_SAME_IDEMPOTENCY_LEVEL", f)}, true
			}
			return []Expect{eMethod("RPC_SAME_IDEMPOTENCY_LEVEL", f, svc, m, ":idem")}, true
		}),

		// ---- extensions
		{Name: "DeleteExtension", Kind: Breaking, KindOf: fieldSiteKind, Sites: func(s *Schema) []Site {
			var out []Site
			for _, es := range s.extFields() {
				out = append(out, Site{File: es.xl.F.Name, Name: extFull(es.xl, es.fl)})
			}
			return out
		}, Apply: func(s *Schema, site Site, r *hx.Rand) ([]Expect, bool) {
			es := s.findExt(site)
			if es == nil {
				return nil, false
			}
			return deleteExtension(s, es), true
		}},
		{Name: "DeleteLastExtensionOfPackage", Kind: Breaking, KindOf: fieldSiteKind, Sites: func(s *Schema) []Site {
			var out []Site
			for _, es := range s.extFields() {
				if _, _, _, n := s.pkgCounts(es.xl.F.Package); n == 1 {
					out = append(out, Site{File: es.xl.F.Name, Name: extFull(es.xl, es.fl)})
				}
			}
			return out
		}, Apply: func(s *Schema, site Site, r *hx.Rand) ([]Expect, bool) {
			es := s.findExt(site)
			if es == nil {
				return nil, false
			}
			return deleteExtension(s, es), true
		}},
		{Name: "ExtensionChangeType", Kind: Breaking, KindOf: fieldSiteKind, Sites: func(s *Schema) []Site {
			var out []Site
			for _, es := range s.extFields() {
				if es.fl.Ref == RefScalar {
					out = append(out, Site{File: es.xl.F.Name, Name: extFull(es.xl, es.fl)})
				}
			}
			return out
		}, Apply: func(s *Schema, site Site, r *hx.Rand) ([]Expect, bool) {
			es := s.findExt(site)
			if es == nil {
				return nil, false
			}
			old := es.fl.Type
			nw := old
			for nw == old {
				nw = hx.Pick(r, scalarTypes)
			}
			retype(es.fl, nw, RefScalar)
			loc := "ext:" + site.Name + ":type"
			out := []Expect{{Rule: "FIELD_SAME_TYPE", File: es.xl.F.Name, Locator: loc}}
			if wireJSONGroup[old] != wireJSONGroup[nw] {
				out = append(out, Expect{Rule: "FIELD_WIRE_JSON_COMPATIBLE_TYPE", File: es.xl.F.Name, Locator: loc})
			}
			if wireGroup[old] != wireGroup[nw] && !(old == "string" && nw == "bytes") {
				out = append(out, Expect{Rule: "FIELD_WIRE_COMPATIBLE_TYPE", File: es.xl.F.Name, Locator: loc})
			}
			return out, true
		}},

		// ---- files
		// kind: does the package survive in another file (then every message / enum / service of the
		// deleted file is a PACKAGE_*_NO_DELETE annotation WITHOUT file and location) or does it go
		// with its last file (PACKAGE_NO_DELETE)
		{Name: "DeleteFile", Kind: Breaking, KindOf: func(s *Schema, site Site) string {
			f := s.File(site.File)
			if f == nil {
				return "-"
			}
			k := "package-gone"
			for _, g := range s.Files {
				if g != f && g.Package == f.Package {
					k = "package-survives"
				}
			}
			if len(f.Messages)+len(f.Enums)+len(f.Services) == 0 {
				k += "/empty-file"
			}
			return k
		}, Sites: func(s *Schema) []Site {
			if len(s.Files) < 2 {
				return nil
			}
			return fileSites(s, func(f *File) bool { return !s.referencedFromOutside(f, map[*File]bool{f: true}) })
		}, Apply: func(s *Schema, site Site, r *hx.Rand) ([]Expect, bool) {
			f := s.File(site.File)
			if f == nil {
				return nil, false
			}
			return deleteFiles(s, map[*File]bool{f: true}), s.WellFormed()
		}},
		{Name: "DeletePackage", Kind: Breaking, Sites: func(s *Schema) []Site {
			var out []Site
			seen := map[string]bool{}
			for _, f := range s.Files {
				if seen[f.Package] {
					continue
				}
				seen[f.Package] = true
				in := map[*File]bool{}
				for _, g := range s.Files {
					if g.Package == f.Package {
						in[g] = true
					}
				}
				if len(in) == len(s.Files) {
					continue
				}
				ok := true
				for g := range in {
					if s.referencedFromOutside(g, in) {
						ok = false
					}
				}
				if ok {
					out = append(out, Site{Name: f.Package, File: f.Name})
				}
			}
			return out
		}, Apply: func(s *Schema, site Site, r *hx.Rand) ([]Expect, bool) {
			in := map[*File]bool{}
			for _, g := range s.Files {
				if g.Package == site.Name {
					in[g] = true
				}
			}
			if len(in) == 0 {
				return nil, false
			}
			return deleteFiles(s, in), s.WellFormed()
		}},
		{Name: "FileChangePackage", Kind: Breaking, Sites: func(s *Schema) []Site { return fileSites(s, nil) },
			Apply: func(s *Schema, site Site, r *hx.Rand) ([]Expect, bool) {
				f := s.File(site.File)
				if f == nil {
					return nil, false
				}
				old := f.Package
				nw := "pkg.n" + s.fresh("")
				if old != "" && r.Chance(1, 5) {
					nw = ""
				}
				// rename every top-level type of the file
				var tops []string
				for _, m := range f.Messages {
					tops = append(tops, m.Name)
				}
				for _, e := range f.Enums {
					tops = append(tops, e.Name)
				}
				oldP := f.prefix()
				f.Package = nw
				for _, t := range tops {
					s.RenameRefs(oldP+t, f.prefix()+t)
				}
				if nw == "" {
					return []Expect{eFileOnly("FILE_SAME_PACKAGE", f)}, s.WellFormed()
				}
				return []Expect{eFile("FILE_SAME_PACKAGE", f, "pkg")}, s.WellFormed()
			}},
		{Name: "FileSyntaxProto3ToProto2", Kind: Breaking, Sites: func(s *Schema) []Site {
			return fileSites(s, func(f *File) bool { return canBecomeProto2(s, f) })
		}, Apply: func(s *Schema, site Site, r *hx.Rand) ([]Expect, bool) {
			f := s.File(site.File)
			var exp []Expect
			f.Syntax = "proto2"
			if r.Chance(1, 4) {
				f.Syntax = ""
				exp = append(exp, eFileOnly("FILE_SAME_SYNTAX", f))
			} else {
				exp = append(exp, eFile("FILE_SAME_SYNTAX", f, "syntax"))
			}
			for _, ml := range fileMsgs(s, f) {
				ml := ml
				exp = append(exp, eMsg("MESSAGE_SAME_JSON_FORMAT", &ml, ""))
				for _, fl := range ml.M.Fields {
					if fl.MapKey != "" {
						continue
					}
					if fl.Ref == RefScalar && fl.Type == "string" {
						exp = append(exp, eField("FIELD_SAME_UTF8_VALIDATION", &ml, fl, ""))
					}
					if fl.Oneof == "" && fl.Label == "" {
						fl.Label = "optional"
						if fl.Ref != RefMsg {
							exp = append(exp, eField("FIELD_SAME_CARDINALITY", &ml, fl, ""))
						}
					}
				}
			}
			for _, el := range s.EnumsAll() {
				el := el
				if el.F == f {
					exp = append(exp, eEnum("ENUM_SAME_TYPE", &el, ""), eEnum("ENUM_SAME_JSON_FORMAT", &el, ""))
				}
			}
			return exp, s.WellFormed()
		}},
		{Name: "FileSyntaxProto2ToProto3", Kind: Breaking, Sites: func(s *Schema) []Site {
			return fileSites(s, func(f *File) bool { return canBecomeProto3(s, f) })
		}, Apply: func(s *Schema, site Site, r *hx.Rand) ([]Expect, bool) {
			f := s.File(site.File)
			f.Syntax = "proto3"
			exp := []Expect{eFile("FILE_SAME_SYNTAX", f, "syntax")}
			for _, ml := range fileMsgs(s, f) {
				ml := ml
				for _, fl := range ml.M.Fields {
					if fl.MapKey == "" && fl.Ref == RefScalar && fl.Type == "string" {
						exp = append(exp, eField("FIELD_SAME_UTF8_VALIDATION", &ml, fl, ""))
					}
				}
			}
			for _, el := range s.EnumsAll() {
				el := el
				if el.F == f {
					exp = append(exp, eEnum("ENUM_SAME_TYPE", &el, ""))
				}
			}
			return exp, s.WellFormed()
		}},
		{Name: "FileOptionChange", Kind: Breaking, KindOf: fileOptSiteKind, Sites: func(s *Schema) []Site {
			return fileOptSites(s, func(f *File, name string, kind byte, o *Opt) bool { return o != nil })
		}, Apply: func(s *Schema, site Site, r *hx.Rand) ([]Expect, bool) {
			f := s.File(site.File)
			n, kind, rule := trackedOpt(site.Name)
			o := f.Opt(site.Name)
			v := differentOptVal(r, s, site.Name, kind, o.Val)
			if v == "" {
				return nil, false
			}
			o.Val = v
			return []Expect{eFile(rule, f, "opt"+num(n))}, true
		}},
		{Name: "FileOptionAdd", Kind: Breaking, KindOf: fileOptSiteKind, Sites: func(s *Schema) []Site {
			return fileOptSites(s, func(f *File, name string, kind byte, o *Opt) bool { return o == nil })
		}, Apply: func(s *Schema, site Site, r *hx.Rand) ([]Expect, bool) {
			f := s.File(site.File)
			n, kind, rule := trackedOpt(site.Name)
			v := differentOptVal(r, s, site.Name, kind, fileOptDefault(site.Name, kind))
			if v == "" {
				return nil, false
			}
			f.Options = append(f.Options, &Opt{site.Name, v})
			return []Expect{eFile(rule, f, "opt"+num(n))}, true
		}},
		{Name: "FileOptionRemove", Kind: Breaking, KindOf: fileOptSiteKind, Sites: func(s *Schema) []Site {
			return fileOptSites(s, func(f *File, name string, kind byte, o *Opt) bool {
				return o != nil && o.Val != fileOptDefault(name, kind)
			})
		}, Apply: func(s *Schema, site Site, r *hx.Rand) ([]Expect, bool) {
			f := s.File(site.File)
			_, _, rule := trackedOpt(site.Name)
			for i, o := range f.Options {
				if o.Name == site.Name {
					f.Options = append(f.Options[:i:i], f.Options[i+1:]...)
					break
				}
			}
			return []Expect{eFileOnly(rule, f)}, true
		}},
		// ---- editions: file-level feature defaults, inherited by every element of the file
		{Name: "FileToggleDelimited", Kind: Breaking, Sites: func(s *Schema) []Site {
			return fileSites(s, func(f *File) bool { return f.IsEditions() && len(inheritingMsgFields(s, f)) > 0 })
		}, Apply: func(s *Schema, site Site, r *hx.Rand) ([]Expect, bool) {
			f := s.File(site.File)
			old, nw := "message", "group"
			if f.Feature("message_encoding") == "DELIMITED" {
				old, nw = "group", "message"
				f.SetFeature("message_encoding", hx.Pick(r, []string{"", "LENGTH_PREFIXED"}))
			} else {
				f.SetFeature("message_encoding", "DELIMITED")
			}
			var exp []Expect
			for _, x := range inheritingMsgFields(s, f) {
				exp = append(exp, typeExpects(x.ml, x.fl, old, nw)...)
			}
			return exp, true
		}},
		{Name: "FileToggleEnumType", Kind: Breaking, Sites: func(s *Schema) []Site {
			return fileSites(s, func(f *File) bool {
				if !f.IsEditions() {
					return false
				}
				n := 0
				for _, el := range s.EnumsAll() {
					if el.F == f && el.E.EnumType == "" {
						n++
						if f.Feature("enum_type") == "CLOSED" && el.E.Values[0].Num != 0 {
							return false // cannot become open
						}
					}
				}
				return n > 0
			})
		}, Apply: func(s *Schema, site Site, r *hx.Rand) ([]Expect, bool) {
			f := s.File(site.File)
			if f.Feature("enum_type") == "CLOSED" {
				f.SetFeature("enum_type", hx.Pick(r, []string{"", "OPEN"}))
			} else {
				f.SetFeature("enum_type", "CLOSED")
			}
			var exp []Expect
			for _, el := range s.EnumsAll() {
				el := el
				if el.F == f && el.E.EnumType == "" {
					exp = append(exp, inheritedEnumExpect("ENUM_SAME_TYPE", &el))
				}
			}
			return exp, s.WellFormed()
		}},
		{Name: "FileToggleUtf8Validation", Kind: Breaking, Sites: func(s *Schema) []Site {
			return fileSites(s, func(f *File) bool { return f.IsEditions() && len(inheritingStringFields(s, f)) > 0 })
		}, Apply: func(s *Schema, site Site, r *hx.Rand) ([]Expect, bool) {
			f := s.File(site.File)
			if f.Feature("utf8_validation") == "NONE" {
				f.SetFeature("utf8_validation", hx.Pick(r, []string{"", "VERIFY"}))
			} else {
				f.SetFeature("utf8_validation", "NONE")
			}
			var exp []Expect
			for _, x := range inheritingStringFields(s, f) {
				e := eField("FIELD_SAME_UTF8_VALIDATION", x.ml, x.fl, "")
				if len(x.fl.Features) > 0 {
					// another feature of the field has a location: the best-match option
					// location may be that one; pin rule + file only (About keeps the element)
					e.About, e.Locator = e.Locator, "anyin:"+f.Name
				}
				exp = append(exp, e)
			}
			return exp, true
		}},
		{Name: "FileJSONFormatLegacy", Kind: Breaking, Sites: func(s *Schema) []Site {
			return fileSites(s, func(f *File) bool { return f.IsEditions() && f.Feature("json_format") != "LEGACY_BEST_EFFORT" })
		}, Apply: func(s *Schema, site Site, r *hx.Rand) ([]Expect, bool) {
			f := s.File(site.File)
			f.SetFeature("json_format", "LEGACY_BEST_EFFORT")
			// features are inherited lexically (file -> message -> nested message / enum): an
			// element inherits the file default only when neither it nor an enclosing message
			// sets json_format
			explicit := map[string]bool{}
			for _, ml := range fileMsgs(s, f) {
				if ml.M.JSONFormat != "" {
					explicit[ml.Full] = true
				}
			}
			shielded := func(full string) bool {
				for i := len(full) - 1; i > 0; i-- {
					if full[i] == '.' && explicit[full[:i]] {
						return true
					}
				}
				return false
			}
			var exp []Expect
			for _, ml := range fileMsgs(s, f) {
				ml := ml
				if ml.M.JSONFormat == "" && !shielded(ml.Full) {
					exp = append(exp, eMsg("MESSAGE_SAME_JSON_FORMAT", &ml, ""))
				}
			}
			for _, el := range s.EnumsAll() {
				el := el
				if el.F == f && el.E.JSONFormat == "" && !shielded(el.Full) {
					exp = append(exp, inheritedEnumExpect("ENUM_SAME_JSON_FORMAT", &el))
				}
			}
			return exp, len(exp) > 0
		}},
		// proto2 -> edition 2023, faithfully: groups become delimited message fields, `required`
		// becomes LEGACY_REQUIRED, closed enums / no UTF-8 validation / legacy JSON / expanded
		// repeated fields are kept through file-level feature defaults.  Only the syntax changes.
		{Name: "FileMigrateProto2ToEditions", Kind: Breaking, Sites: func(s *Schema) []Site {
			return fileSites(s, func(f *File) bool { return f.IsProto2() && f.Opt("java_string_check_utf8") == nil })
		}, Apply: func(s *Schema, site Site, r *hx.Rand) ([]Expect, bool) {
			f := s.File(site.File)
			migrateProto2ToEditions(s, f)
			// SyntaxLocation() looks up path [12] only; the `edition = "2023";` statement is at
			// [14], so the annotation carries the file but no element location (observation)
			return []Expect{eFileOnly("FILE_SAME_SYNTAX", f)}, s.WellFormed()
		}},
		{Name: "FileJavaStringCheckUtf8", Kind: Breaking, Sites: func(s *Schema) []Site {
			return fileSites(s, func(f *File) bool {
				if !f.IsProto2() || f.Opt("java_string_check_utf8") != nil {
					return false
				}
				for _, ml := range fileMsgs(s, f) {
					for _, fl := range ml.M.Fields {
						if plainField(fl) && fl.Ref == RefScalar && fl.Type == "string" {
							return true
						}
					}
				}
				return false
			})
		}, Apply: func(s *Schema, site Site, r *hx.Rand) ([]Expect, bool) {
			f := s.File(site.File)
			f.Options = append(f.Options, &Opt{"java_string_check_utf8", "true"})
			return []Expect{eFile("FIELD_SAME_JAVA_UTF8_VALIDATION", f, "opt27")}, true
		}},
	}
	BreakingOps = append(append(append([]*Op(nil), BreakingFieldOps...), rest...), AliasOps...)
}

// freeExtRanges: indexes of extension ranges of ml that no extension uses.
func freeExtRanges(s *Schema, ml *MsgLoc) []int {
	var out []int
	for i, rg := range ml.M.ExtRanges {
		used := false
		for _, es := range s.extFields() {
			if es.xl.X.Extendee == ml.Full && es.fl.Num >= rg.Lo && es.fl.Num <= rg.Hi {
				used = true
			}
		}
		if !used {
			out = append(out, i)
		}
	}
	return out
}
