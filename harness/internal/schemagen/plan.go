package schemagen

// plan.go: the stratified PLAN of planted breaking edits (which operator of the catalogue is
// planted at which element of which base schema), shared by the C03 harness (expectation oracle
// per plant) and the C04 harness (category-order oracle on every pair the catalogue produces).

import (
	"sort"

	"github.com/bufbuild/verifharness/internal/hx"
)

type Planted struct {
	Op      *Op
	Site    Site
	Variant string
	Note    string
	Cur     State
	Exp     []Expect
}

// plant applies op at site, optionally surrounded by additive edits.
func Plant(base State, op *Op, site Site, mixed bool, r *hx.Rand, res *Result) (*Planted, bool) {
	p := &Planted{Op: op, Site: site, Variant: "alone"}
	s := base.S
	if mixed {
		p.Variant = "mixed"
		n := r.Intn(3)
		for i := 0; i < n; i++ {
			if c, aop, _, _, ok := ApplyRandom(s, AdditiveOps, r); ok {
				s = c
				p.Note += aop.Name + " "
			}
		}
	}
	if mixed {
		// an additive edit mixed in before may have made the element inapplicable
		still := false
		for _, x := range op.Sites(s) {
			if x == site {
				still = true
			}
		}
		if !still {
			return nil, false
		}
	}
	c := s.Clone()
	exp, ok := op.Apply(c, site, r)
	if !ok {
		return nil, false
	}
	p.Note += "[" + op.Name + "] "
	for _, e := range exp {
		if ExistedBefore(base.S, e) {
			p.Exp = append(p.Exp, e)
		} else {
			res.Count("expect:void-new-element:" + op.Name)
		}
	}
	s = c
	k := base.K
	if mixed {
		n := 1 + r.Intn(2)
		for i := 0; i < n; i++ {
			if c, aop, _, _, ok := ApplyRandom(s, AdditiveOps, r); ok {
				s = c
				p.Note += aop.Name + " "
			}
		}
		if r.Bool() {
			k = RandKnobs(r)
		}
	}
	p.Cur = State{S: s, K: k}
	return p, true
}

type PlanEntry struct {
	Bi, Oi int
	Site   Site
	Kind   string
	Mixed  bool
	Why    string // "kind" (stratum) | "base" (top-up: every operator on every base)
}

type Base struct {
	St  State
	Zoo int
}

func GenBase(root *hx.Rand, bi int) Base {
	r := root.Fork(uint64(bi))
	zoo := bi%(NumZoo+1) - 1 // -1 (no zoo), proto2, proto3, editions, editions-inherited
	st := State{S: GenerateZoo(r, zoo), K: PlainKnobs}
	if r.Bool() {
		st.K = RandKnobs(r)
	}
	return Base{St: st, Zoo: zoo}
}

type cand struct {
	bi     int
	site   Site
	kind   string
	syntax string
}

// MakePlan: for every operator, (1) one plant (thorough: up to three bases, both variants at the first) per
// KIND of element it is applicable to, preferring sites in a file syntax the operator has not
// been planted in yet and the least loaded base; (2) one per file SYNTAX still uncovered;
// (3) top-up at random sites until the operator has minPerOp plants.
func MakePlan(thorough bool, root *hx.Rand, bases []Base) (plan []PlanEntry, strata int) {
	pr := root.Fork(1 << 40)
	load := make([]int, len(bases))
	perKind, minPerOp := 1, 8
	if thorough {
		perKind, minPerOp = 3, 20
	}
	flip := false
	for oi, op := range BreakingOps {
		var cs []cand
		kindSet, synSet := map[string]bool{}, map[string]bool{}
		for bi, b := range bases {
			for _, site := range op.Sites(b.St.S) {
				c := cand{bi, site, op.SiteKind(b.St.S, site), op.SiteSyntax(b.St.S, site)}
				cs = append(cs, c)
				kindSet[c.kind], synSet[c.syntax] = true, true
			}
		}
		if len(cs) == 0 {
			continue
		}
		kinds := make([]string, 0, len(kindSet))
		for k := range kindSet {
			kinds = append(kinds, k)
		}
		sort.Strings(kinds)
		syns := make([]string, 0, len(synSet))
		for k := range synSet {
			syns = append(syns, k)
		}
		sort.Strings(syns)
		strata += len(kinds) + len(syns)
		synDone := map[string]int{}
		nOp := 0
		add := func(c cand, why string, both bool) {
			variants := []bool{false, true}
			if !both {
				flip = !flip
				variants = []bool{flip}
			}
			for _, mixed := range variants {
				plan = append(plan, PlanEntry{Bi: c.bi, Oi: oi, Site: c.site, Kind: c.kind + "@" + c.syntax, Mixed: mixed, Why: why})
				load[c.bi]++
				nOp++
			}
			synDone[c.syntax]++
		}
		// choose among `pool` the candidate with the least covered syntax, then least loaded
		// base; ties are broken at random (reservoir)
		choose := func(pool []cand, usedBase map[int]bool) (cand, bool) {
			var best cand
			found, ties := false, 0
			for _, c := range pool {
				if usedBase[c.bi] {
					continue
				}
				better := !found || synDone[c.syntax] < synDone[best.syntax] ||
					(synDone[c.syntax] == synDone[best.syntax] && load[c.bi] < load[best.bi])
				same := found && synDone[c.syntax] == synDone[best.syntax] && load[c.bi] == load[best.bi]
				switch {
				case better:
					best, found, ties = c, true, 1
				case same:
					ties++
					if pr.Intn(ties) == 0 {
						best = c
					}
				}
			}
			return best, found
		}
		for _, k := range kinds {
			var pool []cand
			for _, c := range cs {
				if c.kind == k {
					pool = append(pool, c)
				}
			}
			used := map[int]bool{}
			for n := 0; n < perKind; n++ {
				c, ok := choose(pool, used)
				if !ok {
					break
				}
				used[c.bi] = true
				// thorough: both variants at the first base of the stratum, alternating ones at the
				// second and third (the thorough in.txt stays < 200 MB)
				add(c, "kind", thorough && n == 0)
			}
		}
		for _, sy := range syns {
			if synDone[sy] > 0 {
				continue
			}
			var pool []cand
			for _, c := range cs {
				if c.syntax == sy {
					pool = append(pool, c)
				}
			}
			if c, ok := choose(pool, map[int]bool{}); ok {
				add(c, "syntax", thorough)
			}
		}
		for tries := 0; nOp < minPerOp && tries < 4*minPerOp; tries++ {
			add(hx.Pick(pr, cs), "top-up", false)
		}
	}
	sort.SliceStable(plan, func(i, j int) bool {
		if plan[i].Bi != plan[j].Bi {
			return plan[i].Bi < plan[j].Bi
		}
		return plan[i].Oi < plan[j].Oi
	})
	return plan, strata
}

// PlantEntry plants plan entry e (rv: the entry's own random stream).  When the site turns out
// not to be applicable it tries the other sites of the same kind and syntax in this base (alone),
// so that the stratum is not lost.
func PlantEntry(bases []Base, e PlanEntry, rv *hx.Rand, res *Result) (*Planted, bool) {
	op := BreakingOps[e.Oi]
	base := bases[e.Bi].St
	kindOnly, syn := SplitKind(e.Kind)
	p, ok := Plant(base, op, e.Site, e.Mixed, rv, res)
	if !ok {
		res.Count("not-applicable-after-all:" + op.Name)
		alts := op.Sites(base.S)
		if e.Mixed {
			alts = append([]Site{e.Site}, alts...) // first the same site, alone
		}
		for ai, alt := range alts {
			if (alt == e.Site && !(e.Mixed && ai == 0)) || op.SiteKind(base.S, alt) != kindOnly || op.SiteSyntax(base.S, alt) != syn {
				continue
			}
			if p, ok = Plant(base, op, alt, false, rv, res); ok {
				res.Count("replanted-at-alternative-site:" + op.Name)
				break
			}
		}
		if !ok {
			return nil, false
		}
	}
	p.Note = "{" + e.Kind + "} " + p.Note
	return p, true
}

// SplitKind splits a plan entry's kind "kind@syntax".
func SplitKind(k string) (kind, syntax string) {
	for i := len(k) - 1; i >= 0; i-- {
		if k[i] == '@' {
			return k[:i], k[i+1:]
		}
	}
	return k, ""
}

// PlanEntryRand is the random stream of plan entry pi (the same in every harness, so that the
// same seed yields the same planted pairs everywhere).
func PlanEntryRand(root *hx.Rand, pi int) *hx.Rand { return root.Fork(uint64(1<<41) + uint64(pi)) }
