package schemagen

// edits.go: edit operators on the schema AST (additive, cosmetic; the breaking catalogue is in
// breaking.go), the Expect / Locator language and its resolution against a compiled image.

import (
	"fmt"
	"strconv"
	"strings"

	"github.com/bufbuild/verifharness/internal/hx"
	"google.golang.org/protobuf/reflect/protoreflect"
)

const (
	Additive = iota
	Cosmetic
	Breaking
)

// ClassPackageLast is the oracle class of the known behaviour: deleting the last enum / message /
// extension of a surviving package is not reported by PACKAGE_*_NO_DELETE.
const ClassPackageLast = "C03-package-last-element-delete-unreported"

// Expect is one annotation a breaking edit must produce.
type Expect struct {
	Rule    string
	File    string // "" = annotation without file
	Locator string
	Class   string `json:",omitempty"` // overrides the oracle failure class when missed
	NewElem bool   `json:",omitempty"` // the located element is new (did not exist before)
	About   string `json:",omitempty"` // the deleted element ("msg:X" / "enum:X" / "svc:X") when the locator cannot tell
	// Absent: the rule must NOT report at this location (the documentation exempts the edit:
	// every name / the number is reserved, the number still has a value).  Only used where the
	// planted edit is the only edit the rule could be about at that location.
	Absent bool `json:",omitempty"`
}

// ObservePrefix: an Expect.Class with this prefix is only counted when the rule is missed.
const ObservePrefix = "observe:"

// ExistedBefore reports whether the element an expectation is located at existed in the
// previous schema.  Expectations about elements created by an additive edit that was mixed in
// BEFORE the planted edit are void (rules pair previous elements with current ones).
func ExistedBefore(prev *Schema, e Expect) bool {
	if e.NewElem {
		return true
	}
	loc := e.Locator
	if e.About != "" {
		loc = e.About
	}
	kind, rest, _ := strings.Cut(loc, ":")
	switch kind {
	case "svc":
		_, sv := prev.Service(rest)
		return sv != nil
	case "msg":
		full, _, _ := strings.Cut(rest, ":")
		return prev.Msg(full) != nil
	case "enum":
		full, _, _ := strings.Cut(rest, ":")
		return prev.EnumByName(full) != nil
	case "enumval":
		full, _, _ := strings.Cut(rest, "#")
		return prev.EnumByName(full) != nil
	case "ext":
		full, _, _ := strings.Cut(rest, ":")
		return prev.findExt(Site{Name: full}) != nil
	case "field":
		spec, _, _ := strings.Cut(rest, ":")
		full, ns, _ := strings.Cut(spec, "#")
		n, _ := strconv.Atoi(ns)
		ml := prev.Msg(full)
		if ml == nil {
			return false
		}
		fl, _ := ml.M.FieldByNum(n)
		return fl != nil
	}
	return true
}

// Site names the element an operator is applied to.
type Site struct {
	File, Msg, Enum, Svc, Name string
	Num                        int
}

func (s Site) String() string {
	return fmt.Sprintf("%s|%s|%s|%s|%s|%d", s.File, s.Msg, s.Enum, s.Svc, s.Name, s.Num)
}

// Op is an edit operator.  Apply mutates the schema (pass a Clone) and reports ok=false when the
// site turned out not to be applicable (the schema may then be half-edited: discard it).
type Op struct {
	Name      string
	Kind      int
	ProbeOnly bool
	Sites     func(s *Schema) []Site
	Apply     func(s *Schema, site Site, r *hx.Rand) ([]Expect, bool)
	// KindOf classifies the element a site names (syntax of its file, kind of field / message /
	// enum ...); the C03 harness plants every operator at every kind.  nil: one kind.
	KindOf func(s *Schema, site Site) string
}

// SiteKind is KindOf with the nil case.
func (op *Op) SiteKind(s *Schema, site Site) string {
	if op.KindOf == nil {
		return "-"
	}
	return op.KindOf(s, site)
}

// SiteSyntax: "p2" | "p3" | "ed" of the file the site is in.
func (op *Op) SiteSyntax(s *Schema, site Site) string {
	if f := s.File(site.File); f != nil {
		return SyntaxTag(f)
	}
	return "-"
}

// ---------------------------------------------------------------------------------------------
// lookups

func (s *Schema) File(name string) *File {
	for _, f := range s.Files {
		if f.Name == name {
			return f
		}
	}
	return nil
}

func (s *Schema) fileIndex(f *File) int {
	for i, x := range s.Files {
		if x == f {
			return i
		}
	}
	return -1
}

func (m *Message) FieldByNum(n int) (*Field, int) {
	for i, f := range m.Fields {
		if f.Num == n {
			return f, i
		}
	}
	return nil, -1
}

func (s *Schema) fieldAt(site Site) (*MsgLoc, *Field) {
	if site.Msg == "" {
		// an extension field: Site.Name is its full name
		es := s.findExt(site)
		if es == nil {
			return nil, nil
		}
		return &MsgLoc{F: es.xl.F, M: &Message{}, Ext: es}, es.fl
	}
	ml := s.Msg(site.Msg)
	if ml == nil {
		return nil, nil
	}
	fl, _ := ml.M.FieldByNum(site.Num)
	if fl == nil {
		return nil, nil
	}
	return ml, fl
}

func (m *Message) removeField(n int) {
	_, i := m.FieldByNum(n)
	if i >= 0 {
		m.Fields = append(m.Fields[:i:i], m.Fields[i+1:]...)
	}
}

func (m *Message) oneofMembers(name string) int {
	n := 0
	for _, f := range m.Fields {
		if f.Oneof == name {
			n++
		}
	}
	return n
}

func (m *Message) oneofNames() []string {
	var out []string
	seen := map[string]bool{}
	for _, f := range m.Fields {
		if f.Oneof != "" && !seen[f.Oneof] {
			seen[f.Oneof] = true
			out = append(out, f.Oneof)
		}
	}
	return out
}

func (s *Schema) Service(full string) (*File, *Service) {
	for _, f := range s.Files {
		for _, sv := range f.Services {
			if f.prefix()+sv.Name == full {
				return f, sv
			}
		}
	}
	return nil, nil
}

func (sv *Service) Method(name string) (*Method, int) {
	for i, m := range sv.Methods {
		if m.Name == name {
			return m, i
		}
	}
	return nil, -1
}

func (e *Enum) Value(name string) (*EnumValue, int) {
	for i, v := range e.Values {
		if v.Name == name {
			return v, i
		}
	}
	return nil, -1
}

func (e *Enum) countNum(n int) int {
	c := 0
	for _, v := range e.Values {
		if v.Num == n {
			c++
		}
	}
	return c
}

func isRequired(fl *Field) bool {
	return fl.Label == "required" || fl.Feature("field_presence") == "LEGACY_REQUIRED"
}

// defaultUsers: is the enum value name used as an explicit default by a field of that enum type?
func (s *Schema) usedAsDefault(enumFull, valueName string) bool {
	for _, rs := range s.Refs() {
		if rs.Fld != nil && rs.Kind == RefEnum && *rs.Ref == enumFull && rs.Fld.Default == valueName {
			return true
		}
	}
	return false
}

// RenameRefs rewrites every reference within the subtree oldRoot to newRoot.
func (s *Schema) RenameRefs(oldRoot, newRoot string) {
	for _, rs := range s.Refs() {
		if within(*rs.Ref, oldRoot) {
			*rs.Ref = newRoot + strings.TrimPrefix(*rs.Ref, oldRoot)
		}
	}
}

// package element counts (as bufprotosource sees them: nested included, map entries are messages)
func (s *Schema) pkgCounts(pkg string) (files, msgs, enums, exts int) {
	for _, f := range s.Files {
		if f.Package == pkg {
			files++
		}
	}
	for _, ml := range s.Msgs() {
		if ml.F.Package == pkg {
			msgs++
			for _, fl := range ml.M.Fields {
				if fl.MapKey != "" {
					msgs++
				}
			}
		}
	}
	for _, el := range s.EnumsAll() {
		if el.F.Package == pkg {
			enums++
		}
	}
	for _, xl := range s.ExtendsAll() {
		if xl.F.Package == pkg {
			exts += len(xl.X.Fields)
		}
	}
	return
}

// ---------------------------------------------------------------------------------------------
// expectation constructors

func num(n int) string { return strconv.Itoa(n) }

func eMsg(rule string, ml *MsgLoc, suffix string) Expect {
	return Expect{Rule: rule, File: ml.F.Name, Locator: "msg:" + ml.Full + suffix}
}
func eField(rule string, ml *MsgLoc, fl *Field, suffix string) Expect {
	if ml.Ext != nil {
		return Expect{Rule: rule, File: ml.F.Name, Locator: "ext:" + extFull(ml.Ext.xl, fl) + suffix}
	}
	return Expect{Rule: rule, File: ml.F.Name, Locator: "field:" + ml.Full + "#" + num(fl.Num) + suffix}
}
func eEnum(rule string, el *EnumLoc, suffix string) Expect {
	return Expect{Rule: rule, File: el.F.Name, Locator: "enum:" + el.Full + suffix}
}
func eFileOnly(rule string, f *File) Expect {
	return Expect{Rule: rule, File: f.Name, Locator: "fileonly:" + f.Name}
}
func eFile(rule string, f *File, suffix string) Expect {
	return Expect{Rule: rule, File: f.Name, Locator: "file:" + f.Name + ":" + suffix}
}
func eNone(rule string) Expect { return Expect{Rule: rule, Locator: "none"} }

// eDeletedIn: location of something deleted from `parent` (nil: top level of file f).
func eDeletedIn(rule string, f *File, parentFull string) Expect {
	if parentFull == "" {
		return eFileOnly(rule, f)
	}
	return Expect{Rule: rule, File: f.Name, Locator: "msg:" + parentFull}
}

// ---------------------------------------------------------------------------------------------
// Locator resolution

var fieldSuffix = map[string][]int32{
	"": nil, "type": {5}, "typename": {6}, "name": {1}, "json": {10}, "default": {7}, "label": {4},
	"jstype": {8, 6}, "ctype": {8, 1}, "feat4": {8, 21, 4}, "feat1": {8, 21, 1},
}
var msgSuffix = map[string][]int32{"": nil, "nsda": {7, 2}, "jsonformat": {7, 12, 6}}
var enumSuffix = map[string][]int32{"": nil, "enumtype": {3, 7, 2}, "jsonformat": {3, 7, 6}}
var methodSuffix = map[string][]int32{"": nil, "in": {2}, "out": {3}, "idem": {4, 34}}

// Resolved is a locator resolved against the current image.
type Resolved struct {
	File    string
	Path    string // "-" none
	AnyPath bool   // only rule+file are pinned
}

func descPath(d protoreflect.Descriptor, suffix []int32) string {
	p := d.ParentFile().SourceLocations().ByDescriptor(d).Path
	full := append(append([]int32(nil), p...), suffix...)
	return pathString(full)
}

// Resolve resolves e.Locator in the compiled current schema.
func Resolve(cur *Compiled, e Expect) (Resolved, error) {
	kind, rest, _ := strings.Cut(e.Locator, ":")
	bad := func(why string) (Resolved, error) {
		return Resolved{}, fmt.Errorf("locator %q: %s", e.Locator, why)
	}
	find := func(full string) protoreflect.Descriptor {
		d, err := cur.Files.FindDescriptorByName(protoreflect.FullName(full))
		if err != nil {
			return nil
		}
		return d
	}
	switch kind {
	case "none":
		return Resolved{File: "", Path: "-"}, nil
	case "fileonly":
		return Resolved{File: rest, Path: "-"}, nil
	case "anyin":
		return Resolved{File: rest, AnyPath: true}, nil
	case "file":
		name, suf, _ := strings.Cut(rest, ":")
		switch {
		case suf == "pkg":
			return Resolved{File: name, Path: "2"}, nil
		case suf == "syntax":
			fd, err := cur.Files.FindFileByPath(name)
			if err != nil {
				return bad("no such file")
			}
			if fd.Syntax() == protoreflect.Editions {
				return Resolved{File: name, Path: "14"}, nil
			}
			return Resolved{File: name, Path: "12"}, nil
		case strings.HasPrefix(suf, "opt"):
			return Resolved{File: name, Path: "8." + suf[3:]}, nil
		}
		return bad("suffix")
	case "msg", "enum", "svc":
		full, suf, _ := strings.Cut(rest, ":")
		d := find(full)
		if d == nil {
			return bad("not found")
		}
		tab := msgSuffix
		if kind == "enum" {
			tab = enumSuffix
		}
		sp, ok := tab[suf]
		if !ok && suf != "" {
			return bad("suffix")
		}
		return Resolved{File: d.ParentFile().Path(), Path: descPath(d, sp)}, nil
	case "field":
		spec, suf, _ := strings.Cut(rest, ":")
		full, ns, _ := strings.Cut(spec, "#")
		n, _ := strconv.Atoi(ns)
		d := find(full)
		md, ok := d.(protoreflect.MessageDescriptor)
		if !ok {
			return bad("message not found")
		}
		fd := md.Fields().ByNumber(protoreflect.FieldNumber(n))
		if fd == nil {
			return bad("field not found")
		}
		sp, ok := fieldSuffix[suf]
		if !ok {
			return bad("suffix")
		}
		return Resolved{File: fd.ParentFile().Path(), Path: descPath(fd, sp)}, nil
	case "ext":
		full, suf, _ := strings.Cut(rest, ":")
		d := find(full)
		if d == nil {
			return bad("not found")
		}
		sp, ok := fieldSuffix[suf]
		if !ok {
			return bad("suffix")
		}
		return Resolved{File: d.ParentFile().Path(), Path: descPath(d, sp)}, nil
	case "method":
		full, suf, _ := strings.Cut(rest, ":")
		d := find(full)
		if d == nil {
			return bad("not found")
		}
		sp, ok := methodSuffix[suf]
		if !ok {
			return bad("suffix")
		}
		return Resolved{File: d.ParentFile().Path(), Path: descPath(d, sp)}, nil
	case "enumval":
		spec, suf, _ := strings.Cut(rest, ":")
		full, vn, _ := strings.Cut(spec, "#")
		ed, ok := find(full).(protoreflect.EnumDescriptor)
		if !ok {
			return bad("enum not found")
		}
		vd := ed.Values().ByName(protoreflect.Name(vn))
		if vd == nil {
			return bad("value not found")
		}
		var sp []int32
		if suf == "number" {
			sp = []int32{2}
		}
		return Resolved{File: vd.ParentFile().Path(), Path: descPath(vd, sp)}, nil
	}
	return bad("kind")
}

// ---------------------------------------------------------------------------------------------
// generator context over an existing schema (for additive edits)

// newGen registers the types usable from file f without risking an import cycle: types of f
// itself and of files before it.
func newGen(s *Schema, r *hx.Rand, f *File) *gen {
	g := &gen{r: r, s: s, nMsgs: 100}
	fi := s.fileIndex(f)
	for _, ml := range s.Msgs() {
		if s.fileIndex(ml.F) <= fi {
			g.msgs = append(g.msgs, tinfo{Full: ml.Full, F: ml.F, M: ml.M})
		}
	}
	for _, el := range s.EnumsAll() {
		if s.fileIndex(el.F) <= fi {
			g.enums = append(g.enums, tinfo{Full: el.Full, F: el.F, Open: el.IsOpen(), Zero: el.E.Values[0].Num == 0, E: el.E})
		}
	}
	return g
}

// unRequire makes freshly generated fields non-required (additive edits must not add them).
func unRequire(f *File, m *Message) {
	for _, fl := range m.Fields {
		if fl.Label == "required" {
			fl.Label = "optional"
		}
		if fl.Feature("field_presence") == "LEGACY_REQUIRED" {
			fl.SetFeature("field_presence", "")
		}
		if fl.Group != nil {
			unRequire(f, fl.Group)
		}
	}
	for _, n := range m.Nested {
		unRequire(f, n)
	}
}

func msgSites(s *Schema, pred func(ml *MsgLoc) bool) []Site {
	var out []Site
	for _, ml := range s.Msgs() {
		ml := ml
		if pred == nil || pred(&ml) {
			out = append(out, Site{File: ml.F.Name, Msg: ml.Full})
		}
	}
	return out
}

func fileSites(s *Schema, pred func(f *File) bool) []Site {
	var out []Site
	for _, f := range s.Files {
		if pred == nil || pred(f) {
			out = append(out, Site{File: f.Name})
		}
	}
	return out
}

func enumSites(s *Schema, pred func(el *EnumLoc) bool) []Site {
	var out []Site
	for _, el := range s.EnumsAll() {
		el := el
		if pred == nil || pred(&el) {
			out = append(out, Site{File: el.F.Name, Enum: el.Full})
		}
	}
	return out
}

func fieldSites(s *Schema, pred func(ml *MsgLoc, fl *Field) bool) []Site {
	var out []Site
	for _, ml := range s.Msgs() {
		ml := ml
		for _, fl := range ml.M.Fields {
			if pred(&ml, fl) {
				out = append(out, Site{File: ml.F.Name, Msg: ml.Full, Num: fl.Num})
			}
		}
	}
	// extension fields (pseudo location, see MsgLoc.Ext)
	for _, es := range s.extFields() {
		es := es
		if pred(&MsgLoc{F: es.xl.F, M: &Message{}, Ext: &es}, es.fl) {
			out = append(out, Site{File: es.xl.F.Name, Name: extFull(es.xl, es.fl), Num: es.fl.Num})
		}
	}
	return out
}

// fieldSiteKind is the KindOf of the field operators.
func fieldSiteKind(s *Schema, site Site) string {
	ml, fl := s.fieldAt(site)
	if fl == nil {
		return "-"
	}
	return FieldKind(ml.F, fl, ml.Ext != nil)
}

func msgSiteKind(s *Schema, site Site) string {
	ml := s.Msg(site.Msg)
	if ml == nil {
		return "-"
	}
	switch {
	case ml.Group != nil:
		return "group-message"
	case ml.Depth >= 4:
		return "deep"
	case ml.Depth > 1:
		return "nested"
	}
	return "top"
}

func enumSiteKind(s *Schema, site Site) string {
	el := s.EnumByName(site.Enum)
	if el == nil {
		return "-"
	}
	k := "top"
	if el.Parent != nil {
		k = "nested"
	}
	if el.IsOpen() {
		return k + "/open"
	}
	return k + "/closed"
}

func hasMaxRange(m *Message) bool {
	for _, r := range m.Reserved {
		if r.Max {
			return true
		}
	}
	for _, r := range m.ExtRanges {
		if r.Max {
			return true
		}
	}
	return false
}

func additive(name string, sites func(*Schema) []Site, apply func(s *Schema, site Site, r *hx.Rand) bool) *Op {
	return &Op{Name: name, Kind: Additive, Sites: sites, Apply: func(s *Schema, site Site, r *hx.Rand) ([]Expect, bool) {
		if !apply(s, site, r) {
			return nil, false
		}
		return nil, s.WellFormed()
	}}
}

// AdditiveOps must never produce an annotation in any category / version.
var AdditiveOps = []*Op{
	additive("AddFile", func(s *Schema) []Site { return []Site{{}} }, func(s *Schema, _ Site, r *hx.Rand) bool {
		f := &File{Name: "n" + s.fresh("") + ".proto", Syntax: pickSyntax(r)}
		// an existing package or a brand-new one (never a package that existed earlier and
		// was deleted: that would undo a DeletePackage)
		pkgs := []string{"pkg.n" + num(s.Ctr)}
		for _, o := range s.Files {
			if o.Package != "" {
				pkgs = append(pkgs, o.Package)
			}
		}
		f.Package = hx.Pick(r, pkgs)
		s.Files = append(s.Files, f)
		g := newGen(s, r, f)
		g.genFileOptions(f)
		g.genFileFeatures(f)
		if r.Bool() {
			f.Enums = append(f.Enums, g.genEnum(f, f.prefix()))
		}
		g.nMsgs = 4
		m := g.genMessage(f, f.prefix(), 2)
		f.Messages = append(f.Messages, m)
		if r.Chance(1, 3) {
			f.Services = append(f.Services, g.genService(f))
		}
		return true
	}),
	additive("AddTopMessage", func(s *Schema) []Site { return fileSites(s, nil) }, func(s *Schema, site Site, r *hx.Rand) bool {
		f := s.File(site.File)
		g := newGen(s, r, f)
		g.nMsgs = 4
		m := g.genMessage(f, f.prefix(), 2)
		unRequire(f, m)
		f.Messages = append(f.Messages, m)
		return true
	}),
	additive("AddNestedMessage", func(s *Schema) []Site {
		return msgSites(s, func(ml *MsgLoc) bool { return ml.Depth < 3 && ml.Group == nil })
	}, func(s *Schema, site Site, r *hx.Rand) bool {
		ml := s.Msg(site.Msg)
		g := newGen(s, r, ml.F)
		m := g.genMessage(ml.F, ml.Full+".", 3)
		ml.M.Nested = append(ml.M.Nested, m)
		return true
	}),
	additive("AddTopEnum", func(s *Schema) []Site { return fileSites(s, nil) }, func(s *Schema, site Site, r *hx.Rand) bool {
		f := s.File(site.File)
		f.Enums = append(f.Enums, newGen(s, r, f).genEnum(f, f.prefix()))
		return true
	}),
	additive("AddNestedEnum", func(s *Schema) []Site { return msgSites(s, nil) }, func(s *Schema, site Site, r *hx.Rand) bool {
		ml := s.Msg(site.Msg)
		ml.M.Enums = append(ml.M.Enums, newGen(s, r, ml.F).genEnum(ml.F, ml.Full+"."))
		return true
	}),
	additive("AddService", func(s *Schema) []Site {
		if len(s.Msgs()) == 0 {
			return nil
		}
		return fileSites(s, func(f *File) bool { return len(newGen(s, nil, f).msgs) > 0 })
	}, func(s *Schema, site Site, r *hx.Rand) bool {
		f := s.File(site.File)
		f.Services = append(f.Services, newGen(s, r, f).genService(f))
		return true
	}),
	additive("AddRPC", func(s *Schema) []Site {
		var out []Site
		for _, f := range s.Files {
			for _, sv := range f.Services {
				if len(newGen(s, nil, f).msgs) > 0 {
					out = append(out, Site{File: f.Name, Svc: f.prefix() + sv.Name})
				}
			}
		}
		return out
	}, func(s *Schema, site Site, r *hx.Rand) bool {
		f, sv := s.Service(site.Svc)
		m := newGen(s, r, f).genMethod()
		sv.Methods = append(sv.Methods, m)
		if r.Bool() && len(sv.Methods) > 1 { // not necessarily last
			i := r.Intn(len(sv.Methods))
			sv.Methods[i], sv.Methods[len(sv.Methods)-1] = sv.Methods[len(sv.Methods)-1], sv.Methods[i]
		}
		return true
	}),
	additive("AddOneof", func(s *Schema) []Site { return msgSites(s, nil) }, func(s *Schema, site Site, r *hx.Rand) bool {
		ml := s.Msg(site.Msg)
		g := newGen(s, r, ml.F)
		oo := "choice_" + s.fresh("")
		n := 1 + r.Intn(3)
		for i := 0; i < n; i++ {
			fl := g.genField(ml.F, ml.M, ml.Full+".", 3, true)
			fl.Oneof = oo
			ml.M.Fields = append(ml.M.Fields, fl)
		}
		return true
	}),
	additive("AddReservedRange", func(s *Schema) []Site { return msgSites(s, nil) }, func(s *Schema, site Site, r *hx.Rand) bool {
		m := s.Msg(site.Msg).M
		lo := m.nextNum(r)
		hi := lo + r.Intn(3)
		if lo < 19000 && hi >= 19000 {
			hi = lo
		}
		m.HiNum = hi
		m.Reserved = append(m.Reserved, Range{Lo: lo, Hi: hi})
		return true
	}),
	additive("AddReservedMax", func(s *Schema) []Site {
		return msgSites(s, func(ml *MsgLoc) bool { return !hasMaxRange(ml.M) })
	}, func(s *Schema, site Site, r *hx.Rand) bool {
		m := s.Msg(site.Msg).M
		m.Reserved = append(m.Reserved, Range{Lo: 300000000 + r.Intn(9), Hi: 536870911, Max: true})
		return true
	}),
	additive("AddReservedName", func(s *Schema) []Site { return msgSites(s, nil) }, func(s *Schema, site Site, r *hx.Rand) bool {
		m := s.Msg(site.Msg).M
		m.ReservedNames = append(m.ReservedNames, "rsv_"+s.fresh(""))
		return true
	}),
	additive("AddEnumReservedRange", func(s *Schema) []Site { return enumSites(s, nil) }, func(s *Schema, site Site, r *hx.Rand) bool {
		e := s.EnumByName(site.Enum).E
		if r.Chance(1, 3) {
			e.LoNum -= 1 + r.Intn(3)
			lo := e.LoNum - r.Intn(3)
			e.Reserved = append(e.Reserved, Range{Lo: lo, Hi: e.LoNum})
			e.LoNum = lo
			return true
		}
		lo := e.nextNum(nil) + r.Intn(2)
		hi := lo + r.Intn(3)
		e.HiNum = hi
		e.Reserved = append(e.Reserved, Range{Lo: lo, Hi: hi})
		return true
	}),
	additive("AddEnumReservedName", func(s *Schema) []Site { return enumSites(s, nil) }, func(s *Schema, site Site, r *hx.Rand) bool {
		e := s.EnumByName(site.Enum).E
		e.ReservedNames = append(e.ReservedNames, upper(e.Name)+"_RSV"+s.fresh(""))
		return true
	}),
	additive("AddEnumValue", func(s *Schema) []Site { return enumSites(s, nil) }, func(s *Schema, site Site, r *hx.Rand) bool {
		e := s.EnumByName(site.Enum).E
		v := &EnumValue{Name: upper(e.Name) + "_" + hx.Pick(r, valueWords) + s.fresh(""), Num: e.nextNum(r)}
		pos := 1 + r.Intn(len(e.Values)) // never first
		e.Values = append(e.Values, nil)
		copy(e.Values[pos+1:], e.Values[pos:])
		e.Values[pos] = v
		return true
	}),
	// a further name for an existing number is compatible: ENUM_VALUE_SAME_NAME only demands
	// that the previous names survive
	additive("AddEnumAlias", func(s *Schema) []Site { return enumSites(s, nil) }, func(s *Schema, site Site, r *hx.Rand) bool {
		e := s.EnumByName(site.Enum).E
		v := hx.Pick(r, e.Values)
		e.AllowAlias = true
		e.Values = append(e.Values, &EnumValue{Name: upper(e.Name) + "_AKA" + s.fresh(""), Num: v.Num})
		return true
	}),
	{Name: "AddEnumValueFirst", Kind: Additive, ProbeOnly: true, Sites: func(s *Schema) []Site {
		// closed proto2 enums used as a field type without explicit default
		return enumSites(s, func(el *EnumLoc) bool {
			if !el.F.IsProto2() {
				return false
			}
			for _, rs := range s.Refs() {
				if rs.Fld != nil && *rs.Ref == el.Full && rs.Fld.MapKey != "" {
					return false
				}
			}
			for _, rs := range s.Refs() {
				if rs.Fld != nil && rs.Kind == RefEnum && *rs.Ref == el.Full && rs.Fld.Default == "" &&
					rs.Fld.Label != "repeated" && rs.Fld.MapKey == "" {
					return true
				}
			}
			return false
		})
	}, Apply: func(s *Schema, site Site, r *hx.Rand) ([]Expect, bool) {
		e := s.EnumByName(site.Enum).E
		v := &EnumValue{Name: upper(e.Name) + "_HEAD" + s.fresh(""), Num: e.nextNum(nil)}
		e.Values = append([]*EnumValue{v}, e.Values...)
		return nil, true
	}},
	additive("AddField", func(s *Schema) []Site { return msgSites(s, nil) }, func(s *Schema, site Site, r *hx.Rand) bool {
		ml := s.Msg(site.Msg)
		g := newGen(s, r, ml.F)
		fl := g.genField(ml.F, ml.M, ml.Full+".", 3, false)
		if fl.Label == "required" {
			fl.Label = "optional"
		}
		if fl.Feature("field_presence") == "LEGACY_REQUIRED" {
			fl.SetFeature("field_presence", "")
		}
		pos := r.Intn(len(ml.M.Fields) + 1)
		// keep oneof members contiguous: never insert between two members of the same oneof
		if pos > 0 && pos < len(ml.M.Fields) && ml.M.Fields[pos-1].Oneof != "" && ml.M.Fields[pos-1].Oneof == ml.M.Fields[pos].Oneof {
			pos = len(ml.M.Fields)
		}
		ml.M.Fields = append(ml.M.Fields, nil)
		copy(ml.M.Fields[pos+1:], ml.M.Fields[pos:])
		ml.M.Fields[pos] = fl
		return true
	}),
	// a new field of a chosen KIND (every shape x type the syntax of the file allows, except
	// required and extension: see zooCombos)
	additive("AddFieldOfKind", func(s *Schema) []Site { return msgSites(s, nil) }, func(s *Schema, site Site, r *hx.Rand) bool {
		ml := s.Msg(site.Msg)
		g := newGen(s, r, ml.F)
		var combos [][2]string
		for _, c := range zooCombos(FlavourOf(ml.F)) {
			if c[0] != "required" && c[0] != "ext" && c[0] != "extrepeated" {
				combos = append(combos, c)
			}
		}
		c := hx.Pick(r, combos)
		var leafs []string
		for _, t := range g.msgs {
			leafs = append(leafs, t.Full)
		}
		enumFull := ""
		if e := g.pickEnum(ml.F, true); e != nil {
			enumFull = e.Full
		}
		if c[1] == "enum" && enumFull == "" {
			c[1] = "scalar"
		}
		if c[1] != "scalar" && c[1] != "enum" && c[1] != "group" && len(leafs) == 0 {
			return false
		}
		fl := g.kindField(ml.F, ml.M, ml.Full, c[0], c[1], leafs, enumFull)
		if c[0] == "oneof" {
			if names := ml.M.oneofNames(); len(names) > 0 && r.Bool() {
				fl.Oneof = hx.Pick(r, names)
				// keep the members contiguous: insert after the last member
				last := -1
				for i, o := range ml.M.Fields {
					if o.Oneof == fl.Oneof {
						last = i
					}
				}
				ml.M.Fields = append(ml.M.Fields, nil)
				copy(ml.M.Fields[last+2:], ml.M.Fields[last+1:])
				ml.M.Fields[last+1] = fl
				return true
			}
			fl.Oneof = "choice_" + s.fresh("")
		}
		ml.M.Fields = append(ml.M.Fields, fl)
		return true
	}),
	additive("AddFieldToOneof", func(s *Schema) []Site {
		return msgSites(s, func(ml *MsgLoc) bool { return len(ml.M.oneofNames()) > 0 })
	}, func(s *Schema, site Site, r *hx.Rand) bool {
		ml := s.Msg(site.Msg)
		g := newGen(s, r, ml.F)
		fl := g.genField(ml.F, ml.M, ml.Full+".", 3, true)
		fl.Oneof = hx.Pick(r, ml.M.oneofNames())
		ml.M.Fields = append(ml.M.Fields, fl)
		return true
	}),
	additive("AddExtensionRange", func(s *Schema) []Site {
		return msgSites(s, func(ml *MsgLoc) bool { return !ml.F.IsProto3() })
	}, func(s *Schema, site Site, r *hx.Rand) bool {
		m := s.Msg(site.Msg).M
		lo := roundUp(m.HiNum+1, 10)
		if lo >= 19000 && lo <= 19999 {
			lo = 20000
		}
		m.ExtRanges = append(m.ExtRanges, Range{Lo: lo, Hi: lo + 9})
		m.HiNum = lo + 9
		return true
	}),
	additive("AddExtension", func(s *Schema) []Site {
		return fileSites(s, func(f *File) bool { return !f.IsProto3() && len(newGen(s, nil, f).extendable()) > 0 })
	}, func(s *Schema, site Site, r *hx.Rand) bool {
		f := s.File(site.File)
		g := newGen(s, r, f)
		x := g.genExtend(f, hx.Pick(r, g.extendable()))
		if x == nil {
			return false
		}
		if len(f.Messages) > 0 && r.Chance(1, 3) {
			host := hx.Pick(r, f.Messages)
			host.Extends = append(host.Extends, x)
		} else {
			f.Extends = append(f.Extends, x)
		}
		return true
	}),
}

// ---------------------------------------------------------------------------------------------
// cosmetic operators work on (schema, knobs)

// State is a schema together with the knobs it is rendered with.
type State struct {
	S *Schema
	K Knobs
}

func (st State) Sources() map[string]string { return Render(st.S, st.K) }

var CosmeticOpNames = []string{"Rerender", "ReorderDecls", "SyntaxLineProto2", "RegroupRanges", "RespellDefaults"}

// respellDefaults rewrites the default literals of the schema in another spelling of the same
// value (hex / octal integers, other float notation, values equal after rounding to the field's
// float width, other quoting / escapes of strings and bytes).
func respellDefaults(r *hx.Rand, s *Schema) bool {
	hit := false
	one := func(fl *Field) {
		if fl.Default == "" || fl.Ref != RefScalar || fl.Group != nil {
			return
		}
		if d, ok := RespellDefault(r, fl.Type, fl.Default); ok {
			fl.Default, hit = d, true
		}
	}
	for _, ml := range s.Msgs() {
		for _, fl := range ml.M.Fields {
			one(fl)
		}
	}
	for _, es := range s.extFields() {
		one(es.fl)
	}
	return hit
}

// regroup re-expresses a list of number ranges without changing the set of numbers: a range is
// split into two adjacent ones, or two adjacent ranges are merged (tag_ranges.go collapses
// adjacent ranges before looking for missing numbers).
func regroup(r *hx.Rand, rs []Range) ([]Range, bool) {
	var splittable, mergeable []int
	for i, rg := range rs {
		if rg.Hi > rg.Lo && !rg.Max {
			splittable = append(splittable, i)
		}
		if i+1 < len(rs) && !rg.Max && rs[i+1].Lo == rg.Hi+1 {
			mergeable = append(mergeable, i)
		}
	}
	switch {
	case len(mergeable) > 0 && (len(splittable) == 0 || r.Bool()):
		i := hx.Pick(r, mergeable)
		out := append([]Range(nil), rs[:i]...)
		out = append(out, Range{Lo: rs[i].Lo, Hi: rs[i+1].Hi, Max: rs[i+1].Max})
		return append(out, rs[i+2:]...), true
	case len(splittable) > 0:
		i := hx.Pick(r, splittable)
		mid := rs[i].Lo + r.Intn(rs[i].Hi-rs[i].Lo)
		out := append([]Range(nil), rs[:i]...)
		out = append(out, Range{Lo: rs[i].Lo, Hi: mid}, Range{Lo: mid + 1, Hi: rs[i].Hi})
		return append(out, rs[i+1:]...), true
	}
	return rs, false
}

func shuffleMsg(r *hx.Rand, m *Message) {
	hx.Shuffle(r, m.Nested)
	hx.Shuffle(r, m.Enums)
	hx.Shuffle(r, m.Extends)
	for _, n := range m.Nested {
		shuffleMsg(r, n)
	}
}

// ApplyCosmetic returns a state that is the same schema for the detector.
func ApplyCosmetic(st State, r *hx.Rand) (State, string) {
	if r.Chance(1, 5) {
		s := st.S.Clone()
		if respellDefaults(r, s) {
			return State{S: s, K: st.K}, "RespellDefaults"
		}
	}
	if r.Chance(1, 5) {
		s := st.S.Clone()
		hit := false
		for _, ml := range s.Msgs() {
			var ok bool
			if ml.M.Reserved, ok = regroup(r, ml.M.Reserved); ok {
				hit = true
			}
			if ml.M.ExtRanges, ok = regroup(r, ml.M.ExtRanges); ok {
				hit = true
			}
		}
		for _, el := range s.EnumsAll() {
			var ok bool
			if el.E.Reserved, ok = regroup(r, el.E.Reserved); ok {
				hit = true
			}
		}
		if hit {
			return State{S: s, K: st.K}, "RegroupRanges"
		}
	}
	switch r.Intn(5) {
	case 0, 1:
		return State{S: st.S, K: RandKnobs(r)}, "Rerender"
	case 2, 3:
		s := st.S.Clone()
		for _, f := range s.Files {
			hx.Shuffle(r, f.Messages)
			hx.Shuffle(r, f.Enums)
			hx.Shuffle(r, f.Services)
			hx.Shuffle(r, f.Extends)
			hx.Shuffle(r, f.Options)
			for _, m := range f.Messages {
				shuffleMsg(r, m)
			}
		}
		return State{S: s, K: st.K}, "ReorderDecls"
	}
	s := st.S.Clone()
	hit := false
	for _, f := range s.Files {
		switch f.Syntax {
		case "":
			f.Syntax, hit = "proto2", true
		case "proto2":
			f.Syntax, hit = "", true
		}
	}
	if !hit {
		return State{S: st.S, K: RandKnobs(r)}, "Rerender"
	}
	return State{S: s, K: st.K}, "SyntaxLineProto2"
}

// ApplyRandom applies one random applicable operator from ops to a clone of s.
func ApplyRandom(s *Schema, ops []*Op, r *hx.Rand) (*Schema, *Op, Site, []Expect, bool) {
	for try := 0; try < 8; try++ {
		op := hx.Pick(r, ops)
		if op.ProbeOnly {
			continue
		}
		sites := op.Sites(s)
		if len(sites) == 0 {
			continue
		}
		site := hx.Pick(r, sites)
		c := s.Clone()
		exp, ok := op.Apply(c, site, r)
		if ok {
			return c, op, site, exp, true
		}
	}
	return s, nil, Site{}, nil, false
}
