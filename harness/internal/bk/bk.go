// Package bk has the bucket-history machinery shared by the C13 and C14 harnesses:
// op encoding for the line protocol, running a history against a real bucket, error classes.
package bk

import (
	"context"
	"errors"
	"io"
	"io/fs"
	"sort"
	"strings"

	"github.com/bufbuild/buf/private/pkg/storage"
	"github.com/bufbuild/verifharness/internal/hx"
)

// Op is one bucket operation. Kind: g s w p d D.
type Op struct {
	Kind    byte
	Path    string
	Content string
}

func (o Op) Enc() string {
	if o.Kind == 'p' {
		return "p:" + hx.Enc(o.Path) + ":" + o.Content
	}
	return string(o.Kind) + ":" + hx.Enc(o.Path)
}

func EncOps(ops []Op) string {
	if len(ops) == 0 {
		return "-"
	}
	parts := make([]string, len(ops))
	for i, o := range ops {
		parts[i] = o.Enc()
	}
	return strings.Join(parts, ";")
}

// ErrClass maps an error of the storage package to the model's small enum.
func ErrClass(err error) string {
	if err == nil {
		return "ok"
	}
	msg := err.Error()
	switch {
	case errors.Is(err, fs.ErrNotExist):
		return "err:not-exist"
	case strings.HasSuffix(msg, "expected to be relative"):
		return "err:not-relative"
	case strings.HasSuffix(msg, "is outside the context directory"):
		return "err:outside-context"
	case msg == "cannot use root" || msg == "cannot get root":
		return "err:root"
	case strings.HasPrefix(msg, "path does not match"):
		return "err:no-match"
	case storage.IsExistsMultipleLocations(err):
		return "err:multiple"
	default:
		return "err:other"
	}
}

type KV struct{ K, V string }

// ErrRootObject: a walk reported an object whose path is "." (view rooted at a file).
var ErrRootObject = errors.New("walk reported the view root itself as an object")

func Dump(kvs []KV) string {
	sort.SliceStable(kvs, func(i, j int) bool { return hx.Enc(kvs[i].K) < hx.Enc(kvs[j].K) })
	parts := make([]string, len(kvs))
	for i, kv := range kvs {
		parts[i] = hx.Enc(kv.K) + "=" + kv.V
	}
	return strings.Join(parts, ",")
}

func ReadAll(ctx context.Context, b storage.ReadBucket, path string) (string, error) {
	r, err := b.Get(ctx, path)
	if err != nil {
		return "", err
	}
	data, err := io.ReadAll(r)
	cerr := r.Close()
	if err != nil {
		return "", err
	}
	if cerr != nil {
		return "", cerr
	}
	return string(data), nil
}

// WalkAll returns every (path, content) under prefix as the bucket reports them
// (duplicates are kept so "each once" is visible).
func WalkAll(ctx context.Context, b storage.ReadBucket, prefix string) ([]KV, error) {
	var paths []string
	if err := b.Walk(ctx, prefix, func(oi storage.ObjectInfo) error {
		paths = append(paths, oi.Path())
		return nil
	}); err != nil {
		return nil, err
	}
	for _, p := range paths {
		if p == "." {
			// a prefix view rooted AT a file reports that file as object "." which no Get can
			// read back; callers drop such reads from the history
			return nil, ErrRootObject
		}
	}
	out := make([]KV, 0, len(paths))
	for _, p := range paths {
		c, err := ReadAll(ctx, b, p)
		if err != nil {
			return nil, err
		}
		out = append(out, KV{p, c})
	}
	return out, nil
}

func PutString(ctx context.Context, b storage.WriteBucket, path, content string, opts ...storage.PutOption) error {
	w, err := b.Put(ctx, path, opts...)
	if err != nil {
		return err
	}
	_, werr := w.Write([]byte(content))
	cerr := w.Close()
	if werr != nil {
		return werr
	}
	return cerr
}

// Apply runs one op on a view and returns the canonical result string.
func Apply(ctx context.Context, r storage.ReadBucket, w storage.WriteBucket, o Op) string {
	switch o.Kind {
	case 'g':
		c, err := ReadAll(ctx, r, o.Path)
		if err != nil {
			return ErrClass(err)
		}
		return "ok:" + c
	case 's':
		_, err := r.Stat(ctx, o.Path)
		return ErrClass(err)
	case 'w':
		kvs, err := WalkAll(ctx, r, o.Path)
		if err != nil {
			return ErrClass(err)
		}
		return "ok:" + Dump(kvs)
	case 'p':
		if w == nil {
			return "err:other"
		}
		return ErrClass(PutString(ctx, w, o.Path, o.Content))
	case 'd':
		if w == nil {
			return "err:other"
		}
		return ErrClass(w.Delete(ctx, o.Path))
	case 'D':
		if w == nil {
			return "err:other"
		}
		return ErrClass(w.DeleteAll(ctx, o.Path))
	}
	return "bad-op"
}
