module github.com/bufbuild/verifharness

go 1.23.4

toolchain go1.24.2

require (
	github.com/bufbuild/buf v0.0.0
	github.com/klauspost/compress v1.18.0
)

replace github.com/bufbuild/buf => /repo
