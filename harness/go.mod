module github.com/bufbuild/verifharness

go 1.23.4

toolchain go1.24.2

require (
	buf.build/gen/go/bufbuild/bufplugin/protocolbuffers/go v1.36.6-20250121211742-6d880cc6cc8d.1
	buf.build/go/bufplugin v0.8.0
	buf.build/go/protoyaml v0.3.2
	connectrpc.com/connect v1.18.1
	github.com/bufbuild/buf v0.0.0
	github.com/bufbuild/protocompile v0.14.1
	github.com/bufbuild/protoplugin v0.0.0-20250218205857-750e09ce93e1
	github.com/google/uuid v1.6.0
	github.com/klauspost/compress v1.18.0
	golang.org/x/crypto v0.37.0
	golang.org/x/text v0.24.0
	google.golang.org/protobuf v1.36.6
	gopkg.in/yaml.v3 v3.0.1
	pluginrpc.com/pluginrpc v0.5.0
)

require (
	buf.build/gen/go/bufbuild/protovalidate/protocolbuffers/go v1.36.6-20250307204501-0409229c3780.1 // indirect
	buf.build/gen/go/bufbuild/registry/connectrpc/go v1.18.1-20250408145534-f5ce355693bb.1 // indirect
	buf.build/gen/go/bufbuild/registry/protocolbuffers/go v1.36.6-20250408145534-f5ce355693bb.1 // indirect
	buf.build/gen/go/pluginrpc/pluginrpc/protocolbuffers/go v1.36.6-20241007202033-cf42259fcbfc.1 // indirect
	buf.build/go/spdx v0.2.0 // indirect
	cel.dev/expr v0.23.1 // indirect
	connectrpc.com/otelconnect v0.7.2 // indirect
	github.com/antlr4-go/antlr/v4 v4.13.1 // indirect
	github.com/bufbuild/protovalidate-go v0.9.3 // indirect
	github.com/cpuguy83/go-md2man/v2 v2.0.6 // indirect
	github.com/felixge/fgprof v0.9.5 // indirect
	github.com/go-logr/logr v1.4.2 // indirect
	github.com/go-logr/stdr v1.2.2 // indirect
	github.com/gofrs/flock v0.12.1 // indirect
	github.com/google/cel-go v0.24.1 // indirect
	github.com/google/pprof v0.0.0-20250403155104-27863c87afa6 // indirect
	github.com/jdx/go-netrc v1.0.0 // indirect
	github.com/klauspost/pgzip v1.2.6 // indirect
	github.com/mattn/go-isatty v0.0.20 // indirect
	github.com/pkg/profile v1.7.0 // indirect
	github.com/russross/blackfriday/v2 v2.1.0 // indirect
	github.com/spf13/cobra v1.9.1 // indirect
	github.com/spf13/pflag v1.0.6 // indirect
	github.com/stoewer/go-strcase v1.3.0 // indirect
	github.com/tetratelabs/wazero v1.9.0 // indirect
	go.opentelemetry.io/auto/sdk v1.1.0 // indirect
	go.opentelemetry.io/otel v1.35.0 // indirect
	go.opentelemetry.io/otel/metric v1.35.0 // indirect
	go.opentelemetry.io/otel/trace v1.35.0 // indirect
	golang.org/x/exp v0.0.0-20250408133849-7e4ce0ab07d0 // indirect
	golang.org/x/mod v0.24.0 // indirect
	golang.org/x/sync v0.13.0 // indirect
	golang.org/x/sys v0.32.0 // indirect
	golang.org/x/term v0.31.0 // indirect
	google.golang.org/genproto/googleapis/api v0.0.0-20250409194420-de1ac958c67a // indirect
	google.golang.org/genproto/googleapis/rpc v0.0.0-20250409194420-de1ac958c67a // indirect
	github.com/containerd/log v0.1.0 // indirect
	github.com/containerd/stargz-snapshotter/estargz v0.16.3 // indirect
	github.com/distribution/reference v0.6.0 // indirect
	github.com/docker/cli v28.0.4+incompatible // indirect
	github.com/docker/distribution v2.8.3+incompatible // indirect
	github.com/docker/docker v28.0.4+incompatible // indirect
	github.com/docker/docker-credential-helpers v0.9.3 // indirect
	github.com/docker/go-connections v0.5.0 // indirect
	github.com/docker/go-units v0.5.0 // indirect
	github.com/felixge/httpsnoop v1.0.4 // indirect
	github.com/go-chi/chi/v5 v5.2.1 // indirect
	github.com/gogo/protobuf v1.3.2 // indirect
	github.com/google/go-containerregistry v0.20.3 // indirect
	github.com/mitchellh/go-homedir v1.1.0 // indirect
	github.com/moby/docker-image-spec v1.3.1 // indirect
	github.com/moby/locker v1.0.1 // indirect
	github.com/moby/patternmatcher v0.6.0 // indirect
	github.com/moby/sys/mount v0.3.4 // indirect
	github.com/moby/sys/mountinfo v0.7.2 // indirect
	github.com/moby/sys/sequential v0.6.0 // indirect
	github.com/moby/sys/user v0.4.0 // indirect
	github.com/moby/sys/userns v0.1.0 // indirect
	github.com/moby/term v0.5.2 // indirect
	github.com/morikuni/aec v1.0.0 // indirect
	github.com/opencontainers/go-digest v1.0.0 // indirect
	github.com/opencontainers/image-spec v1.1.1 // indirect
	github.com/pkg/browser v0.0.0-20240102092130-5ac0b6a4141c // indirect
	github.com/pkg/errors v0.9.1 // indirect
	github.com/quic-go/qpack v0.5.1 // indirect
	github.com/quic-go/quic-go v0.50.1 // indirect
	github.com/rs/cors v1.11.1 // indirect
	github.com/segmentio/asm v1.2.0 // indirect
	github.com/segmentio/encoding v0.4.1 // indirect
	github.com/sirupsen/logrus v1.9.3 // indirect
	github.com/vbatts/tar-split v0.12.1 // indirect
	go.lsp.dev/jsonrpc2 v0.10.0 // indirect
	go.lsp.dev/pkg v0.0.0-20210717090340-384b27a52fb2 // indirect
	go.lsp.dev/protocol v0.12.0 // indirect
	go.lsp.dev/uri v0.3.0 // indirect
	go.opentelemetry.io/contrib/instrumentation/net/http/otelhttp v0.60.0 // indirect
	go.uber.org/multierr v1.11.0 // indirect
	go.uber.org/zap v1.27.0 // indirect
	go.uber.org/zap/exp v0.3.0 // indirect
	golang.org/x/net v0.39.0 // indirect
)

replace github.com/bufbuild/buf => /repo
