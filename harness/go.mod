module github.com/bufbuild/verifharness

go 1.23.4

toolchain go1.24.2

require (
	github.com/bufbuild/buf v0.0.0
	github.com/klauspost/compress v1.18.0
)

require (
	github.com/bufbuild/protocompile v0.14.1 // indirect
	github.com/google/uuid v1.6.0 // indirect
	golang.org/x/crypto v0.37.0 // indirect
	golang.org/x/mod v0.24.0 // indirect
	golang.org/x/sys v0.32.0 // indirect
	google.golang.org/protobuf v1.36.6 // indirect
	gopkg.in/yaml.v3 v3.0.1 // indirect
)

replace github.com/bufbuild/buf => /repo
