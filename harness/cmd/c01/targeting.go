package main

// Sections E and F: WHICH files are targeted.
//
// Section E — the NAMES family.  Trees whose directory and file names are hostile to any
// shortcut that looks at strings instead of path components: directories called `x.proto`,
// `.proto`, `b.proto.d` next to a file `b.proto`, names that are string prefixes of each other
// (`a`, `ab`, `a.proto`, `a.proto/b.proto`), names with spaces, dots, quotes and non-ASCII
// letters; --path / --exclude-path values naming files, directories, near misses (`a/b` for
// `a/bc`, `a.proto` for `a`) and things that do not exist.
//   E-mem   in memory through ModuleSetBuilder + LocalModuleWithTargetPaths  (`img` line)
//   E-disk  a v2 / v1 workspace on disk through buftarget + bufworkspace        (`wst` line)
//   E-cli   the same trees through the real binary: buf build / ls-files / lint with the values
//           spelled with trailing slash, `./`, `//`, absolute and `../x/` detours
//
// Section F — the SELECTION family.  Workspaces of 2-4 module directories (v2 buf.yaml or
// buf.work.yaml + v1), one `buf build <input> --path … --exclude-path …`: every assignment of
// {nothing, --path, --exclude-path, both} to the modules (stratified for 2 and 3 modules), values
// that are files / directories / missing inside a module, a module root, a directory above
// several modules, a directory outside all modules, excludes covering a whole module; input `.`
// or one module.  In process (`wst` line) and through the real binary.
//
// Oracle (both sections): the target set is computed here from the file tree by PATH-COMPONENT
// prefix, independently of normalpath and of the Lean model: a module receives the values lying
// strictly below its root; it is targeted iff no --path was given or it received one; its
// excludes count only if it is targeted.  The image must be exactly those files plus the closure
// of their imports (import flags, order); a valid selection never fails, least of all with a
// system error.

import (
	"encoding/json"
	"errors"
	"fmt"
	"os"
	"os/exec"
	"path/filepath"
	"sort"
	"strconv"
	"strings"
	"sync"

	imagev1 "github.com/bufbuild/buf/private/gen/proto/go/buf/alpha/image/v1"
	"github.com/bufbuild/buf/private/bufpkg/bufmodule"
	"github.com/bufbuild/buf/private/gen/data/datawkt"
	"github.com/bufbuild/buf/private/pkg/syserror"
	"github.com/bufbuild/verifharness/internal/hx"
	"github.com/bufbuild/verifharness/internal/wsgen"
	"google.golang.org/protobuf/proto"
)

// ---------------------------------------------------------------------------------------------
// name pools

var nameDirs = []string{
	"a", "ab", "a.proto", "ab.proto", ".proto", "v1.proto", "x.proto", "b.proto.d", "b.proto", "sp ace", "ü", "日本",
	"a.b", "..a", "a..", "...", "_", "A", "a-b", "a'b", "é", "é", "%41", "a b.proto", "proto", "a.protox", "v1", "v10",
}

var nameStems = []string{"a", "ab", "b", "x", "", ".", "s p", "ü", "a.b", "a.proto", "A", "v1", "c", "日本"}

func sanitizeKey(p string) string {
	var b strings.Builder
	for _, c := range p {
		if (c >= 'a' && c <= 'z') || (c >= 'A' && c <= 'Z') || (c >= '0' && c <= '9') {
			b.WriteRune(c)
		} else {
			b.WriteByte('_')
		}
	}
	return b.String()
}

// treeOK: p can join the tree (no path is a directory of another, symbols stay distinct).
func treeOK(files []string, p string) bool {
	if len(p) > 120 {
		return false
	}
	for _, c := range strings.Split(p, "/") {
		if c == "" || c == "." || c == ".." {
			return false
		}
	}
	if strings.HasPrefix(p, "google/") {
		return false
	}
	for _, q := range files {
		if q == p || strings.HasPrefix(q, p+"/") || strings.HasPrefix(p, q+"/") {
			return false
		}
		// generated symbols are functions of the sanitized path; the file system may fold nothing
		if sanitizeKey(q) == sanitizeKey(p) {
			return false
		}
	}
	return true
}

// genNamesTree returns 3-8 file paths.
func genNamesTree(r *hx.Rand) []string {
	var files []string
	n := 3 + r.Intn(6)
	for tries := 0; len(files) < n && tries < 80; tries++ {
		var p string
		if len(files) > 0 && r.Chance(2, 5) {
			// a relative of an existing path
			q := hx.Pick(r, files)
			comps := strings.Split(q, "/")
			name := comps[len(comps)-1]
			dirs := comps[:len(comps)-1]
			switch r.Intn(7) {
			case 0: // a directory whose name continues the name of a sibling directory: a -> ab
				if len(dirs) > 0 {
					i := r.Intn(len(dirs))
					d := append([]string{}, dirs...)
					d[i] += hx.Pick(r, []string{"b", "0", ".proto", ".d", " "})
					p = strings.Join(append(d, name), "/")
				}
			case 1: // a directory named after the FILE: a/b.proto -> a/b.proto.d/c.proto
				p = q + hx.Pick(r, []string{".d", "x", ".proto"}) + "/" + hx.Pick(r, nameStems) + ".proto"
			case 2: // a file named after the DIRECTORY: a/x.proto -> a.proto
				if len(dirs) > 0 {
					p = strings.Join(dirs, "/") + ".proto"
				}
			case 3: // a shorter sibling: ab -> a
				if len(dirs) > 0 {
					i := r.Intn(len(dirs))
					if rs := []rune(dirs[i]); len(rs) > 1 {
						d := append([]string{}, dirs...)
						d[i] = string(rs[:len(rs)-1])
						p = strings.Join(append(d, name), "/")
					}
				}
			case 4: // another file of the same directory
				p = strings.Join(append(append([]string{}, dirs...), hx.Pick(r, nameStems)+".proto"), "/")
			case 5: // a file whose name continues the file's name: b.proto -> b.proto.proto, bb.proto
				p = strings.Join(append(append([]string{}, dirs...), strings.TrimSuffix(name, ".proto")+hx.Pick(r, []string{".proto.proto", "b.proto", "..proto"})), "/")
			default: // deeper below the same directory
				p = strings.Join(append(append([]string{}, dirs...), hx.Pick(r, nameDirs), hx.Pick(r, nameStems)+".proto"), "/")
			}
		} else {
			var comps []string
			for d := r.Intn(3); d > 0; d-- {
				comps = append(comps, hx.Pick(r, nameDirs))
			}
			comps = append(comps, hx.Pick(r, nameStems)+".proto")
			p = strings.Join(comps, "/")
		}
		if p != "" && treeOK(files, p) {
			files = append(files, p)
		}
	}
	return files
}

// genImports wires the files (given in generation order over all modules) into a DAG.
func genImports(r *hx.Rand, mods [][]*wsgen.File) {
	var order []*wsgen.File
	for _, m := range mods {
		order = append(order, m...)
	}
	hx.Shuffle(r, order)
	for i, f := range order {
		f.Syntax = hx.Pick(r, []int{wsgen.SynProto3, wsgen.SynProto3, wsgen.SynProto2, wsgen.SynNone, wsgen.SynEdition})
		seen := map[string]bool{}
		for k := r.Intn(3); k > 0 && i > 0; k-- {
			imp := wsgen.Imp{Path: order[r.Intn(i)].Path}
			if r.Chance(1, 8) {
				imp.Path = hx.Pick(r, []string{"google/protobuf/empty.proto", "google/protobuf/timestamp.proto", "google/protobuf/any.proto"})
			}
			if seen[imp.Path] {
				continue
			}
			seen[imp.Path] = true
			switch r.Intn(8) {
			case 0, 1:
				imp.Unused = true
			case 2:
				imp.Public = true
			case 3:
				imp.Weak = true
			case 4:
				imp.Unused, imp.Public = true, true
			case 5:
				imp.Unused, imp.Weak = true, true
			}
			f.Imports = append(f.Imports, imp)
		}
	}
}

// selCandidates: what a user may name inside one module: files, directories, near misses.
func selCandidates(r *hx.Rand, files []wsgen.File) (real, miss []string) {
	set := map[string]bool{}
	for _, f := range files {
		set[f.Path] = true
		for _, d := range parentDirsOf(f.Path) {
			set[d] = true
		}
	}
	for p := range set {
		real = append(real, p)
	}
	sort.Strings(real)
	mset := map[string]bool{}
	for _, p := range real {
		rs := []rune(p)
		for _, m := range []string{p + "b", p + ".proto", p + "/nosuch", p + ".d", strings.TrimSuffix(p, ".proto"), string(rs[:len(rs)-1])} {
			if m != "" && !set[m] && !strings.HasSuffix(m, "/") && !strings.HasSuffix(m, "/.") && !strings.HasSuffix(m, "/..") && m != "." && m != ".." {
				mset[m] = true
			}
		}
	}
	mset["nosuch"] = true
	mset["nosuch/x.proto"] = true
	for p := range mset {
		miss = append(miss, p)
	}
	sort.Strings(miss)
	return real, miss
}

// pickMore picks a further value: half of the time one whose STRING continues (or is continued
// by) a value already chosen without being above or below it by components (`a` next to `ab`).
func pickMore(r *hx.Rand, real, miss, chosen []string) string {
	if len(chosen) > 0 && r.Bool() {
		var rel []string
		for _, c := range real {
			for _, f := range chosen {
				if c != f && (strings.HasPrefix(c, f) || strings.HasPrefix(f, c)) && !contains(f, c) && !contains(c, f) {
					rel = append(rel, c)
				}
			}
		}
		if len(rel) > 0 {
			return hx.Pick(r, rel)
		}
	}
	return pickSel(r, real, miss)
}

func pickSel(r *hx.Rand, real, miss []string) string {
	if len(real) == 0 || r.Chance(1, 4) {
		return hx.Pick(r, miss)
	}
	return hx.Pick(r, real)
}

// ---------------------------------------------------------------------------------------------
// Section E generators

func toFiles(paths []string) []wsgen.File {
	out := make([]wsgen.File, len(paths))
	for i, p := range paths {
		out[i] = wsgen.File{Path: p}
	}
	return out
}

func filePtrs(fs []wsgen.File) []*wsgen.File {
	out := make([]*wsgen.File, len(fs))
	for i := range fs {
		out[i] = &fs[i]
	}
	return out
}

// namesMemWorkspace: 1-2 local modules in memory, module-level --path / --exclude-path.
func namesMemWorkspace(r *hx.Rand) *wsgen.WS {
	tree := genNamesTree(r)
	ws := &wsgen.WS{Kind: "mem"}
	split := len(tree)
	if len(tree) > 3 && r.Chance(1, 3) {
		split = 2 + r.Intn(len(tree)-2)
	}
	m0 := toFiles(tree[:split])
	m1 := toFiles(tree[split:])
	genImports(r, [][]*wsgen.File{filePtrs(m0), filePtrs(m1)})
	a := wsgen.Added{Dir: "d0", Local: true, Target: true, Files: sortFiles(m0)}
	if r.Bool() {
		a.Name = "buf.test/acme/names"
	}
	real, miss := selCandidates(r, a.Files)
	switch r.Intn(6) {
	case 0, 1: // paths only
		for k := 1 + r.Intn(3); k > 0; k-- {
			a.Paths = appendUniq(a.Paths, pickMore(r, real, miss, a.Paths))
		}
	case 2: // excludes only
		for k := 1 + r.Intn(2); k > 0; k-- {
			a.Excludes = appendUniq(a.Excludes, pickMore(r, real, miss, a.Excludes))
		}
	default: // both
		for k := 1 + r.Intn(2); k > 0; k-- {
			a.Paths = appendUniq(a.Paths, pickMore(r, real, miss, a.Paths))
		}
		for k := 1 + r.Intn(2); k > 0; k-- {
			a.Excludes = appendUniq(a.Excludes, pickMore(r, real, miss, append(append([]string{}, a.Paths...), a.Excludes...)))
		}
	}
	ws.Added = []wsgen.Added{a}
	if len(m1) > 0 {
		ws.Added = append(ws.Added, wsgen.Added{Dir: "d1", Local: true, Target: r.Chance(1, 3), Files: sortFiles(m1)})
	}
	return ws
}

func appendUniq(xs []string, s string) []string {
	for _, x := range xs {
		if x == s {
			return xs
		}
	}
	return append(xs, s)
}

var namesModuleDirs = []string{".", "proto", "mod.proto", "sp ace/m", "a", ".proto", "ü/日本"}

func joinDir(dir, p string) string {
	if dir == "." {
		return p
	}
	return dir + "/" + p
}

// namesDiskWorkspace: the names tree as one or two module directories of a workspace on disk and
// a workspace-level selection.
func namesDiskWorkspace(r *hx.Rand) *wsgen.WS {
	tree := genNamesTree(r)
	ws := &wsgen.WS{Kind: tf(r.Chance(2, 3), "v2", "v1")}
	d0 := hx.Pick(r, namesModuleDirs)
	if ws.Kind == "v1" && d0 == "." {
		d0 = "proto"
	}
	split := len(tree)
	if d0 != "." && len(tree) > 3 && r.Chance(1, 3) {
		split = 2 + r.Intn(len(tree)-2)
	}
	m0 := toFiles(tree[:split])
	m1 := toFiles(tree[split:])
	genImports(r, [][]*wsgen.File{filePtrs(m0), filePtrs(m1)})
	ws.Added = []wsgen.Added{{Dir: d0, Local: true, Target: true, Files: sortFiles(m0)}}
	if len(m1) > 0 {
		d1 := d0 + hx.Pick(r, []string{"b", ".proto", "2"}) // a module root whose name continues the first one's
		ws.Added = append(ws.Added, wsgen.Added{Dir: d1, Local: true, Target: true, Files: sortFiles(m1)})
	}
	sel := &wsgen.WsSel{Input: "."}
	real, miss := selCandidates(r, ws.Added[0].Files)
	var chosenP, chosenE []string // module-relative
	pickP := func() {
		v := pickMore(r, real, miss, chosenP)
		chosenP = appendUniq(chosenP, v)
		sel.Paths = appendUniq(sel.Paths, joinDir(d0, v))
	}
	pickE := func() {
		v := pickMore(r, real, miss, append(append([]string{}, chosenP...), chosenE...))
		chosenE = appendUniq(chosenE, v)
		sel.Excludes = appendUniq(sel.Excludes, joinDir(d0, v))
	}
	switch r.Intn(6) {
	case 0, 1:
		for k := 1 + r.Intn(3); k > 0; k-- {
			pickP()
		}
	case 2:
		for k := 1 + r.Intn(2); k > 0; k-- {
			pickE()
		}
	default:
		for k := 1 + r.Intn(2); k > 0; k-- {
			pickP()
		}
		for k := 1 + r.Intn(2); k > 0; k-- {
			pickE()
		}
	}
	if len(ws.Added) > 1 && r.Chance(1, 3) {
		real1, miss1 := selCandidates(r, ws.Added[1].Files)
		v := joinDir(ws.Added[1].Dir, pickSel(r, real1, miss1))
		if r.Bool() {
			sel.Paths = appendUniq(sel.Paths, v)
		} else {
			sel.Excludes = appendUniq(sel.Excludes, v)
		}
	}
	// most conflicting pairs (an exclude equal to / above a path) are rejected up front; keep a few
	if !r.Chance(1, 8) {
		sel.Excludes = dropConflicting(sel.Paths, sel.Excludes)
	}
	ws.Sel = sel
	return ws
}

func dropConflicting(paths, excludes []string) []string {
	var keep []string
	for _, e := range excludes {
		bad := false
		for _, p := range paths {
			if contains(e, p) {
				bad = true
			}
		}
		if !bad {
			keep = append(keep, e)
		}
	}
	return keep
}

// ---------------------------------------------------------------------------------------------
// Section F generator

var selLayouts = [][]string{
	{"proto/a", "proto/b"},
	{"proto/a", "proto/b", "other"},
	{"a", "b", "c", "d"},
	{"m", "m.proto", "mb"},
	{"x/y/z", "x/y/w", "x/q"},
	{"proto/a.proto", "proto/a", "proto/ab", "zz"},
	{"one", "two"},
	{"v/v1", "v/v10", "v/v1.proto"},
}

// role of a module in a selection: bit 0 = receives --path values, bit 1 = receives --exclude-path values
func selFamCount(run *hx.Run) int { return 16 + 64 + run.N(60, 700) }

func selWorkspace(r *hx.Rand, k int) *wsgen.WS {
	var roles []int
	switch {
	case k < 16:
		roles = []int{k % 4, k / 4}
	case k < 80:
		j := k - 16
		roles = []int{j % 4, (j / 4) % 4, j / 16}
	default:
		for n := 2 + r.Intn(3); n > 0; n-- {
			roles = append(roles, r.Intn(4))
		}
	}
	var cands [][]string
	for _, l := range selLayouts {
		if len(l) >= len(roles) {
			cands = append(cands, l)
		}
	}
	layout := hx.Pick(r, cands)
	// a workspace may hold more modules than take part in the selection
	nMods := len(roles)
	if len(layout) > nMods && r.Chance(1, 3) {
		nMods = len(layout)
	}
	for len(roles) < nMods {
		roles = append(roles, 0)
	}
	perm := make([]int, len(layout))
	for i := range perm {
		perm[i] = i
	}
	hx.Shuffle(r, perm)
	ws := &wsgen.WS{Kind: tf(r.Chance(3, 5), "v2", "v1")}
	var mods [][]*wsgen.File
	for i := 0; i < nMods; i++ {
		dir := layout[perm[i]]
		// file paths are unique over the workspace (p<i>…); one pair of directories per module are
		// string prefixes of each other
		var fs []wsgen.File
		pool := []string{
			fmt.Sprintf("p%d/f.proto", i), fmt.Sprintf("p%d/sub/g.proto", i), fmt.Sprintf("p%db/h.proto", i),
			fmt.Sprintf("p%d.proto/i.proto", i), fmt.Sprintf("q%d/j.proto", i), fmt.Sprintf("r%d.proto", i), fmt.Sprintf("p%d/sub/k.proto", i),
		}
		hx.Shuffle(r, pool)
		for _, p := range pool[:1+r.Intn(4)] {
			fs = append(fs, wsgen.File{Path: p})
		}
		a := wsgen.Added{Dir: dir, Local: true, Target: true, Files: sortFiles(fs)}
		if r.Chance(1, 3) {
			a.Name = fmt.Sprintf("buf.test/acme/s%d", (i*3+1)%7)
		}
		ws.Added = append(ws.Added, a)
	}
	for i := range ws.Added {
		mods = append(mods, filePtrs(ws.Added[i].Files))
	}
	genImports(r, mods)
	// directories above several modules
	aboveSet := map[string]bool{}
	for i := range ws.Added {
		for _, d := range parentDirsOf(ws.Added[i].Dir) {
			aboveSet[d] = true
		}
	}
	var above []string
	for d := range aboveSet {
		above = append(above, d)
	}
	sort.Strings(above)

	// the input is the workspace or one of its modules.  (A directory ABOVE several module roots
	// that holds no buf.yaml / buf.work.yaml is not a workspace input: without --path values buf
	// builds it as one module of its own, which is a different question.)
	sel := &wsgen.WsSel{Input: "."}
	if r.Chance(1, 6) {
		sel.Input = ws.Added[r.Intn(len(ws.Added))].Dir
	}
	for i, role := range roles {
		a := &ws.Added[i]
		real, miss := selCandidates(r, a.Files)
		var tops []string // the top-level entries of the module: together they cover it
		seenTop := map[string]bool{}
		for _, f := range a.Files {
			t := strings.SplitN(f.Path, "/", 2)[0]
			if !seenTop[t] {
				seenTop[t] = true
				tops = append(tops, t)
			}
		}
		if role&1 != 0 {
			for n := 1 + r.Intn(2); n > 0; n-- {
				v := hx.Pick(r, real)
				if r.Chance(1, 8) {
					v = hx.Pick(r, miss)
				}
				sel.Paths = appendUniq(sel.Paths, joinDir(a.Dir, v))
			}
		}
		if role&2 != 0 {
			switch r.Intn(6) {
			case 0: // cover the whole module
				for _, t := range tops {
					sel.Excludes = appendUniq(sel.Excludes, joinDir(a.Dir, t))
				}
			case 1:
				sel.Excludes = appendUniq(sel.Excludes, joinDir(a.Dir, hx.Pick(r, miss)))
			default:
				for n := 1 + r.Intn(2); n > 0; n-- {
					sel.Excludes = appendUniq(sel.Excludes, joinDir(a.Dir, hx.Pick(r, real)))
				}
			}
		}
	}
	// special values
	if len(sel.Paths) > 0 && r.Chance(1, 4) {
		// the ROOT of a module that receives no --path as --exclude-path: no effect (the module is
		// not targeted), in particular no error
		var idle []string
		for i, role := range roles {
			if role&1 == 0 {
				idle = append(idle, ws.Added[i].Dir)
			}
		}
		if len(idle) > 0 {
			sel.Excludes = appendUniq(sel.Excludes, hx.Pick(r, idle))
		}
	}
	if r.Chance(1, 6) {
		sel.Excludes = appendUniq(sel.Excludes, ws.Added[r.Intn(len(ws.Added))].Dir) // a module root
	}
	if r.Chance(1, 10) {
		sel.Paths = appendUniq(sel.Paths, ws.Added[r.Intn(len(ws.Added))].Dir)
	}
	if len(above) > 0 && r.Chance(1, 6) {
		sel.Excludes = appendUniq(sel.Excludes, hx.Pick(r, above))
	}
	if len(above) > 0 && r.Chance(1, 10) {
		sel.Paths = appendUniq(sel.Paths, hx.Pick(r, above))
	}
	if r.Chance(1, 5) {
		sel.Excludes = appendUniq(sel.Excludes, hx.Pick(r, []string{"nosuch", "nosuch/dir", "proto/nosuch", "x/y/nosuch.proto"}))
	}
	if r.Chance(1, 8) {
		sel.Paths = appendUniq(sel.Paths, hx.Pick(r, []string{"nosuch", "nosuch/dir", "proto/nosuch", "x/y/nosuch.proto"}))
	}
	if !r.Chance(1, 8) {
		sel.Excludes = dropConflicting(sel.Paths, sel.Excludes)
	}
	hx.Shuffle(r, sel.Paths)
	hx.Shuffle(r, sel.Excludes)
	ws.Sel = sel
	return ws
}

// ---------------------------------------------------------------------------------------------
// the oracle's reading of a workspace-level selection

// resolveSelection distributes the values over the modules by path components.  class:
//
//	ok         some module is targeted (whether any FILE is, the image oracle decides)
//	notargets  --path values were given but no module received one
//	user       the flags contradict each other / name the input or a module root: rejected
func resolveSelection(ws *wsgen.WS) (resolved *wsgen.WS, class string) {
	sel := ws.Sel
	resolved = &wsgen.WS{Kind: ws.Kind, Added: append([]wsgen.Added(nil), ws.Added...)}
	below := func(dir, p string) bool { return dir == "." && p != "." || strings.HasPrefix(p, dir+"/") }
	rel := func(dir, p string) string {
		if dir == "." {
			return p
		}
		return p[len(dir)+1:]
	}
	for _, p := range sel.Paths {
		if p == sel.Input {
			return resolved, "user"
		}
		for _, e := range sel.Excludes {
			if e == p || e == "." || below(e, p) {
				return resolved, "user"
			}
		}
	}
	for _, e := range sel.Excludes {
		if e == sel.Input {
			return resolved, "user"
		}
	}
	any := false
	for i := range resolved.Added {
		a := &resolved.Added[i]
		a.Paths, a.Excludes, a.Target = nil, nil, false
		if !(sel.Input == a.Dir || below(sel.Input, a.Dir) || sel.Input == ".") {
			continue // not part of the input: only there to be imported
		}
		a.Target = len(sel.Paths) == 0
		for _, p := range sel.Paths {
			if p == a.Dir {
				return resolved, "user" // "specify this module path directly as an input"
			}
			if below(a.Dir, p) {
				a.Target = true
				a.Paths = append(a.Paths, rel(a.Dir, p))
			}
		}
		if !a.Target {
			continue // an --exclude-path into a module that is not targeted has no effect
		}
		for _, e := range sel.Excludes {
			if e == a.Dir {
				return resolved, "user" // "this flag cannot be used to specify module directories"
			}
			if below(a.Dir, e) {
				a.Excludes = append(a.Excludes, rel(a.Dir, e))
			}
		}
		any = true
	}
	if !any {
		return resolved, "notargets"
	}
	return resolved, "ok"
}

func buildErrClass(err error) string {
	switch {
	case syserror.Is(err):
		return "sys"
	case errors.Is(err, bufmodule.ErrNoTargetProtoFiles):
		return "notargets"
	case strings.Contains(err.Error(), "system error"):
		return "sys"
	}
	return "user"
}

// selLine is the `wst` protocol line: the selection, the module directories, the modules
// (without any per-module targeting: the model distributes the values itself).
func selLinePrefix(ws *wsgen.WS) string {
	var dirs []string
	for i := range ws.Added {
		dirs = append(dirs, ws.Added[i].Dir)
	}
	return "wst\t" + hx.Enc(ws.Sel.Input) + "\t" + encL(ws.Sel.Paths) + "\t" + encL(ws.Sel.Excludes) + "\t" + encL(dirs) + "\t"
}

func encL(xs []string) string {
	if len(xs) == 0 {
		return "_"
	}
	out := make([]string, len(xs))
	for i, x := range xs {
		out[i] = hx.Enc(x)
	}
	return strings.Join(out, ",")
}

// ---------------------------------------------------------------------------------------------
// the real binary

type cliCase struct {
	idx      int
	ws       *wsgen.WS
	resolved *wsgen.WS
	class    string
	dir      string
	e        *expectation
	decorate int // how the values are spelled on the command line
}

type cliJob struct {
	c      *cliCase
	cmd    string // build | ls-files | lint | build-image-path
	args   []string
	out    string
	exit   int
	stdout string
	stderr string
	data   []byte
	rerr   error
	// second stage: `buf build <image> --path P`
	subPaths []string
}

var bufBinOnce struct {
	sync.Once
	path string
	err  error
}

func bufBinary(run *hx.Run) (string, error) {
	bufBinOnce.Do(func() {
		dir := filepath.Join(run.OutDir, "bufbin")
		if err := os.MkdirAll(dir, 0o755); err != nil {
			bufBinOnce.err = err
			return
		}
		bufBinOnce.path, bufBinOnce.err = buildBuf(dir)
		if bufBinOnce.err != nil {
			return
		}
		// Warm the cache directory with ONE process before any parallel runs: concurrent buf
		// processes filling the same empty well-known-types store race with each other ("stat
		// 30.2/google/protobuf/compiler/plugin.proto: file does not exist"), which is the cache's
		// business (C09/C14), not this property's.
		warm := filepath.Join(dir, "warm")
		_ = os.MkdirAll(warm, 0o755)
		_ = os.WriteFile(filepath.Join(warm, "w.proto"), []byte("syntax = \"proto3\";\nimport \"google/protobuf/timestamp.proto\";\nmessage W { google.protobuf.Timestamp t = 1; }\n"), 0o644)
		for _, args := range [][]string{{"build", ".", "-o", "w.binpb"}, {"ls-files", "."}, {"lint", "."}} {
			cmd := exec.Command(bufBinOnce.path, args...)
			cmd.Dir = warm
			cmd.Env = bufEnv(run)
			_ = cmd.Run()
		}
	})
	return bufBinOnce.path, bufBinOnce.err
}

func bufEnv(run *hx.Run) []string {
	return append(os.Environ(), "BUF_CACHE_DIR="+filepath.Join(run.OutDir, "bufbin", "cache"), "HOME="+filepath.Join(run.OutDir, "bufbin"))
}

// spell writes a workspace-relative value the way a user might.
func spell(r *hx.Rand, mode int, wsDir, v string, isDir bool) string {
	switch mode % 7 {
	case 1:
		return "./" + v
	case 2:
		if isDir {
			return v + "/"
		}
	case 3:
		if i := strings.IndexByte(v, '/'); i >= 0 {
			return v[:i] + "//" + v[i+1:]
		}
		return ".//" + v
	case 4:
		return filepath.Join(wsDir, filepath.FromSlash(v))
	case 5:
		return "../" + filepath.Base(wsDir) + "/" + v
	case 6:
		if i := strings.IndexByte(v, '/'); i >= 0 {
			return v[:i] + "/./" + v[i+1:] + tf(isDir, "/", "")
		}
	}
	return v
}

func cliSafe(v string) bool { return !strings.ContainsAny(v, ",\"\\\n") }

func (c *cliCase) isDirValue(v string) bool {
	for i := range c.ws.Added {
		a := &c.ws.Added[i]
		for _, f := range a.Files {
			if joinDir(a.Dir, f.Path) == v {
				return false
			}
		}
	}
	return true
}

func (c *cliCase) flagArgs(r *hx.Rand) []string {
	var args []string
	for _, p := range c.ws.Sel.Paths {
		args = append(args, "--path", spell(r, c.decorate+r.Intn(2)*c.decorate, c.dir, p, c.isDirValue(p)))
	}
	for _, e := range c.ws.Sel.Excludes {
		args = append(args, "--exclude-path", spell(r, c.decorate, c.dir, e, c.isDirValue(e)))
	}
	return args
}

func writeLintConfig(c *cliCase) {
	if c.ws.Kind != "v2" {
		return
	}
	p := filepath.Join(c.dir, "buf.yaml")
	b, err := os.ReadFile(p)
	if err != nil {
		return
	}
	_ = os.WriteFile(p, append(b, []byte("lint:\n  use:\n    - MESSAGE_PASCAL_CASE\n")...), 0o644)
}

// cliSection runs the collected cases through the real binary.
func cliSection(run *hx.Run, r *hx.Rand, cases []*cliCase) {
	if len(cases) == 0 {
		return
	}
	bufBin, err := bufBinary(run)
	if err != nil {
		run.Fail(hx.OracleFailure{Class: "buf-binary-does-not-build", What: err.Error(), Replay: "go build ./cmd/buf"})
		return
	}
	var jobs []*cliJob
	for _, c := range cases {
		ok := true
		for _, v := range append(append([]string{}, c.ws.Sel.Paths...), c.ws.Sel.Excludes...) {
			ok = ok && cliSafe(v)
		}
		if !ok {
			run.Count("cli:skipped-unspellable")
			continue
		}
		writeLintConfig(c)
		cr := r.Fork(uint64(c.idx))
		input := c.ws.Sel.Input
		jobs = append(jobs, &cliJob{c: c, cmd: "build", out: "cli.binpb", args: append([]string{"build", input, "-o", "cli.binpb"}, c.flagArgs(cr)...)})
		jobs = append(jobs, &cliJob{c: c, cmd: "ls-files", args: append([]string{"ls-files", input}, c.flagArgs(cr)...)})
		if c.ws.Kind == "v2" {
			jobs = append(jobs, &cliJob{c: c, cmd: "lint", args: append([]string{"lint", input, "--error-format", "json"}, c.flagArgs(cr)...)})
		}
	}
	runJobs := func(js []*cliJob) {
		sem := make(chan struct{}, 12)
		var wg sync.WaitGroup
		for _, jb := range js {
			wg.Add(1)
			go func(jb *cliJob) {
				defer wg.Done()
				sem <- struct{}{}
				defer func() { <-sem }()
				cmd := exec.Command(bufBin, jb.args...)
				cmd.Dir = jb.c.dir
				cmd.Env = bufEnv(run)
				var stdout, stderr strings.Builder
				cmd.Stdout, cmd.Stderr = &stdout, &stderr
				if err := cmd.Run(); err != nil {
					jb.exit = 1
					if ee, ok := err.(*exec.ExitError); ok {
						jb.exit = ee.ExitCode()
					}
				}
				jb.stdout, jb.stderr = stdout.String(), stderr.String()
				if jb.out != "" {
					jb.data, jb.rerr = os.ReadFile(filepath.Join(jb.c.dir, jb.out))
				}
			}(jb)
		}
		wg.Wait()
	}
	runJobs(jobs)
	// second stage: --path on an IMAGE input (the image just written), per target file and directory
	var stage2 []*cliJob
	for _, jb := range jobs {
		if jb.cmd != "build" || jb.exit != 0 || jb.rerr != nil || jb.c.class != "ok" || jb.c.e == nil || jb.c.e.noTargets {
			continue
		}
		var targets []string
		for p := range jb.c.e.targets {
			if cliSafe(p) {
				targets = append(targets, p)
			}
		}
		sort.Strings(targets)
		if len(targets) == 0 {
			continue
		}
		cr := r.Fork(uint64(jb.c.idx) ^ 0x5b)
		p := hx.Pick(cr, targets)
		if ds := parentDirsOf(p); len(ds) > 0 && cr.Bool() {
			p = hx.Pick(cr, ds)
		}
		stage2 = append(stage2, &cliJob{c: jb.c, cmd: "build-image-path", out: "cli2.binpb", subPaths: []string{p},
			args: []string{"build", "cli.binpb", "--path", p, "-o", "cli2.binpb"}})
	}
	runJobs(stage2)
	for _, jb := range append(jobs, stage2...) {
		cliEvaluate(run, jb)
	}
	for _, c := range cases {
		os.RemoveAll(c.dir)
	}
}

func cliEvaluate(run *hx.Run, jb *cliJob) {
	c := jb.c
	replay := fmt.Sprintf("build/c01 --seed %d --tier %s --only %d --out /tmp/c01-replay  (in the workspace of the input: buf %s)", run.Seed, run.Tier, c.idx, strings.Join(jb.args, " "))
	fail := func(class, what string) {
		srcs := map[string]string{}
		for i := range c.ws.Added {
			for j := range c.ws.Added[i].Files {
				s, _, _ := c.ws.Added[i].Files[j].Source()
				srcs[joinDir(c.ws.Added[i].Dir, c.ws.Added[i].Files[j].Path)] = s
			}
		}
		run.Fail(hx.OracleFailure{Class: class, What: "buf " + strings.Join(jb.args, " ") + ": " + what,
			Input: map[string]any{"kind": c.ws.Kind, "args": jb.args, "selection": c.ws.Sel, "files": srcs}, Replay: replay})
	}
	run.Eval()
	run.Count("cli:" + jb.cmd)
	if strings.Contains(jb.stderr, "system error") || strings.Contains(jb.stderr, "found a bug") || strings.Contains(jb.stderr, "panic:") {
		fail("targeting-system-error", fmt.Sprintf("exit %d, stderr %q", jb.exit, jb.stderr))
		return
	}
	if v := valueBelowFile(c.ws); v != "" && jb.exit != 0 && strings.Contains(jb.stderr, "not a directory") {
		fail("path-below-a-file-fails", fmt.Sprintf("the value %q names a path below a regular file (it does not exist, like any other missing path), but: exit %d, stderr %q", v, jb.exit, jb.stderr))
		return
	}
	e := c.e
	noFiles := c.class == "ok" && (e == nil || e.noTargets)
	switch {
	case c.class == "user":
		run.Count("cli:expect:user-error")
		if jb.exit == 0 {
			fail("invalid-selection-accepted", "the flags contradict each other or name the input / a module root, but the command succeeded")
		}
		return
	case c.class == "notargets" || (noFiles && jb.cmd != "ls-files"):
		run.Count("cli:expect:no-targets")
		if jb.exit == 0 {
			fail("image-without-targets", "no file is targeted but the command succeeded")
		}
		return
	}
	if e != nil && !e.clean {
		return
	}
	run.Count("cli:expect:ok")
	// external path of a module file
	ext := map[string]string{}
	for i := range c.resolved.Added {
		a := &c.resolved.Added[i]
		for _, f := range a.Files {
			ext[f.Path] = joinDir(a.Dir, f.Path)
		}
	}
	var wantTargets []string
	if e != nil {
		for p := range e.targets {
			wantTargets = append(wantTargets, ext[p])
		}
	}
	sort.Strings(wantTargets)
	switch jb.cmd {
	case "ls-files":
		if jb.exit != 0 {
			fail("buildable-fails", fmt.Sprintf("a valid selection, but exit %d, stderr %q", jb.exit, jb.stderr))
			return
		}
		var got []string
		for _, l := range strings.Split(jb.stdout, "\n") {
			if l != "" {
				got = append(got, l)
			}
		}
		sort.Strings(got)
		if fmt.Sprintf("%q", got) != fmt.Sprintf("%q", wantTargets) {
			fail("ls-files-differs", fmt.Sprintf("listed %q, the targeted files are %q", got, wantTargets))
		}
	case "lint":
		if jb.exit != 100 {
			fail("buildable-fails", fmt.Sprintf("every generated message violates MESSAGE_PASCAL_CASE, so lint must exit 100; exit %d, stderr %q", jb.exit, jb.stderr))
			return
		}
		set := map[string]bool{}
		for _, l := range strings.Split(jb.stdout, "\n") {
			if l == "" {
				continue
			}
			var an struct {
				Path string `json:"path"`
			}
			if err := json.Unmarshal([]byte(l), &an); err != nil {
				fail("lint-output-unreadable", l)
				return
			}
			set[an.Path] = true
		}
		var got []string
		for p := range set {
			got = append(got, p)
		}
		sort.Strings(got)
		if fmt.Sprintf("%q", got) != fmt.Sprintf("%q", wantTargets) {
			fail("lint-files-differ", fmt.Sprintf("lint reported on %q, the targeted files are %q", got, wantTargets))
		}
	case "build", "build-image-path":
		if jb.exit != 0 || jb.rerr != nil {
			fail("buildable-fails", fmt.Sprintf("a valid selection, but exit %d, read error %v, stderr %q", jb.exit, jb.rerr, jb.stderr))
			return
		}
		pimg := &imagev1.Image{}
		if err := proto.Unmarshal(jb.data, pimg); err != nil {
			fail("wire-readback-failed", "the written file does not decode as an image: "+err.Error())
			return
		}
		wantSet, wantTarget := e.closure, e.targets
		if jb.cmd == "build-image-path" {
			// the selected files of the first image plus the closure of their imports
			wantTarget = map[string]bool{}
			var roots []string
			for p := range e.closure {
				for _, sp := range jb.subPaths {
					if contains(sp, p) {
						wantTarget[p] = true
						roots = append(roots, p)
					}
				}
			}
			wantSet = map[string]bool{}
			// dependency lists as the first image carries them are those of the sources
			stack := roots
			for len(stack) > 0 {
				p := stack[len(stack)-1]
				stack = stack[:len(stack)-1]
				if wantSet[p] {
					continue
				}
				wantSet[p] = true
				if gf := e.file[p]; gf != nil {
					for _, imp := range gf.Imports {
						stack = append(stack, imp.Path)
					}
				} else if imps, ok := datawkt.FileImports(p); ok {
					stack = append(stack, imps...)
				}
			}
		}
		seen := map[string]int{}
		for i, pf := range pimg.GetFile() {
			p := pf.GetName()
			if _, dup := seen[p]; dup {
				fail("image-dup-path", "path "+p+" twice in the written image")
			}
			seen[p] = i
			if !wantSet[p] {
				fail("image-not-minimal", "written image contains "+p+", which is neither targeted nor imported by a targeted file")
				continue
			}
			if pf.GetBufExtension().GetIsImport() == wantTarget[p] {
				fail("image-flag", fmt.Sprintf("%s: is_import=%v but targeted=%v", p, pf.GetBufExtension().GetIsImport(), wantTarget[p]))
			}
		}
		for i, pf := range pimg.GetFile() {
			for _, d := range pf.GetDependency() {
				j, ok := seen[d]
				if !ok {
					fail(tf(jb.cmd == "build", "image-not-closed", "derived-image-not-closed"), fmt.Sprintf("%s lists dependency %q, which is not a file of the written image", pf.GetName(), d))
				} else if j >= i {
					fail("image-order", fmt.Sprintf("%s is not preceded by its import %s in the written image", pf.GetName(), d))
				}
			}
		}
		var missing []string
		for p := range wantSet {
			if _, ok := seen[p]; !ok {
				missing = append(missing, p)
			}
		}
		sort.Strings(missing)
		if len(missing) > 0 {
			fail(tf(jb.cmd == "build", "image-not-closed", "derived-image-not-closed"), fmt.Sprintf("written image lacks %q (targeted, or transitively imported by a targeted file)", missing))
		}
	}
}

func init() { _ = strconv.Itoa }
