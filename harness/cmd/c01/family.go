package main

// Section C: the stratified import-statement family.
//
// One "main" file whose import list is a chosen sequence over the six kinds of import statement
//
//	p  import "x";          referenced        u  import "x";          not referenced (compiler warns)
//	b  import public "x";   referenced        v  import public "x";   not referenced (no warning)
//	w  import weak "x";     referenced        x  import weak "x";     not referenced
//
// in each syntax (proto3, proto2, no syntax statement, edition 2023) and in four layouts that
// decide what the imported files are in the image (targets of the same module / imports from a
// pinned remote module with name and commit / imports of the same named module through --path /
// a v2 workspace on disk with two module directories).  Every sequence of length <= 2 is run in
// every syntax in the quick tier (every sequence of length <= 3 in the thorough tier), then random
// longer sequences: so dependency, public_dependency, weak_dependency and unused_dependency carry
// indexes in every relative order (an unused import BEFORE a public one, a weak one between two
// public ones, ...).  The cases go through imageCase like any generated workspace.

import (
	"fmt"
	"sort"
	"strings"

	"github.com/bufbuild/verifharness/internal/hx"
	"github.com/bufbuild/verifharness/internal/wsgen"
)

const famKinds = "pubvwx"

var famSyntaxes = []int{wsgen.SynProto3, wsgen.SynProto2, wsgen.SynNone, wsgen.SynEdition}

func famSeqs(maxLen int) []string {
	out := []string{}
	cur := []string{""}
	for l := 1; l <= maxLen; l++ {
		var next []string
		for _, c := range cur {
			for _, k := range famKinds {
				next = append(next, c+string(k))
			}
		}
		out = append(out, next...)
		cur = next
	}
	return out
}

func famStratified(run *hx.Run) []string { return famSeqs(run.N(2, 3)) }

func famCount(run *hx.Run) int {
	return len(famStratified(run))*len(famSyntaxes) + run.N(72, 500)
}

func famImp(kind byte, path string) wsgen.Imp {
	imp := wsgen.Imp{Path: path}
	switch kind {
	case 'u':
		imp.Unused = true
	case 'b':
		imp.Public = true
	case 'v':
		imp.Public, imp.Unused = true, true
	case 'w':
		imp.Weak = true
	case 'x':
		imp.Weak, imp.Unused = true, true
	}
	return imp
}

// famSpec picks (sequence, syntax, layout) of family case k.
func famSpec(run *hx.Run, r *hx.Rand, k int) (seq string, syntax int, layout int) {
	seqs := famStratified(run)
	if k < len(seqs)*len(famSyntaxes) {
		seq = seqs[k%len(seqs)]
		syntax = famSyntaxes[(k/len(seqs))%len(famSyntaxes)]
		layout = (k + k/len(seqs)) % 4
		return
	}
	n := 3 + r.Intn(4)
	var b strings.Builder
	for i := 0; i < n; i++ {
		b.WriteByte(famKinds[r.Intn(len(famKinds))])
	}
	return b.String(), hx.Pick(r, famSyntaxes), r.Intn(4)
}

// famFiles renders the main file and its leaves.
func famFiles(r *hx.Rand, seq string, syntax int) (mainFile wsgen.File, leaves []wsgen.File) {
	mainFile = wsgen.File{Path: "m/main.proto", Syntax: syntax}
	wkts := []string{"google/protobuf/empty.proto", "google/protobuf/timestamp.proto", "google/protobuf/any.proto", "google/protobuf/descriptor.proto"}
	usedWkt := map[string]bool{}
	for j := 0; j < len(seq); j++ {
		p := fmt.Sprintf("l/l%d.proto", j)
		if r.Chance(1, 7) {
			if w := hx.Pick(r, wkts); !usedWkt[w] {
				usedWkt[w] = true
				mainFile.Imports = append(mainFile.Imports, famImp(seq[j], w))
				continue
			}
		}
		leaf := wsgen.File{Path: p, Syntax: hx.Pick(r, famSyntaxes)}
		// a leaf may itself import an earlier leaf, plainly or publicly (a re-export chain)
		if len(leaves) > 0 && r.Chance(1, 4) {
			leaf.Imports = append(leaf.Imports, famImp(hx.Pick(r, []byte("pbw")), hx.Pick(r, leaves).Path))
		}
		leaves = append(leaves, leaf)
		mainFile.Imports = append(mainFile.Imports, famImp(seq[j], p))
	}
	return mainFile, leaves
}

func sortFiles(fs []wsgen.File) []wsgen.File {
	sort.Slice(fs, func(i, j int) bool { return fs[i].Path < fs[j].Path })
	return fs
}

// famWorkspace builds family case k.
func famWorkspace(run *hx.Run, r *hx.Rand, k int) *wsgen.WS {
	seq, syntax, layout := famSpec(run, r, k)
	mainFile, leaves := famFiles(r, seq, syntax)
	run.Count(fmt.Sprintf("family:len%d", len(seq)))
	run.Count(fmt.Sprintf("family:layout%d", layout))
	ws := &wsgen.WS{Kind: "mem"}
	switch layout {
	case 0: // one local module, everything targeted
		ws.Added = []wsgen.Added{{Dir: "d0", Local: true, Target: true, Files: sortFiles(append([]wsgen.File{mainFile}, leaves...))}}
	case 1: // leaves in a pinned remote module that is not targeted
		ws.Added = []wsgen.Added{{Dir: "d0", Local: true, Target: true, Files: []wsgen.File{mainFile}}}
		if len(leaves) > 0 {
			ws.Added = append(ws.Added, wsgen.Added{Name: "buf.test/acme/leaves", Commit: 1, CTime: 1700000000, Files: sortFiles(leaves)})
		}
	case 2: // one named local module, only the main file selected
		ws.Added = []wsgen.Added{{Dir: "d0", Name: "buf.test/acme/all", Local: true, Target: true,
			Paths: []string{hx.Pick(r, []string{"m/main.proto", "m"})}, Files: sortFiles(append([]wsgen.File{mainFile}, leaves...))}}
	default: // a v2 workspace on disk with two module directories, --path on the main file
		ws.Kind = "v2"
		ws.Added = []wsgen.Added{{Dir: "d0", Local: true, Target: true, Paths: []string{"m/main.proto"}, Files: []wsgen.File{mainFile}}}
		if len(leaves) > 0 {
			ws.Added = append(ws.Added, wsgen.Added{Dir: "d1", Name: "buf.test/acme/leaves", Local: true, Files: sortFiles(leaves)})
		}
	}
	return ws
}
