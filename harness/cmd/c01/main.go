// Command c01 is the correspondence + oracle harness for property C01
// ("an image is the exact, closed, ordered compilation of the targeted files").
//
// Section A: workspaces from the C10 generator (internal/wsgen) with proto2/proto3/editions/
// no-syntax bodies, public, unused and WKT imports, workspace-supplied WKT copies, module-level
// targets and --path / --exclude-path / proto-file selections, built in memory (ModuleSetBuilder)
// or on disk (bufworkspace, v2 buf.yaml or buf.work.yaml+v1).  Observable = the ordered image
// file list (path, isImport, syntaxUnspecified, unusedDependencyIndexes, module name, commit) of
// bufimage.BuildImage, or the error class; compared line by line with the Lean model.
// The oracle recomputes the target set, the import closure, the order constraint, the flags and
// the owning module over the generator's own graph, and compares every descriptor with an
// independent protocompile run over the same sources.
//
// Section B (oracle only): one planted compile error (unknown type, duplicate field number,
// syntax error) at a known line:column of a file in the closure; BuildImage must return no image
// but a FileAnnotation carrying the external (user-given) path and the planted position.
package main

import (
	"context"
	"errors"
	"fmt"
	"io"
	"os"
	"path/filepath"
	"runtime/pprof"
	"sort"
	"strconv"
	"strings"
	"time"

	"github.com/bufbuild/buf/private/bufpkg/bufanalysis"
	"github.com/bufbuild/buf/private/bufpkg/bufimage"
	"github.com/bufbuild/buf/private/bufpkg/bufmodule"
	"github.com/bufbuild/buf/private/gen/data/datawkt"
	"github.com/bufbuild/buf/private/pkg/uuidutil"
	"github.com/bufbuild/protocompile"
	"github.com/bufbuild/protocompile/linker"
	"github.com/bufbuild/protocompile/reporter"
	"github.com/bufbuild/verifharness/internal/hx"
	"github.com/bufbuild/verifharness/internal/wsgen"
	"github.com/google/uuid"
	"google.golang.org/protobuf/proto"
	"google.golang.org/protobuf/types/descriptorpb"
)

var ctx = context.Background()

func tf(b bool, t, f string) string {
	if b {
		return t
	}
	return f
}

func errClass(err error) string {
	var de *bufmodule.DuplicateProtoPathError
	var ne *bufmodule.NoProtoFilesError
	var fas bufanalysis.FileAnnotationSet
	switch {
	case errors.As(err, &de):
		// a path provided twice surfaces as this error or as a compiler diagnostic at the import
		// statement, depending on whether the compiler meets it first as a root or as an import
		return "compile"
	case errors.As(err, &ne):
		return "noproto"
	case errors.Is(err, bufmodule.ErrNoTargetProtoFiles):
		return "notargets"
	case errors.As(err, &fas):
		return "compile"
	}
	if strings.Contains(err.Error(), "cycle found in imports") {
		return "compile"
	}
	return "other"
}

// selection of the generator side: the module the property says must win, per OpaqueID
// (same rule as cmd/c10; nil = not determined by the property).
func selected(ws *wsgen.WS, b *wsgen.Built) map[string]*wsgen.Added {
	out := map[string]*wsgen.Added{}
	for _, m := range b.ModuleSet.Modules() {
		commit := 0
		if !m.IsLocal() {
			commit = b.CommitLabel[m.CommitID()]
		}
		for i := range ws.Added {
			a := &ws.Added[i]
			if a.OID() == m.OpaqueID() && a.Local == m.IsLocal() && a.Target == m.IsTarget() && ws.CommitRank(a) == commit {
				if _, ok := out[m.OpaqueID()]; !ok {
					out[m.OpaqueID()] = a
				}
			}
		}
	}
	return out
}

func contains(dirOrFile, path string) bool {
	return dirOrFile == "." || dirOrFile == path || strings.HasPrefix(path, dirOrFile+"/")
}

// isTarget is the property-level reading of targeting: module targeted, and (no selection |
// inside a --path and outside every --exclude-path | the proto file or a file of its package).
func isTarget(a *wsgen.Added, f *wsgen.File) bool {
	if !a.Target {
		return false
	}
	if a.ProtoFile != "" {
		if f.Path == a.ProtoFile {
			return true
		}
		if !a.IncludePkg {
			return false
		}
		for _, g := range a.Files {
			if g.Path == a.ProtoFile {
				return wsgen.PkgOf(g.Path) != "" && wsgen.PkgOf(g.Path) == wsgen.PkgOf(f.Path)
			}
		}
		return false
	}
	in := len(a.Paths) == 0
	for _, p := range a.Paths {
		if contains(p, f.Path) {
			in = true
		}
	}
	for _, e := range a.Excludes {
		if contains(e, f.Path) {
			in = false
		}
	}
	return in
}

type expectation struct {
	clean     bool // closure is resolvable, unambiguous and acyclic
	noTargets bool
	targets   map[string]bool
	closure   map[string]bool
	owner     map[string]*wsgen.Added // nil = built-in WKT
	file      map[string]*wsgen.File
}

func expect(sel map[string]*wsgen.Added) *expectation {
	e := &expectation{clean: true, targets: map[string]bool{}, closure: map[string]bool{}, owner: map[string]*wsgen.Added{}, file: map[string]*wsgen.File{}}
	providers := map[string][]*wsgen.Added{}
	var oids []string
	for oid := range sel {
		oids = append(oids, oid)
	}
	sort.Strings(oids)
	for _, oid := range oids {
		a := sel[oid]
		for i := range a.Files {
			providers[a.Files[i].Path] = append(providers[a.Files[i].Path], a)
		}
	}
	var stack []string
	for _, oid := range oids {
		a := sel[oid]
		for i := range a.Files {
			if isTarget(a, &a.Files[i]) {
				e.targets[a.Files[i].Path] = true
				stack = append(stack, a.Files[i].Path)
			}
		}
	}
	if len(e.targets) == 0 {
		e.noTargets = true
		return e
	}
	importsOf := func(p string) ([]string, bool) {
		ps := providers[p]
		switch len(ps) {
		case 0:
			imps, ok := datawkt.FileImports(p)
			if !ok {
				e.clean = false
				return nil, false
			}
			e.owner[p] = nil
			return imps, true
		case 1:
			e.owner[p] = ps[0]
			for i := range ps[0].Files {
				if ps[0].Files[i].Path == p {
					e.file[p] = &ps[0].Files[i]
					var out []string
					for _, imp := range ps[0].Files[i].Imports {
						out = append(out, imp.Path)
					}
					return out, true
				}
			}
		}
		e.clean = false
		return nil, false
	}
	edges := map[string][]string{}
	for len(stack) > 0 {
		p := stack[len(stack)-1]
		stack = stack[:len(stack)-1]
		if e.closure[p] {
			continue
		}
		e.closure[p] = true
		imps, ok := importsOf(p)
		if !ok {
			continue
		}
		edges[p] = imps
		stack = append(stack, imps...)
	}
	// acyclic? (Kahn)
	indeg := map[string]int{}
	for p := range e.closure {
		for _, q := range edges[p] {
			_ = q
			indeg[p]++
		}
	}
	done := map[string]bool{}
	for changed := true; changed; {
		changed = false
		for p := range e.closure {
			if done[p] {
				continue
			}
			ok := true
			for _, q := range edges[p] {
				if !done[q] {
					ok = false
				}
			}
			if ok {
				done[p] = true
				changed = true
			}
		}
	}
	if len(done) != len(e.closure) {
		e.clean = false
	}
	return e
}

func imageLine(ws *wsgen.WS, b *wsgen.Built, img bufimage.Image) string {
	names := ws.NameLabels()
	var fs []string
	for _, f := range img.Files() {
		name := "_"
		if fn := f.FullName(); fn != nil {
			name = strconv.Itoa(names[fn.String()])
		}
		commit := 0
		if f.CommitID() != uuid.Nil {
			commit = b.CommitLabel[f.CommitID()]
		}
		var idx []string
		for _, i := range f.UnusedDependencyIndexes() {
			idx = append(idx, strconv.Itoa(int(i)))
		}
		fs = append(fs, strings.Join([]string{hx.Enc(f.Path()), tf(f.IsImport(), "I", "T"), tf(f.IsSyntaxUnspecified(), "S", "s"),
			strings.Join(idx, "+"), name, strconv.Itoa(commit)}, ":"))
	}
	return "ok/" + strings.Join(fs, ",")
}

func faultCount(ws *wsgen.WS) int {
	n := 0
	for _, b := range []bool{ws.PlantedDup, ws.PlantedMissing, ws.PlantedFileCycle, ws.PlantedNoProto} {
		if b {
			n++
		}
	}
	return n
}

func main() {
	run := hx.Start("C01")
	defer run.Finish()
	if pf := os.Getenv("C01_CPUPROFILE"); pf != "" {
		f, _ := os.Create(pf)
		pprof.StartCPUProfile(f)
		defer pprof.StopCPUProfile()
	}
	rnd := hx.NewRand(run.Seed ^ 0xc01)
	tmpRoot := filepath.Join(run.OutDir, "ws")
	nMem := run.N(1100, 8000)
	nDisk := run.N(230, 1800)
	nPlant := run.N(220, 1800)
	nFam := famCount(run)
	// sections E (names family) and F (selection family), targeting.go
	nNamesMem := run.N(140, 1500)
	nNamesDisk := run.N(48, 400)
	nSel := selFamCount(run)
	total := nMem + nDisk + nPlant + nFam + nNamesMem + nNamesDisk + nSel
	var cliCases []*cliCase
	t0 := time.Now()
	lap := func(name string) {
		run.Set("seconds:"+name, time.Since(t0).Seconds())
		t0 = time.Now()
	}
	for i := 0; i < total; i++ {
		switch i {
		case nMem:
			lap("A-mem")
		case nMem + nDisk:
			lap("A-disk")
		case nMem + nDisk + nPlant:
			lap("B-planted")
		case nMem + nDisk + nPlant + nFam:
			lap("C-family")
		case nMem + nDisk + nPlant + nFam + nNamesMem + nNamesDisk:
			lap("E-names")
		}
		if run.Only >= 0 && i != run.Only {
			continue
		}
		r := rnd.Fork(uint64(i))
		if i >= nMem+nDisk+nPlant+nFam {
			j := i - (nMem + nDisk + nPlant + nFam)
			dir := filepath.Join(tmpRoot, strconv.Itoa(i))
			switch {
			case j < nNamesMem:
				run.Count("names:mem")
				imageCaseOpt(run, i, r, namesMemWorkspace(r), dir, caseOpt{derived: true})
			case j < nNamesMem+nNamesDisk:
				run.Count("names:disk")
				if c := selectionCase(run, i, r, namesDiskWorkspace(r), dir, true); c != nil {
					c.decorate = j - nNamesMem
					cliCases = append(cliCases, c)
				}
			default:
				k := j - nNamesMem - nNamesDisk
				if c := selectionCase(run, i, r, selWorkspace(r, k), dir, k%3 == 0); c != nil {
					if k%5 == 0 {
						c.decorate = k / 5
					}
					cliCases = append(cliCases, c)
				}
			}
			continue
		}
		if i >= nMem+nDisk+nPlant {
			// Section C: the stratified import-statement family (family.go)
			ws := famWorkspace(run, r, i-(nMem+nDisk+nPlant))
			run.Count("family:" + ws.Kind)
			imageCase(run, i, r, ws, filepath.Join(tmpRoot, strconv.Itoa(i)))
			continue
		}
		kind := "mem"
		if i >= nMem && i < nMem+nDisk {
			kind = tf(r.Bool(), "v2", "v1")
		}
		if i >= nMem+nDisk {
			kind = hx.Pick(r, []string{"mem", "v2", "v1"})
			ws := wsgen.Gen(r, wsgen.Opts{Kind: kind, Faults: false, MoreTargets: r.Bool(), MaxMods: 4})
			plantCase(run, i, r, ws, filepath.Join(tmpRoot, strconv.Itoa(i)))
			continue
		}
		ws := wsgen.Gen(r, wsgen.Opts{Kind: kind, Faults: r.Chance(1, 3), MoreTargets: true, RichImports: true})
		if faultCount(ws) > 1 {
			run.Count("skipped:several-fault-kinds")
			continue
		}
		imageCase(run, i, r, ws, filepath.Join(tmpRoot, strconv.Itoa(i)))
	}
	lap("F-selection")
	// sections E / F through the real binary (targeting.go)
	cliSection(run, rnd.Fork(0xc11), cliCases)
	lap("EF-binary")
	// Section D: the real binary, `buf build -o` in every form (binary.go)
	binarySection(run, rnd.Fork(0xb1a), filepath.Join(run.OutDir, "bin"), total)
	lap("D-binary")
	os.RemoveAll(tmpRoot)
	os.RemoveAll(filepath.Join(run.OutDir, "bufbin"))
}

// selectionCase: one workspace on disk with a workspace-level selection (sections E-disk and F):
// in process through buftarget + bufworkspace (`wst` line), and - when cli is set - handed back
// for the runs through the real binary.
func selectionCase(run *hx.Run, idx int, r *hx.Rand, ws *wsgen.WS, dir string, cli bool) *cliCase {
	resolved, class := resolveSelection(ws)
	run.Count(fmt.Sprintf("selection:%s:modules=%d:paths=%d:excludes=%d", ws.Kind, len(ws.Added), min(len(ws.Sel.Paths), 3), min(len(ws.Sel.Excludes), 3)))
	if ws.Sel.Input != "." {
		run.Count("selection:input-is-subdirectory")
	}
	// excludes that lie in a module receiving no --path: the shape of seed C01-m10
	if class == "ok" && len(ws.Sel.Paths) > 0 {
		for i := range resolved.Added {
			a := &resolved.Added[i]
			if a.Target {
				continue
			}
			for _, e := range ws.Sel.Excludes {
				if strings.HasPrefix(e, a.Dir+"/") {
					run.Count("selection:exclude-in-untargeted-module")
				}
			}
		}
	}
	c := &cliCase{idx: idx, ws: ws, resolved: resolved, class: class, dir: dir}
	imageCaseOpt(run, idx, r, ws, dir, caseOpt{prefix: selLinePrefix(ws), resolved: resolved, class: class, keepDir: cli, derived: false,
		onExpect: func(e *expectation) { c.e = e }})
	if !cli {
		return nil
	}
	if class == "ok" && c.e == nil {
		// the in-process run did not get as far as an expectation; compute it from the oracle's reading
		sel := map[string]*wsgen.Added{}
		for i := range resolved.Added {
			sel[resolved.Added[i].OID()] = &resolved.Added[i]
		}
		c.e = expect(sel)
	}
	return c
}

// valueBelowFile returns a selection value of a disk workspace that lies strictly below a file.
func valueBelowFile(ws *wsgen.WS) string {
	if ws.Kind == "mem" {
		return ""
	}
	var vals []string
	if ws.Sel != nil {
		vals = append(append(vals, ws.Sel.Paths...), ws.Sel.Excludes...)
	} else {
		for i := range ws.Added {
			for _, v := range append(append([]string{}, ws.Added[i].Paths...), ws.Added[i].Excludes...) {
				vals = append(vals, joinDir(ws.Added[i].Dir, v))
			}
		}
	}
	for _, v := range vals {
		for i := range ws.Added {
			for _, f := range ws.Added[i].Files {
				if strings.HasPrefix(v, joinDir(ws.Added[i].Dir, f.Path)+"/") {
					return v
				}
			}
		}
	}
	return ""
}

func targetDirs(ws *wsgen.WS) []string {
	var out []string
	for i := range ws.Added {
		if ws.Added[i].Target {
			out = append(out, ws.Added[i].Dir)
		}
	}
	return out
}

func build(ws *wsgen.WS, dir string) (*wsgen.Built, error) {
	if ws.Kind == "mem" {
		return ws.BuildMem(ctx)
	}
	return ws.BuildDisk(ctx, dir)
}

// caseOpt: what differs between the sections that go through imageCase.
type caseOpt struct {
	prefix   string    // protocol line prefix; "" = "img\t"
	resolved *wsgen.WS // the oracle's reading of a workspace-level selection (nil: ws itself)
	class    string    // expected outcome of that selection: ok | user | notargets ("" = no selection)
	keepDir  bool      // the directory is needed afterwards (real-binary runs)
	derived  bool      // always run the derived-image checks
	onExpect func(e *expectation)
}

func imageCase(run *hx.Run, idx int, r *hx.Rand, ws *wsgen.WS, dir string) {
	imageCaseOpt(run, idx, r, ws, dir, caseOpt{})
}

func imageCaseOpt(run *hx.Run, idx int, r *hx.Rand, ws *wsgen.WS, dir string, opt caseOpt) {
	k := r.Intn(7)
	if opt.prefix == "" {
		opt.prefix = "img\t"
	}
	ows := ws // the workspace as the oracle reads it
	if opt.resolved != nil {
		ows = opt.resolved
	}
	line := opt.prefix + ws.Line() + "\t" + strconv.Itoa(k)
	replay := fmt.Sprintf("build/c01 --seed %d --tier %s --only %d --out /tmp/c01-replay", run.Seed, run.Tier, idx)
	fail := func(class, what string) {
		in := map[string]any{"kind": ws.Kind, "line": line, "added": ows.Added}
		if ws.Sel != nil {
			in["selection"] = ws.Sel
		}
		run.Fail(hx.OracleFailure{Class: class, What: what, Input: in, Replay: replay})
	}
	defer func() {
		if p := recover(); p != nil {
			fail("panic", fmt.Sprintf("workspace %d: implementation panicked: %v", idx, p))
		}
	}()
	b, err := build(ws, dir)
	if ws.Kind != "mem" && !opt.keepDir {
		defer os.RemoveAll(dir)
	}
	run.Count("kind:" + ws.Kind)
	if opt.class != "" {
		// a workspace-level selection: whether the module set may be built at all is part of the case
		run.Count("selection:expect:" + opt.class)
		got := "ok"
		if err != nil {
			got = buildErrClass(err)
		}
		switch {
		case got == "sys":
			fail("targeting-system-error", fmt.Sprintf("the selection ended in a system error: %v", err))
		case opt.class == "ok" && err != nil:
			fail("valid-selection-fails", fmt.Sprintf("a valid selection (some module is targeted, no flag contradicts another) was rejected: %v", err))
		case opt.class != "ok" && err == nil:
			if opt.class == "user" {
				fail("invalid-selection-accepted", "the flags contradict each other or name the input / a module root, but the workspace was built")
			}
			// notargets: BuildImage below must refuse
		case opt.class != got:
			fail("selection-error-differs", fmt.Sprintf("expected a %q failure, got %q: %v", opt.class, got, err))
		}
		if err != nil {
			run.Case(line, "err/"+got, false)
			return
		}
	}
	if err != nil {
		run.Count("moduleset-err:" + ws.Kind)
		if ws.Kind == "mem" {
			fail("moduleset-build-failed", fmt.Sprintf("workspace %d: %v", idx, err))
		}
		run.Eval()
		return
	}
	// the compiler parameter of the model: unused-import warnings of an independent protocompile
	// run over the same sources with the same roots
	sel := selected(ows, b)
	e := expect(sel)
	if opt.class != "" && len(sel) != len(b.ModuleSet.Modules()) {
		var got []string
		for _, m := range b.ModuleSet.Modules() {
			got = append(got, fmt.Sprintf("%s target=%v", m.OpaqueID(), m.IsTarget()))
		}
		fail("targeting-module-set-differs", fmt.Sprintf("the modules of the built workspace are %v; by path components the targeted modules are %v", got, targetDirs(ows)))
	}
	if opt.onExpect != nil && len(sel) == len(b.ModuleSet.Modules()) {
		opt.onExpect(e)
	}
	unusedByFile := map[string]map[string]bool{}
	var want map[string]*descriptorpb.FileDescriptorProto
	var cerr error
	if len(sel) == len(b.ModuleSet.Modules()) && e.clean && !e.noTargets {
		var unusedAll map[string]map[string]bool
		want, unusedAll, cerr = directCompile(e, protocompile.SourceInfoExtraOptionLocations)
		unusedByFile = rootsOnly(e, unusedAll)
		if os.Getenv("C01_CHECK_UNUSED") != "" {
			if a, b := fmt.Sprint(unusedByFile), fmt.Sprint(directUnused(e)); a != b {
				fail("harness-unused-mismatch", a+" vs "+b)
			}
		}
		for p, gf := range e.file {
			for i := range gf.Imports {
				v := unusedByFile[p][gf.Imports[i].Path]
				gf.Imports[i].EffUnused = &v
			}
		}
	}
	line = opt.prefix + ws.Line() + "\t" + strconv.Itoa(k)
	img, berr, hung := wsgen.BuildImageWatchdog(ctx, b.ModuleSet)
	if hung {
		fail("build-hang", "bufimage.BuildImage did not return within 20s")
		return
	}
	if berr != nil && strings.Contains(berr.Error(), "not a directory") && valueBelowFile(ws) != "" {
		// GENUINE defect of the unchanged tree (proposed known finding / fix, handoff/strengthen6-A.md):
		// a --path / --exclude-path value that names something BELOW A REGULAR FILE does not exist,
		// like any other missing path, but storageos.Walk answers ENOTDIR instead of "nothing there"
		// and the whole build fails.  The model describes the repaired behaviour (a missing path
		// selects nothing), so no protocol line is written for the witness.
		fail("path-below-a-file-fails", fmt.Sprintf("the selection value %q names a path below a regular file (it does not exist, like any other missing path), but the build fails: %v", valueBelowFile(ws), berr))
		run.Count("skipped:path-below-a-file")
		run.Eval()
		return
	}
	var impl string
	if berr != nil {
		impl = "err/" + errClass(berr)
	} else {
		impl = imageLine(ws, b, img)
	}
	run.Case(line, impl, berr == nil && len(img.Files()) > 1)
	run.Count("build:" + tf(berr == nil, "ok", impl))
	if berr == nil {
		n := len(img.Files())
		run.Count("image-files:" + tf(n > 8, "9+", strconv.Itoa(n)))
	}
	if idx < 3 {
		run.Sample(map[string]any{"input": line, "impl": impl})
	}
	if impl == "err/other" {
		fail("unclassified-build-error", fmt.Sprintf("BuildImage failed with an error that is neither a diagnostic nor a module-set error: %v", berr))
	}

	// ---- oracle: the property's statement over the generator's graph ----
	if len(sel) != len(b.ModuleSet.Modules()) {
		return // selection itself is C10's business
	}
	switch {
	case e.noTargets:
		if berr == nil {
			fail("image-without-targets", "no file is targeted but BuildImage returned an image")
		}
		return
	case !e.clean:
		if berr == nil {
			fail("uncompilable-yields-image", "the closure has a missing/ambiguous import or an import cycle but BuildImage returned an image")
		}
		return
	case berr != nil:
		if ws.PlantedNoProto || ws.PlantedDup {
			return // a target module without files / a duplicate among targets is reported before compiling
		}
		fail("buildable-fails", fmt.Sprintf("clean closure but BuildImage failed: %v", berr))
		return
	}
	pos := map[string]int{}
	for i, f := range img.Files() {
		if _, dup := pos[f.Path()]; dup {
			fail("image-dup-path", "path "+f.Path()+" appears twice in the image")
		}
		pos[f.Path()] = i
	}
	for p := range e.closure {
		if _, ok := pos[p]; !ok {
			fail("image-not-closed", "file "+p+" is targeted or transitively imported but missing from the image")
		}
	}
	for _, f := range img.Files() {
		p := f.Path()
		if !e.closure[p] {
			fail("image-not-minimal", "image contains "+p+" which no target imports")
			continue
		}
		for _, d := range f.FileDescriptorProto().GetDependency() {
			if j, ok := pos[d]; !ok || j >= pos[p] {
				fail("image-order", fmt.Sprintf("%s is not preceded by its import %s", p, d))
			}
		}
		if f.IsImport() == e.targets[p] {
			fail("image-flag", fmt.Sprintf("%s: isImport=%v but targeted=%v", p, f.IsImport(), e.targets[p]))
		}
		own := e.owner[p]
		switch {
		case own == nil:
			if f.FullName() != nil || f.CommitID() != uuid.Nil {
				fail("wkt-resolution", p+" should be the built-in well-known type but carries a module name")
			}
		default:
			gotName := ""
			if f.FullName() != nil {
				gotName = f.FullName().String()
			}
			if gotName != own.Name {
				fail("image-module-name", fmt.Sprintf("%s: module %q, expected %q", p, gotName, own.Name))
			}
			wantCommit := ws.CommitRank(own)
			gotCommit := 0
			if f.CommitID() != uuid.Nil {
				gotCommit = b.CommitLabel[f.CommitID()]
			}
			if gotCommit != wantCommit {
				fail("image-commit", fmt.Sprintf("%s: commit %d (%s), expected %d", p, gotCommit, uuidutil.ToDashless(f.CommitID()), wantCommit))
			}
			gf := e.file[p]
			if f.IsSyntaxUnspecified() != (gf.Syntax == wsgen.SynNone) {
				fail("syntax-unspecified-flag", fmt.Sprintf("%s: IsSyntaxUnspecified=%v", p, f.IsSyntaxUnspecified()))
			}
			var want []int32
			for i, imp := range gf.Imports {
				// what the compiler itself reported for this file in the independent run
				if unusedByFile[p][imp.Path] {
					want = append(want, int32(i))
				}
			}
			got := f.UnusedDependencyIndexes()
			if fmt.Sprint(want) != fmt.Sprint(got) && !(len(want) == 0 && len(got) == 0) {
				fail("unused-dependency-indexes", fmt.Sprintf("%s: got %v want %v", p, got, want))
			}
		}
	}
	// descriptors = what the compiler produces for the same source text (a test, not a proof):
	// in memory, serialised, read back, and through every other way out of an image (wire.go)
	if cerr != nil || want == nil {
		fail("direct-compile-failed", fmt.Sprintf("independent protocompile run failed: %v", cerr))
		return
	}
	compareDescriptors(run, fail, want, img)
	wireChecks(run, fail, ows, e, unusedByFile, img, want)
	// every image derived from this one stays closed and ordered (derived.go); always when a file
	// lists an import the compiler flagged as unused
	if dr := r.Fork(0xd371); opt.derived || hasUnusedShape(img) || dr.Chance(1, 4) {
		derivedChecks(run, fail, dr, img)
	}
	if r.Chance(1, 4) {
		imgNo, nerr, hung := wsgen.BuildImageWatchdog(ctx, b.ModuleSet, bufimage.WithExcludeSourceCodeInfo())
		switch {
		case hung:
			fail("build-hang", "bufimage.BuildImage(WithExcludeSourceCodeInfo) did not return within 20s")
		case nerr != nil:
			fail("buildable-fails", fmt.Sprintf("the workspace builds with source info but not without: %v", nerr))
		default:
			noSourceInfoChecks(run, fail, img, imgNo, want)
		}
	}
}

// directUnused compiles the targets directly with protocompile and collects the unused-import
// warnings per file.
func directUnused(e *expectation) map[string]map[string]bool {
	out := map[string]map[string]bool{}
	accessor := func(p string) (io.ReadCloser, error) {
		if f, ok := e.file[p]; ok {
			src, _, _ := f.Source()
			return io.NopCloser(strings.NewReader(src)), nil
		}
		return datawkt.ReadBucket.Get(ctx, p)
	}
	var roots []string
	for p := range e.targets {
		roots = append(roots, p)
	}
	sort.Strings(roots)
	c := protocompile.Compiler{
		Resolver: &protocompile.SourceResolver{Accessor: accessor},
		Reporter: reporter.NewReporter(
			func(err reporter.ErrorWithPos) error { return err },
			func(w reporter.ErrorWithPos) {
				if u, ok := w.Unwrap().(linker.ErrorUnusedImport); ok {
					fn := w.GetPosition().Filename
					if out[fn] == nil {
						out[fn] = map[string]bool{}
					}
					out[fn][u.UnusedImport()] = true
				}
			}),
	}
	_, _ = c.Compile(ctx, roots...)
	return out
}

func compareDescriptors(run *hx.Run, fail func(string, string), want map[string]*descriptorpb.FileDescriptorProto, img bufimage.Image) {
	run.Count("descriptor-comparisons")
	for _, got := range img.Files() {
		w := want[got.Path()]
		if w == nil {
			fail("descriptor-differs", "image file "+got.Path()+" was not produced by a direct compile of the closure")
			continue
		}
		if !proto.Equal(w, got.FileDescriptorProto()) {
			gs, _ := slotsByNumber(got.FileDescriptorProto().ProtoReflect())
			ws, _ := slotsByNumber(w.ProtoReflect())
			fail("descriptor-differs", fmt.Sprintf("descriptor of %s differs from a direct compile of the same source (%s)", got.Path(), strings.Join(diffFields(gs, ws), "; ")))
		}
	}
}

// plantCase: one compile error at a known position of a file that will be compiled.
func plantCase(run *hx.Run, idx int, r *hx.Rand, ws *wsgen.WS, dir string) {
	replay := fmt.Sprintf("build/c01 --seed %d --tier %s --only %d --out /tmp/c01-replay", run.Seed, run.Tier, idx)
	// choose a file of a target module (without selections the whole module is compiled)
	var cands [][2]int
	for i := range ws.Added {
		a := &ws.Added[i]
		if !a.Target || !a.Local || len(a.Paths)+len(a.Excludes) > 0 || a.ProtoFile != "" {
			continue
		}
		for j := range a.Files {
			cands = append(cands, [2]int{i, j})
		}
	}
	if len(cands) == 0 || len(ws.OIDRanks()) != len(ws.Added) {
		run.Count("plant:skipped")
		return
	}
	c := hx.Pick(r, cands)
	a := &ws.Added[c[0]]
	f := &a.Files[c[1]]
	f.Fault = 1 + r.Intn(3)
	src, line, col := f.Source()
	fail := func(class, what string) {
		run.Fail(hx.OracleFailure{Class: class, What: what, Input: map[string]any{"kind": ws.Kind, "file": f.Path, "fault": f.Fault, "source": src, "added": ws.Added}, Replay: replay})
	}
	defer func() {
		if p := recover(); p != nil {
			fail("panic", fmt.Sprintf("workspace %d: implementation panicked: %v", idx, p))
		}
	}()
	b, err := build(ws, dir)
	if ws.Kind != "mem" {
		defer os.RemoveAll(dir)
	}
	run.Eval()
	if err != nil {
		// disk workspaces scan imports while being built; a syntax error may surface there already
		var fas bufanalysis.FileAnnotationSet
		if errors.As(err, &fas) {
			checkAnnotation(run, fail, ws, a, f, dir, fas, line, col, "workspace")
			return
		}
		fail("plant-moduleset-failed", fmt.Sprintf("building the module set failed without diagnostics: %v", err))
		return
	}
	img, berr, hung := wsgen.BuildImageWatchdog(ctx, b.ModuleSet)
	if hung {
		fail("build-hang", "bufimage.BuildImage did not return within 20s")
		return
	}
	if berr == nil {
		fail("uncompilable-yields-image", fmt.Sprintf("planted fault %d in %s but BuildImage returned an image with %d files", f.Fault, f.Path, len(img.Files())))
		return
	}
	var fas bufanalysis.FileAnnotationSet
	if !errors.As(berr, &fas) {
		fail("no-diagnostics", fmt.Sprintf("planted fault %d in %s: BuildImage failed without a FileAnnotationSet: %v", f.Fault, f.Path, berr))
		return
	}
	checkAnnotation(run, fail, ws, a, f, dir, fas, line, col, "build")
}

func checkAnnotation(run *hx.Run, fail func(string, string), ws *wsgen.WS, a *wsgen.Added, f *wsgen.File, dir string,
	fas bufanalysis.FileAnnotationSet, line, col int, where string) {
	wantPath := f.Path
	if ws.Kind != "mem" {
		wantPath = filepath.Join(dir, a.Dir, filepath.FromSlash(f.Path))
	}
	run.Count(fmt.Sprintf("plant:%s:fault%d:%s", ws.Kind, f.Fault, where))
	for _, an := range fas.FileAnnotations() {
		if an.FileInfo() == nil {
			continue
		}
		if an.FileInfo().ExternalPath() == wantPath && an.StartLine() == line && an.StartColumn() == col {
			return
		}
	}
	var got []string
	for _, an := range fas.FileAnnotations() {
		p := "<nil>"
		if an.FileInfo() != nil {
			p = an.FileInfo().ExternalPath()
		}
		got = append(got, fmt.Sprintf("%s:%d:%d:%s", p, an.StartLine(), an.StartColumn(), an.Message()))
	}
	fail("annotation-position", fmt.Sprintf("planted fault %d at %s:%d:%d, diagnostics were %v", f.Fault, wantPath, line, col, got))
}
