package main

// The SERIALISED image (third pass of C01).
//
// For every image that was built from a clean closure the harness compiles the same sources with
// an independent protocompile run ("want") and compares, per file,
//
//   - the proto image form (bufimage.ImageToProtoImage): every field of FileDescriptorProto, read
//     BY FIELD NUMBER through protoreflect (name, package, dependency, message_type, enum_type,
//     service, extension, options, source_code_info, public_dependency, weak_dependency, syntax,
//     edition, unknown bytes) against want, and the buf extension (is_import, module name / commit,
//     is_syntax_unspecified, unused_dependency) against the generator's own bookkeeping;
//   - the marshalled bytes read as a plain google.protobuf.FileDescriptorSet (what protoc-style
//     consumers of `buf build -o` see): equal to want once the unknown field 8042 is set aside;
//   - marshal -> unmarshal -> NewImageForProto: descriptors and flags come back, and
//     ImageToProtoImage of the result marshals to the identical bytes;
//   - ImageToFileDescriptorSet, ImageToCodeGeneratorRequest (proto_file / source_file_descriptors)
//     and NewImageForCodeGeneratorRequest of that request;
//   - BuildImage(WithExcludeSourceCodeInfo): same files, same order, same flags, no
//     source_code_info anywhere, everything else unchanged.
//
// Per file one protocol line `wire` (lean/Driver/C01Wire.lean): the slots of want + the expected
// flags go to the model (BufModel.ImageWire.toWire / fromWire), the implementation's answer is
// what ImageToProtoImage / NewImageForProto really produced.

import (
	"bytes"
	"crypto/sha256"
	"encoding/hex"
	"fmt"
	"io"
	"sort"
	"strconv"
	"strings"

	"github.com/bufbuild/buf/private/bufpkg/bufimage"
	"github.com/bufbuild/buf/private/gen/data/datawkt"
	imagev1 "github.com/bufbuild/buf/private/gen/proto/go/buf/alpha/image/v1"
	"github.com/bufbuild/buf/private/pkg/uuidutil"
	"github.com/bufbuild/protocompile"
	"github.com/bufbuild/protocompile/linker"
	"github.com/bufbuild/protocompile/protoutil"
	"github.com/bufbuild/protocompile/reporter"
	"github.com/bufbuild/verifharness/internal/hx"
	"github.com/bufbuild/verifharness/internal/wsgen"
	"github.com/google/uuid"
	"google.golang.org/protobuf/encoding/protowire"
	"google.golang.org/protobuf/proto"
	"google.golang.org/protobuf/reflect/protoreflect"
	"google.golang.org/protobuf/types/descriptorpb"
)

const bufExtensionNumber = 8042

var descFieldNames = map[int]string{1: "name", 2: "package", 3: "dependency", 4: "message_type", 5: "enum_type",
	6: "service", 7: "extension", 8: "options", 9: "source_code_info", 10: "public_dependency",
	11: "weak_dependency", 12: "syntax", 14: "edition"}

// the protocol order of the slots (Driver/C01Wire.lean)
var descSlotOrder = []int{1, 2, 3, 4, 5, 6, 7, 8, 9, 10, 11, 12, 14}

func blob(m proto.Message) string {
	b, err := proto.MarshalOptions{Deterministic: true}.Marshal(m)
	if err != nil {
		return "marshalerror"
	}
	h := sha256.Sum256(b)
	return hex.EncodeToString(h[:8])
}

func joinOr(xs []string, empty string) string {
	if len(xs) == 0 {
		return empty
	}
	return strings.Join(xs, ",")
}

// slotsByNumber reads a FileDescriptorProto-shaped message (descriptorpb.FileDescriptorProto or
// imagev1.ImageFile) by FIELD NUMBER.  extra lists populated fields that are neither descriptor
// fields nor the buf extension.
func slotsByNumber(m protoreflect.Message) (slots map[int]string, extra []int) {
	slots = map[int]string{}
	fields := m.Descriptor().Fields()
	for _, n := range descSlotOrder {
		fd := fields.ByNumber(protoreflect.FieldNumber(n))
		if fd == nil {
			slots[n] = "missing-from-schema"
			continue
		}
		switch {
		case fd.IsList():
			l := m.Get(fd).List()
			var xs []string
			for i := 0; i < l.Len(); i++ {
				switch fd.Kind() {
				case protoreflect.StringKind:
					xs = append(xs, hx.Enc(l.Get(i).String()))
				case protoreflect.MessageKind:
					xs = append(xs, blob(l.Get(i).Message().Interface()))
				default:
					xs = append(xs, strconv.FormatInt(l.Get(i).Int(), 10))
				}
			}
			slots[n] = joinOr(xs, "_")
		case !m.Has(fd):
			slots[n] = "~"
		case fd.Kind() == protoreflect.StringKind:
			slots[n] = hx.Enc(m.Get(fd).String())
		case fd.Kind() == protoreflect.MessageKind:
			slots[n] = blob(m.Get(fd).Message().Interface())
		case fd.Kind() == protoreflect.EnumKind:
			slots[n] = strconv.Itoa(int(m.Get(fd).Enum()))
		default:
			slots[n] = "unexpected-kind"
		}
	}
	m.Range(func(fd protoreflect.FieldDescriptor, _ protoreflect.Value) bool {
		n := int(fd.Number())
		if _, ok := descFieldNames[n]; !ok && n != bufExtensionNumber {
			extra = append(extra, n)
		}
		return true
	})
	sort.Ints(extra)
	return slots, extra
}

func unknownSlot(m protoreflect.Message) string {
	u := m.GetUnknown()
	if len(u) == 0 {
		return "_"
	}
	return hex.EncodeToString(u)
}

func descLine(slots map[int]string, unknown string) string {
	var xs []string
	for _, n := range descSlotOrder {
		xs = append(xs, slots[n])
	}
	return strings.Join(append(xs, unknown), ";")
}

// wantFlags is the generator's own bookkeeping for one image file.
type wantFlags struct {
	isImport, su bool
	unused       []int32
	name         string // "" = none, else registry/owner/name
	commit       string // "" = none, else dashless
}

func int32s(xs []int32) string {
	var out []string
	for _, x := range xs {
		out = append(out, strconv.Itoa(int(x)))
	}
	return joinOr(out, "_")
}

func nameSlot(registry, owner, name string) string {
	return hx.Enc(registry) + "," + hx.Enc(owner) + "," + hx.Enc(name)
}

func (w wantFlags) line() string {
	nm := "~"
	if w.name != "" {
		parts := strings.SplitN(w.name, "/", 3)
		for len(parts) < 3 {
			parts = append(parts, "")
		}
		nm = nameSlot(parts[0], parts[1], parts[2])
	}
	cm := "~"
	if w.commit != "" {
		cm = w.commit
	}
	return strings.Join([]string{tf(w.isImport, "1", "0"), tf(w.su, "1", "0"), int32s(w.unused), nm, cm}, ";")
}

func optBool(has, v bool) string {
	if !has {
		return "~"
	}
	return tf(v, "1", "0")
}

func commitSlot(has bool, c string) string {
	switch {
	case !has:
		return "~"
	case c == "":
		return "-"
	}
	return c
}

// extLine renders the buf extension of a proto image file as Driver/C01Wire.lean `showExt`.
func extLine(pf *imagev1.ImageFile) string {
	if !pf.HasBufExtension() {
		return "~"
	}
	e := pf.GetBufExtension()
	mi := "~"
	if e.HasModuleInfo() {
		nm := "~"
		if e.GetModuleInfo().HasName() {
			n := e.GetModuleInfo().GetName()
			nm = nameSlot(n.GetRemote(), n.GetOwner(), n.GetRepository())
		}
		mi = nm + "@" + commitSlot(e.GetModuleInfo().HasCommit(), e.GetModuleInfo().GetCommit())
	}
	return strings.Join([]string{optBool(e.HasIsImport(), e.GetIsImport()), optBool(e.HasIsSyntaxUnspecified(), e.GetIsSyntaxUnspecified()),
		int32s(e.GetUnusedDependency()), mi}, ";")
}

// flagsOfImageFile renders the flags of an in-memory image file as `showFlags`.
func flagsOfImageFile(f bufimage.ImageFile) string {
	nm := "~"
	if fn := f.FullName(); fn != nil {
		nm = nameSlot(fn.Registry(), fn.Owner(), fn.Name())
	}
	cm := "~"
	if f.CommitID() != uuid.Nil {
		cm = uuidutil.ToDashless(f.CommitID())
	}
	return strings.Join([]string{tf(f.IsImport(), "1", "0"), tf(f.IsSyntaxUnspecified(), "1", "0"),
		int32s(f.UnusedDependencyIndexes()), nm, cm}, ";")
}

// directCompile is the independent compilation of the closure (every file of the closure is a
// root): path -> descriptor, and path -> set of imports the compiler flagged as unused.
func directCompile(e *expectation, mode protocompile.SourceInfoMode) (map[string]*descriptorpb.FileDescriptorProto, map[string]map[string]bool, error) {
	accessor := func(p string) (io.ReadCloser, error) {
		if f, ok := e.file[p]; ok {
			src, _, _ := f.Source()
			return io.NopCloser(strings.NewReader(src)), nil
		}
		return datawkt.ReadBucket.Get(ctx, p)
	}
	var roots []string
	for p := range e.closure {
		roots = append(roots, p)
	}
	sort.Strings(roots)
	unused := map[string]map[string]bool{}
	c := protocompile.Compiler{Resolver: &protocompile.SourceResolver{Accessor: accessor}, SourceInfoMode: mode,
		Reporter: reporter.NewReporter(
			func(err reporter.ErrorWithPos) error { return err },
			func(w reporter.ErrorWithPos) {
				if u, ok := w.Unwrap().(linker.ErrorUnusedImport); ok {
					fn := w.GetPosition().Filename
					if unused[fn] == nil {
						unused[fn] = map[string]bool{}
					}
					unused[fn][u.UnusedImport()] = true
				}
			})}
	files, err := c.Compile(ctx, roots...)
	if err != nil {
		return nil, nil, err
	}
	out := map[string]*descriptorpb.FileDescriptorProto{}
	for _, lf := range files {
		out[lf.Path()] = protoutil.ProtoFromFileDescriptor(lf)
	}
	return out, unused, nil
}

// rootsOnly keeps the unused-import verdicts of the target files: the compiler reports
// ErrorUnusedImport only for the files it was asked to compile, and buf asks for the targets.
func rootsOnly(e *expectation, unused map[string]map[string]bool) map[string]map[string]bool {
	out := map[string]map[string]bool{}
	for p, m := range unused {
		if e.targets[p] {
			out[p] = m
		}
	}
	return out
}

// expectedFlags is the bookkeeping side of the buf extension.
func expectedFlags(ws *wsgen.WS, e *expectation, unusedByFile map[string]map[string]bool, p string) wantFlags {
	w := wantFlags{isImport: !e.targets[p]}
	own := e.owner[p]
	if own == nil {
		return w // built-in well-known type: no module, never flagged
	}
	gf := e.file[p]
	w.su = gf.Syntax == wsgen.SynNone
	for i, imp := range gf.Imports {
		if unusedByFile[p][imp.Path] {
			w.unused = append(w.unused, int32(i))
		}
	}
	w.name = own.Name
	if !own.Local && own.Name != "" {
		w.commit = uuidutil.ToDashless(wsgen.CommitUUID(own.Name, own.Commit))
	}
	return w
}

// diffFields names the descriptor fields (by number) on which two slot maps differ.
func diffFields(got, want map[int]string) []string {
	var out []string
	for _, n := range descSlotOrder {
		if got[n] != want[n] {
			out = append(out, fmt.Sprintf("%s(%d): got %s want %s", descFieldNames[n], n, got[n], want[n]))
		}
	}
	return out
}

// importKinds counts what the file's import list exercises (distribution counters).
func importKinds(fd *descriptorpb.FileDescriptorProto, w wantFlags) string {
	var ks []string
	if len(fd.GetPublicDependency()) > 0 {
		ks = append(ks, "public")
	}
	if len(fd.GetWeakDependency()) > 0 {
		ks = append(ks, "weak")
	}
	if len(w.unused) > 0 {
		ks = append(ks, "unused")
	}
	if len(ks) == 0 {
		if len(fd.GetDependency()) == 0 {
			return "none"
		}
		return "plain"
	}
	return strings.Join(ks, "+")
}

func clearSourceInfo(fd *descriptorpb.FileDescriptorProto) *descriptorpb.FileDescriptorProto {
	c := proto.Clone(fd).(*descriptorpb.FileDescriptorProto)
	c.SourceCodeInfo = nil
	return c
}

// wireChecks: everything listed at the top of this file, for one built image.
func wireChecks(run *hx.Run, fail func(string, string), ws *wsgen.WS, e *expectation, unusedByFile map[string]map[string]bool,
	img bufimage.Image, want map[string]*descriptorpb.FileDescriptorProto) {
	files := img.Files()
	// ---- proto image form, field by field ----
	pimg, err := bufimage.ImageToProtoImage(img)
	if err != nil {
		fail("wire-conversion-failed", "ImageToProtoImage: "+err.Error())
		return
	}
	if len(pimg.GetFile()) != len(files) {
		fail("wire-file-count", fmt.Sprintf("proto image has %d files, image %d", len(pimg.GetFile()), len(files)))
		return
	}
	data, err := proto.MarshalOptions{Deterministic: true}.Marshal(pimg)
	if err != nil {
		fail("wire-conversion-failed", "marshal proto image: "+err.Error())
		return
	}
	// read back: bytes -> imagev1.Image -> NewImageForProto
	back := &imagev1.Image{}
	var img2 bufimage.Image
	var data2 []byte
	if err := proto.Unmarshal(data, back); err != nil {
		fail("wire-readback-failed", "unmarshal of the marshalled proto image: "+err.Error())
	} else if img2, err = bufimage.NewImageForProto(back); err != nil {
		fail("wire-readback-failed", "NewImageForProto of the marshalled proto image: "+err.Error())
		img2 = nil
	} else if len(img2.Files()) != len(files) {
		fail("wire-readback-differs", fmt.Sprintf("image read back has %d files, image %d", len(img2.Files()), len(files)))
		img2 = nil
	} else if pimg2, err := bufimage.ImageToProtoImage(img2); err != nil {
		fail("wire-conversion-failed", "ImageToProtoImage of the image read back: "+err.Error())
	} else if data2, err = (proto.MarshalOptions{Deterministic: true}).Marshal(pimg2); err != nil {
		fail("wire-conversion-failed", "marshal of the re-serialised proto image: "+err.Error())
	}
	identical := img2 != nil && data2 != nil && bytes.Equal(data, data2)
	if img2 != nil && data2 != nil && !identical {
		fail("wire-reserialise-differs", fmt.Sprintf("proto image -> NewImageForProto -> proto image changed the bytes (%d -> %d bytes)", len(data), len(data2)))
	}
	// the same bytes as a plain FileDescriptorSet
	fds := &descriptorpb.FileDescriptorSet{}
	if err := proto.Unmarshal(data, fds); err != nil {
		fail("wire-as-descriptor-set-differs", "the marshalled image does not parse as a FileDescriptorSet: "+err.Error())
		fds = nil
	}
	for i, f := range files {
		p := f.Path()
		pf := pimg.GetFile()[i]
		w := want[p]
		if w == nil {
			continue
		}
		if pf.GetName() != p {
			fail("wire-field-differs", fmt.Sprintf("file %d of the proto image is %q, of the image %q", i, pf.GetName(), p))
			continue
		}
		wf := expectedFlags(ws, e, unusedByFile, p)
		run.Count("wire:imports:" + importKinds(w, wf))
		run.Count("wire:syntax:" + tf(w.Syntax == nil, "unset", w.GetSyntax()))
		wantSlots, _ := slotsByNumber(w.ProtoReflect())
		gotSlots, extra := slotsByNumber(pf.ProtoReflect())
		if d := diffFields(gotSlots, wantSlots); len(d) > 0 {
			fail("wire-field-differs", fmt.Sprintf("%s: ImageToProtoImage differs from an independent compile of the same source in %s", p, strings.Join(d, "; ")))
		}
		if len(extra) > 0 || len(pf.ProtoReflect().GetUnknown()) > 0 {
			fail("wire-field-differs", fmt.Sprintf("%s: proto image file carries fields the compiler did not produce: numbers %v, %d unknown bytes", p, extra, len(pf.ProtoReflect().GetUnknown())))
		}
		// the buf extension against the bookkeeping
		wantExt := strings.Join([]string{tf(wf.isImport, "1", "0"), tf(wf.su, "1", "0"), int32s(wf.unused)}, ";")
		mi := "~"
		if wf.name != "" {
			parts := strings.SplitN(wf.name, "/", 3)
			mi = nameSlot(parts[0], parts[1], parts[2]) + "@" + commitSlot(wf.commit != "", wf.commit)
		}
		wantExt += ";" + mi
		if got := extLine(pf); got != wantExt {
			fail("wire-extension-differs", fmt.Sprintf("%s: buf extension is %s, expected %s (is_import;is_syntax_unspecified;unused_dependency;module@commit)", p, got, wantExt))
		}
		// read back
		rb := "err:readback"
		if img2 != nil {
			f2 := img2.Files()[i]
			s2, _ := slotsByNumber(f2.FileDescriptorProto().ProtoReflect())
			rb = "ok:" + descLine(s2, unknownSlot(f2.FileDescriptorProto().ProtoReflect())) + "|" + flagsOfImageFile(f2)
			if !proto.Equal(f2.FileDescriptorProto(), w) {
				fail("wire-readback-differs", fmt.Sprintf("%s: descriptor after marshal -> unmarshal -> NewImageForProto differs from an independent compile (%s)", p, strings.Join(diffFields(s2, wantSlots), "; ")))
			}
			if got := flagsOfImageFile(f2); got != wf.line() {
				fail("wire-readback-differs", fmt.Sprintf("%s: flags after the round trip are %s, expected %s", p, got, wf.line()))
			}
		}
		// as a FileDescriptorSet consumer sees it
		if fds != nil && i < len(fds.GetFile()) {
			fd := fds.GetFile()[i]
			unk := fd.ProtoReflect().GetUnknown()
			for len(unk) > 0 {
				num, _, n := protowire.ConsumeField(unk)
				if n < 0 || num != bufExtensionNumber {
					fail("wire-as-descriptor-set-differs", fmt.Sprintf("%s: unknown field %d next to the descriptor fields", p, num))
					break
				}
				unk = unk[n:]
			}
			fd.ProtoReflect().SetUnknown(nil)
			if !proto.Equal(fd, w) {
				s3, _ := slotsByNumber(fd.ProtoReflect())
				fail("wire-as-descriptor-set-differs", fmt.Sprintf("%s: the image bytes read as a FileDescriptorSet differ from an independent compile (%s)", p, strings.Join(diffFields(s3, wantSlots), "; ")))
			}
		}
		// protocol line: want + bookkeeping through the model, the real conversions as the answer
		in := "wire\t" + descLine(wantSlots, "_") + "\t" + wf.line()
		impl := "P=" + descLine(gotSlots, unknownSlot(pf.ProtoReflect())) + "|" + extLine(pf) + " R=" + rb + " F=" + tf(identical, "1", "0")
		run.Case(in, impl, len(w.GetDependency()) > 0)
	}
	// ---- the other ways out of an image ----
	if set := bufimage.ImageToFileDescriptorSet(img); len(set.GetFile()) != len(files) {
		fail("descriptor-set-differs", fmt.Sprintf("ImageToFileDescriptorSet has %d files, image %d", len(set.GetFile()), len(files)))
	} else {
		for i, f := range files {
			if w := want[f.Path()]; w != nil && !proto.Equal(set.GetFile()[i], w) {
				s, _ := slotsByNumber(set.GetFile()[i].ProtoReflect())
				ws, _ := slotsByNumber(w.ProtoReflect())
				fail("descriptor-set-differs", fmt.Sprintf("%s: ImageToFileDescriptorSet differs from an independent compile (%s)", f.Path(), strings.Join(diffFields(s, ws), "; ")))
			}
		}
	}
	if req, err := bufimage.ImageToCodeGeneratorRequest(img, "", nil, true, true); err != nil {
		fail("request-descriptor-differs", "ImageToCodeGeneratorRequest: "+err.Error())
	} else if len(req.GetSourceFileDescriptors()) != len(files) || len(req.GetFileToGenerate()) != len(files) || len(req.GetProtoFile()) != len(files) {
		fail("request-descriptor-differs", fmt.Sprintf("include-imports + include-wkt request generates %d of %d files (%d descriptors, %d source descriptors)",
			len(req.GetFileToGenerate()), len(files), len(req.GetProtoFile()), len(req.GetSourceFileDescriptors())))
	} else {
		// source_file_descriptors = the descriptors as compiled; proto_file = the same minus
		// source-retention options (only descriptor.proto declares any here: compared when the
		// file has no options with retention, i.e. for every generated file)
		for i, f := range files {
			w := want[f.Path()]
			if w == nil {
				continue
			}
			if !proto.Equal(req.GetSourceFileDescriptors()[i], w) {
				s, _ := slotsByNumber(req.GetSourceFileDescriptors()[i].ProtoReflect())
				ws, _ := slotsByNumber(w.ProtoReflect())
				fail("request-descriptor-differs", fmt.Sprintf("%s: source_file_descriptors of the CodeGeneratorRequest differs from an independent compile (%s)", f.Path(), strings.Join(diffFields(s, ws), "; ")))
			}
			if f.Path() != "google/protobuf/descriptor.proto" && !proto.Equal(req.GetProtoFile()[i], w) {
				s, _ := slotsByNumber(req.GetProtoFile()[i].ProtoReflect())
				ws, _ := slotsByNumber(w.ProtoReflect())
				fail("request-descriptor-differs", fmt.Sprintf("%s: proto_file of the CodeGeneratorRequest differs from an independent compile (%s)", f.Path(), strings.Join(diffFields(s, ws), "; ")))
			}
		}
		// a plugin-side reader of the request
		if img3, err := bufimage.NewImageForCodeGeneratorRequest(req); err != nil {
			fail("request-readback-differs", "NewImageForCodeGeneratorRequest: "+err.Error())
		} else {
			for _, f3 := range img3.Files() {
				if w := want[f3.Path()]; w != nil && f3.Path() != "google/protobuf/descriptor.proto" && !proto.Equal(f3.FileDescriptorProto(), w) {
					s, _ := slotsByNumber(f3.FileDescriptorProto().ProtoReflect())
					ws, _ := slotsByNumber(w.ProtoReflect())
					fail("request-readback-differs", fmt.Sprintf("%s: descriptor read back from the CodeGeneratorRequest differs from an independent compile (%s)", f3.Path(), strings.Join(diffFields(s, ws), "; ")))
				}
			}
			if len(img3.Files()) != len(files) {
				fail("request-readback-differs", fmt.Sprintf("image read back from the request has %d files, image %d", len(img3.Files()), len(files)))
			}
		}
	}
}

// noSourceInfoChecks: the image built with WithExcludeSourceCodeInfo is the same image minus
// source_code_info, in memory and serialised.
func noSourceInfoChecks(run *hx.Run, fail func(string, string), img, imgNo bufimage.Image, want map[string]*descriptorpb.FileDescriptorProto) {
	run.Count("exclude-source-info-builds")
	a, b := img.Files(), imgNo.Files()
	if len(a) != len(b) {
		fail("source-info-flag", fmt.Sprintf("image without source info has %d files, with %d", len(b), len(a)))
		return
	}
	pimg, err := bufimage.ImageToProtoImage(imgNo)
	if err != nil {
		fail("wire-conversion-failed", "ImageToProtoImage (exclude source info): "+err.Error())
		return
	}
	for i := range a {
		p := a[i].Path()
		if b[i].Path() != p || b[i].IsImport() != a[i].IsImport() || b[i].IsSyntaxUnspecified() != a[i].IsSyntaxUnspecified() ||
			fmt.Sprint(b[i].UnusedDependencyIndexes()) != fmt.Sprint(a[i].UnusedDependencyIndexes()) {
			fail("source-info-flag", fmt.Sprintf("file %d: %s with flags %s, without source info %s with flags %s", i, p, flagsOfImageFile(a[i]), b[i].Path(), flagsOfImageFile(b[i])))
			continue
		}
		w := want[p]
		if w == nil {
			continue
		}
		stripped := clearSourceInfo(w)
		if b[i].FileDescriptorProto().SourceCodeInfo != nil || pimg.GetFile()[i].HasSourceCodeInfo() {
			fail("source-info-flag", p+": source_code_info present although it was excluded")
		}
		if w.SourceCodeInfo == nil || a[i].FileDescriptorProto().SourceCodeInfo == nil {
			fail("source-info-flag", p+": source_code_info absent although it was not excluded")
		}
		if !proto.Equal(b[i].FileDescriptorProto(), stripped) {
			s, _ := slotsByNumber(b[i].FileDescriptorProto().ProtoReflect())
			ws, _ := slotsByNumber(stripped.ProtoReflect())
			fail("descriptor-differs", fmt.Sprintf("%s: descriptor built without source info differs from an independent compile minus source_code_info (%s)", p, strings.Join(diffFields(s, ws), "; ")))
		}
		gotSlots, _ := slotsByNumber(pimg.GetFile()[i].ProtoReflect())
		wantSlots, _ := slotsByNumber(stripped.ProtoReflect())
		if d := diffFields(gotSlots, wantSlots); len(d) > 0 {
			fail("wire-field-differs", fmt.Sprintf("%s (exclude source info): ImageToProtoImage differs from an independent compile in %s", p, strings.Join(d, "; ")))
		}
	}
}
