package main

// Section D: the real binary.  Family workspaces (family.go) written to disk as v2 workspaces of
// local modules; `buf build -o` in every form; the files written are decoded here and compared,
// per file and per field number, with the independent compile and the generator's bookkeeping.

import (
	"fmt"
	"os"
	"os/exec"
	"path/filepath"
	"sort"
	"strings"
	"sync"

	imagev1 "github.com/bufbuild/buf/private/gen/proto/go/buf/alpha/image/v1"
	"github.com/bufbuild/protocompile"
	"github.com/bufbuild/verifharness/internal/hx"
	"github.com/bufbuild/verifharness/internal/wsgen"
	"google.golang.org/protobuf/encoding/protojson"
	"google.golang.org/protobuf/encoding/prototext"
	"google.golang.org/protobuf/proto"
	"google.golang.org/protobuf/types/descriptorpb"
)

type binForm struct {
	name    string
	out     string
	flags   []string
	noSrc   bool // --exclude-source-info
	asFDS   bool // --as-file-descriptor-set
	noImps  bool // --exclude-imports
	decoder string
}

var binForms = []binForm{
	{name: "binpb", out: "img.binpb", decoder: "bin"},
	{name: "json", out: "img.json", decoder: "json"},
	{name: "txtpb", out: "img.txtpb", decoder: "txt"},
	{name: "exclude-source-info", out: "nosrc.binpb", flags: []string{"--exclude-source-info"}, noSrc: true, decoder: "bin"},
	{name: "as-file-descriptor-set", out: "fds.binpb", flags: []string{"--as-file-descriptor-set"}, asFDS: true, decoder: "bin"},
	{name: "exclude-imports", out: "noimp.binpb", flags: []string{"--exclude-imports"}, noImps: true, decoder: "bin"},
	{name: "fds+exclude-source-info+json", out: "fdsnosrc.json", flags: []string{"--as-file-descriptor-set", "--exclude-source-info"}, asFDS: true, noSrc: true, decoder: "json"},
}

type binJob struct {
	idx    int
	ws     *wsgen.WS
	dir    string
	path   []string // extra --path arguments
	form   binForm
	exit   int
	stderr string
	data   []byte
	rerr   error
}

func buildBuf(outDir string) (string, error) {
	repo := os.Getenv("VERIF_REPO")
	if repo == "" {
		repo = "/repo"
	}
	out := filepath.Join(outDir, "buf")
	cmd := exec.Command("go", "build", "-o", out, "./cmd/buf")
	cmd.Dir = repo
	cmd.Env = append(os.Environ(), "GOPROXY=off", "GOFLAGS=-mod=mod")
	if b, err := cmd.CombinedOutput(); err != nil {
		return "", fmt.Errorf("go build ./cmd/buf in %s: %v\n%s", repo, err, b)
	}
	return out, nil
}

// binWorkspace: a family workspace of local modules only (the binary has no registry).
func binWorkspace(run *hx.Run, r *hx.Rand, j int) (*wsgen.WS, []string) {
	seqs := famSeqs(3)
	seq := seqs[r.Intn(len(seqs))]
	if j < len(famKinds) {
		// the first six always hold one kind each next to an unused and a public import
		seq = "u" + string(famKinds[j]) + "b"
	}
	mainFile, leaves := famFiles(r, seq, famSyntaxes[j%len(famSyntaxes)])
	ws := &wsgen.WS{Kind: "v2"}
	var paths []string
	switch j % 3 {
	case 0: // one module, everything is a target
		ws.Added = []wsgen.Added{{Dir: "d0", Local: true, Target: true, Name: "buf.test/acme/all", Files: sortFiles(append([]wsgen.File{mainFile}, leaves...))}}
	case 1: // two modules, all targets
		ws.Added = []wsgen.Added{{Dir: "d0", Local: true, Target: true, Files: []wsgen.File{mainFile}}}
		if len(leaves) > 0 {
			ws.Added = append(ws.Added, wsgen.Added{Dir: "d1", Local: true, Target: true, Name: "buf.test/acme/leaves", Files: sortFiles(leaves)})
		}
	default: // two modules, --path selects the main file: the leaves are imports
		ws.Added = []wsgen.Added{{Dir: "d0", Local: true, Target: true, Paths: []string{"m/main.proto"}, Files: []wsgen.File{mainFile}}}
		if len(leaves) > 0 {
			ws.Added = append(ws.Added, wsgen.Added{Dir: "d1", Local: true, Name: "buf.test/acme/leaves", Files: sortFiles(leaves)})
		}
		paths = []string{"--path", "d0/m/main.proto"}
	}
	return ws, paths
}

func writeBinWorkspace(ws *wsgen.WS, dir string) error {
	var yaml strings.Builder
	yaml.WriteString("version: v2\nmodules:\n")
	for i := range ws.Added {
		a := &ws.Added[i]
		fmt.Fprintf(&yaml, "  - path: %s\n", a.Dir)
		if a.Name != "" {
			fmt.Fprintf(&yaml, "    name: %s\n", a.Name)
		}
		for j := range a.Files {
			src, _, _ := a.Files[j].Source()
			full := filepath.Join(dir, a.Dir, filepath.FromSlash(a.Files[j].Path))
			if err := os.MkdirAll(filepath.Dir(full), 0o755); err != nil {
				return err
			}
			if err := os.WriteFile(full, []byte(src), 0o644); err != nil {
				return err
			}
		}
	}
	return os.WriteFile(filepath.Join(dir, "buf.yaml"), []byte(yaml.String()), 0o644)
}

func binarySection(run *hx.Run, r *hx.Rand, root string, firstIdx int) {
	n := run.N(9, 60)
	if run.Only >= 0 && (run.Only < firstIdx || run.Only >= firstIdx+n) {
		return
	}
	if err := os.MkdirAll(root, 0o755); err != nil {
		panic(err)
	}
	defer os.RemoveAll(root)
	bufBin, err := bufBinary(run)
	if err != nil {
		run.Fail(hx.OracleFailure{Class: "buf-binary-does-not-build", What: err.Error(), Replay: "go build ./cmd/buf"})
		return
	}
	var jobs []*binJob
	for j := 0; j < n; j++ {
		if run.Only >= 0 && run.Only != firstIdx+j {
			continue
		}
		ws, paths := binWorkspace(run, r.Fork(uint64(j)), j)
		dir := filepath.Join(root, fmt.Sprintf("ws%d", j))
		if err := writeBinWorkspace(ws, dir); err != nil {
			panic(err)
		}
		for _, f := range binForms {
			jobs = append(jobs, &binJob{idx: firstIdx + j, ws: ws, dir: dir, path: paths, form: f})
		}
	}
	sem := make(chan struct{}, 12)
	var wg sync.WaitGroup
	for _, jb := range jobs {
		wg.Add(1)
		go func(jb *binJob) {
			defer wg.Done()
			sem <- struct{}{}
			defer func() { <-sem }()
			args := append([]string{"build", ".", "-o", jb.form.out}, jb.form.flags...)
			args = append(args, jb.path...)
			cmd := exec.Command(bufBin, args...)
			cmd.Dir = jb.dir
			cmd.Env = bufEnv(run)
			var stderr strings.Builder
			cmd.Stderr = &stderr
			if err := cmd.Run(); err != nil {
				jb.exit = 1
				if ee, ok := err.(*exec.ExitError); ok {
					jb.exit = ee.ExitCode()
				}
			}
			jb.stderr = stderr.String()
			jb.data, jb.rerr = os.ReadFile(filepath.Join(jb.dir, jb.form.out))
		}(jb)
	}
	wg.Wait()
	// evaluation (single-threaded: hx.Run is not thread-safe)
	type prep struct {
		e       *expectation
		unused  map[string]map[string]bool
		want    map[string]*descriptorpb.FileDescriptorProto
		prepErr error
	}
	preps := map[*wsgen.WS]*prep{}
	for _, jb := range jobs {
		p := preps[jb.ws]
		if p == nil {
			p = &prep{}
			sel := map[string]*wsgen.Added{}
			for i := range jb.ws.Added {
				sel[jb.ws.Added[i].OID()] = &jb.ws.Added[i]
			}
			p.e = expect(sel)
			var unusedAll map[string]map[string]bool
			p.want, unusedAll, p.prepErr = directCompile(p.e, protocompile.SourceInfoExtraOptionLocations)
			p.unused = rootsOnly(p.e, unusedAll)
			preps[jb.ws] = p
		}
		binEvaluate(run, jb, p.e, p.unused, p.want, p.prepErr)
	}
}

func binEvaluate(run *hx.Run, jb *binJob, e *expectation, unusedByFile map[string]map[string]bool,
	want map[string]*descriptorpb.FileDescriptorProto, prepErr error) {
	replay := fmt.Sprintf("build/c01 --seed %d --tier %s --only %d --out /tmp/c01-replay  (buf build . -o %s %s %s in the v2 workspace of the input)",
		run.Seed, run.Tier, jb.idx, jb.form.out, strings.Join(jb.form.flags, " "), strings.Join(jb.path, " "))
	fail := func(class, what string) {
		srcs := map[string]string{}
		for i := range jb.ws.Added {
			for j := range jb.ws.Added[i].Files {
				s, _, _ := jb.ws.Added[i].Files[j].Source()
				srcs[jb.ws.Added[i].Dir+"/"+jb.ws.Added[i].Files[j].Path] = s
			}
		}
		run.Fail(hx.OracleFailure{Class: class, What: "buf build -o (" + jb.form.name + "): " + what,
			Input: map[string]any{"form": jb.form.name, "flags": jb.form.flags, "path": jb.path, "files": srcs, "added": jb.ws.Added}, Replay: replay})
	}
	run.Eval()
	run.Count("binary:" + jb.form.name)
	if prepErr != nil || !e.clean || e.noTargets {
		fail("direct-compile-failed", fmt.Sprintf("the binary-section workspace is not clean: %v", prepErr))
		return
	}
	if jb.exit != 0 || jb.rerr != nil {
		fail("buildable-fails", fmt.Sprintf("exit %d, read error %v, stderr %q", jb.exit, jb.rerr, jb.stderr))
		return
	}
	// decode
	pimg := &imagev1.Image{}
	var derr error
	switch jb.form.decoder {
	case "bin":
		derr = proto.Unmarshal(jb.data, pimg)
	case "json":
		derr = protojson.Unmarshal(jb.data, pimg)
	case "txt":
		derr = prototext.Unmarshal(jb.data, pimg)
	}
	if derr != nil {
		fail("wire-readback-failed", "the written file does not decode as an image: "+derr.Error())
		return
	}
	// expected file set
	wantPaths := map[string]bool{}
	for p := range e.closure {
		if !jb.form.noImps || e.targets[p] {
			wantPaths[p] = true
		}
	}
	seen := map[string]int{}
	for i, pf := range pimg.GetFile() {
		p := pf.GetName()
		if _, dup := seen[p]; dup {
			fail("image-dup-path", "path "+p+" twice in the written image")
		}
		seen[p] = i
		if !wantPaths[p] {
			fail("image-not-minimal", "written image contains "+p+tf(jb.form.noImps, " (an import, with --exclude-imports)", " which no target imports"))
			continue
		}
		for _, d := range pf.GetDependency() {
			if j, ok := seen[d]; wantPaths[d] && (!ok || j >= i) {
				fail("image-order", fmt.Sprintf("%s is not preceded by its import %s in the written image", p, d))
			}
		}
		w := want[p]
		if w == nil {
			continue
		}
		if jb.form.noSrc {
			w = clearSourceInfo(w)
		}
		wantSlots, _ := slotsByNumber(w.ProtoReflect())
		gotSlots, extra := slotsByNumber(pf.ProtoReflect())
		if d := diffFields(gotSlots, wantSlots); len(d) > 0 {
			fail("wire-field-differs", fmt.Sprintf("%s: the written image differs from an independent compile of the same source in %s", p, strings.Join(d, "; ")))
		}
		if len(extra) > 0 || len(pf.ProtoReflect().GetUnknown()) > 0 {
			fail("wire-field-differs", fmt.Sprintf("%s: written image file carries fields the compiler did not produce: numbers %v, %d unknown bytes", p, extra, len(pf.ProtoReflect().GetUnknown())))
		}
		if jb.form.noSrc == pf.HasSourceCodeInfo() {
			fail("source-info-flag", fmt.Sprintf("%s: source_code_info present=%v with flags %v", p, pf.HasSourceCodeInfo(), jb.form.flags))
		}
		// buf extension
		if jb.form.asFDS {
			if pf.HasBufExtension() {
				fail("wire-extension-differs", p+": --as-file-descriptor-set output carries the buf extension")
			}
			continue
		}
		wf := expectedFlags(jb.ws, e, unusedByFile, p)
		wantExt := strings.Join([]string{tf(wf.isImport, "1", "0"), tf(wf.su, "1", "0"), int32s(wf.unused)}, ";")
		mi := "~"
		if wf.name != "" {
			parts := strings.SplitN(wf.name, "/", 3)
			mi = nameSlot(parts[0], parts[1], parts[2]) + "@" + commitSlot(false, "")
		}
		wantExt += ";" + mi
		if got := extLine(pf); got != wantExt {
			fail("wire-extension-differs", fmt.Sprintf("%s: buf extension is %s, expected %s (is_import;is_syntax_unspecified;unused_dependency;module@commit)", p, got, wantExt))
		}
	}
	var missing []string
	for p := range wantPaths {
		if _, ok := seen[p]; !ok {
			missing = append(missing, p)
		}
	}
	sort.Strings(missing)
	if len(missing) > 0 {
		fail("image-not-closed", fmt.Sprintf("written image lacks %v", missing))
	}
}
