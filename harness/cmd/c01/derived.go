package main

// Section G: DERIVED images.  Every way the tool hands out an image made from another image must
// keep C01's "closed" and "ordered" clauses: each `dependency` entry of each file is a file of
// the image (whether or not the compiler flagged that import as unused, whether it is plain,
// public or weak, a workspace file or a well-known type), every file stands after the files it
// imports, each path once, and protodesc.NewFiles links the files in the order given.
//
// Operations, applied to images BuildImage returned for a clean closure (the generator plants
// unused / public / weak imports, unused imports of files that import further files, and unused
// WKT imports; the stratified family of section C has every combination):
//
//	ImageWithOnlyPaths / ImageWithOnlyPathsAllowNotExist   files, directories, exclude paths, a
//	                                                       path that does not exist
//	ImageByDir + ImagesToCodeGeneratorRequests             (what `strategy: directory` sends)
//	ImageToCodeGeneratorRequest of a --path subset
//	ImageWithoutImports                                    (its contract: exactly the non-imports)
//	bufimageutil.FilterImage(WithIncludeTypes(one message))
//
// Oracle: implementation only.  Correspondence: one `iwop` line per path filter (the model is
// C11's BufModel.ImagePaths.imageWithOnlyPaths, whose walk follows EVERY dependency).

import (
	"fmt"
	"sort"
	"strings"

	"github.com/bufbuild/buf/private/bufpkg/bufimage"
	"github.com/bufbuild/buf/private/bufpkg/bufimage/bufimageutil"
	"github.com/bufbuild/verifharness/internal/hx"
	"google.golang.org/protobuf/reflect/protodesc"
	"google.golang.org/protobuf/types/descriptorpb"
)

// closedOrdered checks the clauses on a plain descriptor list.
func closedOrdered(what string, fds []*descriptorpb.FileDescriptorProto, fail func(string, string)) {
	pos := map[string]int{}
	for i, fd := range fds {
		if _, dup := pos[fd.GetName()]; dup {
			fail("derived-image-dup-path", fmt.Sprintf("%s: path %s appears twice", what, fd.GetName()))
		}
		pos[fd.GetName()] = i
	}
	ok := true
	for i, fd := range fds {
		for k, d := range fd.GetDependency() {
			j, in := pos[d]
			switch {
			case !in:
				ok = false
				fail("derived-image-not-closed", fmt.Sprintf("%s: %s lists dependency[%d] %q, which is not a file of the image (files: %v)", what, fd.GetName(), k, d, names(fds)))
			case j >= i:
				ok = false
				fail("derived-image-order", fmt.Sprintf("%s: %s stands before its import %s (files: %v)", what, fd.GetName(), d, names(fds)))
			}
		}
	}
	if !ok {
		return
	}
	if _, err := protodesc.NewFiles(&descriptorpb.FileDescriptorSet{File: fds}); err != nil {
		fail("derived-image-does-not-link", fmt.Sprintf("%s: protodesc.NewFiles: %v", what, err))
	}
}

func names(fds []*descriptorpb.FileDescriptorProto) []string {
	out := make([]string, len(fds))
	for i, fd := range fds {
		out[i] = fd.GetName()
	}
	return out
}

func imageFDs(img bufimage.Image) []*descriptorpb.FileDescriptorProto {
	var out []*descriptorpb.FileDescriptorProto
	for _, f := range img.Files() {
		out = append(out, f.FileDescriptorProto())
	}
	return out
}

// depClosure is the set of files reachable from roots through the dependency lists of img.
func depClosure(img bufimage.Image, roots []string) map[string]bool {
	out := map[string]bool{}
	stack := append([]string(nil), roots...)
	for len(stack) > 0 {
		p := stack[len(stack)-1]
		stack = stack[:len(stack)-1]
		if out[p] {
			continue
		}
		f := img.GetFile(p)
		if f == nil {
			continue
		}
		out[p] = true
		stack = append(stack, f.FileDescriptorProto().GetDependency()...)
	}
	return out
}

func iwopFiles(img bufimage.Image) string {
	var parts []string
	for _, f := range img.Files() {
		var deps []string
		for _, d := range f.FileDescriptorProto().GetDependency() {
			deps = append(deps, hx.Enc(d))
		}
		ds := "-"
		if len(deps) > 0 {
			ds = strings.Join(deps, ",")
		}
		parts = append(parts, hx.Enc(f.Path())+":"+tf(f.IsImport(), "I", "N")+":"+ds)
	}
	return strings.Join(parts, ";")
}

func iwopStrs(xs []string) string {
	if len(xs) == 0 {
		return "-"
	}
	out := make([]string, len(xs))
	for i, x := range xs {
		out[i] = hx.Enc(x)
	}
	return strings.Join(out, ",")
}

func iwopAnswer(img bufimage.Image, err error) string {
	if err != nil {
		msg := err.Error()
		switch {
		case strings.Contains(msg, "cannot set the same path for both"):
			return "err:same-path"
		case strings.Contains(msg, `"." is not a valid path value`):
			return "err:dot-path"
		case strings.Contains(msg, "has no matching file in the image"):
			return "err:no-match"
		case strings.Contains(msg, "image contains no files"):
			return "err:no-files"
		case strings.Contains(msg, "duplicate file"):
			return "err:duplicate"
		}
		return "err:other:" + hx.Enc(msg)
	}
	var parts []string
	for _, f := range img.Files() {
		parts = append(parts, hx.Enc(f.Path())+":"+tf(f.IsImport(), "I", "N"))
	}
	return "ok " + strings.Join(parts, ",")
}

// hasUnusedShape says whether some file of the image lists a dependency the compiler flagged.
func hasUnusedShape(img bufimage.Image) bool {
	for _, f := range img.Files() {
		if len(f.UnusedDependencyIndexes()) > 0 {
			return true
		}
	}
	return false
}

// derivedChecks runs the derived-image operations on one built image.
func derivedChecks(run *hx.Run, fail func(string, string), r *hx.Rand, img bufimage.Image) {
	files := img.Files()
	if len(files) == 0 {
		return
	}
	run.Count("derived:images")
	if hasUnusedShape(img) {
		run.Count("derived:images-with-unused-import")
	}
	// the source image itself
	closedOrdered("the built image", imageFDs(img), fail)

	// ---- path filters ----
	var allPaths, dirs []string
	seenDir := map[string]bool{}
	for _, f := range files {
		allPaths = append(allPaths, f.Path())
		for _, d := range append([]string{}, parentDirsOf(f.Path())...) {
			if !seenDir[d] {
				seenDir[d] = true
				dirs = append(dirs, d)
			}
		}
	}
	sort.Strings(dirs)
	type filt struct{ paths, excl []string }
	var filters []filt
	// files with a flagged import first: they are what the family is about
	for _, f := range files {
		if len(f.UnusedDependencyIndexes()) > 0 {
			filters = append(filters, filt{paths: []string{f.Path()}})
			// and somebody who imports that file
			for _, g := range files {
				for _, d := range g.FileDescriptorProto().GetDependency() {
					if d == f.Path() {
						filters = append(filters, filt{paths: []string{g.Path()}})
					}
				}
			}
		}
	}
	if len(filters) > 3 {
		hx.Shuffle(r, filters)
		filters = filters[:3]
	}
	filters = append(filters, filt{paths: []string{hx.Pick(r, allPaths)}})
	if len(dirs) > 0 {
		d := hx.Pick(r, dirs)
		fl := filt{paths: []string{d}}
		// an exclude strictly below the directory
		var below []string
		for _, p := range allPaths {
			if contains(d, p) && p != d {
				below = append(below, p)
			}
		}
		if len(below) > 1 && r.Bool() {
			fl.excl = []string{hx.Pick(r, below)}
		}
		filters = append(filters, fl)
	}
	if r.Chance(1, 3) {
		filters = append(filters, filt{excl: []string{hx.Pick(r, allPaths)}})
	}
	if r.Chance(1, 3) {
		filters = append(filters, filt{paths: []string{hx.Pick(r, allPaths), "no/such/dir"}})
	}
	for _, fl := range filters {
		for _, allow := range []bool{true, false} {
			if !allow && r.Bool() {
				continue
			}
			var res bufimage.Image
			var err error
			if allow {
				res, err = bufimage.ImageWithOnlyPathsAllowNotExist(img, fl.paths, fl.excl)
			} else {
				res, err = bufimage.ImageWithOnlyPaths(img, fl.paths, fl.excl)
			}
			line := "iwop\t" + tf(allow, "1", "0") + "\t" + iwopFiles(img) + "\t" + iwopStrs(fl.paths) + "\t" + iwopStrs(fl.excl)
			ans := iwopAnswer(res, err)
			run.Case(line, ans, err == nil && len(res.Files()) > 1)
			run.Count("derived:path-filter:" + tf(err == nil, "ok", strings.SplitN(ans, ":", 3)[1]))
			what := fmt.Sprintf("ImageWithOnlyPaths%s(paths=%q, excludes=%q)", tf(allow, "AllowNotExist", ""), fl.paths, fl.excl)
			if err != nil {
				if strings.HasPrefix(ans, "err:other") {
					fail("derived-image-unclassified-error", what+": "+err.Error())
				}
				missing := false
				for _, p := range append(append([]string{}, fl.paths...), fl.excl...) {
					hit := false
					for _, q := range allPaths {
						if contains(p, q) {
							hit = true
						}
					}
					if !hit {
						missing = true
					}
				}
				// selecting nothing at all is a legitimate failure ("image contains no files")
				if !(missing && !allow) && ans != "err:no-files" {
					fail("derived-image-filter-fails", what+" failed although every path names a file or directory of the image: "+err.Error())
				}
				continue
			}
			closedOrdered(what, imageFDs(res), fail)
			// the exact file set: the selected files plus the closure of their dependency lists
			var roots []string
			for _, f := range files {
				in := len(fl.paths) == 0 && !f.IsImport()
				for _, p := range fl.paths {
					if contains(p, f.Path()) {
						in = true
					}
				}
				for _, e := range fl.excl {
					if contains(e, f.Path()) {
						in = false
					}
				}
				if in {
					roots = append(roots, f.Path())
				}
			}
			want := depClosure(img, roots)
			got := map[string]bool{}
			rootSet := map[string]bool{}
			for _, p := range roots {
				rootSet[p] = true
			}
			for _, f := range res.Files() {
				got[f.Path()] = true
				if !want[f.Path()] {
					fail("derived-image-not-minimal", fmt.Sprintf("%s: contains %s, which is neither selected nor imported by a selected file", what, f.Path()))
				}
				if f.IsImport() == rootSet[f.Path()] {
					fail("derived-image-flag", fmt.Sprintf("%s: %s has isImport=%v but selected=%v", what, f.Path(), f.IsImport(), rootSet[f.Path()]))
				}
			}
			for p := range want {
				if !got[p] {
					fail("derived-image-not-closed", fmt.Sprintf("%s: lacks %s, which is selected or transitively imported by a selected file", what, p))
				}
			}
			// the request a plugin would get for this subset
			if r.Chance(1, 2) {
				req, rerr := bufimage.ImageToCodeGeneratorRequest(res, "", nil, r.Bool(), r.Bool())
				if rerr != nil {
					fail("derived-image-request-failed", what+": ImageToCodeGeneratorRequest: "+rerr.Error())
				} else {
					requestChecks(what+" -> CodeGeneratorRequest", req.GetProtoFile(), req.GetFileToGenerate(), fail)
				}
			}
		}
	}

	// ---- ImageByDir and the requests of `strategy: directory` ----
	byDir, err := bufimage.ImageByDir(img)
	if err != nil {
		fail("derived-image-filter-fails", "ImageByDir failed: "+err.Error())
	} else {
		run.Count("derived:by-dir")
		nonImports := map[string]int{}
		for k, sub := range byDir {
			what := fmt.Sprintf("ImageByDir[%d]", k)
			closedOrdered(what, imageFDs(sub), fail)
			dir := ""
			for _, f := range sub.Files() {
				if f.IsImport() {
					continue
				}
				nonImports[f.Path()]++
				d := dirOf(f.Path())
				if dir == "" {
					dir = d
				} else if d != dir {
					fail("derived-image-by-dir", fmt.Sprintf("%s: non-imports of two directories %s and %s", what, dir, d))
				}
				if o := img.GetFile(f.Path()); o == nil || o.IsImport() {
					fail("derived-image-by-dir", fmt.Sprintf("%s: %s is a non-import here but not in the image", what, f.Path()))
				}
			}
		}
		for _, f := range files {
			if !f.IsImport() && nonImports[f.Path()] != 1 {
				fail("derived-image-by-dir", fmt.Sprintf("ImageByDir: non-import %s appears as non-import in %d images", f.Path(), nonImports[f.Path()]))
			}
		}
		inclImports, inclWKT := r.Bool(), r.Bool()
		reqs, rerr := bufimage.ImagesToCodeGeneratorRequests(byDir, "", nil, inclImports, inclWKT)
		if rerr != nil {
			fail("derived-image-request-failed", "ImagesToCodeGeneratorRequests(ImageByDir): "+rerr.Error())
		}
		for k, req := range reqs {
			requestChecks(fmt.Sprintf("ImagesToCodeGeneratorRequests(ImageByDir, includeImports=%v, includeWKT=%v)[%d]", inclImports, inclWKT, k),
				req.GetProtoFile(), req.GetFileToGenerate(), fail)
		}
	}

	// ---- ImageWithoutImports: by contract exactly the non-imports, in order ----
	var wantNI, gotNI []string
	for _, f := range files {
		if !f.IsImport() {
			wantNI = append(wantNI, f.Path())
		}
	}
	for _, f := range bufimage.ImageWithoutImports(img).Files() {
		gotNI = append(gotNI, f.Path())
	}
	if fmt.Sprint(wantNI) != fmt.Sprint(gotNI) {
		fail("derived-image-without-imports", fmt.Sprintf("ImageWithoutImports has %v, the non-imports are %v", gotNI, wantNI))
	}

	// ---- type filter ----
	if r.Chance(1, 3) {
		var cands []string
		for _, f := range files {
			fd := f.FileDescriptorProto()
			if f.IsImport() || len(fd.GetMessageType()) == 0 {
				continue
			}
			n := fd.GetMessageType()[0].GetName()
			if fd.GetPackage() != "" {
				n = fd.GetPackage() + "." + n
			}
			cands = append(cands, n)
		}
		if len(cands) > 0 {
			typ := hx.Pick(r, cands)
			res, ferr := bufimageutil.FilterImage(img, bufimageutil.WithIncludeTypes(typ))
			run.Count("derived:type-filter")
			if ferr != nil {
				fail("derived-image-filter-fails", "FilterImage(WithIncludeTypes("+typ+")) failed: "+ferr.Error())
			} else {
				closedOrdered("FilterImage(WithIncludeTypes("+typ+"))", imageFDs(res), fail)
			}
		}
	}
}

func requestChecks(what string, protoFiles []*descriptorpb.FileDescriptorProto, toGenerate []string, fail func(string, string)) {
	closedOrdered(what+" proto_file", protoFiles, fail)
	have := map[string]bool{}
	for _, fd := range protoFiles {
		have[fd.GetName()] = true
	}
	for _, g := range toGenerate {
		if !have[g] {
			fail("derived-image-not-closed", fmt.Sprintf("%s: file_to_generate %s is not in proto_file", what, g))
		}
	}
}

func dirOf(p string) string {
	if i := strings.LastIndexByte(p, '/'); i >= 0 {
		return p[:i]
	}
	return "."
}

func parentDirsOf(p string) []string {
	var out []string
	for {
		i := strings.LastIndexByte(p, '/')
		if i < 0 {
			return out
		}
		p = p[:i]
		out = append(out, p)
	}
}
