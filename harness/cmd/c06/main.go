// Command c06 is the correspondence + oracle harness for property C06
// ("rule selection and suppression compose set-theoretically").
//
// Section A (selection): Client.ConfiguredRules under generated check configurations (ids,
// categories, deprecated / unknown / blank / other-type ids in use / except / ignore_only, good
// and bad ignore paths, v1beta1 / v1 / v2, through bufconfig.NewEnabledCheckConfig and raw) is
// compared with the Lean model of newRulesConfig over the regenerated rule tables.
//
// Section B (lint) and C (breaking): small images are compiled in-process from generated .proto
// sources with planted violations (two directories, an import-only file, a well-known-type
// import, nested elements with buf:lint:ignore comments at every enclosing level, an unstable
// package).  Every rule is run ALONE without suppression (measured at the check.Client level so
// that source paths are known); the model is fed these single-rule annotation sets and must
// reproduce Client.Lint / Client.Breaking under many generated configurations line by line.
//
// Section C also runs breaking image pairs in which the import-only files share package and
// directory with the only target (genBreakingShared, built the three ways of section F).
//
// Section D (yaml.go): buf.yaml shapes.  Section E (place.go): comment placement.
//
// Section F (imports.go): small workspaces in which import-only files SHARE packages and
// directories with the target files and carry violations of every kind of rule, built four ways
// (all targets / LocalModuleWithTargetPaths / ImageWithOnlyPaths / non-targeted dependency
// module), stratified over cross-file rule x disagreement pattern x build mode; plus ignore and
// ignore_only paths that cover only some participants of a cross-file violation.
//
// The oracle (implementation only) checks the algebraic laws between real runs: union over
// single-rule runs, monotonicity and scoping of every suppression, category nesting,
// deprecated = replacements, unknown id => error, imports never reported.
package main

import (
	"context"
	"errors"
	"fmt"
	"io"
	"log/slog"
	"os"
	"slices"
	"sort"
	"strconv"
	"strings"
	"time"

	descriptorv1 "buf.build/gen/go/bufbuild/bufplugin/protocolbuffers/go/buf/plugin/descriptor/v1"
	"buf.build/go/bufplugin/check"
	"buf.build/go/bufplugin/descriptor"
	"buf.build/go/bufplugin/option"
	"github.com/bufbuild/buf/private/bufpkg/bufanalysis"
	"github.com/bufbuild/buf/private/bufpkg/bufcheck"
	"github.com/bufbuild/buf/private/bufpkg/bufcheck/bufcheckserver"
	"github.com/bufbuild/buf/private/bufpkg/bufconfig"
	"github.com/bufbuild/buf/private/bufpkg/bufimage"
	"github.com/bufbuild/buf/private/bufpkg/bufmodule"
	"github.com/bufbuild/buf/private/bufpkg/bufmodule/bufmoduletesting"
	"github.com/bufbuild/buf/private/pkg/protoversion"
	"github.com/bufbuild/buf/private/pkg/syserror"
	"github.com/bufbuild/verifharness/internal/hx"
	"pluginrpc.com/pluginrpc"
)

var (
	ctx    = context.Background()
	logger = slog.New(slog.NewTextHandler(io.Discard, nil))
	client bufcheck.Client
	run    *hx.Run
)

type version struct {
	name string
	fv   bufconfig.FileVersion
	spec *check.Spec
	// live listings through bufcheck.Client
	lintIDs, breakingIDs       []string // all rule ids of the type (incl. deprecated)
	lintLive, breakingLive     []string // non-deprecated
	deprecated                 map[string][]string
	categories                 []string
	allIDs                     map[string]bool // every rule or category id of this version
	specClient                 check.Client
	lintDefault, breakingDeflt []string
}

var versions []*version

func must[T any](v T, err error) T {
	if err != nil {
		panic(err)
	}
	return v
}

func setup() {
	client = must(bufcheck.NewClient(logger, bufcheck.RunnerProviderFunc(
		func(bufconfig.PluginConfig) (pluginrpc.Runner, error) { return nil, errors.New("no plugins") })))
	for _, v := range []*version{
		{name: "v1beta1", fv: bufconfig.FileVersionV1Beta1, spec: bufcheckserver.V1Beta1Spec},
		{name: "v1", fv: bufconfig.FileVersionV1, spec: bufcheckserver.V1Spec},
		{name: "v2", fv: bufconfig.FileVersionV2, spec: bufcheckserver.V2Spec},
	} {
		v.deprecated = map[string][]string{}
		v.allIDs = map[string]bool{}
		for _, ty := range []check.RuleType{check.RuleTypeLint, check.RuleTypeBreaking} {
			for _, r := range must(client.AllRules(ctx, ty, v.fv)) {
				v.allIDs[r.ID()] = true
				if ty == check.RuleTypeLint {
					v.lintIDs = append(v.lintIDs, r.ID())
				} else {
					v.breakingIDs = append(v.breakingIDs, r.ID())
				}
				if r.Deprecated() {
					v.deprecated[r.ID()] = r.ReplacementIDs()
					continue
				}
				if ty == check.RuleTypeLint {
					v.lintLive = append(v.lintLive, r.ID())
					if r.Default() {
						v.lintDefault = append(v.lintDefault, r.ID())
					}
				} else {
					v.breakingLive = append(v.breakingLive, r.ID())
					if r.Default() {
						v.breakingDeflt = append(v.breakingDeflt, r.ID())
					}
				}
			}
		}
		for _, c := range must(client.AllCategories(ctx, v.fv)) {
			v.categories = append(v.categories, c.ID())
			v.allIDs[c.ID()] = true
		}
		v.specClient = must(check.NewClientForSpec(v.spec, check.ClientWithCaching()))
		versions = append(versions, v)
	}
}

// ---------------------------------------------------------------------------------------------
// configurations

type cfgSpec struct {
	ver            *version
	lint           bool
	validated      bool
	disableBuiltin bool
	use, except    []string
	ignore         []string
	ioKeys         []string // ignore_only keys in line order (unique)
	ioPaths        map[string][]string
	aci, iup, exi  bool
}

func (c *cfgSpec) clone() *cfgSpec {
	d := *c
	d.use, d.except, d.ignore, d.ioKeys = slices.Clone(c.use), slices.Clone(c.except), slices.Clone(c.ignore), slices.Clone(c.ioKeys)
	d.ioPaths = map[string][]string{}
	for k, v := range c.ioPaths {
		d.ioPaths[k] = slices.Clone(v)
	}
	return &d
}

func encList(ss []string) string {
	if len(ss) == 0 {
		return "_"
	}
	e := make([]string, len(ss))
	for i, s := range ss {
		e[i] = hx.Enc(s)
	}
	return strings.Join(e, ",")
}

func b01(b bool) string {
	if b {
		return "1"
	}
	return "0"
}

func (c *cfgSpec) fields() string {
	ty := "b"
	if c.lint {
		ty = "l"
	}
	io := "_"
	if len(c.ioKeys) > 0 {
		parts := make([]string, len(c.ioKeys))
		for i, k := range c.ioKeys {
			parts[i] = hx.Enc(k) + "=" + encList(c.ioPaths[k])
		}
		io = strings.Join(parts, ";")
	}
	return strings.Join([]string{c.ver.name, ty, b01(c.validated), b01(c.disableBuiltin),
		encList(c.use), encList(c.except), encList(c.ignore), io}, "\t")
}

func (c *cfgSpec) describe() map[string]any {
	return map[string]any{"version": c.ver.name, "lint": c.lint, "validated": c.validated, "disable_builtin": c.disableBuiltin,
		"use": c.use, "except": c.except, "ignore": c.ignore, "ignore_only": c.ioPaths,
		"allow_comment_ignores": c.aci, "ignore_unstable_packages": c.iup, "exclude_imports": c.exi}
}

// rawCheckConfig hands unvalidated lists straight to newRulesConfig (bufconfig.CheckConfig has
// an unexported marker method, which the embedded interface provides).
type rawCheckConfig struct {
	bufconfig.CheckConfig
	use, except, ignore []string
	ignoreOnly          map[string][]string
}

func (r *rawCheckConfig) UseIDsAndCategories() []string    { return slices.Clone(r.use) }
func (r *rawCheckConfig) ExceptIDsAndCategories() []string { return slices.Clone(r.except) }
func (r *rawCheckConfig) IgnorePaths() []string            { return slices.Clone(r.ignore) }
func (r *rawCheckConfig) IgnoreIDOrCategoryToPaths() map[string][]string {
	m := map[string][]string{}
	for k, v := range r.ignoreOnly {
		m[k] = slices.Clone(v)
	}
	return m
}

func (c *cfgSpec) checkConfig() (bufconfig.CheckConfig, error) {
	if c.validated {
		return bufconfig.NewEnabledCheckConfig(c.ver.fv, c.use, c.except, c.ignore, c.ioPaths, c.disableBuiltin)
	}
	base := bufconfig.NewEnabledCheckConfigForUseIDsAndCategories(c.ver.fv, nil, c.disableBuiltin)
	return &rawCheckConfig{CheckConfig: base, use: c.use, except: c.except, ignore: c.ignore, ignoreOnly: c.ioPaths}, nil
}

func errClass(err error) string {
	msg := err.Error()
	switch {
	case strings.Contains(msg, "is not a known rule or category ID"):
		return "err unknown-id"
	case strings.Contains(msg, "is not a known rule ID after verification"):
		return "err unknown-after"
	case strings.Contains(msg, "resultRules was empty"), strings.Contains(msg, "use and except should always be non-empty"):
		return "err empty-result"
	case strings.Contains(msg, "expected to be relative"), strings.Contains(msg, "outside the context directory"), strings.Contains(msg, "cannot specify"):
		return "err bad-path"
	case strings.Contains(msg, "invalid source path"), strings.Contains(msg, " path: ["), strings.Contains(msg, "without index"):
		return "err source-path"
	}
	if syserror.Is(err) {
		return "err other-syserror:" + hx.Enc(msg)
	}
	return "err other:" + hx.Enc(msg)
}

func ruleType(lint bool) check.RuleType {
	if lint {
		return check.RuleTypeLint
	}
	return check.RuleTypeBreaking
}

// configured runs Client.ConfiguredRules; ok=false carries the error class.
func configured(c *cfgSpec) (ids []string, class string) {
	defer func() {
		if p := recover(); p != nil {
			ids, class = nil, "panic"
			run.Fail(hx.OracleFailure{Class: "C06-panic", What: fmt.Sprint("ConfiguredRules panicked: ", p), Input: c.describe()})
		}
	}()
	cc, err := c.checkConfig()
	if err != nil {
		return nil, "err config"
	}
	rules, err := client.ConfiguredRules(ctx, ruleType(c.lint), cc)
	if err != nil {
		return nil, errClass(err)
	}
	ids = make([]string, len(rules))
	for i, r := range rules {
		ids[i] = r.ID()
	}
	return ids, ""
}

type fa struct {
	path           string
	sl, sc, el, ec int
	typ, msg       string
	apath          string // path of the against-file location (measurement only; not part of the key)
	aimport        bool   // the against-file is an import in the against image
	fileLevel      bool   // the file location has an empty source path (measurement only)
}

// anyPath reports whether pred holds for the annotation's file path or its against-file path
// (ignoreAnnotation consults both locations).
func (a fa) anyPath(pred func(string) bool) bool {
	return (a.path != "\x00nil" && pred(a.path)) || (a.apath != "" && pred(a.apath))
}

func (a fa) key() string {
	return fmt.Sprintf("%s:%d:%d:%d:%d:%s:%s", hx.Enc(a.path), a.sl, a.sc, a.el, a.ec, a.typ, hx.Enc(a.msg))
}

func (a fa) line() string {
	p := "~"
	if a.path != "\x00nil" {
		p = hx.Enc(a.path)
	}
	return fmt.Sprintf("%s:%d:%d:%d:%d:%s:%s", p, a.sl, a.sc, a.el, a.ec, a.typ, hx.Enc(a.msg))
}

func fasOf(err error) ([]fa, bool) {
	var set bufanalysis.FileAnnotationSet
	if !errors.As(err, &set) {
		return nil, false
	}
	var out []fa
	for _, f := range set.FileAnnotations() {
		a := fa{path: "\x00nil", sl: f.StartLine(), sc: f.StartColumn(), el: f.EndLine(), ec: f.EndColumn(), typ: f.Type(), msg: f.Message()}
		if fi := f.FileInfo(); fi != nil {
			a.path = fi.ExternalPath()
			if fi.Path() != fi.ExternalPath() {
				a.path = "EXTERNAL-PATH-DIFFERS:" + fi.ExternalPath()
			}
		}
		out = append(out, a)
	}
	return out, true
}

// runCheck runs Client.Lint or Client.Breaking; class != "" on a non-annotation error.
func runCheck(c *cfgSpec, img *image) (out []fa, class string) {
	defer func() {
		if p := recover(); p != nil {
			out, class = nil, "panic"
			run.Fail(hx.OracleFailure{Class: "C06-panic", What: fmt.Sprint("Lint/Breaking panicked: ", p), Input: c.describe()})
		}
	}()
	cc, err := c.checkConfig()
	if err != nil {
		return nil, "err config"
	}
	if c.lint {
		err = client.Lint(ctx, bufconfig.NewLintConfig(cc, "", false, false, false, "", c.aci), img.img)
	} else {
		var opts []bufcheck.BreakingOption
		if c.exi {
			opts = append(opts, bufcheck.BreakingWithExcludeImports())
		}
		err = client.Breaking(ctx, bufconfig.NewBreakingConfig(cc, c.iup), img.img, img.against, opts...)
	}
	if err == nil {
		return nil, ""
	}
	if fas, ok := fasOf(err); ok {
		return fas, ""
	}
	return nil, errClass(err)
}

func implLine(fas []fa, class string) string {
	if class != "" {
		return class
	}
	parts := make([]string, len(fas))
	for i, a := range fas {
		parts[i] = a.line()
	}
	return "ok " + strings.Join(parts, ";")
}

// ---------------------------------------------------------------------------------------------
// images

type image struct {
	img, against bufimage.Image
	importPaths  map[string]bool
	directives   []directive
	sources      map[string]string
	// per version name: protocol fields "files \t againstFiles \t annots" and the measured
	// single-rule results (as the final FileAnnotation form) per rule id
	proto  map[string]string
	single map[string]map[string][]fa
	// onlyVers != nil: measure in these versions only
	onlyVers []*version
}

func buildImage(pathToData map[string][]byte, importOnly map[string]bool) bufimage.Image {
	moduleSet := must(bufmoduletesting.NewModuleSetForPathToData(pathToData))
	img := must(bufimage.BuildImage(ctx, logger, bufmodule.ModuleSetToModuleReadBucketWithOnlyProtoFiles(moduleSet)))
	var files []bufimage.ImageFile
	for _, f := range img.Files() {
		if importOnly[f.Path()] {
			f = bufimage.ImageFileWithIsImport(f, true)
		}
		files = append(files, f)
	}
	return must(bufimage.NewImage(files))
}

// the same conversion bufcheck.imageToProtoFileDescriptors performs
func fileDescriptors(img bufimage.Image) []descriptor.FileDescriptor {
	if img == nil {
		return nil
	}
	var protos []*descriptorv1.FileDescriptor
	for _, f := range img.Files() {
		protos = append(protos, &descriptorv1.FileDescriptor{
			FileDescriptorProto: f.FileDescriptorProto(),
			IsImport:            f.IsImport(),
			IsSyntaxUnspecified: f.IsSyntaxUnspecified(),
			UnusedDependency:    f.UnusedDependencyIndexes(),
		})
	}
	return must(descriptor.FileDescriptorsForProtoFileDescriptors(protos))
}

func spStr(p []int32) string {
	if len(p) == 0 {
		return "e"
	}
	s := make([]string, len(p))
	for i, x := range p {
		s[i] = strconv.Itoa(int(x))
	}
	return strings.Join(s, ".")
}

func encFiles(fds []descriptor.FileDescriptor) (string, map[string]int) {
	if len(fds) == 0 {
		return "_", map[string]int{}
	}
	idx := map[string]int{}
	parts := make([]string, len(fds))
	for i, fd := range fds {
		pfd := fd.ProtoreflectFileDescriptor()
		idx[pfd.Path()] = i
		unstable := false
		if pv, ok := protoversion.NewPackageVersionForPackage(string(pfd.Package())); ok && pv.StabilityLevel() != protoversion.StabilityLevelStable {
			unstable = true
		}
		// first source location per path; only those with leading comments matter
		seen := map[string]bool{}
		var cs []string
		locs := pfd.SourceLocations()
		for j := 0; j < locs.Len(); j++ {
			l := locs.Get(j)
			k := spStr(l.Path)
			if seen[k] {
				continue
			}
			seen[k] = true
			if l.LeadingComments != "" && len(l.Path) > 0 {
				cs = append(cs, k+"="+hx.Enc(l.LeadingComments))
			}
		}
		c := "_"
		if len(cs) > 0 {
			c = strings.Join(cs, "|")
		}
		parts[i] = strings.Join([]string{hx.Enc(pfd.Path()), b01(fd.IsImport()), b01(unstable), c}, ":")
	}
	return strings.Join(parts, ";"), idx
}

func encLoc(l descriptor.FileLocation, idx map[string]int) string {
	if l == nil {
		return "-"
	}
	i, ok := idx[l.FileDescriptor().ProtoreflectFileDescriptor().Path()]
	if !ok {
		panic("annotation on a file that is not in the image: " + l.FileDescriptor().ProtoreflectFileDescriptor().Path())
	}
	return fmt.Sprintf("%d/%s/%d/%d/%d/%d", i, spStr(l.SourcePath()), l.StartLine(), l.StartColumn(), l.EndLine(), l.EndColumn())
}

// measure runs every live rule of the type alone, without suppression, at the check.Client level
// (the same default check.Client and options bufcheck uses), and records the results both as
// protocol fields for the model and in final FileAnnotation form for the oracle.
func (im *image) measure(lint bool) { im.measureWith(lint, nil, false, nil) }

// measureWith: extra = further check options (the lint options of a buf.yaml section); batch = one
// request per version with all rule ids at once instead of one request per rule (the union is
// the same: rules are independent — sectionCheck's self-check re-establishes that on every
// run); skip = rule ids left out.
func (im *image) measureWith(lint bool, extra map[string]any, batch bool, skip map[string]bool) {
	im.proto = map[string]string{}
	im.single = map[string]map[string][]fa{}
	fds := fileDescriptors(im.img)
	afds := fileDescriptors(im.against)
	filesField, idx := encFiles(fds)
	afilesField, aidx := encFiles(afds)
	for _, v := range versions {
		if im.onlyVers != nil && !slices.Contains(im.onlyVers, v) {
			continue
		}
		var opts option.Options = option.EmptyOptions
		ids := v.breakingLive
		if lint {
			m := map[string]any{"comment_excludes": []string{"buf:lint:ignore"}}
			for k, x := range extra {
				m[k] = x
			}
			opts = must(option.NewOptions(m))
			ids = v.lintLive
		}
		if len(skip) > 0 {
			var kept []string
			for _, id := range ids {
				if !skip[id] {
					kept = append(kept, id)
				}
			}
			ids = kept
		}
		var annots []string
		single := map[string][]fa{}
		groups := [][]string{ids}
		if !batch {
			groups = nil
			for _, id := range ids {
				groups = append(groups, []string{id})
			}
		}
		for _, group := range groups {
			if len(group) == 0 {
				continue
			}
			reqOpts := []check.RequestOption{check.WithRuleIDs(group...), check.WithOptions(opts)}
			if !lint {
				reqOpts = append(reqOpts, check.WithAgainstFileDescriptors(afds))
			}
			resp := must(v.specClient.Check(ctx, must(check.NewRequest(fds, reqOpts...))))
			for _, a := range resp.Annotations() {
				id := a.RuleID()
				annots = append(annots, strings.Join([]string{a.RuleID(), encLoc(a.FileLocation(), idx), encLoc(a.AgainstFileLocation(), aidx), hx.Enc(a.Message())}, ":"))
				f := fa{path: "\x00nil", typ: a.RuleID(), msg: a.Message()}
				if l := a.FileLocation(); l != nil {
					f = fa{path: l.FileDescriptor().ProtoreflectFileDescriptor().Path(), sl: l.StartLine() + 1, sc: l.StartColumn() + 1, el: l.EndLine() + 1, ec: l.EndColumn() + 1, typ: a.RuleID(), msg: a.Message()}
					f.fileLevel = len(l.SourcePath()) == 0
				}
				if l := a.AgainstFileLocation(); l != nil {
					f.apath = l.FileDescriptor().ProtoreflectFileDescriptor().Path()
					f.aimport = l.FileDescriptor().IsImport()
				}
				single[id] = append(single[id], f)
			}
		}
		af := "_"
		if len(annots) > 0 {
			af = strings.Join(annots, ";")
		}
		im.proto[v.name] = filesField + "\t" + afilesField + "\t" + af
		im.single[v.name] = single
	}
}

// ---------------------------------------------------------------------------------------------
// generators

var junkIDs = []string{"NOPE", "enum_pascal_case", "ENUM_PASCAL_CAS", "ENUM_PASCAL_CASE ", "STANDARD_X", "", " ", "\t", "FILE_LAYOUT", "OTHER", "STYLE_DEFAULT", "SENSIBLE", "PROTOVALIDATE", "SYNTAX_SPECIFIED", "FIELD_NOT_REQUIRED"}

func genID(r *hx.Rand, v *version, lint bool, relevant []string) string {
	own, other := v.lintIDs, v.breakingIDs
	if !lint {
		own, other = other, own
	}
	switch x := r.Intn(100); {
	case x < 28:
		return hx.Pick(r, v.categories)
	case x < 50 && len(relevant) > 0:
		return hx.Pick(r, relevant)
	case x < 72:
		return hx.Pick(r, own)
	case x < 82:
		var deps []string
		for _, id := range own {
			if _, ok := v.deprecated[id]; ok {
				deps = append(deps, id)
			}
		}
		if len(deps) > 0 {
			return hx.Pick(r, deps)
		}
		return "DEFAULT"
	case x < 86:
		return "DEFAULT"
	case x < 91:
		return hx.Pick(r, other)
	default:
		return hx.Pick(r, junkIDs)
	}
}

var goodPaths = []string{"a", "a/v1", "a/v1/a.proto", "a/v1/b.proto", "b", "b/sub", "b/sub/c.proto", "dep", "dep/dep.proto", "a/v1beta1", "a/v1beta1/x.proto", "b/old.proto", "google", "google/protobuf/timestamp.proto"}
var trapPaths = []string{"a/v", "a/v1/a", "a/v1/a.prot", "b/su", "de", "a/v1/a.proto/x", "nonexistent", "A", "a/V1"}
var messyPaths = []string{"a//v1", "./a/v1/", "a/v1/../v1/a.proto", "b/./sub/c.proto", "dep/", "a/v1/b.proto/"}
var badPaths = []string{".", "/abs", "../x", "", "a/..", "a/../..", "./"}

func genPath(r *hx.Rand, hostile bool) string {
	switch x := r.Intn(100); {
	case x < 62:
		return hx.Pick(r, goodPaths)
	case x < 80:
		return hx.Pick(r, trapPaths)
	case x < 92 || !hostile:
		return hx.Pick(r, messyPaths)
	default:
		return hx.Pick(r, badPaths)
	}
}

func genPaths(r *hx.Rand, max int, hostile bool) []string {
	n := r.Intn(max + 1)
	var out []string
	for i := 0; i < n; i++ {
		out = append(out, genPath(r, hostile))
	}
	return out
}

// genCfg draws a configuration. relevant = rule ids that report something on the image at hand
// (so that selections and ignore_only keys hit real annotations often).
func genCfg(r *hx.Rand, v *version, lint bool, relevant []string, hostile bool) *cfgSpec {
	c := &cfgSpec{ver: v, lint: lint, validated: r.Chance(3, 4), ioPaths: map[string][]string{}}
	if hostile && r.Chance(1, 40) {
		c.disableBuiltin = true
	}
	switch r.Intn(10) {
	case 0, 1: // defaults
	case 2:
		c.use = []string{hx.Pick(r, []string{"MINIMAL", "BASIC", "STANDARD", "DEFAULT", "COMMENTS", "FILE", "PACKAGE", "WIRE", "WIRE_JSON"})}
	default:
		n := 1 + r.Intn(4)
		for i := 0; i < n; i++ {
			c.use = append(c.use, genID(r, v, lint, relevant))
		}
	}
	if r.Chance(1, 2) {
		n := 1 + r.Intn(3)
		for i := 0; i < n; i++ {
			c.except = append(c.except, genID(r, v, lint, relevant))
		}
	}
	if !hostile {
		// keep the configuration well-formed most of the time in the annotation sections
		clean := func(ids []string) []string {
			var out []string
			for _, id := range ids {
				_, valid := expandID(v, lint, id)
				valid = valid || isBlank(id)
				if valid && r.Chance(29, 30) || !valid && r.Chance(1, 30) {
					out = append(out, id)
				}
			}
			return out
		}
		c.use, c.except = clean(c.use), clean(c.except)
	}
	if r.Chance(1, 2) {
		c.ignore = genPaths(r, 2, hostile)
	}
	if r.Chance(1, 2) {
		n := 1 + r.Intn(2)
		for i := 0; i < n; i++ {
			k := genID(r, v, lint, relevant)
			if _, valid := expandID(v, lint, k); !hostile && !valid && r.Chance(29, 30) {
				continue
			}
			if _, dup := c.ioPaths[k]; dup {
				continue
			}
			c.ioKeys = append(c.ioKeys, k)
			c.ioPaths[k] = genPaths(r, 2, hostile)
			if c.ioPaths[k] == nil {
				c.ioPaths[k] = []string{}
			}
		}
	}
	if lint {
		c.aci = r.Chance(2, 3)
	} else {
		c.iup = r.Bool()
		c.exi = r.Bool()
	}
	return c
}

// ---------------------------------------------------------------------------------------------
// oracle helpers (implementation only)

func setOf(ss []string) map[string]bool {
	m := map[string]bool{}
	for _, s := range ss {
		m[s] = true
	}
	return m
}

func sortedKeys(m map[string]bool) []string {
	out := make([]string, 0, len(m))
	for k := range m {
		out = append(out, k)
	}
	sort.Strings(out)
	return out
}

func faSet(fas []fa) map[string]fa {
	m := map[string]fa{}
	for _, a := range fas {
		m[a.key()] = a
	}
	return m
}

// under reports whether file path p is the path q or inside directory q (component-wise).
func under(p, q string) bool { return p == q || strings.HasPrefix(p, q+"/") }

func fail(class, what string, c *cfgSpec, extra map[string]any) {
	in := c.describe()
	for k, v := range extra {
		in[k] = v
	}
	replay := fmt.Sprintf("build/c06 --seed %d --tier %s --out /tmp/c06-replay", run.Seed, run.Tier)
	if h, ok := in["replay"].(string); ok {
		replay = h
		delete(in, "replay")
	}
	run.Fail(hx.OracleFailure{Class: class, What: what, Input: in, Replay: replay})
}

// expandIDs asks the implementation what a single id selects (its own rule, its category's
// rules, or its replacements); ok=false when the implementation rejects it.
var expandCache = map[string][]string{}
var expandOK = map[string]bool{}

func expandID(v *version, lint bool, id string) ([]string, bool) {
	k := v.name + "|" + b01(lint) + "|" + id
	if ids, ok := expandCache[k]; ok {
		return ids, expandOK[k]
	}
	ids, class := configured(&cfgSpec{ver: v, lint: lint, use: []string{id}, ioPaths: map[string][]string{}})
	ok := class == "" || class == "err empty-result"
	expandCache[k], expandOK[k] = ids, ok
	return ids, ok
}

func isBlank(s string) bool { return strings.TrimSpace(s) == "" }

// selectionOracle checks, between implementation runs only: unknown id => error; a successful
// selection equals (union of what each use id selects, or the defaults) minus (union of what
// each except id selects); an empty selection must not be an error.
func selectionOracle(c *cfgSpec, ids []string, class string) {
	if c.disableBuiltin || class == "err config" || class == "panic" {
		return
	}
	unknown := ""
	for _, list := range [][]string{c.use, c.except} {
		for _, id := range list {
			if !isBlank(id) && !c.ver.allIDs[id] {
				unknown = id
			}
		}
	}
	for _, k := range c.ioKeys {
		if k != "" && !c.ver.allIDs[k] {
			unknown = k
		}
	}
	if unknown != "" {
		if class == "" {
			fail("C06-unknown-id-accepted", fmt.Sprintf("id %q is neither a rule nor a category of %s but the configuration was accepted", unknown, c.ver.name), c, nil)
		}
		return
	}
	if class != "" && class != "err empty-result" {
		return // rejected for another reason (other-type id, bad path, …): nothing to compare
	}
	// expected = (⋃ expand use | defaults) \ ⋃ expand except, through implementation runs
	useSet := map[string]bool{}
	anyUse := false
	for _, id := range c.use {
		if isBlank(id) {
			continue
		}
		anyUse = true
		e, ok := expandID(c.ver, c.lint, id)
		if !ok {
			return
		}
		for _, x := range e {
			useSet[x] = true
		}
	}
	if !anyUse {
		d := c.ver.lintDefault
		if !c.lint {
			d = c.ver.breakingDeflt
		}
		useSet = setOf(d)
	}
	for _, id := range c.except {
		if isBlank(id) {
			continue
		}
		e, ok := expandID(c.ver, c.lint, id)
		if !ok {
			return
		}
		for _, x := range e {
			delete(useSet, x)
		}
	}
	want := sortedKeys(useSet)
	if class == "err empty-result" {
		if len(want) == 0 {
			fail("C06-empty-selection-is-system-error", "use minus except selects no rule; instead of reporting nothing the configuration fails with the system error \"resultRules was empty\"", c, nil)
		} else {
			fail("C06-selection-not-set-algebra", "selection failed as empty although use minus except is non-empty: "+strings.Join(want, ","), c, nil)
		}
		return
	}
	got := slices.Clone(ids)
	sort.Strings(got)
	if !slices.Equal(got, want) {
		fail("C06-selection-not-set-algebra", fmt.Sprintf("configured rules %v differ from (union of use) minus (union of except) %v", got, want), c, nil)
	}
}

func nestingOracle() {
	for _, v := range versions {
		c := func(id string) map[string]bool {
			ids, ok := expandID(v, true, id)
			if !ok {
				fail("C06-category-nesting", "category "+id+" rejected in "+v.name, &cfgSpec{ver: v, lint: true, use: []string{id}}, nil)
			}
			return setOf(ids)
		}
		minimal, basic, standard, deflt := c("MINIMAL"), c("BASIC"), c("STANDARD"), c("DEFAULT")
		for id := range minimal {
			if !basic[id] {
				fail("C06-category-nesting", v.name+": MINIMAL rule "+id+" is not in BASIC", &cfgSpec{ver: v, lint: true}, nil)
			}
		}
		for id := range basic {
			if !standard[id] {
				fail("C06-category-nesting", v.name+": BASIC rule "+id+" is not in STANDARD", &cfgSpec{ver: v, lint: true}, nil)
			}
		}
		if !slices.Equal(sortedKeys(deflt), sortedKeys(standard)) {
			fail("C06-category-nesting", v.name+": DEFAULT and STANDARD select different rules", &cfgSpec{ver: v, lint: true}, nil)
		}
		if len(minimal) == 0 || len(minimal) >= len(basic) && v.name != "v1beta1" {
			run.Count("nesting:degenerate:" + v.name)
		}
		run.Eval()
		// deprecated ids behave as their replacements
		for _, lint := range []bool{true, false} {
			for dep, repl := range v.deprecated {
				isLint := slices.Contains(v.lintIDs, dep)
				if isLint != lint {
					continue
				}
				got, ok := expandID(v, lint, dep)
				if !ok {
					fail("C06-deprecated-not-replacement", v.name+": deprecated id "+dep+" rejected", &cfgSpec{ver: v, lint: lint, use: []string{dep}}, nil)
					continue
				}
				want := slices.Clone(repl)
				sort.Strings(want)
				g := slices.Clone(got)
				sort.Strings(g)
				if !slices.Equal(g, want) {
					fail("C06-deprecated-not-replacement", fmt.Sprintf("%s: deprecated id %s selects %v, replacements are %v", v.name, dep, g, want), &cfgSpec{ver: v, lint: lint, use: []string{dep}}, nil)
				}
				run.Eval()
			}
		}
	}
}

// ---------------------------------------------------------------------------------------------
// sections

func sectionSelection(r *hx.Rand) {
	n := run.N(4000, 30000)
	for i := 0; i < n; i++ {
		rr := r.Fork(uint64(i))
		if run.Only >= 0 && run.Only != i {
			continue
		}
		v := hx.Pick(rr, versions)
		c := genCfg(rr, v, rr.Chance(3, 5), nil, true)
		ids, class := configured(c)
		out := class
		if class == "" {
			out = "ok " + strings.Join(ids, ",")
		}
		run.Case("rules\t"+c.fields(), out, class != "" || len(c.use) > 0 || len(c.except) > 0)
		key := "sel:" + v.name + ":"
		if class == "" {
			run.Count(key + "ok")
		} else {
			run.Count(key + strings.SplitN(class, ":", 2)[0])
		}
		if i < 3 {
			run.Sample(map[string]any{"section": "selection", "config": c.describe(), "result": out})
		}
		selectionOracle(c, ids, class)
	}
}

func relevantIDs(im *image, v *version) []string {
	var out []string
	for id, fas := range im.single[v.name] {
		if len(fas) > 0 {
			out = append(out, id)
		}
	}
	sort.Strings(out)
	return out
}

// exactnessOracle: the report equals the union over the selected rules of what each reports alone,
// minus exactly the documented suppressions.  strict = a comment ignore MUST suppress (the
// image's directives are line-exact); class != "" files every disagreement under that class.
func exactnessOracle(c *cfgSpec, im *image, got []fa, ids []string, strict bool, class string, extra map[string]any) map[string]fa {
	cls := func(dflt string) string {
		if class != "" {
			return class
		}
		return dflt
	}
	with := func(m map[string]any) map[string]any {
		for k, v := range extra {
			m[k] = v
		}
		return m
	}
	gotSet := faSet(got)
	single := im.single[c.ver.name]
	// (1) union: everything reported is reported by a selected rule run alone
	sel := setOf(ids)
	union := map[string]fa{}
	for _, id := range ids {
		for _, a := range single[id] {
			union[a.key()] = a
		}
	}
	for k, a := range gotSet {
		if !sel[a.typ] {
			fail(cls("C06-report-not-union"), "annotation of rule "+a.typ+" reported although the rule is not selected", c, with(map[string]any{"annotation": k}))
		} else if _, ok := union[k]; !ok {
			fail(cls("C06-report-not-union"), "annotation is not reported by rule "+a.typ+" run alone", c, with(map[string]any{"annotation": k}))
		}
	}
	// (2) imports never reported (lint: always; breaking: when exclude-imports is requested)
	if c.lint || c.exi {
		for k, a := range gotSet {
			if im.importPaths[a.path] {
				fail(cls("C06-import-reported"), "annotation reported on import-only file "+a.path, c, with(map[string]any{"annotation": k}))
			}
		}
	}
	// (3) exactness for the path- and rule-scoped suppressions: a union member is missing iff it
	// is an import (as above), under an ignore path, under an ignore_only path of a key that
	// selects its rule, in an unstable package (breaking, when asked), or — lint with comment
	// ignores allowed — textually enclosed by an element carrying a directive naming its rule.
	cc, _ := c.checkConfig()
	ignore := cc.IgnorePaths()
	for k, a := range union {
		_, reported := gotSet[k]
		why := ""
		if (c.lint || c.exi) && (im.importPaths[a.path] || a.aimport) {
			why = "import"
		}
		for _, p := range ignore {
			if p != "" && a.anyPath(func(q string) bool { return under(q, normalize(p)) }) {
				why = "ignore"
			}
		}
		for _, key := range c.ioKeys {
			if key == "" {
				continue
			}
			e, _ := expandID(c.ver, c.lint, key)
			if !slices.Contains(e, a.typ) {
				continue
			}
			for _, p := range cc.IgnoreIDOrCategoryToPaths()[key] {
				if p != "" && a.anyPath(func(q string) bool { return under(q, normalize(p)) }) {
					why = "ignore_only"
				}
			}
		}
		if !c.lint && c.iup && a.anyPath(func(q string) bool { return strings.HasPrefix(q, "a/v1beta1/") }) {
			why = "unstable"
		}
		commentScope := false
		if c.lint && c.aci {
			for _, d := range im.directives {
				if d.file == a.path && d.from <= a.sl && a.sl <= d.to && strings.HasPrefix(d.text, a.typ) {
					commentScope = true
				}
			}
		}
		if !reported {
			if why != "" {
				run.Count("suppressed-by:" + why)
			} else if commentScope {
				run.Count("suppressed-by:comment")
			}
		}
		switch {
		case reported && why == "import" && c.lint:
			// lint has no client-side import filter: already filed under C06-import-reported by (2)
		case reported && why != "":
			fail(cls("C06-suppression-not-applied"), "annotation survives although it is in the scope of "+why, c, with(map[string]any{"annotation": k}))
		case reported && strict && commentScope:
			fail(cls("C06-comment-ignore-not-applied"), "annotation survives although comment ignores are allowed and a buf:lint:ignore comment naming its rule sits on the element", c, with(map[string]any{"annotation": k}))
		case !reported && why == "" && !commentScope:
			what := "annotation of a selected rule is missing although no suppression covers it"
			fail(cls("C06-suppressed-out-of-scope"), what, c, with(map[string]any{"annotation": k, "directives": fmtDirectives(im.directives, a.path)}))
		}
	}
	return union
}

// checkOracle: laws between implementation runs for one configuration on one image.
func checkOracle(rr *hx.Rand, c *cfgSpec, im *image, got []fa, class string) {
	if class != "" {
		// unknown ids must be rejected by Lint/Breaking too — covered by selectionOracle on the
		// same configuration
		ids, cl := configured(c)
		selectionOracle(c, ids, cl)
		return
	}
	ids, cl := configured(c)
	if cl != "" {
		fail("C06-check-accepts-rejected-config", "Lint/Breaking succeeded on a configuration ConfiguredRules rejects with "+cl, c, nil)
		return
	}
	selectionOracle(c, ids, cl)
	gotSet := faSet(got)
	union := exactnessOracle(c, im, got, ids, false, "", nil)
	// (4) monotonicity and scoping of ADDING one suppression, between two real runs
	d := c.clone()
	kind := rr.Intn(4)
	var scope func(a fa) bool
	switch kind {
	case 0:
		id := genID(rr, c.ver, c.lint, relevantIDs(im, c.ver))
		if !c.ver.allIDs[id] {
			return
		}
		e, ok := expandID(c.ver, c.lint, id)
		if !ok {
			return
		}
		d.except = append(d.except, id)
		scope = func(a fa) bool { return slices.Contains(e, a.typ) }
	case 1:
		p := hx.Pick(rr, goodPaths)
		d.ignore = append(d.ignore, p)
		scope = func(a fa) bool { return a.anyPath(func(q string) bool { return under(q, p) }) }
	case 2:
		id := genID(rr, c.ver, c.lint, relevantIDs(im, c.ver))
		if !c.ver.allIDs[id] || d.ioPaths[id] != nil {
			return
		}
		e, ok := expandID(c.ver, c.lint, id)
		if !ok {
			return
		}
		p := hx.Pick(rr, goodPaths)
		d.ioKeys = append(d.ioKeys, id)
		d.ioPaths[id] = []string{p}
		scope = func(a fa) bool {
			return slices.Contains(e, a.typ) && a.anyPath(func(q string) bool { return under(q, p) })
		}
	default:
		if c.lint {
			if c.aci {
				return
			}
			d.aci = true
			scope = func(a fa) bool {
				for _, dd := range im.directives {
					if dd.file == a.path && dd.from <= a.sl && a.sl <= dd.to && strings.HasPrefix(dd.text, a.typ) {
						return true
					}
				}
				return false
			}
		} else {
			if c.exi {
				return
			}
			d.exi = true
			scope = func(a fa) bool { return im.importPaths[a.path] || a.aimport }
		}
	}
	got2, class2 := runCheck(d, im)
	run.Eval()
	if class2 != "" {
		return // e.g. the added path nests with an existing one (config error), or selection became empty
	}
	set2 := faSet(got2)
	for k := range set2 {
		if _, ok := gotSet[k]; !ok {
			fail("C06-suppression-adds-annotation", "adding a suppression added an annotation", c, map[string]any{"added_suppression": d.describe(), "annotation": k})
		}
	}
	for k, a := range gotSet {
		if ua, ok := union[k]; ok {
			a = ua // carries the against-file path
		}
		if _, ok := set2[k]; !ok && !scope(a) {
			fail("C06-suppression-out-of-scope", "adding a suppression removed an annotation outside its scope", c, map[string]any{"added_suppression": d.describe(), "annotation": k})
		}
	}
	run.Count("oracle:add-suppression:" + []string{"except", "ignore", "ignore_only", "comments/exclude-imports"}[kind])
}

func fmtDirectives(ds []directive, file string) []string {
	var out []string
	for _, d := range ds {
		if d.file == file {
			out = append(out, fmtDirective(d))
		}
	}
	return out
}

// normalize mirrors what both configuration layers do to an ignore path before matching
// (only used by the oracle to decide scope; bad paths never reach it because the run errors).
func normalize(p string) string {
	var out []string
	for _, c := range strings.Split(p, "/") {
		switch c {
		case "", ".":
		case "..":
			if len(out) > 0 {
				out = out[:len(out)-1]
			}
		default:
			out = append(out, c)
		}
	}
	return strings.Join(out, "/")
}

func sectionCheck(r *hx.Rand, lint bool) {
	// thorough sizes: every check line carries its image (~24 KB): 10 x 260 keeps in.txt per seed < 200 MB
	nImages := run.N(6, 10)
	nCfg := 260
	if !lint {
		nImages = run.N(4, 12)
		nCfg = run.N(200, 400)
	}
	sec := "breaking"
	if lint {
		sec = "lint"
	}
	// breaking only: extra images in which the import-only files SHARE the package and the
	// directory of the target, built the three ways of section F (module with target paths,
	// ImageWithOnlyPaths, non-targeted dependency module), same or different flags on the two sides
	nShared := 0
	if !lint {
		nShared = run.N(3, 6)
	}
	for i := 0; i < nImages+nShared; i++ {
		ri := r.Fork(uint64(1000 + i))
		im := &image{importPaths: map[string]bool{}}
		if i >= nImages {
			src := genBreakingShared(ri)
			j := i - nImages
			mode := []int{modeModulePaths, modeImagePaths, modeDepModule}[(j+j/3)%3]
			newMode, oldMode := mode, mode
			switch j % 3 {
			case 1:
				oldMode = modeFull // the against image has no imports
			case 2:
				newMode = modeFull
			}
			targets := []string{"a/v1/a.proto"}
			im.img = must(buildTargeted(src.new, targets, newMode, j))
			im.against = must(buildTargeted(src.old, targets, oldMode, j))
			nCfg = run.N(60, 120)
			run.Count("breaking:shared-package-imports:" + modeNames[newMode] + "/" + modeNames[oldMode])
		} else if lint {
			pool := versions[2].lintLive
			src := genLintSources(ri, pool, []int{0, 3, 5, 7, 9, 6}[i%6])
			im.img = buildImage(src.pathToData, src.importOnly)
			im.directives = src.directives
		} else {
			src := genBreakingSources(ri)
			// the import flag of dep/dep.proto may differ between the two images
			newImp, oldImp := src.importOnly, src.importOnly
			switch ri.Intn(3) {
			case 1:
				newImp = map[string]bool{}
			case 2:
				oldImp = map[string]bool{}
			}
			im.img = buildImage(src.new, newImp)
			im.against = buildImage(src.old, oldImp)
		}
		for _, f := range im.img.Files() {
			if f.IsImport() {
				im.importPaths[f.Path()] = true
			}
		}
		im.measure(lint)
		// harness self-check: the single-rule measurement agrees with bufcheck.Client run on
		// use=[rule] with no suppression
		for _, v := range versions {
			for id, want := range im.single[v.name] {
				if ri.Chance(3, 4) && i > 0 {
					continue
				}
				got, class := runCheck(&cfgSpec{ver: v, lint: lint, validated: true, use: []string{id}, ioPaths: map[string][]string{}}, im)
				if class != "" || !slices.Equal(sortedKeys(setOfFA(got)), sortedKeys(setOfFA(want))) {
					fail("C06-single-rule-measurement-mismatch", "check.Client-level single-rule run differs from bufcheck.Client run of use=["+id+"]", &cfgSpec{ver: v, lint: lint, use: []string{id}}, map[string]any{"class": class})
				}
				run.Eval()
			}
			run.CountN(sec+":single-rule-annotations:"+v.name, countFA(im.single[v.name]))
		}
		for j := 0; j < nCfg; j++ {
			rr := ri.Fork(uint64(j))
			v := hx.Pick(rr, versions)
			c := genCfg(rr, v, lint, relevantIDs(im, v), rr.Chance(1, 8))
			got, class := runCheck(c, im)
			line := "check\t" + c.fields() + "\t" + b01(c.aci) + b01(c.iup) + b01(c.exi) + "\t" + im.proto[v.name]
			run.Case(line, implLine(got, class), class != "" || len(got) > 0)
			if class != "" {
				run.Count(sec + ":" + strings.SplitN(class, ":", 2)[0])
			} else {
				run.Count(sec + ":ok")
				run.CountN(sec+":annotations-reported", len(got))
			}
			if j == 0 && i < 2 {
				run.Sample(map[string]any{"section": sec, "config": c.describe(), "reported": len(got), "class": class})
			}
			checkOracle(rr, c, im, got, class)
		}
	}
}

func setOfFA(fas []fa) map[string]bool {
	m := map[string]bool{}
	for _, a := range fas {
		m[a.key()] = true
	}
	return m
}

func countFA(m map[string][]fa) int {
	n := 0
	for _, v := range m {
		n += len(v)
	}
	return n
}

func main() {
	run = hx.Start("C06")
	defer run.Finish()
	setup()
	r := hx.NewRand(run.Seed)
	// C06_SECTIONS (development aid): comma-separated subset of keys,multi,directives,sel,imports,lint,breaking,place,yaml
	on := func(name string) bool {
		s := os.Getenv("C06_SECTIONS")
		return s == "" || slices.Contains(strings.Split(s, ","), name)
	}
	nestingOracle()
	// the configuration-key family runs FIRST: hx keeps a bounded number of oracle failures, and
	// the recorded comment-ignore findings of section E fire on every run
	if on("keys") && run.Only < 0 {
		defer sectionKeys()()
	}
	// multi-module v2 workspaces (multi.go): reader + Client first, the commands in the background
	if on("multi") {
		t0 := time.Now()
		finishMulti := sectionMulti(r.Fork(7))
		if os.Getenv("C06_TIMING") != "" {
			fmt.Fprintf(os.Stderr, "multi M1: %.1fs\n", time.Since(t0).Seconds())
		}
		defer finishMulti()
	}
	if on("sel") {
		sectionSelection(r.Fork(1))
	}
	if on("imports") {
		sectionImports(r.Fork(6))
	}
	if on("lint") {
		sectionCheck(r.Fork(2), true)
	}
	if on("breaking") {
		sectionCheck(r.Fork(3), false)
	}
	if on("directives") {
		sectionDirectives(r.Fork(8))
	}
	if on("place") {
		sectionPlacement(r.Fork(4))
	}
	if on("yaml") {
		sectionYaml(r.Fork(5))
	}
}
