package main

// Section H — DIRECTIVE SPELLINGS of `buf:lint:ignore` comments.
//
// Section E (place.go) stratifies WHERE a comment sits; this section stratifies HOW the directive
// is spelled inside the comment: leading whitespace of the directive line (0-4 spaces, tabs,
// mixed), trailing whitespace (blanks, tab, CR), the directive alone / first / in the middle /
// last among other comment lines, several directives in one comment (two lines, one line),
// trailing prose, comma lists, id + suffix (the documented prefix match), block comments (one
// line, with and without a leading `*`, indented `*`, javadoc style), spellings that are no-ops
// (no id, no space, two spaces, tab as separator, other case, lower-case id, unknown id, not at
// the start of the line, bullets / quotes in front), exotic Unicode white space, and the
// placement of the comment (leading, trailing on the declaration line, detached by a blank line,
// trailing comment of the previous declaration).
//
// Every spelling is planted on an element of a rotating kind (message, field, enum, enum value,
// service, rpc, oneof, a message enclosing the violating field) that violates the named rule.
//
//   `check` lines   Client.Lint (all live lint rules, v2 / v1 / v1beta1, comment ignores on and
//                   off) vs the model, fed with the leading comments protocompile produced;
//   `directive` lines, one per planted comment: the leading comment of the element as the
//                   descriptor carries it + the rules measured on the element -> per rule "is it
//                   suppressed" (implementation, through Client.Lint) vs `commentNames` (model).
//
// Oracle (implementation only): a spelling declares the directive TEXTS a reader of the
// documentation recognises in it (`// buf:lint:ignore <ID>` on a line of its own inside the
// LEADING comment, white space around the line is irrelevant); a rule's annotations on the
// element are suppressed iff comment ignores are allowed and one of the texts starts with the
// rule id.  Spellings whose reading is a matter of the implementation (exotic white space,
// javadoc one-liners, trailing / detached comments) are compared with the model only.

import (
	"fmt"
	"sort"
	"strings"

	"buf.build/go/bufplugin/descriptor"
	"github.com/bufbuild/verifharness/internal/hx"
)

type dSpell struct {
	name     string
	lines    []string // comment lines above the declaration ("" = blank line)
	trailing string   // comment appended to the declaration line
	prevTail string   // comment appended to the line BEFORE the declaration
	texts    []string // directive texts recognised (docs-level reading)
	assert   bool
	docs     bool // the comment carries prose (COMMENT_* does not fire on the element)
}

const dPre = "buf:lint:ignore"

// dSpellings lists every spelling for (rule, other).
func dSpellings(rule, other string) []dSpell {
	var out []dSpell
	add := func(s dSpell) { out = append(out, s) }
	leads := []string{"", " ", "  ", "   ", "    ", "\t", " \t", "\t ", "\t\t", "  \t  "}
	trails := []string{"", " ", "\t", "  \t ", "\r"}
	q := func(s string) string {
		return strings.NewReplacer(" ", "s", "\t", "T", "\r", "R").Replace(s)
	}
	// F1: white space around the directive line
	for _, l := range leads {
		for _, t := range trails {
			add(dSpell{name: "ws:lead=" + q(l) + ":trail=" + q(t), lines: []string{"//" + l + dPre + " " + rule + t}, texts: []string{rule}, assert: true})
		}
	}
	// F2: position among other lines x content
	type content struct {
		name  string
		lines []string
		texts []string
		docs  bool
	}
	contents := []content{
		{"id", []string{dPre + " " + rule}, []string{rule}, false},
		{"id+prose", []string{dPre + " " + rule + " because reasons"}, []string{rule + " because reasons"}, false},
		{"comma-list", []string{dPre + " " + rule + ", " + other}, []string{rule + ", " + other}, false},
		{"two-lines", []string{dPre + " " + rule, dPre + " " + other}, []string{rule, other}, false},
		{"two-on-one-line", []string{dPre + " " + rule + " " + dPre + " " + other}, []string{rule + " " + dPre + " " + other}, false},
		{"id+suffix", []string{dPre + " " + rule + "X"}, []string{rule + "X"}, false},
	}
	for _, c := range contents {
		sl := func(ls []string, lead string) []string {
			o := make([]string, len(ls))
			for i, l := range ls {
				o[i] = "//" + lead + l
			}
			return o
		}
		add(dSpell{name: "pos:alone:" + c.name, lines: sl(c.lines, " "), texts: c.texts, assert: true})
		add(dSpell{name: "pos:first:" + c.name, lines: append(sl(c.lines, " "), "// Documentation follows.", "// And more."), texts: c.texts, assert: true, docs: true})
		add(dSpell{name: "pos:middle:" + c.name, lines: append(append([]string{"// Documentation."}, sl(c.lines, " ")...), "// More documentation."), texts: c.texts, assert: true, docs: true})
		add(dSpell{name: "pos:last:" + c.name, lines: append([]string{"// Documentation.", "// Second line."}, sl(c.lines, " ")...), texts: c.texts, assert: true, docs: true})
		add(dSpell{name: "pos:after-empty-comment-line:" + c.name, lines: append([]string{"// Heading:", "//"}, sl(c.lines, "   ")...), texts: c.texts, assert: true, docs: true})
		add(dSpell{name: "pos:before-empty-comment-line:" + c.name, lines: append(sl(c.lines, "\t"), "//", "// Footer."), texts: c.texts, assert: true, docs: true})
	}
	// F3: no-ops
	prefix := rule
	if i := strings.LastIndex(rule, "_"); i > 0 {
		prefix = rule[:i]
	}
	for _, n := range []struct{ name, line string }{
		{"no-id", "// " + dPre}, {"no-id-trailing-space", "// " + dPre + " "}, {"no-space", "// " + dPre + rule},
		{"two-spaces", "// " + dPre + "  " + rule}, {"tab-separator", "// " + dPre + "\t" + rule},
		{"capitalised", "// Buf:lint:ignore " + rule}, {"upper-case", "// BUF:LINT:IGNORE " + rule},
		{"lower-case-id", "// " + dPre + " " + strings.ToLower(rule)}, {"not-at-line-start", "// see " + dPre + " " + rule},
		{"unknown-id", "// " + dPre + " NOPE"}, {"proper-prefix-of-id", "// " + dPre + " " + prefix},
		{"space-inside-keyword", "// buf: lint:ignore " + rule}, {"colon-after-keyword", "// " + dPre + ": " + rule},
		{"dash-keyword", "// buf:lint-ignore " + rule}, {"breaking-keyword", "// buf:breaking:ignore " + rule},
		{"at-sign", "// @" + dPre + " " + rule}, {"bullet", "// - " + dPre + " " + rule}, {"quoted", "// \"" + dPre + " " + rule + "\""},
		{"slash-slash-slash", "/// " + dPre + " " + rule}, {"other-rule-only", "// " + dPre + " " + other},
	} {
		s := dSpell{name: "nop:" + n.name, lines: []string{n.line}, assert: true}
		switch n.name {
		case "other-rule-only":
			s.texts = []string{other}
		case "proper-prefix-of-id":
			s.texts = []string{prefix}
		case "unknown-id":
			s.texts = []string{"NOPE"}
		case "lower-case-id":
			s.texts = []string{strings.ToLower(rule)}
		case "slash-slash-slash":
			// the comment text is "/ buf:lint:ignore …": not at the start of the line
		}
		add(s)
	}
	// exotic white space: as coded (strings.TrimSpace trims every Unicode space)
	for _, e := range []struct{ name, ws string }{{"nbsp", "\u00a0"}, {"em-space", "\u2003"}, {"vertical-tab", "\v"}, {"form-feed", "\f"}, {"nel", "\u0085"}, {"zero-width-space", "\u200b"}} {
		add(dSpell{name: "exotic-lead:" + e.name, lines: []string{"//" + e.ws + dPre + " " + rule}})
		add(dSpell{name: "exotic-trail:" + e.name, lines: []string{"// " + dPre + " " + rule + e.ws}})
	}
	add(dSpell{name: "exotic-separator:nbsp", lines: []string{"// " + dPre + "\u00a0" + rule}})
	// F4: block comments
	for _, b := range []struct {
		name   string
		lines  []string
		texts  []string
		assert bool
		docs   bool
	}{
		{"one-line", []string{"/* " + dPre + " " + rule + " */"}, []string{rule}, true, false},
		{"one-line-tight", []string{"/*" + dPre + " " + rule + "*/"}, []string{rule}, true, false},
		{"one-line-indented", []string{"/*   \t " + dPre + " " + rule + " \t*/"}, []string{rule}, true, false},
		{"star-lines", []string{"/*", " * " + dPre + " " + rule, " */"}, []string{rule}, true, false},
		{"no-star-lines", []string{"/*", " " + dPre + " " + rule, "*/"}, []string{rule}, true, false},
		{"no-star-deep-indent", []string{"/*", "\t    " + dPre + " " + rule + "  ", "*/"}, []string{rule}, true, false},
		{"star-no-space", []string{"/*", " *" + dPre + " " + rule, " */"}, []string{rule}, true, false},
		{"star-tab", []string{"/*", " *\t" + dPre + " " + rule, " */"}, []string{rule}, true, false},
		{"star-deep-indent", []string{"/*", "    *    " + dPre + " " + rule + "   ", "    */"}, []string{rule}, true, false},
		{"javadoc-with-docs", []string{"/**", " * Documentation.", " * " + dPre + " " + rule, " * More.", " */"}, []string{rule}, true, true},
		{"two-directives", []string{"/* " + dPre + " " + rule, "   " + dPre + " " + other + " */"}, []string{rule, other}, true, false},
		{"not-at-line-start", []string{"/* Documentation. " + dPre + " " + rule + " */"}, nil, true, true},
		{"javadoc-one-line", []string{"/** " + dPre + " " + rule + " */"}, nil, false, false},
		{"two-stars", []string{"/*", " ** " + dPre + " " + rule, " */"}, nil, false, false},
		{"block-then-line-comment", []string{"/* " + dPre + " " + rule + " */", "// Documentation."}, nil, false, true},
		{"line-then-block-comment", []string{"// " + dPre + " " + rule, "/* Documentation. */"}, nil, false, true},
	} {
		add(dSpell{name: "block:" + b.name, lines: b.lines, texts: b.texts, assert: b.assert, docs: b.docs})
	}
	// F5: placement of the comment
	add(dSpell{name: "place:trailing-same-line", trailing: " // " + dPre + " " + rule})
	add(dSpell{name: "place:trailing-block-same-line", trailing: " /* " + dPre + " " + rule + " */"})
	add(dSpell{name: "place:detached-by-blank-line", lines: []string{"// " + dPre + " " + rule, ""}})
	add(dSpell{name: "place:detached-then-attached-docs", lines: []string{"// " + dPre + " " + rule, "", "// Documentation."}, docs: true})
	add(dSpell{name: "place:attached-after-detached-docs", lines: []string{"// Documentation.", "", "//   " + dPre + " " + rule}, texts: []string{rule}, assert: true})
	add(dSpell{name: "place:trailing-of-previous-line", prevTail: " // " + dPre + " " + rule})
	return out
}

// ---------------------------------------------------------------------------------------------
// elements

type dKind struct {
	name   string
	rules  []string // candidate rules, the naming rule first
	pre    []string // lines in front (placeholder %d = slot number)
	decl   string
	post   []string
	indent string
	single bool // the element is the declaration line only (children are not in its scope)
}

var dKinds = []dKind{
	{name: "message", rules: []string{"MESSAGE_PASCAL_CASE", "COMMENT_MESSAGE"}, decl: "message bad_msg_%d {", post: []string{"}"}},
	{name: "enclosing-message", rules: []string{"FIELD_LOWER_SNAKE_CASE", "COMMENT_FIELD"}, decl: "message Outer%d {", post: []string{"  string BadInner = 1;", "}"}},
	{name: "field", rules: []string{"FIELD_LOWER_SNAKE_CASE", "COMMENT_FIELD"}, pre: []string{"message Carrier%d {", "  string ok_before = 1;"}, decl: "  string BadField = 2;", post: []string{"}"}, indent: "  ", single: true},
	{name: "enum", rules: []string{"ENUM_PASCAL_CASE", "COMMENT_ENUM"}, decl: "enum bad_enum_%d {", post: []string{"  BAD_ENUM_%d_UNSPECIFIED = 0;", "}"}},
	{name: "enum-value", rules: []string{"ENUM_VALUE_UPPER_SNAKE_CASE", "COMMENT_ENUM_VALUE"}, pre: []string{"enum CarrierEnum%d {", "  CARRIER_ENUM%d_UNSPECIFIED = 0;"}, decl: "  badValue%d = 1;", post: []string{"}"}, indent: "  ", single: true},
	{name: "service", rules: []string{"SERVICE_PASCAL_CASE", "SERVICE_SUFFIX", "COMMENT_SERVICE"}, decl: "service bad_service_%d {", post: []string{"}"}},
	{name: "rpc", rules: []string{"RPC_PASCAL_CASE", "COMMENT_RPC", "RPC_REQUEST_STANDARD_NAME"}, pre: []string{"service Carrier%dService {", "  rpc OkBefore%d(Req) returns (Res);"}, decl: "  rpc bad_rpc_%d(Req) returns (Res);", post: []string{"}"}, indent: "  ", single: true},
	{name: "oneof", rules: []string{"ONEOF_LOWER_SNAKE_CASE", "COMMENT_ONEOF"}, pre: []string{"message CarrierO%d {", "  string ok_before = 1;"}, decl: "  oneof BadOneof {", post: []string{"    string x = 2;", "  }", "}"}, indent: "  ", single: true},
}

type dSlot struct {
	n        int
	kind     *dKind
	sp       dSpell
	rule     string
	from, to int // 1-based line range of the element
	declLine int
}

func sub(s string, n int) string {
	if strings.Contains(s, "%d") {
		return strings.ReplaceAll(s, "%d", fmt.Sprint(n))
	}
	return s
}

func renderSlots(slots []*dSlot) string {
	lines := []string{"syntax = \"proto3\";", "package d.v1;"}
	for _, s := range slots {
		k := s.kind
		for i, l := range k.pre {
			l = sub(l, s.n)
			if i == len(k.pre)-1 {
				l += s.sp.prevTail
			}
			lines = append(lines, l)
		}
		if len(k.pre) == 0 && s.sp.prevTail != "" {
			// the previous line is the end of the previous block (or the package statement)
			lines[len(lines)-1] += s.sp.prevTail
		}
		for _, l := range s.sp.lines {
			if l == "" {
				lines = append(lines, "")
			} else {
				lines = append(lines, k.indent+l)
			}
		}
		lines = append(lines, sub(k.decl, s.n)+s.sp.trailing)
		s.declLine = len(lines)
		s.from = len(lines)
		for _, l := range k.post {
			lines = append(lines, sub(l, s.n))
		}
		s.to = len(lines)
		if k.single {
			s.to = s.from
		}
	}
	lines = append(lines, "message Req {}", "message Res {}")
	return strings.Join(lines, "\n") + "\n"
}

// leadingCommentAt: the leading comment of the element declared on the (1-based) line, as the
// descriptor carries it (the shortest source path starting on that line).
func leadingCommentAt(fd descriptor.FileDescriptor, line int) string {
	locs := fd.ProtoreflectFileDescriptor().SourceLocations()
	best, bestLen := "", -1
	for i := 0; i < locs.Len(); i++ {
		l := locs.Get(i)
		if l.StartLine == line-1 && len(l.Path) > 0 && (bestLen < 0 || len(l.Path) < bestLen) {
			best, bestLen = l.LeadingComments, len(l.Path)
		}
	}
	return best
}

func sectionDirectives(r *hx.Rand) {
	skip := map[string]bool{"PROTOVALIDATE": true}
	// plan: quick - every spelling once, on a kind that rotates with the seed; thorough - every
	// spelling on every kind
	type plan struct {
		si, ki int
	}
	nSpell := len(dSpellings("X_Y", "Z"))
	var plans []plan
	for si := 0; si < nSpell; si++ {
		if run.Thorough() {
			for ki := range dKinds {
				plans = append(plans, plan{si, ki})
			}
		} else {
			plans = append(plans, plan{si, (si*3 + si/len(dKinds) + int(run.Seed%1000)) % len(dKinds)})
		}
	}
	hx.Shuffle(r, plans)
	const perImage = 48
	kindSeen := map[string]bool{}
	assertedSeen, assertedAll := map[string]bool{}, map[string]bool{}
	for start, ii := 0, 0; start < len(plans); start, ii = start+perImage, ii+1 {
		end := min(start+perImage, len(plans))
		var slots []*dSlot
		for x, p := range plans[start:end] {
			k := &dKinds[p.ki]
			n := start + x
			// target: rotate over the kind's rules; prose in the comment silences COMMENT_* by itself
			probe := dSpellings("X_Y", "Z")[p.si]
			rule := k.rules[(n/len(dKinds)+p.si)%len(k.rules)]
			if probe.docs && strings.HasPrefix(rule, "COMMENT_") {
				rule = k.rules[0]
			}
			other := k.rules[0]
			if other == rule {
				other = k.rules[1]
			}
			sp := dSpellings(rule, other)[p.si]
			if sp.trailing != "" && !k.single {
				// a trailing comment after `{` is the block's trailing comment: keep the shape simple,
				// plant trailing comments on one-line declarations only
				k = &dKinds[2]
				rule, other = k.rules[0], k.rules[1]
				sp = dSpellings(rule, other)[p.si]
			}
			slots = append(slots, &dSlot{n: n, kind: k, sp: sp, rule: rule})
		}
		src := renderSlots(slots)
		im := &image{importPaths: map[string]bool{}, sources: map[string]string{"d/v1/d.proto": src}}
		im.img = buildImage(map[string][]byte{"d/v1/d.proto": []byte(src)}, nil)
		im.measureWith(true, nil, true, skip)
		var fd descriptor.FileDescriptor
		for _, f := range fileDescriptors(im.img) {
			if f.ProtoreflectFileDescriptor().Path() == "d/v1/d.proto" {
				fd = f
			}
		}
		if ii == 0 {
			run.Sample(map[string]any{"section": "directives", "source": src[:min(len(src), 1500)]})
		}
		for vi, v := range versions {
			var use []string
			for _, id := range v.lintLive {
				if !skip[id] {
					use = append(use, id)
				}
			}
			for _, aci := range []bool{true, false} {
				// v2 with comment ignores on always; the other combinations rotate (thorough: all)
				if !(v.name == "v2" && aci) && !run.Thorough() && (vi+ii+b2i(aci))%3 != 0 {
					continue
				}
				c := &cfgSpec{ver: v, lint: true, validated: true, use: use, ioPaths: map[string][]string{}, aci: aci}
				got, class := runCheck(c, im)
				line := "check\t" + c.fields() + "\t" + b01(c.aci) + b01(c.iup) + b01(c.exi) + "\t" + im.proto[v.name]
				run.Case(line, implLine(got, class), true)
				run.Count("directives:runs:" + v.name + ":aci=" + b01(aci))
				if class != "" {
					fail("C06-directives-run-failed", "Client.Lint failed on a directive-spelling image: "+class, c, map[string]any{"source": src})
					continue
				}
				gotSet := faSet(got)
				single := im.single[v.name]
				for _, s := range slots {
					// the rules measured on the element (with the comment as written)
					type obs struct{ n, missing int }
					byRule := map[string]*obs{}
					for id, fas := range single {
						for _, a := range fas {
							if a.path != "d/v1/d.proto" || a.fileLevel || a.sl < s.from || a.sl > s.to {
								continue
							}
							o := byRule[id]
							if o == nil {
								o = &obs{}
								byRule[id] = o
							}
							o.n++
							if _, ok := gotSet[a.key()]; !ok {
								o.missing++
							}
						}
					}
					rules := make([]string, 0, len(byRule))
					for id := range byRule {
						rules = append(rules, id)
					}
					sort.Strings(rules)
					if len(rules) == 0 {
						run.Count("directives:element-without-annotation:" + s.kind.name)
						continue
					}
					if _, ok := byRule[s.rule]; !ok {
						run.Count("directives:target-rule-not-measured:" + s.rule)
					}
					bits := ""
					for _, id := range rules {
						o := byRule[id]
						bits += b01(o.missing == o.n)
						if o.missing != 0 && o.missing != o.n {
							fail("C06-directive-not-recognised", fmt.Sprintf("only %d of the %d %s annotations inside the commented %s (lines %d-%d) are suppressed", o.missing, o.n, id, s.kind.name, s.from, s.to),
								c, map[string]any{"spelling": s.sp.name, "comment": s.sp.lines, "source": src})
						}
					}
					if aci && v.name == "v2" {
						// the parser, per comment
						comment := leadingCommentAt(fd, s.declLine)
						run.Case("directive\t"+hx.Enc(comment)+"\t"+strings.Join(rules, ","), bits, true)
						run.Count("directives:spelling-family:" + strings.SplitN(s.sp.name, ":", 2)[0])
						kindSeen[s.kind.name] = true
					}
					// oracle
					for i, id := range rules {
						named := false
						for _, t := range s.sp.texts {
							if strings.HasPrefix(t, id) {
								named = true
							}
						}
						suppressed := bits[i] == '1'
						one := *s
						minimal := renderSlots([]*dSlot{&one})
						in := map[string]any{"minimal_source": minimal, "minimal_replay": dReplay(minimal, id), "spelling": s.sp.name, "comment_lines": s.sp.lines, "trailing_comment": s.sp.trailing + s.sp.prevTail, "element": s.kind.name,
							"element_lines": fmt.Sprintf("%d-%d", s.from, s.to), "rule": id, "file": "d/v1/d.proto", "source": src,
							"replay": fmt.Sprintf("C06_SECTIONS=directives build/c06 --seed %d --tier %s --out /tmp/c06-replay   # or: write the source above to d/v1/d.proto next to a buf.yaml `version: v2` + `lint: {use: [%s]}` and run buf lint", run.Seed, run.Tier, id)}
						switch {
						case !aci && suppressed:
							fail("C06-suppressed-out-of-scope", fmt.Sprintf("%s annotation on a %s is missing although comment ignores are not allowed", id, s.kind.name), c, in)
						case !aci:
						case !s.sp.assert:
							run.Count("directives:as-coded:" + s.sp.name + ":" + map[bool]string{true: "suppressed", false: "reported"}[suppressed])
						case named && !suppressed:
							fail("C06-directive-not-recognised", fmt.Sprintf("%s annotation on a %s (line %d) is reported although comment ignores are allowed and its leading comment carries the directive `%s %s` (spelling %q)",
								id, s.kind.name, s.from, dPre, s.sp.texts[0], s.sp.name), c, in)
						case !named && suppressed:
							fail("C06-directive-wrongly-recognised", fmt.Sprintf("%s annotation on a %s (line %d) is suppressed although no directive in its leading comment names that rule (spelling %q)",
								id, s.kind.name, s.from, s.sp.name), c, in)
						default:
							if named {
								assertedSeen[s.sp.name] = true
							}
							run.Count("directives:oracle:" + map[bool]string{true: "recognised", false: "no-op"}[named])
						}
						if s.sp.assert && len(s.sp.texts) > 0 && aci {
							for _, t := range s.sp.texts {
								if strings.HasPrefix(t, s.rule) {
									assertedAll[s.sp.name] = true
								}
							}
						}
					}
				}
			}
		}
	}
	// coverage: every asserted spelling that names its target rule was seen suppressing it
	missing := []string{}
	for n := range assertedAll {
		if !assertedSeen[n] {
			missing = append(missing, n)
		}
	}
	sort.Strings(missing)
	run.Set("directive_spellings", nSpell)
	run.Set("directive_spellings_never_observed_suppressing", missing)
	run.CountN("directives:kinds-used", len(kindSeen))
}

// dReplay: a shell line that needs only the buf binary.
func dReplay(src, rule string) string {
	return "d=$(mktemp -d) && cd $d && (cd ${VERIF_REPO:-/repo} && GOPROXY=off GOFLAGS=-mod=mod go build -o $d/buf ./cmd/buf) && mkdir -p d/v1 && printf %s " +
		shq(src) + " > d/v1/d.proto && printf 'version: v2\nlint:\n  use: [" + rule + "]\n' > buf.yaml && ./buf lint   # must print nothing about " + rule + " on the commented element"
}

func b2i(b bool) int {
	if b {
		return 1
	}
	return 0
}
