package main

// Section D — configuration SHAPES, through the real buf.yaml reader.
//
// buf.yaml text is generated (v1beta1 / v1 / v2; lint and breaking; workspace-level section,
// module-level section (v2), both; no section, `{}`, a null section, exactly one key for EVERY
// key of the schema, a key with an explicit zero value, pairs of keys), read with
// bufconfig.ReadBufYAMLFile / GetBufYAMLFileForPrefix, and the resulting LintConfig /
// BreakingConfig of the module is (a) dumped and (b) run through Client.Lint / Client.Breaking on
// a workspace planted so that every key matters.  The Lean model gets the decoded sections and
// must reproduce the effective configuration (which section wins) and the report.
//
// Oracle (implementation only): the harness decides from what it WROTE which section applies
// (v2: a module-level section with at least one key REPLACES the workspace-level section) and
// checks the documented effect of every key on the planted workspace.

import (
	"fmt"
	"slices"
	"sort"
	"strings"

	"github.com/bufbuild/buf/private/bufpkg/bufcheck"
	"github.com/bufbuild/buf/private/bufpkg/bufconfig"
	"github.com/bufbuild/buf/private/pkg/storage/storagemem"
	"github.com/bufbuild/verifharness/internal/hx"
)

var lintKeys = []string{"use", "except", "ignore", "ignore_only", "enum_zero_value_suffix", "rpc_allow_same_request_response",
	"rpc_allow_google_protobuf_empty_requests", "rpc_allow_google_protobuf_empty_responses", "service_suffix", "comment_ignores", "disable_builtin"}
var breakingKeys = []string{"use", "except", "ignore", "ignore_only", "ignore_unstable_packages", "disable_builtin"}

// ySection: what is written for one `lint:` / `breaking:` key.
type ySection struct {
	written bool // the key appears in the file at all
	null    bool // written as `lint:` with no value
	keys    []string
	zero    map[string]bool // key written with an explicit zero value
	use     []string
	except  []string
	ignore  []string
	ioKeys  []string
	ioPaths map[string][]string
	ezs, ss string
	flags   map[string]bool
	flow    bool
}

func (s *ySection) has(k string) bool { return s != nil && slices.Contains(s.keys, k) && !s.zero[k] }

// nonZero: at least one key carries a value (an explicit zero value is the same as no key).
func (s *ySection) nonZero() bool {
	if s == nil || !s.written {
		return false
	}
	for _, k := range s.keys {
		if !s.zero[k] {
			return true
		}
	}
	return false
}

func commentKey(v *version) string {
	if v.name == "v2" {
		return "disallow_comment_ignores"
	}
	return "allow_comment_ignores"
}

// mkSection gives the keys values that MATTER on the planted workspace; n rotates the values;
// pre = module directory prefix ("" or "m/") of workspace-relative paths.
// yamlVer: the version the sections are being generated for (ids differ per version)
var yamlVer *version

func mkSection(lint bool, keys []string, zero map[string]bool, pre string, n int, flow bool) *ySection {
	s := &ySection{written: true, keys: keys, zero: zero, ioPaths: map[string][]string{}, flags: map[string]bool{}, flow: flow}
	if s.zero == nil {
		s.zero = map[string]bool{}
	}
	for _, k := range keys {
		if s.zero[k] {
			continue
		}
		switch k {
		case "use":
			if lint {
				s.use = [][]string{{"MINIMAL"}, {"COMMENTS"}, {"FIELD_LOWER_SNAKE_CASE", "SERVICE_SUFFIX"}, {"BASIC", "ENUM_ZERO_VALUE_SUFFIX"}, {"DEFAULT"}}[n%5]
			} else {
				s.use = [][]string{{"WIRE"}, {"PACKAGE"}, {"FIELD_SAME_TYPE"}, {"WIRE_JSON", "FIELD_NO_DELETE"}}[n%4]
			}
		case "except":
			if lint {
				s.except = [][]string{{"FIELD_LOWER_SNAKE_CASE"}, {"SERVICE_SUFFIX"}, {"ENUM_ZERO_VALUE_SUFFIX", "ENUM_PASCAL_CASE"}, {"BASIC"}}[n%4]
			} else {
				s.except = [][]string{{"FIELD_NO_DELETE"}, {"FIELD_SAME_TYPE"}, {"FILE_SAME_PACKAGE", "FIELD_SAME_TYPE"}}[n%3]
			}
		case "ignore":
			if lint {
				s.ignore = [][]string{{pre + "a/v1/ignored.proto"}, {pre + "a/v1"}, {"other/x", pre + "a/v1/a.proto"}, {pre + "a/v1/ignored.proto", pre + "a/v1/a.proto"}}[n%4]
			} else {
				s.ignore = [][]string{{pre + "a/v1/ignored.proto"}, {pre + "a/v1beta1"}, {"other/x", pre + "a/v1/a.proto"}}[n%3]
			}
		case "ignore_only":
			var k2 string
			var ps []string
			if lint {
				k2 = []string{"FIELD_LOWER_SNAKE_CASE", "BASIC", "SERVICE_SUFFIX", "DEFAULT"}[n%4]
				ps = [][]string{{pre + "a/v1/ignored.proto"}, {pre + "a/v1"}, {pre + "a/v1/a.proto"}, {"other/x", pre + "a/v1/ignored.proto"}}[n%4]
			} else {
				k2 = []string{"FIELD_SAME_TYPE", "FILE", "FIELD_NO_DELETE", "FIELD_SAME_LABEL"}[n%4]
				ps = [][]string{{pre + "a/v1/ignored.proto"}, {pre + "a/v1beta1"}, {pre + "a/v1/a.proto"}, {pre + "a/v1/a.proto"}}[n%4]
				if k2 == "FIELD_SAME_LABEL" && yamlVer.name == "v2" {
					k2 = "WIRE_JSON" // FIELD_SAME_LABEL (deprecated, three replacements) exists in v1beta1 / v1 only
				}
			}
			s.ioKeys = []string{k2}
			s.ioPaths[k2] = ps
		case "enum_zero_value_suffix":
			s.ezs = []string{"_NONE", "_UNKNOWN"}[n%2]
		case "service_suffix":
			s.ss = []string{"API", "Svc"}[n%2]
		default:
			s.flags[k] = true
		}
	}
	return s
}

func yq(s string, n int) string {
	if n%3 == 1 || s == "" || strings.ContainsAny(s, " :#") {
		return `"` + s + `"`
	}
	return s
}

// yaml renders the section under `name:` at the indent.
func (s *ySection) yaml(name, indent string, v *version) string {
	if s == nil || !s.written {
		return ""
	}
	if s.null {
		return indent + name + ":\n"
	}
	if len(s.keys) == 0 {
		return indent + name + ": {}\n"
	}
	keyName := func(k string) string {
		if k == "comment_ignores" {
			return commentKey(v)
		}
		return k
	}
	list := func(xs []string) string {
		q := make([]string, len(xs))
		for i, x := range xs {
			q[i] = yq(x, i)
		}
		return "[" + strings.Join(q, ", ") + "]"
	}
	var b strings.Builder
	if s.flow {
		var parts []string
		for _, k := range s.keys {
			switch {
			case s.zero[k] && (k == "use" || k == "except" || k == "ignore"):
				parts = append(parts, keyName(k)+": []")
			case s.zero[k] && k == "ignore_only":
				parts = append(parts, keyName(k)+": {}")
			case s.zero[k] && (k == "enum_zero_value_suffix" || k == "service_suffix"):
				parts = append(parts, keyName(k)+`: ""`)
			case s.zero[k]:
				parts = append(parts, keyName(k)+": false")
			case k == "use":
				parts = append(parts, "use: "+list(s.use))
			case k == "except":
				parts = append(parts, "except: "+list(s.except))
			case k == "ignore":
				parts = append(parts, "ignore: "+list(s.ignore))
			case k == "ignore_only":
				var es []string
				for _, k2 := range s.ioKeys {
					es = append(es, yq(k2, 0)+": "+list(s.ioPaths[k2]))
				}
				parts = append(parts, "ignore_only: {"+strings.Join(es, ", ")+"}")
			case k == "enum_zero_value_suffix":
				parts = append(parts, k+": "+yq(s.ezs, 0))
			case k == "service_suffix":
				parts = append(parts, k+": "+yq(s.ss, 1))
			default:
				parts = append(parts, keyName(k)+": true")
			}
		}
		return indent + name + ": {" + strings.Join(parts, ", ") + "}\n"
	}
	b.WriteString(indent + name + ":\n")
	in := indent + "  "
	blockList := func(k string, xs []string) {
		b.WriteString(in + k + ":\n")
		for i, x := range xs {
			b.WriteString(in + "  - " + yq(x, i) + "\n")
		}
	}
	for _, k := range s.keys {
		switch {
		case s.zero[k] && (k == "use" || k == "except" || k == "ignore"):
			b.WriteString(in + keyName(k) + ": []\n")
		case s.zero[k] && k == "ignore_only":
			b.WriteString(in + keyName(k) + ": {}\n")
		case s.zero[k] && (k == "enum_zero_value_suffix" || k == "service_suffix"):
			b.WriteString(in + keyName(k) + `: ""` + "\n")
		case s.zero[k]:
			b.WriteString(in + keyName(k) + ": false\n")
		case k == "use":
			blockList("use", s.use)
		case k == "except":
			blockList("except", s.except)
		case k == "ignore":
			blockList("ignore", s.ignore)
		case k == "ignore_only":
			b.WriteString(in + "ignore_only:\n")
			for _, k2 := range s.ioKeys {
				if len(s.ioPaths[k2]) == 0 {
					b.WriteString(in + "  " + yq(k2, 0) + ": []\n")
					continue
				}
				b.WriteString(in + "  " + yq(k2, 0) + ":\n")
				for i, x := range s.ioPaths[k2] {
					b.WriteString(in + "    - " + yq(x, i) + "\n")
				}
			}
		case k == "enum_zero_value_suffix":
			b.WriteString(in + k + ": " + yq(s.ezs, 1) + "\n")
		case k == "service_suffix":
			b.WriteString(in + k + ": " + yq(s.ss, 0) + "\n")
		default:
			b.WriteString(in + keyName(k) + ": true\n")
		}
	}
	return b.String()
}

// protocol encoding of the DECODED section (explicit zero values = absent)
func (s *ySection) fields() string {
	if !s.nonZero() {
		return "_"
	}
	io := "_"
	if s.has("ignore_only") && len(s.ioKeys) > 0 {
		parts := make([]string, len(s.ioKeys))
		for i, k := range s.ioKeys {
			parts[i] = hx.Enc(k) + "=" + encList(s.ioPaths[k])
		}
		io = strings.Join(parts, ";")
	}
	bits := b01(s.flags["rpc_allow_same_request_response"]) + b01(s.flags["rpc_allow_google_protobuf_empty_requests"]) +
		b01(s.flags["rpc_allow_google_protobuf_empty_responses"]) + b01(s.flags["comment_ignores"]) +
		b01(s.flags["ignore_unstable_packages"]) + b01(s.flags["disable_builtin"])
	return strings.Join([]string{encList(s.use), encList(s.except), encList(s.ignore), io, hx.Enc(s.ezs), hx.Enc(s.ss), bits}, "|")
}

func (s *ySection) describe() any {
	if s == nil || !s.written {
		return "(no section)"
	}
	if s.null {
		return "(null)"
	}
	m := map[string]any{}
	for _, k := range s.keys {
		switch {
		case s.zero[k]:
			m[k] = "(explicit zero value)"
		case k == "use":
			m[k] = s.use
		case k == "except":
			m[k] = s.except
		case k == "ignore":
			m[k] = s.ignore
		case k == "ignore_only":
			m[k] = s.ioPaths
		case k == "enum_zero_value_suffix":
			m[k] = s.ezs
		case k == "service_suffix":
			m[k] = s.ss
		default:
			m[k] = true
		}
	}
	return m
}

// ---------------------------------------------------------------------------------------------
// the planted workspace

const yamlLintA = `syntax = "proto3";
package a.v1;
import "google/protobuf/empty.proto";
enum Color {
  COLOR_NONE = 0;
}
message Both {
  // buf:lint:ignore FIELD_LOWER_SNAKE_CASE
  string BadName = 1;
  string AlsoBadName = 2;
}
message EmptyInResponse {}
message EmptyOutRequest {}
service FooAPI {
  rpc Same(Both) returns (Both);
  rpc EmptyIn(google.protobuf.Empty) returns (EmptyInResponse);
  rpc EmptyOut(EmptyOutRequest) returns (google.protobuf.Empty);
}
`

const yamlLintIgnored = `syntax = "proto3";
package a.v1;
message lower_ignored {
  string IgnoredBad = 1;
}
service IgnoredAPI {}
`

type yamlWorld struct {
	lint    bool
	base    *image
	byOpts  map[string]*image // measured single-rule sets per lint-option combination
	sources map[string]string
}

func newYamlWorld(lint bool) *yamlWorld {
	w := &yamlWorld{lint: lint, byOpts: map[string]*image{}, sources: map[string]string{}}
	im := &image{importPaths: map[string]bool{"google/protobuf/empty.proto": true}, sources: map[string]string{}}
	if lint {
		src := map[string][]byte{"a/v1/a.proto": []byte(yamlLintA), "a/v1/ignored.proto": []byte(yamlLintIgnored)}
		im.img = buildImage(src, nil)
		im.directives = []directive{{file: "a/v1/a.proto", text: "FIELD_LOWER_SNAKE_CASE", from: 9, to: 9}}
		for p, d := range src {
			im.sources[p] = string(d)
		}
	} else {
		old := map[string][]byte{
			"a/v1/a.proto":       []byte("syntax = \"proto3\";\npackage a.v1;\nmessage M {\n  string name = 1;\n  int32 count = 2;\n  repeated string tags = 3;\n}\n"),
			"a/v1/ignored.proto": []byte("syntax = \"proto3\";\npackage a.v1;\nmessage I {\n  string s = 1;\n}\n"),
			"a/v1beta1/x.proto":  []byte("syntax = \"proto3\";\npackage a.v1beta1;\nmessage X {\n  string s = 1;\n  int32 n = 2;\n}\n"),
			"a/v1/gone.proto":    []byte("syntax = \"proto3\";\npackage a.v1;\nmessage Gone {\n  string g = 1;\n}\n"),
		}
		cur := map[string][]byte{
			"a/v1/a.proto":       []byte("syntax = \"proto3\";\npackage a.v1;\nmessage M {\n  bytes name = 1;\n  string tags = 3;\n}\n"),
			"a/v1/ignored.proto": []byte("syntax = \"proto3\";\npackage a.v1;\nmessage I {\n  int32 s = 1;\n}\n"),
			"a/v1beta1/x.proto":  []byte("syntax = \"proto3\";\npackage a.v1beta1;\nmessage X {\n  bool s = 1;\n}\n"),
		}
		im.img = buildImage(cur, nil)
		im.against = buildImage(old, nil)
		for p, d := range cur {
			im.sources[p] = string(d)
		}
	}
	w.base = im
	return w
}

// measured returns the image with the single-rule sets measured under the lint options.
func (w *yamlWorld) measured(ezs, ss string, same, ereq, eresp bool) *image {
	key := ezs + "|" + ss + "|" + b01(same) + b01(ereq) + b01(eresp)
	if im, ok := w.byOpts[key]; ok {
		return im
	}
	im := *w.base
	extra := map[string]any{}
	if ezs != "" {
		extra["enum_zero_value_suffix"] = ezs
	}
	if ss != "" {
		extra["service_suffix"] = ss
	}
	if same {
		extra["rpc_allow_same_request_response"] = true
	}
	if ereq {
		extra["rpc_allow_google_protobuf_empty_requests"] = true
	}
	if eresp {
		extra["rpc_allow_google_protobuf_empty_responses"] = true
	}
	im.measureWith(w.lint, extra, false, nil)
	if w.lint {
		// the documented effect of every option, on planted facts (v2 table)
		single := im.single["v2"]
		mentions := func(id, needle string) bool {
			for _, a := range single[id] {
				if strings.Contains(a.msg, needle) {
					return true
				}
			}
			return false
		}
		optFail := func(what string) {
			fail("C06-yaml-option-no-effect", what, &cfgSpec{ver: versions[2], lint: true}, map[string]any{"options": extra})
		}
		if (ss == "API") == mentions("SERVICE_SUFFIX", `"FooAPI"`) {
			optFail("service_suffix: service FooAPI must violate SERVICE_SUFFIX exactly when the configured suffix is not API")
		}
		if (ezs == "_NONE") == mentions("ENUM_ZERO_VALUE_SUFFIX", `"COLOR_NONE"`) {
			optFail("enum_zero_value_suffix: COLOR_NONE must violate ENUM_ZERO_VALUE_SUFFIX exactly when the configured suffix is not _NONE")
		}
		if same == mentions("RPC_REQUEST_RESPONSE_UNIQUE", `RPC "Same" has the same type`) {
			optFail("rpc_allow_same_request_response: rpc Same(Both) returns (Both) must violate RPC_REQUEST_RESPONSE_UNIQUE exactly when the option is off")
		}
		if ereq == mentions("RPC_REQUEST_STANDARD_NAME", `"Empty"`) {
			optFail("rpc_allow_google_protobuf_empty_requests: rpc EmptyIn(google.protobuf.Empty) must violate RPC_REQUEST_STANDARD_NAME exactly when the option is off")
		}
		if eresp == mentions("RPC_RESPONSE_STANDARD_NAME", `"Empty"`) {
			optFail("rpc_allow_google_protobuf_empty_responses: rpc EmptyOut returns (google.protobuf.Empty) must violate RPC_RESPONSE_STANDARD_NAME exactly when the option is off")
		}
		run.Eval()
	}
	w.byOpts[key] = &im
	return &im
}

// ---------------------------------------------------------------------------------------------

type yamlCase struct {
	ver        *version
	lint       bool
	dir        string // module directory of the module under test ("." or "m")
	ws, mod    *ySection
	otherWs    *ySection // the section of the OTHER type at workspace level (decoy, always harmless)
	decoyMod   *ySection // a second module "other" with its own section of the same type (decoy)
	modulesKey bool      // v2: write `modules:` at all
	viaBucket  bool
	exi        bool
	label      string
}

func (yc *yamlCase) typeName() string {
	if yc.lint {
		return "lint"
	}
	return "breaking"
}

func (yc *yamlCase) text() string {
	var b strings.Builder
	b.WriteString("version: " + yc.ver.name + "\n")
	other := "breaking"
	if !yc.lint {
		other = "lint"
	}
	if yc.ver.name == "v2" && yc.modulesKey {
		b.WriteString("modules:\n")
		if yc.decoyMod != nil && yc.dir != "." {
			b.WriteString("  - path: other\n")
			b.WriteString(yc.decoyMod.yaml(yc.typeName(), "    ", yc.ver))
		}
		b.WriteString("  - path: " + yc.dir + "\n")
		b.WriteString(yc.mod.yaml(yc.typeName(), "    ", yc.ver))
	}
	// key order at top level varies
	if yc.otherWs != nil && len(yc.label)%2 == 0 {
		b.WriteString(yc.otherWs.yaml(other, "", yc.ver))
	}
	b.WriteString(yc.ws.yaml(yc.typeName(), "", yc.ver))
	if yc.otherWs != nil && len(yc.label)%2 == 1 {
		b.WriteString(yc.otherWs.yaml(other, "", yc.ver))
	}
	return b.String()
}

// intended: what the documentation says the module's configuration is, from what was written.
type intended struct {
	err      bool
	disabled bool
	cfg      *cfgSpec
	ezs, ss  string
	same     bool
	ereq     bool
	eresp    bool
	from     string // which section applies
}

func (yc *yamlCase) intended() *intended {
	s, req, from := yc.ws, false, "workspace-level section"
	if yc.ver.name != "v2" {
		req, from = true, "the only section"
	} else if yc.mod.nonZero() {
		s, req, from = yc.mod, true, "module-level section (replaces the workspace-level one)"
	}
	if !s.nonZero() {
		s, from = &ySection{flags: map[string]bool{}, ioPaths: map[string][]string{}}, from+" — absent/empty: defaults"
	}
	in := &intended{from: from, ezs: s.ezs, ss: s.ss}
	in.same, in.ereq, in.eresp = s.flags["rpc_allow_same_request_response"], s.flags["rpc_allow_google_protobuf_empty_requests"], s.flags["rpc_allow_google_protobuf_empty_responses"]
	c := &cfgSpec{ver: yc.ver, lint: yc.lint, validated: true, ioPaths: map[string][]string{}, exi: yc.exi}
	c.use, c.except = slices.Clone(s.use), slices.Clone(s.except)
	c.disableBuiltin = s.flags["disable_builtin"]
	if yc.lint {
		c.aci = s.flags["comment_ignores"]
		if yc.ver.name == "v2" {
			c.aci = !c.aci
		}
	} else {
		c.iup = s.flags["ignore_unstable_packages"]
	}
	// paths: relative to the module directory; outside the module: skipped for the
	// workspace-level section, an error for a module-level one; equal to the module directory
	// (ignore only): the check is disabled
	rel := func(p string) (string, bool, bool) { // rel, inside, bad
		n := normalize(p)
		if strings.HasPrefix(p, "/") || strings.HasPrefix(p, "..") {
			return "", false, true
		}
		if yc.dir == "." {
			if n == "" {
				n = "."
			}
			return n, true, false
		}
		if n == yc.dir {
			return ".", true, false
		}
		if strings.HasPrefix(n, yc.dir+"/") {
			return n[len(yc.dir)+1:], true, false
		}
		return "", false, false
	}
	for _, p := range s.ignore {
		r, inside, bad := rel(p)
		switch {
		case bad:
			in.err = true
		case r == ".":
			in.disabled = true
		case !inside && req:
			in.err = true
		case inside:
			c.ignore = append(c.ignore, r)
		}
	}
	for _, k := range s.ioKeys {
		var ps []string
		for _, p := range s.ioPaths[k] {
			r, inside, bad := rel(p)
			switch {
			case bad || r == ".":
				in.err = true
			case !inside && req:
				in.err = true
			case inside:
				ps = append(ps, r)
			}
		}
		if len(ps) > 0 {
			c.ioKeys = append(c.ioKeys, k)
			c.ioPaths[k] = ps
		}
	}
	in.cfg = c
	return in
}

func dumpCheck(cc bufconfig.CheckConfig, aci, iup bool, ezs, ss string, same, ereq, eresp bool) string {
	io := "_"
	m := cc.IgnoreIDOrCategoryToPaths()
	if len(m) > 0 {
		ks := make([]string, 0, len(m))
		for k := range m {
			ks = append(ks, k)
		}
		sort.Strings(ks)
		parts := make([]string, len(ks))
		for i, k := range ks {
			parts[i] = hx.Enc(k) + "=" + encList(m[k])
		}
		io = strings.Join(parts, ";")
	}
	return strings.Join([]string{"d=" + b01(cc.Disabled()), "u=" + encList(cc.UseIDsAndCategories()), "x=" + encList(cc.ExceptIDsAndCategories()),
		"g=" + encList(cc.IgnorePaths()), "o=" + io,
		"f=" + b01(aci) + b01(iup) + b01(cc.DisableBuiltin()) + b01(same) + b01(ereq) + b01(eresp),
		"z=" + hx.Enc(ezs), "s=" + hx.Enc(ss)}, " ")
}

func dumpLint(lc bufconfig.LintConfig) string {
	if lc == nil {
		return "none"
	}
	return dumpCheck(lc, lc.AllowCommentIgnores(), false, lc.EnumZeroValueSuffix(), lc.ServiceSuffix(), lc.RPCAllowSameRequestResponse(),
		lc.RPCAllowGoogleProtobufEmptyRequests(), lc.RPCAllowGoogleProtobufEmptyResponses())
}

func dumpBreaking(bc bufconfig.BreakingConfig) string {
	if bc == nil {
		return "none"
	}
	return dumpCheck(bc, false, bc.IgnoreUnstablePackages(), "", "", false, false, false)
}

// runYaml: read the text with the real reader, pick the module, dump and run.
func runYaml(yc *yamlCase, text string, im *image) (out string, got []fa, class string, readErr error) {
	defer func() {
		if p := recover(); p != nil {
			out, class = "panic", "panic"
			run.Fail(hx.OracleFailure{Class: "C06-panic", What: fmt.Sprint("buf.yaml reader / check panicked: ", p), Input: map[string]any{"buf.yaml": text}})
		}
	}()
	var f bufconfig.BufYAMLFile
	var err error
	if yc.viaBucket {
		bucket, berr := storagemem.NewReadBucket(map[string][]byte{"ws/buf.yaml": []byte(text)})
		if berr != nil {
			panic(berr)
		}
		f, err = bufconfig.GetBufYAMLFileForPrefix(ctx, bucket, "ws")
	} else {
		f, err = bufconfig.ReadBufYAMLFile(strings.NewReader(text), "buf.yaml")
	}
	if err != nil {
		return "err config", nil, "err config", err
	}
	var mc bufconfig.ModuleConfig
	for _, m := range f.ModuleConfigs() {
		if m.DirPath() == yc.dir {
			mc = m
		}
	}
	if mc == nil {
		panic("module " + yc.dir + " not in the parsed file:\n" + text)
	}
	var cfgDump, topDump string
	if yc.lint {
		lc := mc.LintConfig()
		cfgDump, topDump = dumpLint(lc), dumpLint(f.TopLevelLintConfig())
		err = client.Lint(ctx, lc, im.img)
	} else {
		bc := mc.BreakingConfig()
		cfgDump, topDump = dumpBreaking(bc), dumpBreaking(f.TopLevelBreakingConfig())
		if yc.exi {
			err = client.Breaking(ctx, bc, im.img, im.against, bufcheck.BreakingWithExcludeImports())
		} else {
			err = client.Breaking(ctx, bc, im.img, im.against)
		}
	}
	rep := ""
	if err == nil {
		rep = "ok "
	} else if fas, ok := fasOf(err); ok {
		got = fas
		rep = implLine(fas, "")
	} else {
		class = errClass(err)
		rep = class
	}
	return "cfg " + cfgDump + " top " + topDump + " rep " + rep, got, class, nil
}

// yamlOracle: the documented effect of what was written, on the planted workspace.
func yamlOracle(yc *yamlCase, text string, in *intended, im *image, got []fa, class string, readErr error) {
	extra := map[string]any{"buf.yaml": text, "module": yc.dir, "applies": in.from,
		"workspace_section": yc.ws.describe(), "module_section": yc.mod.describe()}
	c := in.cfg
	if in.err {
		if readErr == nil {
			fail("C06-yaml-invalid-path-accepted", "a path outside the context directory / outside the module of a module-level section was accepted", c, extra)
		}
		return
	}
	if readErr != nil {
		extra["error"] = readErr.Error()
		fail("C06-yaml-valid-config-rejected", "a valid buf.yaml was rejected", c, extra)
		return
	}
	if in.disabled {
		if len(got) > 0 || class != "" {
			fail("C06-yaml-section-effect", "an ignore path equal to the module directory disables the check, but something was reported", c, extra)
		}
		return
	}
	ids, cl := configured(c)
	if class != "" || cl != "" {
		if class != cl {
			extra["class"], extra["expected_class"] = class, cl
			fail("C06-yaml-section-effect", "Lint/Breaking on the configuration read from buf.yaml and the same configuration built directly disagree about validity", c, extra)
		}
		return
	}
	// exactness against what the section that applies documents
	extra["note"] = "the buf.yaml above was read with the real reader; the expectation is the documented effect of the section that applies"
	exactnessOracle(c, im, got, ids, true, "C06-yaml-section-effect", extra)
}

func sectionYaml(r *hx.Rand) {
	worlds := map[bool]*yamlWorld{true: newYamlWorld(true), false: newYamlWorld(false)}
	n := 0
	baseline := map[string]string{} // report with no section at all, per version / type / exclude-imports
	emit := func(yc *yamlCase) {
		n++
		if yc.ver.name != "v2" {
			yc.dir, yc.mod, yc.decoyMod, yc.modulesKey = ".", nil, nil, false
		}
		if yc.mod == nil {
			yc.mod = &ySection{}
		}
		if yc.ws == nil {
			yc.ws = &ySection{}
		}
		if yc.mod.written || yc.dir != "." {
			yc.modulesKey = true
		}
		yc.viaBucket = n%4 == 0
		text := yc.text()
		in := yc.intended()
		w := worlds[yc.lint]
		im := w.measured(in.ezs, in.ss, in.same, in.ereq, in.eresp)
		out, got, class, readErr := runYaml(yc, text, im)
		ty := "b"
		if yc.lint {
			ty = "l"
		}
		line := strings.Join([]string{"ycheck", yc.ver.name, ty, hx.Enc(yc.dir), yc.ws.fields(), yc.mod.fields(), b01(yc.exi), im.proto[yc.ver.name]}, "\t")
		run.Case(line, out, true)
		run.Count("yaml:" + yc.typeName() + ":" + yc.ver.name + ":" + yc.label)
		if readErr != nil {
			run.Count("yaml:read-error")
		} else if class != "" {
			run.Count("yaml:" + strings.SplitN(class, ":", 2)[0])
		} else {
			run.CountN("yaml:annotations-reported", len(got))
		}
		// generator self-check: a section with exactly one key must change what is reported
		// (otherwise the planted workspace does not make that key matter)
		bk := yc.ver.name + ty + b01(yc.exi)
		if i := strings.Index(out, " rep "); i >= 0 {
			if strings.HasSuffix(yc.label, ":none") && yc.ws != nil && !yc.ws.written {
				baseline[bk] = out[i:]
			}
			if strings.HasSuffix(yc.label, ":single-key") && readErr == nil {
				s := yc.ws
				if yc.mod.nonZero() {
					s = yc.mod
				}
				if base, ok := baseline[bk]; ok && base == out[i:] && len(s.keys) == 1 && !slices.Equal(s.use, []string{"DEFAULT"}) {
					run.Count("yaml:single-key-without-observable-effect:" + s.keys[0] + ":" + yc.typeName() + ":" + yc.ver.name + fmt.Sprint(s.use))
				} else if ok {
					run.Count("yaml:single-key-with-observable-effect")
				}
			}
		}
		if n <= 2 {
			run.Sample(map[string]any{"section": "yaml", "buf.yaml": text, "result": out[:min(len(out), 300)]})
		}
		yamlOracle(yc, text, in, im, got, class, readErr)
	}
	for _, v := range versions {
		yamlVer = v
		for _, lint := range []bool{true, false} {
			keys := breakingKeys
			if lint {
				keys = lintKeys
			}
			rr := r.Fork(uint64(len(v.name)*10 + len(keys)))
			cnt := 0
			next := func() int { cnt++; return cnt }
			other := func() *ySection {
				// the other type's workspace-level section: harmless, varied
				ok := lintKeys
				if lint {
					ok = breakingKeys
				}
				switch next() % 3 {
				case 0:
					return nil
				case 1:
					return mkSection(!lint, []string{"use"}, nil, "", cnt, cnt%2 == 0)
				default:
					return mkSection(!lint, []string{ok[cnt%4], "disable_builtin"}, nil, "", cnt, cnt%2 == 1)
				}
			}
			dirOf := func() (string, string) {
				if v.name == "v2" && next()%2 == 0 {
					return "m", "m/"
				}
				return ".", ""
			}
			levels := []string{"ws"}
			if v.name == "v2" {
				levels = []string{"ws", "mod"}
			}
			for _, level := range levels {
				// shapes of ONE section
				for _, shape := range []string{"none", "empty-map", "null"} {
					dir, _ := dirOf()
					s := &ySection{written: shape != "none", null: shape == "null"}
					yc := &yamlCase{ver: v, lint: lint, dir: dir, otherWs: other(), label: level + ":" + shape}
					if level == "ws" {
						yc.ws = s
					} else {
						yc.mod = s
					}
					emit(yc)
				}
				for ki, k := range keys {
					for rep := 0; rep < run.N(2, 6); rep++ {
						dir, pre := dirOf()
						s := mkSection(lint, []string{k}, nil, pre, ki+rep*3+next(), (ki+rep)%2 == 0)
						yc := &yamlCase{ver: v, lint: lint, dir: dir, otherWs: other(), label: level + ":single-key", exi: !lint && cnt%3 == 0}
						if level == "ws" {
							yc.ws = s
						} else {
							yc.mod = s
							if rep%2 == 1 {
								yc.decoyMod = mkSection(lint, []string{keys[(ki+1)%len(keys)]}, nil, "other/", cnt, true)
								if slices.Contains([]string{"ignore", "ignore_only"}, keys[(ki+1)%len(keys)]) {
									yc.decoyMod = mkSection(lint, []string{"use"}, nil, "", cnt, true)
								}
							}
						}
						emit(yc)
					}
					// the key with an explicit zero value
					dir, _ := dirOf()
					s := mkSection(lint, []string{k}, map[string]bool{k: true}, "", 0, ki%2 == 1)
					yc := &yamlCase{ver: v, lint: lint, dir: dir, otherWs: other(), label: level + ":single-key-zero-value"}
					if level == "ws" {
						yc.ws = s
					} else {
						yc.mod = s
						// what it must fall back to
						yc.ws = mkSection(lint, []string{keys[(ki+2)%len(keys)]}, nil, map[bool]string{true: "m/", false: ""}[dir == "m"], ki, false)
					}
					emit(yc)
				}
				// pairs of keys
				for i := range keys {
					for j := i + 1; j < len(keys); j++ {
						if !run.Thorough() && (i+j+len(v.name))%3 != 0 && level == "mod" {
							continue
						}
						dir, pre := dirOf()
						ks := []string{keys[i], keys[j]}
						if next()%2 == 0 {
							ks = []string{keys[j], keys[i]}
						}
						s := mkSection(lint, ks, nil, pre, i+j+cnt, cnt%2 == 0)
						yc := &yamlCase{ver: v, lint: lint, dir: dir, otherWs: other(), label: level + ":key-pair", exi: !lint && cnt%3 == 0}
						if level == "ws" {
							yc.ws = s
						} else {
							yc.mod = s
						}
						emit(yc)
					}
				}
			}
			if v.name != "v2" {
				continue
			}
			// both levels at once: the module-level section must REPLACE the workspace-level one
			for ki, k := range keys {
				for kj, k2 := range keys {
					if !run.Thorough() && (ki*7+kj*3)%4 != 0 && k != k2 && !(k == "comment_ignores" || k2 == "comment_ignores" || k == "ignore_unstable_packages" || k2 == "ignore_unstable_packages") {
						continue
					}
					dir, pre := dirOf()
					mod := mkSection(lint, []string{k}, nil, pre, ki+cnt, cnt%2 == 0)
					ws := mkSection(lint, []string{k2}, nil, pre, kj+cnt+1, cnt%2 == 1)
					emit(&yamlCase{ver: v, lint: lint, dir: dir, ws: ws, mod: mod, otherWs: other(), label: "both:single-key-each", exi: !lint && cnt%3 == 0})
				}
				// workspace-level key, module-level section present but empty / zero-valued
				for _, shape := range []string{"empty-map", "null", "zero"} {
					dir, pre := dirOf()
					ws := mkSection(lint, []string{k}, nil, pre, ki+cnt, cnt%2 == 0)
					mod := &ySection{written: true, null: shape == "null"}
					if shape == "zero" {
						mod = mkSection(lint, []string{keys[(ki+3)%len(keys)]}, map[string]bool{keys[(ki+3)%len(keys)]: true}, "", 0, true)
					}
					emit(&yamlCase{ver: v, lint: lint, dir: dir, ws: ws, mod: mod, otherWs: other(), label: "both:ws-key+module-" + shape})
				}
			}
			// bad paths and the disabling path
			for i, bad := range []string{"../x", "/abs", "other/x", "DIR"} {
				for _, level := range []string{"ws", "mod"} {
					dir, pre := dirOf()
					p := bad
					if bad == "DIR" {
						p = dir
					}
					_ = pre
					s := mkSection(lint, []string{"ignore"}, nil, "", 0, i%2 == 0)
					s.ignore = []string{p}
					yc := &yamlCase{ver: v, lint: lint, dir: dir, label: level + ":ignore-path:" + bad}
					if level == "ws" {
						yc.ws = s
					} else {
						yc.mod = s
					}
					emit(yc)
				}
			}
			// thorough: random sections at both levels
			for i := 0; i < run.N(0, 400); i++ {
				dir, pre := dirOf()
				pick := func() *ySection {
					switch rr.Intn(6) {
					case 0:
						return &ySection{}
					case 1:
						return &ySection{written: true}
					}
					nk := 1 + rr.Intn(3)
					var ks []string
					zero := map[string]bool{}
					for len(ks) < nk {
						k := hx.Pick(rr, keys)
						if !slices.Contains(ks, k) {
							ks = append(ks, k)
							if rr.Chance(1, 6) {
								zero[k] = true
							}
						}
					}
					return mkSection(lint, ks, zero, pre, rr.Intn(1000), rr.Bool())
				}
				emit(&yamlCase{ver: v, lint: lint, dir: dir, ws: pick(), mod: pick(), otherWs: other(), label: "random", exi: !lint && rr.Bool()})
			}
		}
	}
}
