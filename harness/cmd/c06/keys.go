package main

// Section G — the configuration-KEY family ("unknown IDs are rejected; suppression scoped").
//
// Every id a user can write as an entry of `use`, `except` or as a key of `ignore_only`, in the
// `lint:` and in the `breaking:` section, of a v1beta1 / v1 / v2 buf.yaml, is enumerated
// deterministically (no random pools): every rule id and category id of BOTH rule types of ALL
// three versions (so each version also sees the ids that only exist elsewhere), deprecated ids
// and their replacements, a lower-case / mixed-case spelling of every id, junk ids (suffix,
// proper prefix, padded with a blank, `-` for `_`), blank ids.
//
//   G1  buf.yaml TEXT -> bufconfig.ReadBufYAMLFile -> the module's LintConfig / BreakingConfig ->
//       Client.ConfiguredRules: one `ykeys` protocol line per (version, section, slot, key) for
//       the Lean model (readYaml + newRulesConfig over the regenerated tables) + the oracle below.
//       One `keytab` line per (version, type): the accepted-key table of the live registry
//       (Client.AllRules) vs the table of the regenerated Lean tables.
//   G2  Client.Lint / Client.Breaking on a planted workspace (`ycheck` lines): every accepted
//       `ignore_only` key with a path, all rules selected, so that "accepted but without effect"
//       and "effect outside the scope" are observable; plus one key of every rejected class per
//       (version, section, slot).
//   G3  the COMMANDS `buf lint`, `buf breaking`, `buf config ls-lint-rules --configured-only`,
//       `buf config ls-breaking-rules --configured-only` (the real command tree
//       buf.NewRootCommand run in-process through appcmd.Run on workspaces written to disk):
//       one key of every class per (version, section, slot).
//
// Oracle (implementation only; the table comes from the live registry, never from
// newRulesConfig): a key is accepted iff it is a rule id of THAT section's rule type in THAT
// version or a category carried by such a rule; an accepted key stands for exactly its rule /
// its category's rules / its replacements: `use: [k]` selects exactly them, `except: [k]`
// removes exactly them from the defaults, `ignore_only: {k: [p]}` removes exactly their
// annotations located under p and nothing else.

import (
	"bytes"
	"encoding/json"
	"fmt"
	"os"
	"path/filepath"
	"slices"
	"sort"
	"strings"
	"sync"
	"time"
	"unicode"

	"github.com/bufbuild/buf/private/buf/cmd/buf"
	"github.com/bufbuild/buf/private/bufpkg/bufcheck"
	"github.com/bufbuild/buf/private/bufpkg/bufconfig"
	"github.com/bufbuild/buf/private/pkg/app"
	"github.com/bufbuild/buf/private/pkg/app/appcmd"
	"github.com/bufbuild/verifharness/internal/hx"
)

// ---------------------------------------------------------------------------------------------
// the accepted-key table of one (version, rule type), from the live registry

type keyTab struct {
	v        *version
	lint     bool
	rules    map[string]bufcheck.Rule
	ruleIDs  []string            // sorted, incl. deprecated
	cats     []string            // sorted: categories carried by at least one rule of the type
	members  map[string][]string // category -> rule ids of the type carrying it
	defaults []string            // what an empty `use` selects (undeprecated, sorted)
	live     []string            // non-deprecated rule ids
}

var keyTabs = map[string]*keyTab{}

func tabOf(v *version, lint bool) *keyTab {
	k := v.name + b01(lint)
	if t, ok := keyTabs[k]; ok {
		return t
	}
	t := &keyTab{v: v, lint: lint, rules: map[string]bufcheck.Rule{}, members: map[string][]string{}}
	for _, r := range must(client.AllRules(ctx, ruleType(lint), v.fv)) {
		t.rules[r.ID()] = r
		t.ruleIDs = append(t.ruleIDs, r.ID())
		if !r.Deprecated() {
			t.live = append(t.live, r.ID())
		}
		for _, c := range r.Categories() {
			t.members[c.ID()] = append(t.members[c.ID()], r.ID())
		}
	}
	sort.Strings(t.ruleIDs)
	sort.Strings(t.live)
	for c := range t.members {
		t.cats = append(t.cats, c)
	}
	sort.Strings(t.cats)
	d := map[string]bool{}
	for _, id := range t.ruleIDs {
		if t.rules[id].Default() {
			for _, x := range t.undep(id) {
				d[x] = true
			}
		}
	}
	t.defaults = sortedKeys(d)
	keyTabs[k] = t
	return t
}

func (t *keyTab) undep(id string) []string {
	if r := t.rules[id]; r != nil && r.Deprecated() {
		return r.ReplacementIDs()
	}
	return []string{id}
}

func (t *keyTab) accepts(k string) bool {
	_, isRule := t.rules[k]
	return isRule || len(t.members[k]) > 0
}

// expand: the live rules an accepted key stands for.
func (t *keyTab) expand(k string) []string {
	set := map[string]bool{}
	if _, ok := t.rules[k]; ok {
		for _, x := range t.undep(k) {
			set[x] = true
		}
	} else {
		for _, m := range t.members[k] {
			for _, x := range t.undep(m) {
				set[x] = true
			}
		}
	}
	return sortedKeys(set)
}

func typeName(lint bool) string {
	if lint {
		return "lint"
	}
	return "breaking"
}

// ---------------------------------------------------------------------------------------------
// the key universe

type keyCase struct {
	key, class string
}

func caseVariants(k string) []string {
	lower := strings.ToLower(k)
	var title strings.Builder
	up := true
	for _, c := range lower {
		if up {
			title.WriteRune(unicode.ToUpper(c))
		} else {
			title.WriteRune(c)
		}
		up = c == '_'
	}
	mixed := []rune(k)
	if len(mixed) > 0 {
		mixed[len(mixed)-1] = unicode.ToLower(mixed[len(mixed)-1])
	}
	return []string{lower, title.String(), string(mixed)}
}

// rejected classes that the oracle insists on; "blank" has no oracle (as coded: blank entries of
// use / except and the empty ignore_only key are skipped — compared with the model only).
var keyClasses = []string{"own-rule", "own-rule-deprecated", "own-category", "own-category-deprecated",
	"other-type-rule", "other-type-rule-deprecated", "other-type-category", "other-version-only",
	"case-variant-own", "case-variant-other-type", "junk", "blank"}

var keyUniCache = map[string][]keyCase{}

func keyUniverse(v *version, lint bool) []keyCase {
	if u, ok := keyUniCache[v.name+b01(lint)]; ok {
		return u
	}
	u := keyUniverse0(v, lint)
	keyUniCache[v.name+b01(lint)] = u
	return u
}

func keyUniverse0(v *version, lint bool) []keyCase {
	own, other := tabOf(v, lint), tabOf(v, !lint)
	known := map[string]bool{}
	depCat := map[string]bool{}
	for _, w := range versions {
		for _, l := range []bool{true, false} {
			t := tabOf(w, l)
			for _, id := range t.ruleIDs {
				known[id] = true
			}
			for _, c := range t.cats {
				known[c] = true
			}
		}
		for _, c := range must(client.AllCategories(ctx, w.fv)) {
			known[c.ID()] = true
			if w == v && c.Deprecated() {
				depCat[c.ID()] = true
			}
		}
	}
	var out []keyCase
	seen := map[string]bool{}
	add := func(k, class string) {
		if !seen[k] {
			seen[k] = true
			out = append(out, keyCase{k, class})
		}
	}
	classOf := func(k string) string {
		switch {
		case own.rules[k] != nil && own.rules[k].Deprecated():
			return "own-rule-deprecated"
		case own.rules[k] != nil:
			return "own-rule"
		case len(own.members[k]) > 0 && depCat[k]:
			return "own-category-deprecated"
		case len(own.members[k]) > 0:
			return "own-category"
		case other.rules[k] != nil && other.rules[k].Deprecated():
			return "other-type-rule-deprecated"
		case other.rules[k] != nil:
			return "other-type-rule"
		case len(other.members[k]) > 0:
			return "other-type-category"
		}
		return "other-version-only"
	}
	ks := sortedKeys(known)
	for _, k := range ks {
		add(k, classOf(k))
	}
	for i, k := range ks {
		c := classOf(k)
		if c == "other-version-only" {
			continue
		}
		vc := "case-variant-other-type"
		if strings.HasPrefix(c, "own-") {
			vc = "case-variant-own"
		}
		vs := caseVariants(k)
		// lower case for every id, the two other spellings in rotation
		for j, s := range vs {
			if (j == 0 || (i+j)%3 == 0) && !known[s] {
				add(s, vc)
			}
		}
	}
	for i, k := range ks {
		if !strings.HasPrefix(classOf(k), "own-") || i%9 != int(run.Seed%9) {
			continue
		}
		for _, s := range []string{k + "_X", k[:len(k)-1], " " + k, k + " ", strings.ReplaceAll(k, "_", "-") + "-"} {
			if !known[s] {
				add(s, "junk")
			}
		}
	}
	add("NOPE", "junk")
	add("ALL", "junk")
	add("", "blank")
	add(" ", "blank")
	return out
}

// ---------------------------------------------------------------------------------------------
// sections with one key in one slot

var keySlots = []string{"use", "except", "ignore_only", "ignore_only-no-paths"}

// reportKeysWithoutPaths: file the candidate finding "an unknown ignore_only key whose path list is
// empty is accepted" as an oracle failure (class C06-unknown-key-without-paths-accepted).  Off: it
// is not recorded in known_findings.json; the cases are counted (keys:unknown-key-without-paths-accepted)
// and compared with the model, which describes the reader as coded.
const reportKeysWithoutPaths = true

// keySection: the section that puts key k in the slot; `all` = select every live rule of the type
// (so that the effect of an ignore_only key is observable).
func keySection(t *keyTab, slot, k string, paths []string, all bool, flow bool) *ySection {
	s := &ySection{written: true, zero: map[string]bool{}, ioPaths: map[string][]string{}, flags: map[string]bool{}, flow: flow}
	if all {
		s.keys = append(s.keys, "use")
		for _, id := range t.live {
			if id != "PROTOVALIDATE" {
				s.use = append(s.use, id)
			}
		}
	}
	switch slot {
	case "use":
		s.keys = []string{"use"}
		s.use = []string{k}
	case "except":
		s.keys = append(s.keys, "except")
		s.except = []string{k}
	case "ignore_only":
		s.keys = append(s.keys, "ignore_only")
		s.ioKeys = []string{k}
		s.ioPaths[k] = paths
	case "ignore_only-no-paths":
		s.keys = append(s.keys, "ignore_only")
		s.ioKeys = []string{k}
		s.ioPaths[k] = []string{}
	}
	return s
}

// expectedSelection: what the accepted key in the slot selects (sorted live ids).
func expectedSelection(t *keyTab, slot, k string) []string {
	switch slot {
	case "use":
		return t.expand(k)
	case "except":
		ex := setOf(t.expand(k))
		var out []string
		for _, id := range t.defaults {
			if !ex[id] {
				out = append(out, id)
			}
		}
		return out
	}
	return t.defaults
}

func keyInput(v *version, lint bool, slot string, kc keyCase, text string) map[string]any {
	return map[string]any{"buf.yaml": text, "version": v.name, "section": typeName(lint), "slot": slot, "key": kc.key, "key_class": kc.class}
}

// keyReplay: a replay that needs nothing but the buf binary of the tree under test.
func keyReplay(lint bool, text string) string {
	repo := os.Getenv("VERIF_REPO")
	if repo == "" {
		repo = "/repo"
	}
	cmds := "./buf lint; echo exit=$?; ./buf config ls-lint-rules --configured-only | head -3"
	if !lint {
		cmds = "./buf breaking --against .; echo exit=$?; ./buf config ls-breaking-rules --configured-only | head -3"
	}
	return fmt.Sprintf("d=$(mktemp -d) && cd $d && (cd %s && GOPROXY=off GOFLAGS=-mod=mod go build -o $d/buf ./cmd/buf) && mkdir -p a/v1 && printf 'syntax = \"proto3\";\\npackage a.v1;\\nmessage bad_name { string BadField = 1; }\\n' > a/v1/a.proto && cat > buf.yaml <<'EOF'\n%sEOF\n%s   # or: C06_SECTIONS=keys build/c06 --seed %d --tier %s --out /tmp/c06-replay",
		repo, text, cmds, run.Seed, run.Tier)
}

func keyFail(class, what string, v *version, lint bool, slot string, kc keyCase, text string, more map[string]any) {
	in := keyInput(v, lint, slot, kc, text)
	for k, x := range more {
		in[k] = x
	}
	if via, ok := more["through"].(string); ok {
		run.Count("keys:failure:" + class + ":" + strings.ReplaceAll(via, " ", "_") + ":" + slot)
	}
	run.Fail(hx.OracleFailure{Class: class, What: what, Input: in, Replay: keyReplay(lint, text)})
}

// acceptanceOracle: accepted iff the key is in the table of the section's type and version.
// rejected = the configuration failed with a configuration error; returns true when the verdict
// is the expected one and the key was accepted (so that the effect can be checked).
func acceptanceOracle(t *keyTab, slot string, kc keyCase, accepted bool, errText, via, text string) bool {
	if kc.class == "blank" {
		return false
	}
	if slot == "ignore_only-no-paths" {
		// as coded: the reader drops an ignore_only key without paths before anything validates it
		switch {
		case !accepted:
			run.Count("keys:no-paths-key-rejected")
		case !t.accepts(kc.key):
			run.Count("keys:unknown-key-without-paths-accepted")
			if reportKeysWithoutPaths {
				keyFail("C06-unknown-key-without-paths-accepted", fmt.Sprintf("%s.ignore_only key %q is not a %s rule or category id of %s but, having no paths, it is dropped by the buf.yaml reader and never rejected (%s)",
					typeName(t.lint), kc.key, typeName(t.lint), t.v.name, via), t.v, t.lint, slot, kc, text, map[string]any{"through": via})
			}
		}
		return false
	}
	want := t.accepts(kc.key)
	if want != strings.HasPrefix(kc.class, "own-") {
		panic("key class and table disagree: " + kc.key + " " + kc.class)
	}
	more := map[string]any{"through": via}
	if errText != "" {
		more["error"] = errText
	}
	switch {
	case accepted && !want:
		class, what := "C06-unknown-id-accepted", "is not a rule or category id of any type in "+t.v.name
		switch {
		case strings.HasPrefix(kc.class, "other-type-"):
			class = "C06-other-type-key-accepted"
			what = fmt.Sprintf("is a %s id of %s but not a %s id", typeName(!t.lint), t.v.name, typeName(t.lint))
		case strings.HasPrefix(kc.class, "case-variant-"):
			class = "C06-case-variant-key-accepted"
			what = "differs from a known id by case only (ids are case-sensitive)"
		}
		keyFail(class, fmt.Sprintf("%s.%s entry %q %s, yet the configuration is accepted (%s) — the entry is then silently without the effect the user expects",
			typeName(t.lint), strings.TrimSuffix(slot, "-no-paths"), kc.key, what, via), t.v, t.lint, slot, kc, text, more)
		return false
	case !accepted && want:
		keyFail("C06-valid-key-rejected", fmt.Sprintf("%s.%s entry %q is a %s of the %s rules of %s but the configuration is rejected (%s)",
			typeName(t.lint), slot, kc.key, kc.class, typeName(t.lint), t.v.name, via), t.v, t.lint, slot, kc, text, more)
		return false
	}
	return accepted
}

// ---------------------------------------------------------------------------------------------
// G1: reader + ConfiguredRules

func readModuleConfig(text string, lint bool) (bufconfig.CheckConfig, string, error) {
	f, err := bufconfig.ReadBufYAMLFile(strings.NewReader(text), "buf.yaml")
	if err != nil {
		return nil, "", err
	}
	var mc bufconfig.ModuleConfig
	for _, m := range f.ModuleConfigs() {
		if m.DirPath() == "." {
			mc = m
		}
	}
	if mc == nil {
		panic("module . not in the parsed file:\n" + text)
	}
	if lint {
		return mc.LintConfig(), dumpLint(mc.LintConfig()), nil
	}
	return mc.BreakingConfig(), dumpBreaking(mc.BreakingConfig()), nil
}

func keysG1() {
	strata := map[string]bool{}
	for _, v := range versions {
		for _, lint := range []bool{true, false} {
			t := tabOf(v, lint)
			ty := "b"
			if lint {
				ty = "l"
			}
			// the table itself, for the model
			run.Case("keytab\t"+v.name+"\t"+ty, "rules "+strings.Join(t.ruleIDs, ",")+" cats "+strings.Join(t.cats, ","), true)
			uni := keyUniverse(v, lint)
			for si, slot := range keySlots {
				for ki, kc := range uni {
					n := ki + si
					s := keySection(t, slot, kc.key, []string{[]string{"a/v1/a.proto", "a/v1", "a"}[n%3]}, false, n%2 == 0)
					yc := &yamlCase{ver: v, lint: lint, dir: ".", ws: s, mod: &ySection{}, label: "key"}
					if v.name == "v2" && n%2 == 1 {
						// module-level section
						yc.ws, yc.mod, yc.modulesKey = &ySection{}, s, true
					}
					if n%5 == 0 {
						// the other type's section as a decoy with VALID keys of its own
						yc.otherWs = keySection(tabOf(v, !lint), "use", tabOf(v, !lint).cats[n%len(tabOf(v, !lint).cats)], nil, false, true)
					}
					text := yc.text()
					out, accepted, errText := "", false, ""
					var ids []string
					func() {
						defer func() {
							if p := recover(); p != nil {
								out = "panic"
								run.Fail(hx.OracleFailure{Class: "C06-panic", What: fmt.Sprint("buf.yaml reader / ConfiguredRules panicked: ", p), Input: keyInput(v, lint, slot, kc, text)})
							}
						}()
						cc, dump, err := readModuleConfig(text, lint)
						if err != nil {
							out, errText = "err config", err.Error()
							return
						}
						rules, err := client.ConfiguredRules(ctx, ruleType(lint), cc)
						if err != nil {
							out, errText = "cfg "+dump+" rules "+errClass(err), err.Error()
							return
						}
						for _, r := range rules {
							ids = append(ids, r.ID())
						}
						accepted = true
						out = "cfg " + dump + " rules ok " + strings.Join(ids, ",")
					}()
					run.Case(strings.Join([]string{"ykeys", v.name, ty, hx.Enc("."), yc.ws.fields(), yc.mod.fields()}, "\t"), out, true)
					run.Count("keys:G1:" + typeName(lint) + ":" + v.name + ":" + slot + ":" + kc.class)
					strata[v.name+"/"+typeName(lint)+"/"+slot+"/"+kc.class] = true
					if out == "panic" {
						continue
					}
					if out == "err config" {
						keyFail("C06-yaml-valid-config-rejected", "the buf.yaml reader rejected a file whose only peculiarity is the id "+fmt.Sprintf("%q", kc.key), v, lint, slot, kc, text, map[string]any{"error": errText})
						continue
					}
					if ki == 0 && si == 0 {
						run.Sample(map[string]any{"section": "keys", "buf.yaml": text, "result": out[:min(len(out), 200)]})
					}
					if !acceptanceOracle(t, slot, kc, accepted, errText, "bufconfig.ReadBufYAMLFile + Client.ConfiguredRules", text) {
						continue
					}
					want := expectedSelection(t, slot, kc.key)
					got := slices.Clone(ids)
					sort.Strings(got)
					if !slices.Equal(got, want) {
						keyFail("C06-key-selection-wrong", fmt.Sprintf("%s.%s entry %q: the configured rules %v differ from what the key stands for in the %s table of %s: %v",
							typeName(lint), slot, kc.key, got, typeName(lint), v.name, want), v, lint, slot, kc, text, nil)
					}
				}
			}
		}
	}
	// every (version, section, slot, class) stratum must have been generated
	missing := []string{}
	for _, v := range versions {
		for _, lint := range []bool{true, false} {
			for _, slot := range keySlots {
				for _, c := range keyClasses {
					// classes the registry of this version / type cannot populate
					if c == "own-rule-deprecated" && !hasDeprecated(tabOf(v, lint)) ||
						c == "other-type-rule-deprecated" && !hasDeprecated(tabOf(v, !lint)) ||
						c == "own-category-deprecated" && !hasDeprecatedCategory(v, tabOf(v, lint)) {
						continue
					}
					if !strata[v.name+"/"+typeName(lint)+"/"+slot+"/"+c] {
						missing = append(missing, v.name+"/"+typeName(lint)+"/"+slot+"/"+c)
					}
				}
			}
		}
	}
	sort.Strings(missing)
	run.Set("keys_strata_not_reached", missing)
}

func hasDeprecated(t *keyTab) bool { return len(t.live) < len(t.ruleIDs) }

func hasDeprecatedCategory(v *version, t *keyTab) bool {
	for _, c := range must(client.AllCategories(ctx, v.fv)) {
		if c.Deprecated() && len(t.members[c.ID()]) > 0 {
			return true
		}
	}
	return false
}

// ---------------------------------------------------------------------------------------------
// the planted workspaces

var keyLintSources = map[string]string{
	"a/v1/a.proto": `syntax = "proto2";
package bad.Pkg;
import public "dep/dep.proto";
import "google/protobuf/timestamp.proto";
option java_package = "com.a";
option go_package = "example.com/a";
option csharp_namespace = "A";
option php_namespace = "A";
option ruby_package = "A";
option swift_prefix = "A";
option java_multiple_files = true;
message bad_message {
  optional string BadField = 1;
  required int32 ReqField = 2;
  oneof BadOneof {
    string InOneof = 3;
  }
  message nested_bad {
    optional int32 AlsoBad = 1;
  }
  enum inner_enum {
    inner_bad = 1;
  }
}
enum bad_enum {
  option allow_alias = true;
  bad_value = 0;
  ALIAS = 0;
}
service bad_service {
  rpc bad_rpc(bad_message) returns (bad_message);
  rpc ClientStream(stream bad_message) returns (dep.v1.D);
  rpc ServerStream(dep.v1.D) returns (stream bad_message);
}
`,
	"a/v1/BadFile.proto": `syntax = "proto3";
package bad.Pkg;
option java_package = "com.b";
option go_package = "example.com/b";
option csharp_namespace = "B";
option php_namespace = "B";
option ruby_package = "B";
option swift_prefix = "B";
message lower_b {
  string CamelB = 1;
}
enum E3 {
  E3_WRONG = 0;
  OTHER = 1;
}
`,
	"a/v1/d.proto": `syntax = "proto3";
package other.v1;
message lower_d {
  string CamelD = 1;
}
`,
	"b/c.proto": `syntax = "proto3";
package bad.Pkg;
option java_package = "com.a";
option go_package = "example.com/a";
option csharp_namespace = "A";
option php_namespace = "A";
option ruby_package = "A";
option swift_prefix = "A";
option java_multiple_files = true;
message lower_c {
  string CamelC = 1;
}
enum bad_enum_c {
  bad_value_c = 0;
}
service bad_service_c {
  rpc bad_rpc_c(lower_c) returns (lower_c);
}
`,
	"dep/dep.proto": `syntax = "proto3";
package dep.v1;
message D {
  string DepBad = 1;
}
`,
	"s/v1/s.proto": `syntax = "proto3";
package s.v1;
import "s/v1beta1/u.proto";
message S {
  s.v1beta1.U u = 1;
}
`,
	"s/v1beta1/u.proto": `syntax = "proto3";
package s.v1beta1;
message U {
  string name = 1;
}
`,
	"cyc/a/a.proto": `syntax = "proto3";
package cyc.a;
import "cyc/b/b.proto";
message CycA {
  cyc.b.CycB b = 1;
}
`,
	"cyc/a/a2.proto": `syntax = "proto3";
package cyc.a;
message CycA2 {
  string name = 1;
}
`,
	"cyc/b/b.proto": `syntax = "proto3";
package cyc.b;
import "cyc/a/a2.proto";
message CycB {
  cyc.a.CycA2 a = 1;
}
`,
	"nopkg.proto": `message NoPkg {
  optional int32 x = 1;
}
`,
}

var keyBreakingOld = map[string]string{
	"a/v1/a.proto": `syntax = "proto3";
package a.v1;
option java_package = "com.old";
option go_package = "old/a";
option cc_enable_arenas = true;
option cc_generic_services = true;
option csharp_namespace = "Old";
option java_generic_services = true;
option java_multiple_files = true;
option java_outer_classname = "OldOuter";
option java_string_check_utf8 = true;
option objc_class_prefix = "OLD";
option optimize_for = SPEED;
option php_class_prefix = "Old";
option php_namespace = "Old";
option php_metadata_namespace = "OldMeta";
option py_generic_services = true;
option ruby_package = "Old";
option swift_prefix = "Old";
message M {
  string ct = 8 [ctype = CORD];
  int64 js = 9 [jstype = JS_STRING];
  string name = 1;
  int32 count = 2;
  repeated string tags = 3;
  string gone = 4;
  oneof o {
    string in_o = 5;
  }
  string json = 6 [json_name = "j1"];
  Inner inner = 7;
  reserved 20;
  reserved "resname";
  message Inner {
    string x = 1;
  }
}
message GoneMsg {
  string g = 1;
}
enum E {
  E_UNSPECIFIED = 0;
  E_ONE = 1;
  E_TWO = 2;
  reserved 9;
}
enum GoneEnum {
  GONE_ENUM_UNSPECIFIED = 0;
}
service S {
  rpc R(M) returns (M);
  rpc GoneRpc(M) returns (M);
  rpc St(M) returns (M);
  rpc Idem(M) returns (M) {
    option idempotency_level = NO_SIDE_EFFECTS;
  }
}
service GoneSvc {
  rpc X(M) returns (M);
}
`,
	"a/v1/gone.proto": `syntax = "proto3";
package a.v1;
message InGoneFile {
  string g = 1;
}
`,
	"b/b.proto": `syntax = "proto2";
package b.v1;
message P2 {
  option no_standard_descriptor_accessor = true;
  optional string opt = 1;
  optional int32 num = 2 [default = 5];
  required string req = 3;
  extensions 100 to 200;
}
extend P2 {
  optional string ext_gone = 100;
}
`,
	"c/c.proto": `syntax = "proto2";
package c.v1;
message C {
  optional string c = 1;
}
`,
	"a/v1beta1/x.proto": `syntax = "proto3";
package a.v1beta1;
message X {
  string s = 1;
  int32 n = 2;
}
`,
}

var keyBreakingNew = map[string]string{
	"a/v1/a.proto": `syntax = "proto3";
package a.v1;
option java_package = "com.new";
option go_package = "new/a";
option cc_enable_arenas = false;
option cc_generic_services = false;
option csharp_namespace = "New";
option java_generic_services = false;
option java_multiple_files = false;
option java_outer_classname = "NewOuter";
option java_string_check_utf8 = false;
option objc_class_prefix = "NEW";
option optimize_for = CODE_SIZE;
option php_class_prefix = "New";
option php_namespace = "New";
option php_metadata_namespace = "NewMeta";
option py_generic_services = false;
option ruby_package = "New";
option swift_prefix = "New";
message M {
  string ct = 8 [ctype = STRING_PIECE];
  int64 js = 9 [jstype = JS_NUMBER];
  bytes name = 1;
  repeated int32 count = 2;
  string tags = 3;
  string in_o = 5;
  string json = 6 [json_name = "j2"];
}
enum E {
  E_UNSPECIFIED = 0;
  E_UNO = 1;
}
message Other {
  string o = 1;
}
service S {
  rpc R(Other) returns (Other);
  rpc St(stream M) returns (stream M);
  rpc Idem(M) returns (M);
}
`,
	"b/b.proto": `syntax = "proto2";
package b.v1;
message P2 {
  optional string opt = 1;
  optional int32 num = 2 [default = 6];
  optional string req = 3;
  required string newreq = 4;
}
`,
	"c/c.proto": `syntax = "proto3";
package c.v2;
message C {
  string c = 1;
}
`,
	"a/v1beta1/x.proto": `syntax = "proto3";
package a.v1beta1;
message X {
  bool s = 1;
}
`,
}

func toBytes(m map[string]string) map[string][]byte {
	out := map[string][]byte{}
	for k, v := range m {
		out[k] = []byte(v)
	}
	return out
}

func newKeyWorld(lint bool) *image {
	im := &image{importPaths: map[string]bool{"google/protobuf/timestamp.proto": true}, sources: map[string]string{}}
	if lint {
		im.img = buildImage(toBytes(keyLintSources), nil)
		im.sources = keyLintSources
	} else {
		im.img = buildImage(toBytes(keyBreakingNew), nil)
		im.against = buildImage(toBytes(keyBreakingOld), nil)
		im.sources = keyBreakingNew
	}
	im.measureWith(lint, nil, true, map[string]bool{"PROTOVALIDATE": true})
	return im
}

var keyPaths = []string{"a/v1/a.proto", "a/v1", "a", "b", "b/c.proto", "b/b.proto", "s", "nopkg.proto", "a/v1beta1", "c", "cyc/a", "cyc"}

// pickPath: the first path (rotating) under which an annotation of one of the rules sits while
// another annotation of these rules sits outside it; else one that covers something; else the
// rotation's first.
func pickPath(im *image, v *version, rules []string, n int) (path string, observable, scoped bool) {
	var all []fa
	for _, id := range rules {
		all = append(all, im.single[v.name][id]...)
	}
	best := ""
	for i := range keyPaths {
		p := keyPaths[(i+n)%len(keyPaths)]
		in, out := false, false
		for _, a := range all {
			if a.anyPath(func(q string) bool { return under(q, p) }) {
				in = true
			} else {
				out = true
			}
		}
		if in && out {
			return p, true, true
		}
		if in && best == "" {
			best = p
		}
	}
	if best != "" {
		return best, true, false
	}
	return keyPaths[n%len(keyPaths)], false, false
}

// ---------------------------------------------------------------------------------------------
// G2: Client.Lint / Client.Breaking on the planted workspace

type g2Case struct {
	slot string
	kc   keyCase
}

// stratified: for every rejected class one key per slot, rotating with the seed.
func rejectedSample(uni []keyCase, seed uint64, per int) []g2Case {
	byClass := map[string][]keyCase{}
	for _, kc := range uni {
		if !strings.HasPrefix(kc.class, "own-") && kc.class != "blank" {
			byClass[kc.class] = append(byClass[kc.class], kc)
		}
	}
	var out []g2Case
	for ci, c := range keyClasses {
		ks := byClass[c]
		if len(ks) == 0 {
			continue
		}
		for si, slot := range keySlots[:3] {
			for j := 0; j < per; j++ {
				out = append(out, g2Case{slot, ks[(int(seed%1000003)*7+ci*5+si*3+j*11)%len(ks)]})
			}
		}
	}
	return out
}

func acceptedSample(uni []keyCase, seed uint64, every int) []keyCase {
	var out []keyCase
	n := 0
	for _, kc := range uni {
		if !strings.HasPrefix(kc.class, "own-") {
			continue
		}
		n++
		if kc.class != "own-rule" || every <= 1 || (n+int(seed%uint64(every)))%every == 0 {
			out = append(out, kc)
		}
	}
	return out
}

func keysG2() {
	worlds := map[bool]*image{true: newKeyWorld(true), false: newKeyWorld(false)}
	noEffect := []string{}
	for _, v := range versions {
		for _, lint := range []bool{true, false} {
			t := tabOf(v, lint)
			im := worlds[lint]
			uni := keyUniverse(v, lint)
			var cases []g2Case
			for _, kc := range acceptedSample(uni, run.Seed, run.N(3, 1)) {
				cases = append(cases, g2Case{"ignore_only", kc})
			}
			cases = append(cases, rejectedSample(uni, run.Seed, run.N(1, 4))...)
			for n, gc := range cases {
				kc := gc.kc
				accept := t.accepts(kc.key)
				var rules []string
				if accept {
					rules = t.expand(kc.key)
				} else if o := tabOf(v, !lint); o.accepts(kc.key) {
					rules = t.live // an other-type key: any path with annotations
				} else {
					rules = t.live
				}
				path, observable, scoped := pickPath(im, v, rules, n)
				s := keySection(t, gc.slot, kc.key, []string{path}, gc.slot != "use", n%2 == 1)
				yc := &yamlCase{ver: v, lint: lint, dir: ".", ws: s, mod: &ySection{}, label: "key-effect", exi: false}
				if v.name == "v2" && n%2 == 0 {
					yc.ws, yc.mod, yc.modulesKey = &ySection{}, s, true
				}
				text := yc.text()
				out, got, class, readErr := runYaml(yc, text, im)
				ty := "b"
				if lint {
					ty = "l"
				}
				run.Case(strings.Join([]string{"ycheck", v.name, ty, hx.Enc("."), yc.ws.fields(), yc.mod.fields(), "0", im.proto[v.name]}, "\t"), out, true)
				run.Count("keys:G2:" + typeName(lint) + ":" + v.name + ":" + gc.slot + ":" + kc.class)
				if class == "panic" {
					continue
				}
				if readErr != nil {
					keyFail("C06-yaml-valid-config-rejected", "the buf.yaml reader rejected a file whose only peculiarity is the id "+fmt.Sprintf("%q", kc.key), v, lint, gc.slot, kc, text, map[string]any{"error": readErr.Error()})
					continue
				}
				via := "bufconfig.ReadBufYAMLFile + Client." + map[bool]string{true: "Lint", false: "Breaking"}[lint]
				if !acceptanceOracle(t, gc.slot, kc, class == "", class, via, text) {
					continue
				}
				// effect: report = ⋃ single-rule sets of the selected rules, minus exactly the
				// annotations of the key's rules located under the path
				sel := setOf(s.use)
				if gc.slot == "use" {
					sel = setOf(t.expand(kc.key))
				}
				if gc.slot == "except" {
					for _, id := range t.expand(kc.key) {
						delete(sel, id)
					}
				}
				scope := setOf(rules)
				gotSet := faSet(got)
				want := map[string]fa{}
				removed := 0
				for id := range sel {
					for _, a := range im.single[v.name][id] {
						if gc.slot == "ignore_only" && scope[a.typ] && a.anyPath(func(q string) bool { return under(q, path) }) {
							removed++
							if _, rep := gotSet[a.key()]; rep {
								keyFail("C06-ignore-only-key-no-effect", fmt.Sprintf("%s.ignore_only {%s: [%s]} is accepted but an annotation of %s under that path is still reported (%s)",
									typeName(lint), kc.key, path, a.typ, via), v, lint, gc.slot, kc, text, map[string]any{"annotation": a.key(), "path": a.path, "sources": im.sources})
							}
							continue
						}
						want[a.key()] = a
					}
				}
				for k, a := range want {
					if _, ok := gotSet[k]; !ok {
						keyFail("C06-suppression-out-of-scope", fmt.Sprintf("%s.%s entry %q: an annotation of %s in %s is missing although the entry does not cover it (%s)",
							typeName(lint), gc.slot, kc.key, a.typ, a.path, via), v, lint, gc.slot, kc, text, map[string]any{"annotation": k, "ignored_path": path})
					}
				}
				for k, a := range gotSet {
					if _, ok := want[k]; !ok && !(gc.slot == "ignore_only" && scope[a.typ] && under(a.path, path)) {
						keyFail("C06-report-not-union", fmt.Sprintf("%s.%s entry %q: annotation of %s is not in the union of the selected rules run alone (%s)",
							typeName(lint), gc.slot, kc.key, a.typ, via), v, lint, gc.slot, kc, text, map[string]any{"annotation": k})
					}
				}
				if gc.slot == "ignore_only" {
					switch {
					case removed > 0 && scoped:
						run.Count("keys:G2:ignore_only-effect:observable+scoped")
					case removed > 0:
						run.Count("keys:G2:ignore_only-effect:observable")
					default:
						run.Count("keys:G2:ignore_only-effect:no-planted-annotation")
						noEffect = append(noEffect, v.name+"/"+typeName(lint)+"/"+kc.key)
					}
					_ = observable
				}
			}
		}
	}
	sort.Strings(noEffect)
	run.Set("keys_ignore_only_without_planted_annotation", noEffect)
}

// ---------------------------------------------------------------------------------------------
// G3: the commands, in-process

type cliResult struct {
	stdout, stderr string
	code           int
	panicked       string
}

func runBuf(home string, args ...string) (res cliResult) {
	defer func() {
		if p := recover(); p != nil {
			res.panicked = fmt.Sprint(p)
			res.code = -2
		}
	}()
	var so, se bytes.Buffer
	env := map[string]string{"HOME": home, "BUF_CACHE_DIR": filepath.Join(home, "cache"), "NO_COLOR": "1", "PATH": os.Getenv("PATH")}
	c := app.NewContainer(env, strings.NewReader(""), &so, &se, append([]string{"buf"}, args...)...)
	err := appcmd.Run(ctx, c, buf.NewRootCommand("buf"))
	return cliResult{stdout: so.String(), stderr: se.String(), code: app.GetExitCode(err)}
}

type cliAnn struct {
	Path    string `json:"path"`
	Type    string `json:"type"`
	Line    int    `json:"start_line"`
	Col     int    `json:"start_column"`
	Message string `json:"message"`
}

func (a cliAnn) key() string {
	return fmt.Sprintf("%s:%d:%d:%s:%s", a.Path, a.Line, a.Col, a.Type, a.Message)
}

func parseCliAnns(out, ws string) ([]cliAnn, bool) {
	var anns []cliAnn
	for _, l := range strings.Split(strings.TrimSpace(out), "\n") {
		if l == "" {
			continue
		}
		var a cliAnn
		if json.Unmarshal([]byte(l), &a) != nil {
			return nil, false
		}
		a.Path = strings.TrimPrefix(a.Path, ws+"/")
		anns = append(anns, a)
	}
	return anns, true
}

func parseCliRules(out string) ([]string, bool) {
	var ids []string
	for _, l := range strings.Split(strings.TrimSpace(out), "\n") {
		if l == "" {
			continue
		}
		var r struct {
			ID string `json:"id"`
		}
		if json.Unmarshal([]byte(l), &r) != nil || r.ID == "" {
			return nil, false
		}
		ids = append(ids, r.ID)
	}
	sort.Strings(ids)
	return ids, true
}

type g3Job struct {
	v        *version
	lint     bool
	slot     string
	kc       keyCase
	path     string
	text     string
	all      bool // baseline: every live rule selected, no key
	accepted bool // the key is valid where it stands
	own      cliResult
	ls       cliResult
	other    cliResult
	ws       string
	ownArgs  []string
}

// g3Quick: is (class, slot index) one of the quick tier's five strata for rotation k?
func g3Quick(class string, si, k int, byClass map[string][]keyCase) bool {
	pick := func(cs []string, n int) string {
		var have []string
		for _, c := range cs {
			if len(byClass[c]) > 0 {
				have = append(have, c)
			}
		}
		if len(have) == 0 {
			return ""
		}
		return have[n%len(have)]
	}
	switch class {
	case "own-rule":
		return si == k%3
	case pick([]string{"own-category", "own-rule-deprecated", "own-category-deprecated"}, k):
		return si == (k+1)%3
	case "other-type-rule":
		return si == 2 // ignore_only
	case pick([]string{"other-type-category", "other-type-rule-deprecated"}, k):
		return si == (k+2)%3
	case pick([]string{"case-variant-own", "junk", "other-version-only", "case-variant-other-type"}, k):
		return si == k%3
	}
	return false
}

func writeTree(dir string, files map[string]string) {
	for p, d := range files {
		must0(os.MkdirAll(filepath.Dir(filepath.Join(dir, p)), 0o755))
		must0(os.WriteFile(filepath.Join(dir, p), []byte(d), 0o644))
	}
}

func must0(err error) {
	if err != nil {
		panic(err)
	}
}

// keysG3Start writes the workspaces and starts the commands in the background (they share nothing
// with the sequential sections of the harness); the returned function waits for them and runs
// the oracle.
func keysG3Start() (finish func()) {
	root := must(filepath.Abs(filepath.Join(run.OutDir, "keys")))
	must0(os.RemoveAll(root))
	must0(os.MkdirAll(filepath.Join(root, "empty"), 0o755))
	// `buf config ls-*-rules` builds its workspace from the current directory
	cwd, cwdErr := os.Getwd()
	must0(os.Chdir(filepath.Join(root, "empty")))
	var jobs []*g3Job
	for vi, v := range versions {
		for _, lint := range []bool{true, false} {
			t := tabOf(v, lint)
			allText := (&yamlCase{ver: v, lint: lint, dir: ".", ws: keySection(t, "", "", nil, true, false), mod: &ySection{}, label: "cli"}).text()
			jobs = append(jobs, &g3Job{v: v, lint: lint, all: true, text: allText})
			uni := keyUniverse(v, lint)
			byClass := map[string][]keyCase{}
			for _, kc := range uni {
				byClass[kc.class] = append(byClass[kc.class], kc)
			}
			for ci, c := range keyClasses {
				ks := byClass[c]
				if len(ks) == 0 || c == "blank" {
					continue
				}
				for si, slot := range keySlots[:3] {
					// quick tier (G1 / G2 already put EVERY key through the reader and the client; the
					// commands add the wiring): five workspaces per (version, section) — an own rule,
					// one of the other own classes, an other-type rule under ignore_only (seed C06-m8),
					// one of the other other-type classes, one of the unknown classes; classes and
					// slots rotate with the seed, the version and the section
					if !run.Thorough() && !g3Quick(c, si, int(run.Seed%12)+vi*2+len(typeName(lint)), byClass) {
						continue
					}
					for j := 0; j < run.N(1, 2); j++ {
						kc := ks[(int(run.Seed%1000003)*5+ci*7+si*3+j*13)%len(ks)]
						path := []string{"a/v1/a.proto", "a/v1", "a", "b"}[(ci+si+j)%4]
						s := keySection(t, slot, kc.key, []string{path}, false, (ci+si+j)%2 == 0)
						yc := &yamlCase{ver: v, lint: lint, dir: ".", ws: s, mod: &ySection{}, label: "cli"}
						if v.name == "v2" && (ci+si+j)%2 == 1 {
							yc.ws, yc.mod, yc.modulesKey = &ySection{}, s, true
						}
						jobs = append(jobs, &g3Job{v: v, lint: lint, slot: slot, kc: kc, path: path, text: yc.text(), accepted: t.accepts(kc.key)})
					}
				}
			}
		}
	}
	// run: 12 workers, each with its own workspace directories
	const workers = 12
	thorough := run.Thorough()
	var wg sync.WaitGroup
	ch := make(chan *g3Job)
	for w := 0; w < workers; w++ {
		wg.Add(1)
		go func(w int) {
			defer wg.Done()
			dirs := map[bool]string{}
			for _, lint := range []bool{true, false} {
				d := filepath.Join(root, fmt.Sprintf("w%d-%s", w, typeName(lint)))
				if lint {
					writeTree(d, keyLintSources)
				} else {
					writeTree(d, keyBreakingNew)
					writeTree(d+"-old", keyBreakingOld)
					must0(os.WriteFile(filepath.Join(d+"-old", "buf.yaml"), []byte("version: v1\n"), 0o644))
				}
				dirs[lint] = d
			}
			for j := range ch {
				// the section under test sits in the workspace of ITS type; the other type's
				// command runs on the same buf.yaml
				d := dirs[j.lint]
				j.ws = d
				must0(os.WriteFile(filepath.Join(d, "buf.yaml"), []byte(j.text), 0o644))
				lintArgs := []string{"lint", d, "--error-format=json"}
				brkArgs := []string{"breaking", d, "--against", d + "-old", "--error-format=json"}
				if j.lint {
					// `buf breaking` of a lint workspace against itself
					brkArgs = []string{"breaking", d, "--against", d, "--error-format=json"}
				}
				lsType := "ls-" + typeName(j.lint) + "-rules"
				// the other type's command: whenever the key is valid where it stands (it must not
				// fail then); otherwise (as coded, only counted) in the thorough tier
				runOther := j.all || j.accepted || thorough
				j.other = cliResult{code: -3}
				if j.lint {
					j.ownArgs = lintArgs
					j.own = runBuf(root, lintArgs...)
					if runOther {
						j.other = runBuf(root, brkArgs...)
					}
				} else {
					j.ownArgs = brkArgs
					j.own = runBuf(root, brkArgs...)
					if runOther {
						j.other = runBuf(root, lintArgs...)
					}
				}
				j.ls = runBuf(root, "config", lsType, "--configured-only", "--format=json", "--config", filepath.Join(d, "buf.yaml"))
			}
		}(w)
	}
	go func() {
		for _, j := range jobs {
			ch <- j
		}
		close(ch)
	}()
	return func() {
		t0 := time.Now()
		wg.Wait()
		if cwdErr == nil {
			must0(os.Chdir(cwd))
		}
		if os.Getenv("C06_TIMING") != "" {
			fmt.Fprintf(os.Stderr, "keys G3: waited %.1fs for the commands at the end\n", time.Since(t0).Seconds())
		}
		keysG3Oracle(jobs)
	}
}

// oracle (sequential: hx.Run is not thread-safe)
func keysG3Oracle(jobs []*g3Job) {
	base := map[string][]cliAnn{}
	for _, j := range jobs {
		run.Eval()
		run.Eval()
		if j.other.code != -3 {
			run.Eval()
		}
		t := tabOf(j.v, j.lint)
		own := "buf " + typeName(j.lint)
		for _, r := range []cliResult{j.own, j.ls, j.other} {
			if r.panicked != "" {
				run.Fail(hx.OracleFailure{Class: "C06-panic", What: "a buf command panicked: " + r.panicked, Input: map[string]any{"buf.yaml": j.text}, Replay: keyReplay(j.lint, j.text)})
			}
		}
		if j.all {
			anns, ok := parseCliAnns(j.own.stdout, j.ws)
			if !ok || (j.own.code != 100 && j.own.code != 0) {
				run.Fail(hx.OracleFailure{Class: "C06-keys-cli-baseline-failed", What: own + " with every live rule selected failed: " + j.own.stderr + j.own.stdout[:min(300, len(j.own.stdout))],
					Input: map[string]any{"buf.yaml": j.text}, Replay: keyReplay(j.lint, j.text)})
			}
			base[j.v.name+b01(j.lint)] = anns
			run.CountN("keys:G3:baseline-annotations:"+typeName(j.lint)+":"+j.v.name, len(anns))
			continue
		}
		run.Count("keys:G3:" + typeName(j.lint) + ":" + j.v.name + ":" + j.slot + ":" + j.kc.class)
		more := map[string]any{"command": "buf " + strings.Join(j.ownArgs, " "), "exit": j.own.code, "stderr": j.own.stderr}
		rejected := func(r cliResult) bool { return r.code == 1 && strings.Contains(r.stderr, "is not a known rule") }
		okExit := func(r cliResult) bool { return r.code == 0 || r.code == 100 }
		for ri, r := range []cliResult{j.own, j.ls} {
			via := own
			if ri == 1 {
				via = "buf config ls-" + typeName(j.lint) + "-rules --configured-only"
			}
			if !rejected(r) && !okExit(r) {
				keyFail("C06-keys-cli-unexpected-failure", via+" failed in an unexpected way", j.v, j.lint, j.slot, j.kc, j.text, map[string]any{"exit": r.code, "stderr": r.stderr})
				continue
			}
			if !acceptanceOracle(t, j.slot, j.kc, okExit(r), r.stderr, via, j.text) {
				continue
			}
			sel := setOf(expectedSelection(t, j.slot, j.kc.key))
			if ri == 1 {
				ids, ok := parseCliRules(r.stdout)
				want := sortedKeys(sel)
				if !ok || !slices.Equal(ids, want) {
					keyFail("C06-key-selection-wrong", fmt.Sprintf("%s lists %v, the key stands for %v", via, ids, want), j.v, j.lint, j.slot, j.kc, j.text, nil)
				}
				continue
			}
			anns, ok := parseCliAnns(r.stdout, j.ws)
			if !ok {
				keyFail("C06-keys-cli-unexpected-failure", via+" printed something that is not a JSON annotation", j.v, j.lint, j.slot, j.kc, j.text, map[string]any{"stdout": r.stdout[:min(300, len(r.stdout))]})
				continue
			}
			scope := setOf(t.expand(j.kc.key))
			got := map[string]cliAnn{}
			for _, a := range anns {
				got[a.key()] = a
			}
			hidden := 0
			for _, a := range base[j.v.name+b01(j.lint)] {
				if !sel[a.Type] {
					continue
				}
				covered := j.slot == "ignore_only" && scope[a.Type]
				if covered && a.Path == "" {
					delete(got, a.key()) // no current file: the against-file decides, not visible here
					continue
				}
				if covered && under(a.Path, j.path) {
					hidden++
					if _, rep := got[a.key()]; rep {
						keyFail("C06-ignore-only-key-no-effect", fmt.Sprintf("%s.ignore_only {%s: [%s]} is accepted but %s still reports %s under that path", typeName(j.lint), j.kc.key, j.path, via, a.Type),
							j.v, j.lint, j.slot, j.kc, j.text, more)
					}
					delete(got, a.key())
					continue
				}
				if _, rep := got[a.key()]; !rep && !(covered && !j.lint) {
					// breaking: an annotation may also be covered through its against-file (not printed)
					keyFail("C06-suppression-out-of-scope", fmt.Sprintf("%s.%s entry %q: %s no longer reports %s in %s although the entry does not cover it", typeName(j.lint), j.slot, j.kc.key, via, a.Type, a.Path),
						j.v, j.lint, j.slot, j.kc, j.text, more)
				}
				delete(got, a.key())
			}
			for _, a := range got {
				keyFail("C06-report-not-union", fmt.Sprintf("%s.%s entry %q: %s reports %s in %s, which the run with every rule selected does not report", typeName(j.lint), j.slot, j.kc.key, via, a.Type, a.Path),
					j.v, j.lint, j.slot, j.kc, j.text, more)
			}
			if j.slot == "ignore_only" && hidden > 0 {
				run.Count("keys:G3:ignore_only-effect-observable")
			}
		}
		// the OTHER type's command on the same file: a key that is valid where it stands must not
		// make it fail; everything else is as coded (only `use` entries of related sections are
		// looked at, against the ids of all types) and merely counted
		switch {
		case j.other.code == -3: // not run
		case t.accepts(j.kc.key) && !okExit(j.other):
			keyFail("C06-valid-key-rejected", fmt.Sprintf("buf %s fails because of the valid %s.%s entry %q", typeName(!j.lint), typeName(j.lint), j.slot, j.kc.key), j.v, j.lint, j.slot, j.kc, j.text,
				map[string]any{"exit": j.other.code, "stderr": j.other.stderr})
		case rejected(j.other):
			run.Count("keys:G3:other-command-rejects:" + j.slot + ":" + j.kc.class)
		case okExit(j.other):
			run.Count("keys:G3:other-command-accepts:" + j.slot + ":" + j.kc.class)
		default:
			keyFail("C06-keys-cli-unexpected-failure", "buf "+typeName(!j.lint)+" failed in an unexpected way", j.v, j.lint, j.slot, j.kc, j.text, map[string]any{"exit": j.other.code, "stderr": j.other.stderr})
		}
	}
}

// sectionKeys runs G1 and G2 and starts G3; call the result at the end of the run.
func sectionKeys() (finish func()) {
	timed := func(name string, f func()) {
		t0 := time.Now()
		f()
		if os.Getenv("C06_TIMING") != "" {
			fmt.Fprintf(os.Stderr, "keys %s: %.1fs\n", name, time.Since(t0).Seconds())
		}
	}
	timed("G1", keysG1)
	timed("G2", keysG2)
	timed("G3 (start)", func() { finish = keysG3Start() })
	return finish
}
