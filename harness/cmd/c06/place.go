package main

// Section E — comment ignores on enclosing elements of EVERY kind.
//
// A source file is built as a tree of syntactic constructs (skNode): every construct that can
// carry a leading comment is a node with a kind and, after rendering, a 1-based line span.
// `// buf:lint:ignore ID` comments are planted on chosen nodes; the planting is stratified so
// that every (kind of annotated element, kind of commented construct) pair that occurs in the
// tree is exercised with every kind of comment text (matching rule id in several spellings, the
// prefix quirk, a category id, a deprecated alias, a different rule id, a proper prefix of the
// id, spellings that are documented no-ops) within the quick tier.
//
// Oracle (implementation only, written from the rule documentation, NOT from
// protosourcepath): with comment ignores allowed, an annotation is suppressed iff a well-formed
// directive naming its rule id sits on the annotated element or on a construct that textually
// encloses it.  File-level annotations (no source path) have no element a comment could sit on.

import (
	"fmt"
	"sort"
	"strings"

	"github.com/bufbuild/verifharness/internal/hx"
)

type skNode struct {
	id       int
	kind     string
	indent   string
	decl     string
	block    bool
	kids     []*skNode
	parent   *skNode
	file     *skFile
	from, to int
	extOrd   int // extend blocks: ordinal among the extend blocks of the same parent; else -1
}

type skFile struct {
	path  string
	roots []*skNode
	nodes []*skNode
}

func (f *skFile) add(parent *skNode, kind, decl string, block bool) *skNode {
	n := &skNode{id: len(f.nodes), kind: kind, decl: decl, block: block, parent: parent, file: f, extOrd: -1}
	if parent == nil {
		f.roots = append(f.roots, n)
	} else {
		n.indent = parent.indent + "  "
		parent.kids = append(parent.kids, n)
	}
	if strings.HasPrefix(kind, "extend-") {
		sibs := f.roots
		if parent != nil {
			sibs = parent.kids
		}
		n.extOrd = 0
		for _, s := range sibs {
			if s != n && strings.HasPrefix(s.kind, "extend-") {
				n.extOrd++
			}
		}
	}
	f.nodes = append(f.nodes, n)
	return n
}

// placed is one comment line (or block of lines) planted in front of a node; text is what
// follows "buf:lint:ignore " when the line is a well-formed directive, "" when it is a no-op.
type placed struct {
	lines []string
	text  string
	// alone: the spelling only means what it says when it is the only comment planted on the
	// construct (a block comment followed by a line comment, or a blank line, detaches what is
	// above it)
	alone bool
}

type directive2 struct {
	node *skNode
	text string
}

func (f *skFile) render(pl map[*skNode][]placed) (string, []directive2) {
	var lines []string
	var dirs []directive2
	var walk func(n *skNode)
	walk = func(n *skNode) {
		for _, p := range pl[n] {
			for _, l := range p.lines {
				if l == "" {
					lines = append(lines, "")
				} else {
					lines = append(lines, n.indent+l)
				}
			}
		}
		lines = append(lines, n.indent+n.decl)
		n.from = len(lines)
		for _, p := range pl[n] {
			if p.text != "" {
				dirs = append(dirs, directive2{node: n, text: p.text})
			}
		}
		if n.block {
			for _, k := range n.kids {
				walk(k)
			}
			lines = append(lines, n.indent+"}")
		}
		n.to = len(lines)
	}
	for _, n := range f.roots {
		walk(n)
	}
	return strings.Join(lines, "\n") + "\n", dirs
}

func (n *skNode) chain() []*skNode {
	var out []*skNode
	for x := n; x != nil; x = x.parent {
		out = append(out, x)
	}
	return out
}

func (n *skNode) isAncestorOrSelf(m *skNode) bool {
	for x := m; x != nil; x = x.parent {
		if x == n {
			return true
		}
	}
	return false
}

// innermost node of the file whose span contains the line
func (f *skFile) nodeAt(line int) *skNode {
	var best *skNode
	for _, n := range f.nodes {
		if n.from <= line && line <= n.to && (best == nil || n.from >= best.from) {
			best = n
		}
	}
	return best
}

// rules whose annotations land on a node of the kind (static expectation used only to choose
// what to plant; what really is annotated is measured)
var kindRules = map[string][]string{
	"package":           {"PACKAGE_LOWER_SNAKE_CASE", "PACKAGE_VERSION_SUFFIX", "PACKAGE_DIRECTORY_MATCH"},
	"import":            {"IMPORT_NO_PUBLIC", "IMPORT_USED"},
	"file-option":       {"PACKAGE_SAME_JAVA_PACKAGE"},
	"message":           {"MESSAGE_PASCAL_CASE", "COMMENT_MESSAGE"},
	"nested-message":    {"MESSAGE_PASCAL_CASE", "COMMENT_MESSAGE"},
	"group":             {"MESSAGE_PASCAL_CASE", "COMMENT_MESSAGE"},
	"group(field)":      {"FIELD_NOT_REQUIRED"},
	"group-in-oneof":    {"MESSAGE_PASCAL_CASE", "COMMENT_MESSAGE"},
	"field":             {"FIELD_LOWER_SNAKE_CASE", "COMMENT_FIELD", "FIELD_NOT_REQUIRED"},
	"oneof-member":      {"FIELD_LOWER_SNAKE_CASE", "COMMENT_FIELD"},
	"map-field":         {"FIELD_LOWER_SNAKE_CASE", "COMMENT_FIELD"},
	"ext-field-file":    {"FIELD_LOWER_SNAKE_CASE", "COMMENT_FIELD"},
	"ext-field-nested":  {"FIELD_LOWER_SNAKE_CASE", "COMMENT_FIELD"},
	"oneof":             {"ONEOF_LOWER_SNAKE_CASE", "COMMENT_ONEOF"},
	"enum":              {"ENUM_PASCAL_CASE", "COMMENT_ENUM"},
	"nested-enum":       {"ENUM_PASCAL_CASE", "COMMENT_ENUM"},
	"enum-value":        {"ENUM_VALUE_UPPER_SNAKE_CASE", "ENUM_VALUE_PREFIX", "ENUM_ZERO_VALUE_SUFFIX", "COMMENT_ENUM_VALUE"},
	"enum-option":       {"ENUM_NO_ALLOW_ALIAS"},
	"service":           {"SERVICE_PASCAL_CASE", "SERVICE_SUFFIX", "COMMENT_SERVICE"},
	"rpc":               {"RPC_PASCAL_CASE", "COMMENT_RPC", "RPC_REQUEST_RESPONSE_UNIQUE", "RPC_NO_CLIENT_STREAMING"},
	"rpc-request-type":  {"RPC_REQUEST_STANDARD_NAME"},
	"rpc-response-type": {"RPC_RESPONSE_STANDARD_NAME"},
}

// subKinds: the annotated kinds a node of the kind stands for (what the rule looks at)
func subKinds(n *skNode) []string {
	switch n.kind {
	case "rpc":
		return []string{"rpc", "rpc-request-type", "rpc-response-type"}
	case "group":
		if strings.HasPrefix(n.decl, "required") {
			return []string{"group", "group(field)"}
		}
	}
	return []string{n.kind}
}

// annotatedKind refines the node kind by what the rule looks at.
func annotatedKind(n *skNode, a fa) string {
	if a.fileLevel || n == nil {
		return "file"
	}
	switch {
	case n.kind == "rpc" && strings.HasPrefix(a.typ, "RPC_REQUEST_STANDARD"):
		return "rpc-request-type"
	case n.kind == "rpc" && strings.HasPrefix(a.typ, "RPC_RESPONSE_STANDARD"):
		return "rpc-response-type"
	case (n.kind == "group" || n.kind == "group-in-oneof") && isFieldRule(a.typ):
		return n.kind + "(field)"
	}
	return n.kind
}

func isFieldRule(id string) bool {
	return strings.HasPrefix(id, "FIELD_") || id == "COMMENT_FIELD" || id == "PROTOVALIDATE"
}

// genSkeleton writes the module: a/v1/a.proto (proto2: every construct kind), a/v1/BadFile.proto
// (proto3, same package, another java_package, a file-level violation), dep/dep.proto (import).
// twoExtends / reqGroup switch on the witness shapes of the recorded deviations.
func genSkeleton(r *hx.Rand, twoExtends, reqGroup bool) []*skFile {
	a := &skFile{path: "a/v1/a.proto"}
	a.add(nil, "syntax", `syntax = "proto2";`, false)
	a.add(nil, "package", "package bad.Pkg;", false)
	a.add(nil, "import", `import public "dep/dep.proto";`, false)
	a.add(nil, "import", `import "google/protobuf/timestamp.proto";`, false)
	a.add(nil, "file-option", `option java_package = "com.a";`, false)
	for i, n := 0, r.Intn(3); i < n; i++ {
		switch r.Intn(3) {
		case 0:
			m := a.add(nil, "message", fmt.Sprintf("message filler_%d {", i), true)
			a.add(m, "field", fmt.Sprintf("optional int32 FillerField%d = 1;", i), false)
		case 1:
			e := a.add(nil, "enum", fmt.Sprintf("enum filler_enum_%d {", i), true)
			a.add(e, "enum-value", fmt.Sprintf("filler_%d_zero = 0;", i), false)
		default:
			s := a.add(nil, "service", fmt.Sprintf("service filler_svc_%d {", i), true)
			a.add(s, "rpc", fmt.Sprintf("rpc filler_rpc_%d(dep.v1.D) returns (dep.v1.D);", i), false)
		}
	}
	m := a.add(nil, "message", "message bad_message {", true)
	if r.Bool() {
		a.add(m, "field", "optional string Leading = 9;", false)
	}
	a.add(m, "field", "optional string BadField = 1;", false)
	a.add(m, "field", "required int32 ReqField = 2;", false)
	nm := a.add(m, "nested-message", "message nested_bad {", true)
	a.add(nm, "field", "optional int32 AlsoBad = 1;", false)
	dm := a.add(nm, "nested-message", "message deep_bad {", true)
	a.add(dm, "field", "optional int32 DeepBad = 1;", false)
	ne := a.add(nm, "nested-enum", "enum inner_enum {", true)
	a.add(ne, "enum-value", "inner_bad = 0;", false)
	nx := a.add(nm, "extend-nested", "extend bad_message {", true)
	a.add(nx, "ext-field-nested", "optional int32 DeepExt = 110;", false)
	o := a.add(m, "oneof", "oneof BadOneof {", true)
	a.add(o, "oneof-member", "string InOneof = 3;", false)
	og := a.add(o, "group-in-oneof", "group OGroup = 12 {", true)
	a.add(og, "field", "optional int32 InOGroup = 1;", false)
	a.add(m, "map-field", "map<string, int32> BadMap = 4;", false)
	label := "optional"
	if reqGroup {
		label = "required"
	}
	g := a.add(m, "group", label+" group Bad_group = 5 {", true)
	a.add(g, "field", "optional int32 InGroup = 1;", false)
	a.add(m, "extension-range", "extensions 100 to 200;", false)
	x1 := a.add(m, "extend-nested", "extend bad_message {", true)
	a.add(x1, "ext-field-nested", "optional int32 NestedExt = 100;", false)
	if twoExtends {
		x2 := a.add(m, "extend-nested", "extend bad_message {", true)
		a.add(x2, "ext-field-nested", "optional int32 NestedExt2 = 101;", false)
	}
	a.add(m, "message-option", "option deprecated = true;", false)
	a.add(m, "reserved", "reserved 50, 51;", false)
	e := a.add(nil, "enum", "enum bad_enum {", true)
	a.add(e, "enum-option", "option allow_alias = true;", false)
	a.add(e, "enum-value", "bad_value = 0;", false)
	a.add(e, "enum-value", "ALIAS = 0;", false)
	s := a.add(nil, "service", "service bad_service {", true)
	a.add(s, "rpc", "rpc bad_rpc(bad_message) returns (bad_message);", false)
	st := a.add(s, "rpc", "rpc Stream(stream bad_message) returns (bad_message) {", true)
	a.add(st, "rpc-option", "option deprecated = true;", false)
	a.add(s, "service-option", "option deprecated = true;", false)
	fx := a.add(nil, "extend-file", "extend bad_message {", true)
	a.add(fx, "ext-field-file", "optional int32 FileExt = 120;", false)
	if r.Bool() {
		a.add(fx, "ext-field-file", "optional int32 FileExtB = 121;", false)
	}
	if twoExtends {
		fx2 := a.add(nil, "extend-file", "extend bad_message {", true)
		a.add(fx2, "ext-field-file", "optional int32 FileExt2 = 122;", false)
	}

	b := &skFile{path: "a/v1/BadFile.proto"}
	b.add(nil, "syntax", `syntax = "proto3";`, false)
	b.add(nil, "package", "package bad.Pkg;", false)
	b.add(nil, "file-option", `option java_package = "com.b";`, false)
	bm := b.add(nil, "message", "message lower_b {", true)
	b.add(bm, "field", "string CamelB = 1;", false)
	bo := b.add(bm, "oneof", "oneof AnotherOneof {", true)
	b.add(bo, "oneof-member", "string MemberB = 2;", false)
	b.add(bm, "map-field", "map<string, string> MapB = 3;", false)

	d := &skFile{path: "dep/dep.proto"}
	d.add(nil, "syntax", `syntax = "proto3";`, false)
	d.add(nil, "package", "package dep.v1;", false)
	dmsg := d.add(nil, "message", "message D {", true)
	d.add(dmsg, "field", "string DepBad = 1;", false)
	return []*skFile{a, b, d}
}

// ---------------------------------------------------------------------------------------------
// planting

const (
	tkMatch = iota
	tkPrefixQuirk
	tkCategory
	tkAlias
	tkOtherRule
	tkProperPrefix
	tkNop
	nTextKinds
)

var textKindNames = []string{"match", "id+suffix", "category", "deprecated-alias", "other-rule", "proper-prefix", "nop-spelling"}

// categories of each live lint rule (any version), for the "category id" comments
var ruleCategories = map[string][]string{}

func initRuleCategories() {
	for _, v := range versions {
		for _, r := range must(client.AllRules(ctx, ruleType(true), v.fv)) {
			for _, c := range r.Categories() {
				if !strings.HasPrefix(r.ID(), c.ID()) && !strings.HasPrefix(c.ID(), r.ID()) && !slicesContains(ruleCategories[r.ID()], c.ID()) {
					ruleCategories[r.ID()] = append(ruleCategories[r.ID()], c.ID())
				}
			}
		}
	}
}

func slicesContains(ss []string, s string) bool {
	for _, x := range ss {
		if x == s {
			return true
		}
	}
	return false
}

// spell returns the comment for the text kind; n rotates the spelling.
func spell(kind int, rule, other string, n int) placed {
	switch kind {
	case tkMatch:
		switch n % 7 {
		case 0:
			return placed{lines: []string{"// buf:lint:ignore " + rule}, text: rule}
		case 1:
			return placed{lines: []string{"//buf:lint:ignore " + rule}, text: rule}
		case 2:
			return placed{lines: []string{"// buf:lint:ignore " + rule + " because reasons"}, text: rule + " because reasons"}
		case 3:
			return placed{lines: []string{"//   \tbuf:lint:ignore " + rule + "  "}, text: rule}
		case 4:
			return placed{lines: []string{"/* buf:lint:ignore " + rule + " */"}, text: rule, alone: true}
		case 5:
			return placed{lines: []string{"// Some documentation.", "// buf:lint:ignore " + rule, "// More documentation."}, text: rule}
		default:
			return placed{lines: []string{"// buf:lint:ignore " + rule + ", " + other}, text: rule + ", " + other}
		}
	case tkPrefixQuirk:
		return placed{lines: []string{"// buf:lint:ignore " + rule + "X"}, text: rule + "X"}
	case tkCategory:
		c := "STANDARD"
		if cs := ruleCategories[rule]; len(cs) > 0 {
			c = cs[n%len(cs)]
		}
		return placed{lines: []string{"// buf:lint:ignore " + c}, text: c}
	case tkAlias:
		al := []string{"DEFAULT", "IMPORT_NO_WEAK", "STYLE_DEFAULT"}[n%3]
		return placed{lines: []string{"// buf:lint:ignore " + al}, text: al}
	case tkOtherRule:
		return placed{lines: []string{"// buf:lint:ignore " + other}, text: other}
	case tkProperPrefix:
		p := rule[:strings.LastIndex(rule, "_")]
		return placed{lines: []string{"// buf:lint:ignore " + p}, text: p}
	default:
		switch n % 7 {
		case 0:
			return placed{lines: []string{"// buf:lint:ignore" + rule}, text: ""}
		case 1:
			return placed{lines: []string{"// buf:lint:ignore  " + rule}, text: ""}
		case 2:
			return placed{lines: []string{"// Buf:lint:ignore " + rule}, text: ""}
		case 3:
			return placed{lines: []string{"// some text buf:lint:ignore " + rule}, text: ""}
		case 4:
			return placed{lines: []string{"// buf:lint:ignore " + strings.ToLower(rule)}, text: ""}
		case 5:
			// detached: a blank line separates the comment from the element
			return placed{lines: []string{"// buf:lint:ignore " + rule, ""}, text: "", alone: true}
		default:
			return placed{lines: []string{"// buf:lint:ignore"}, text: ""}
		}
	}
}

func firstToken(text string) string {
	if i := strings.IndexAny(text, " ,"); i >= 0 {
		return text[:i]
	}
	return text
}

type pairClass struct {
	key       string
	sub       string       // annotated kind (key of kindRules)
	instances [][2]*skNode // (annotated node, commented node)
}

// pairClasses lists, per (annotated kind <- commented kind / relation), the instances in the tree.
func pairClasses(files []*skFile) []*pairClass {
	m := map[string]*pairClass{}
	var order []string
	sub := ""
	addPair := func(key string, n, s *skNode) {
		pc := m[key]
		if pc == nil {
			pc = &pairClass{key: key, sub: sub}
			m[key] = pc
			order = append(order, key)
		}
		pc.instances = append(pc.instances, [2]*skNode{n, s})
	}
	for _, f := range files {
		if f.path == "dep/dep.proto" {
			continue
		}
		for _, n := range f.nodes {
			for _, sub = range subKinds(n) {
				if len(kindRules[sub]) == 0 {
					continue
				}
				for i, s := range n.chain() {
					rel := "self"
					if i > 0 {
						rel = s.kind
					}
					if s.extOrd > 0 {
						rel += "(later block)"
					}
					addPair(sub+" <- "+rel, n, s)
				}
				// decoys: constructs that do NOT enclose the element
				sibs := f.roots
				if n.parent != nil {
					sibs = n.parent.kids
				}
				for i, s := range sibs {
					if s == n && i > 0 {
						addPair(sub+" <- (previous sibling)", n, sibs[i-1])
					}
					if s == n && i+1 < len(sibs) {
						addPair(sub+" <- (next sibling)", n, sibs[i+1])
					}
				}
				for _, s := range f.roots {
					if (s.kind == "syntax" || s.kind == "package") && s != n {
						addPair(sub+" <- ("+s.kind+" statement)", n, s)
					}
				}
			}
		}
	}
	sort.Strings(order)
	out := make([]*pairClass, len(order))
	for i, k := range order {
		out[i] = m[k]
	}
	return out
}

// rulesUnder: rule ids that may annotate something inside the construct
func rulesUnder(s *skNode) []string {
	seen := map[string]bool{}
	var out []string
	var walk func(n *skNode)
	walk = func(n *skNode) {
		for _, sub := range subKinds(n) {
			for _, r := range kindRules[sub] {
				if !seen[r] {
					seen[r] = true
					out = append(out, r)
				}
			}
		}
		for _, k := range n.kids {
			walk(k)
		}
	}
	walk(s)
	return out
}

var placeCounter = map[string]int{}

// plant chooses the comments of one image: it walks the pair classes starting at a rotating
// offset and adds a comment for each class unless it would overlap (same or nested construct,
// prefix-related ids) with one already planted, so that every planted comment is the ONLY
// candidate for the annotations it is aimed at.
func plant(r *hx.Rand, classes []*pairClass, offset, max int, random bool) (map[*skNode][]placed, []string) {
	pl := map[*skNode][]placed{}
	type chosen struct {
		node *skNode
		id   string
	}
	var have []chosen
	var keys []string
	// least-planted classes first (classes that exist only in some trees catch up), rotation
	// among equals
	order := make([]*pairClass, len(classes))
	for i := range classes {
		order[i] = classes[(offset+i)%len(classes)]
	}
	if !random {
		sort.SliceStable(order, func(i, j int) bool { return placeCounter[order[i].key] < placeCounter[order[j].key] })
	}
	for i := 0; i < len(order) && len(keys) < max; i++ {
		pc := order[i]
		cnt := placeCounter[pc.key]
		if random {
			cnt = r.Intn(1 << 20)
		}
		inst := pc.instances[(cnt/nTextKinds)%len(pc.instances)]
		s := inst[1]
		rules := kindRules[pc.sub]
		rule := rules[(cnt/nTextKinds)%len(rules)]
		tk := cnt % nTextKinds
		var others []string
		for _, o := range rulesUnder(s) {
			if !strings.HasPrefix(o, rule) && !strings.HasPrefix(rule, o) {
				others = append(others, o)
			}
		}
		if len(others) == 0 {
			others = []string{"ENUM_PASCAL_CASE", "SERVICE_SUFFIX"}
			if strings.HasPrefix(rule, "ENUM_PASCAL") {
				others = others[1:]
			}
		}
		p := spell(tk, rule, others[cnt%len(others)], cnt/nTextKinds)
		ids := []string{}
		if p.text != "" {
			ids = append(ids, firstToken(p.text))
			if i := strings.Index(p.text, ", "); i >= 0 {
				ids = append(ids, firstToken(p.text[i+2:]))
			}
		}
		conflict := len(pl[s]) > 0 && (p.alone || pl[s][0].alone)
		for _, h := range have {
			if !(h.node.isAncestorOrSelf(s) || s.isAncestorOrSelf(h.node) || siblingExtends(h.node, s)) {
				continue
			}
			for _, id := range ids {
				if strings.HasPrefix(id, h.id) || strings.HasPrefix(h.id, id) {
					conflict = true
				}
			}
			// the aimed-at rule must not already be covered / decoyed by an overlapping comment
			if strings.HasPrefix(h.id, rule) || strings.HasPrefix(rule, h.id) {
				conflict = true
			}
		}
		if conflict {
			continue
		}
		placeCounter[pc.key]++
		pl[s] = append(pl[s], p)
		for _, id := range ids {
			have = append(have, chosen{s, id})
		}
		if len(ids) == 0 {
			have = append(have, chosen{s, rule})
		}
		keys = append(keys, pc.key+" / "+textKindNames[tk])
	}
	return pl, keys
}

func siblingExtends(a, b *skNode) bool {
	return a.extOrd >= 0 && b.extOrd >= 0 && a.parent == b.parent
}

// ---------------------------------------------------------------------------------------------
// the documentation-level oracle

type placedImage struct {
	*image
	files map[string]*skFile
	dirs  []directive2
}

// deviation classifies a directive that encloses the annotated element textually but that the
// unchanged tree is known not to honour (recorded findings; each has its own class).
func deviation(d directive2, n *skNode, a fa) string {
	s := d.node
	switch {
	case (s.kind == "group" || s.kind == "group-in-oneof") && n == s && isFieldRule(a.typ):
		return "C06-comment-on-group-not-applied-to-group-field"
	case s.extOrd > 0:
		return "C06-comment-on-later-extend-block-not-applied"
	}
	return ""
}

var deviationSeen = map[string]int{}

func (pi *placedImage) oracle(c *cfgSpec, got []fa, selected map[string]bool) {
	gotSet := faSet(got)
	single := pi.single[c.ver.name]
	union := map[string]bool{}
	for id, fas := range single {
		if !selected[id] {
			continue
		}
		for _, a := range fas {
			k := a.key()
			union[k] = true
			_, reported := gotSet[k]
			if pi.importPaths[a.path] {
				if reported {
					fail("C06-import-reported", "annotation reported on import-only file "+a.path, c, map[string]any{"annotation": k})
				}
				continue
			}
			f := pi.files[a.path]
			var n *skNode
			if f != nil && !a.fileLevel {
				n = f.nodeAt(a.sl)
			}
			var enclosing []directive2
			if c.aci && n != nil {
				for _, d := range pi.dirs {
					if d.node.file == f && d.node.from <= a.sl && a.sl <= d.node.to && strings.HasPrefix(d.text, a.typ) {
						// The documented scope of a comment ignore (private/pkg/protosourcepath/README.md) is
						// the element itself and its parents IN THE DESCRIPTOR TREE; a oneof is not a parent
						// of its member fields there (fields belong to the message), so a comment on a oneof
						// covers the oneof only.  Demanding more would be stricter than the property.
						if d.node.kind == "oneof" && d.node != n {
							continue
						}
						enclosing = append(enclosing, d)
					}
				}
			}
			ak := annotatedKind(n, a)
			switch {
			case len(enclosing) > 0 && reported:
				class := ""
				for _, d := range enclosing {
					dv := deviation(d, n, a)
					if dv == "" {
						class = "C06-comment-ignore-not-applied"
						break
					}
					class = dv
				}
				d := enclosing[0]
				if class != "C06-comment-ignore-not-applied" {
					// recorded deviations: a few witnesses per run are enough
					run.Count("placement:deviation:" + class)
					if deviationSeen[class]++; deviationSeen[class] > 3 {
						continue
					}
				}
				fail(class, fmt.Sprintf("%s annotation on a %s (line %d) is reported although comment ignores are allowed and the %s starting on line %d, which encloses it, carries `buf:lint:ignore %s`",
					a.typ, ak, a.sl, d.node.kind, d.node.from, d.text), c,
					map[string]any{"annotation": k, "file": a.path, "source": pi.sources[a.path]})
			case len(enclosing) > 0 && !reported:
				rel := "self"
				if enclosing[0].node != n {
					rel = enclosing[0].node.kind
				}
				run.Count("placement:suppressed:" + ak + " <- " + rel)
			case len(enclosing) == 0 && !reported:
				class, what := "C06-suppressed-out-of-scope", "annotation of a selected rule is missing although no ignore comment naming its rule sits on the element or on an enclosing construct"
				if !c.aci {
					what = "annotation of a selected rule is missing although comment ignores are not allowed"
				} else if n != nil {
					for x := n; x != nil; x = x.parent {
						if x.extOrd <= 0 {
							continue
						}
						for _, d := range pi.dirs {
							if d.node.extOrd == 0 && d.node.parent == x.parent && d.node.file == f && strings.HasPrefix(d.text, a.typ) {
								class = "C06-comment-on-first-extend-block-leaks-to-later-blocks"
								what = fmt.Sprintf("%s annotation on line %d (inside the extend block starting on line %d) is suppressed by the comment on ANOTHER extend block (line %d)", a.typ, a.sl, x.from, d.node.from)
							}
						}
					}
				}
				if class != "C06-suppressed-out-of-scope" {
					run.Count("placement:deviation:" + class)
					if deviationSeen[class]++; deviationSeen[class] > 3 {
						continue
					}
				}
				fail(class, what, c, map[string]any{"annotation": k, "file": a.path, "source": pi.sources[a.path]})
			default:
				run.Count("placement:reported:" + ak)
			}
		}
	}
	for k, a := range gotSet {
		if !union[k] {
			fail("C06-report-not-union", "annotation is not reported by rule "+a.typ+" run alone", c, map[string]any{"annotation": k})
		}
	}
}

// ---------------------------------------------------------------------------------------------

func sectionPlacement(r *hx.Rand) {
	initRuleCategories()
	nImages := run.N(150, 270) // thorough: 270 x 6 check lines of ~27 KB (in.txt per seed < 200 MB)
	perImage := 9
	skip := map[string]bool{"PROTOVALIDATE": true}
	seenClass := map[string]bool{}
	hit := map[string]bool{}
	offset := 0
	for i := 0; i < nImages; i++ {
		ri := r.Fork(uint64(5000 + i))
		// the witness shapes of the recorded deviations appear on a fixed schedule
		twoExtends := i%5 == 3
		reqGroup := i%5 == 4
		files := genSkeleton(ri, twoExtends, reqGroup)
		classes := pairClasses(files)
		random := i >= 150 && ri.Chance(1, 2)
		pl, keys := plant(ri, classes, offset, perImage, random)
		offset += len(keys) + 1
		for _, pc := range classes {
			seenClass[pc.key] = true
		}
		pi := &placedImage{image: &image{importPaths: map[string]bool{}, sources: map[string]string{}}, files: map[string]*skFile{}}
		pathToData := map[string][]byte{}
		for _, f := range files {
			src, dirs := f.render(pl)
			pathToData[f.path] = []byte(src)
			pi.sources[f.path] = src
			pi.files[f.path] = f
			pi.dirs = append(pi.dirs, dirs...)
		}
		pi.img = buildImage(pathToData, map[string]bool{"dep/dep.proto": true})
		pi.importPaths["dep/dep.proto"] = true
		pi.importPaths["google/protobuf/timestamp.proto"] = true
		pi.measureWith(true, nil, true, skip)
		for _, k := range keys {
			run.Count("placement:planted:" + k[strings.LastIndex(k, " / ")+3:])
		}
		for vi, v := range versions {
			var use []string
			for _, id := range v.lintLive {
				if !skip[id] {
					use = append(use, id)
				}
			}
			selected := setOf(use)
			for _, aci := range []bool{true, false} {
				// both settings for the version the image is "aimed at", one otherwise (quick tier budget)
				if vi != i%3 && aci == (i%2 == 0) && !run.Thorough() {
					continue
				}
				c := &cfgSpec{ver: v, lint: true, validated: true, use: use, ioPaths: map[string][]string{}, aci: aci}
				got, class := runCheck(c, pi.image)
				line := "check\t" + c.fields() + "\t" + b01(c.aci) + b01(c.iup) + b01(c.exi) + "\t" + pi.proto[v.name]
				run.Case(line, implLine(got, class), true)
				run.Count("placement:runs:" + v.name + ":aci=" + b01(aci))
				if class != "" {
					fail("C06-placement-run-failed", "Client.Lint failed on a placement image: "+class, c, map[string]any{"sources": pi.sources})
					continue
				}
				pi.oracle(c, got, selected)
				if aci && v.name == "v2" || aci && vi == i%3 {
					for _, k := range keys {
						hit[k] = true
					}
				}
			}
		}
		if i == 0 {
			run.Sample(map[string]any{"section": "placement", "planted": keys, "source": pi.sources["a/v1/a.proto"]})
		}
	}
	// coverage report: which (annotated kind <- commented construct) classes were planted with
	// which kind of comment text
	missing := []string{}
	for k := range seenClass {
		for _, tk := range textKindNames {
			if !hit[k+" / "+tk] {
				missing = append(missing, k+" / "+tk)
			}
		}
	}
	sort.Strings(missing)
	run.Set("placement_pair_classes", len(seenClass))
	run.Set("placement_pairs_not_planted", missing)
	run.CountN("placement:pair-classes", len(seenClass))
	run.CountN("placement:pair-class-x-text-kind-not-planted", len(missing))
}
