package main

// Section M — MULTI-MODULE v2 workspaces with workspace-level lint / breaking sections.
//
// A v2 buf.yaml lists 2-4 modules (nested directories, a module directory that equals a relative
// path inside another module, names that are prefixes of each other, a common parent directory,
// the module "."); modules WITHOUT their own lint / breaking section share the workspace-level
// one, whose `ignore` / `ignore_only` paths are relative to the WORKSPACE root and are made
// module-relative for every module separately.  Generated: workspace-level ignore / ignore_only /
// use / except with paths inside module 1, inside module 2, inside none, at a module root, above a
// module root, several paths per key, in particular the TRAP paths `<dir i>/<dir j>[/…]` that lie
// inside module i and, once made relative to module i, spell a path of module j; some modules
// with their own section (which replaces the workspace-level one); every order of the modules in
// the file.
//
//   M1  reader: the buf.yaml TEXT is read with bufconfig.ReadBufYAMLFile (twice, and once more
//       with the modules in reverse order); one `ymulti` line carries ALL modules of the file
//       (the Lean model converts every module from the same workspace-level section value), one
//       `ycheck` line per module runs Client.Lint / Client.Breaking with that module's
//       configuration on the module's image.
//   M2  the COMMANDS `buf lint <workspace>`, `buf lint <workspace>/<module>`, `buf breaking
//       <workspace> --against <old workspace>` in-process on the workspace written to disk.
//
// Oracle (implementation only, from the property): an annotation of a selected rule is missing
// from the report iff its file — as a path relative to the WORKSPACE root, computed by the harness
// from the yaml it generated — lies under an ignore path of the section that applies to its
// module (under an ignore_only path of a key that selects its rule).  "Adding a suppression
// never removes an annotation outside its scope."

import (
	"fmt"
	"os"
	"path/filepath"
	"slices"
	"sort"
	"strings"
	"sync"
	"time"

	"github.com/bufbuild/buf/private/bufpkg/bufconfig"
	"github.com/bufbuild/verifharness/internal/hx"
)

// reportAncestorIgnoreSkipped: a workspace-level ignore path that is a strict ANCESTOR of a module
// directory (`ignore: [libs]`, modules libs/a, libs/b) is skipped by the reader ("not contained
// within the module"), so nothing in those modules is ignored.  Counted under
// multi:ancestor-of-module-root:*; filed as an oracle failure only when this switch is on
// (candidate finding, see handoff/strengthen6-G.md).
const reportAncestorIgnoreSkipped = true

type mMod struct {
	dir      string
	idx      int
	cur, old map[string]string // module-relative path -> source
	ims      map[bool]*image   // lint? -> measured image (v2 only)
}

type mPath struct {
	p    string
	kind string
	i, j int // module the path lies in / module it is aimed at (trap kinds), 0-based; -1 = none
}

type mLayout struct {
	name string
	mods []*mMod
	pool []mPath
}

func mJoin(d, rp string) string {
	if d == "." {
		return rp
	}
	return d + "/" + rp
}

func mInside(d, n string) bool { return d == "." || n == d || strings.HasPrefix(n, d+"/") }

func mSource(pkg, tag string, old bool) string {
	ty, gone := "int64", ""
	if old {
		ty, gone = "int32", "  int32 gone = 3;\n"
	}
	return fmt.Sprintf("syntax = \"proto3\";\npackage %s;\nenum bad_enum_%s {\n  BAD_ENUM_%s_UNSPECIFIED = 0;\n}\nmessage bad_msg_%s {\n  string BadField = 1;\n  %s changed = 2;\n%s}\n",
		pkg, tag, strings.ToUpper(tag), tag, ty, gone)
}

func mPkgOf(rp string) string {
	d := rp[:strings.LastIndex(rp, "/")]
	return strings.ReplaceAll(d, "/", ".")
}

var mLayoutDirs = []struct {
	name string
	dirs []string
}{
	{"proto+vendor", []string{"proto", "vendor"}},
	{"prefix-names", []string{"a", "ab"}},
	{"common-parent", []string{"libs/a", "libs/b"}},
	{"nested", []string{"libs/a", "libs/a/b"}},
	{"shared-names", []string{"a/b", "b", "a/c"}},
	{"three", []string{"proto", "vendor", "third"}},
	{"four-nested-prefix", []string{"svc", "svc/sub", "lib", "lib2"}},
	{"dot+vendor", []string{".", "vendor"}},
}

func newMLayout(name string, dirs []string) *mLayout {
	l := &mLayout{name: name}
	for i, d := range dirs {
		l.mods = append(l.mods, &mMod{dir: d, idx: i + 1, cur: map[string]string{}, old: map[string]string{}, ims: map[bool]*image{}})
	}
	owner := func(ws string) int {
		best, bestLen := -1, -1
		for i, m := range l.mods {
			n := len(m.dir)
			if m.dir == "." {
				n = 0
			}
			if mInside(m.dir, ws) && n > bestLen {
				best, bestLen = i, n
			}
		}
		return best
	}
	add := func(i int, rp, tag string) bool {
		m := l.mods[i]
		if owner(mJoin(m.dir, rp)) != i {
			return false
		}
		m.cur[rp] = mSource(mPkgOf(rp), tag, false)
		m.old[rp] = mSource(mPkgOf(rp), tag, true)
		return true
	}
	for i, m := range l.mods {
		o := fmt.Sprintf("o%d", m.idx)
		add(i, o+"/w.proto", fmt.Sprintf("m%d_w", m.idx))
		add(i, o+"/sub/w.proto", fmt.Sprintf("m%d_sw", m.idx))
		l.pool = append(l.pool,
			mPath{mJoin(m.dir, o), "own-dir", i, -1}, mPath{mJoin(m.dir, o+"/w.proto"), "own-file", i, -1},
			mPath{mJoin(m.dir, o+"/sub"), "own-dir", i, -1}, mPath{mJoin(m.dir, o+"/sub/w.proto"), "own-file", i, -1},
			mPath{"./" + mJoin(m.dir, o) + "//sub/", "own-messy", i, -1})
		if m.dir != "." {
			l.pool = append(l.pool, mPath{m.dir, "module-root", i, -1}, mPath{m.dir + "x", "none", -1, -1})
			if k := strings.LastIndex(m.dir, "/"); k > 0 {
				l.pool = append(l.pool, mPath{m.dir[:k], "ancestor", -1, i})
			}
		}
		for j, t := range l.mods {
			if j == i {
				continue
			}
			oj := fmt.Sprintf("o%d", t.idx)
			// the file in module j a leaked FILE path of module i would hit
			add(j, fmt.Sprintf("%s/t%d.proto", oj, m.idx), fmt.Sprintf("m%d_t%d", t.idx, m.idx))
			// the trap: inside module i, spelling module j's path once made relative to module i
			// (none towards the module ".": the trap would have module j's own module-relative path,
			// and a path may belong to one module only)
			rp := mJoin(t.dir, fmt.Sprintf("%s/t%d.proto", oj, m.idx))
			if t.dir == "." || !add(i, rp, fmt.Sprintf("m%d_trap%d", m.idx, t.idx)) {
				continue
			}
			if t.dir != "." {
				l.pool = append(l.pool, mPath{mJoin(m.dir, t.dir), "trap-module-dir", i, j})
			}
			l.pool = append(l.pool, mPath{mJoin(m.dir, mJoin(t.dir, oj)), "trap-dir", i, j},
				mPath{mJoin(m.dir, rp), "trap-file", i, j})
		}
	}
	l.pool = append(l.pool, mPath{"other/x", "none", -1, -1}, mPath{"zz", "none", -1, -1}, mPath{"o1", "none", -1, -1})
	return l
}

func (l *mLayout) image(m *mMod, lint bool) *image {
	if im, ok := m.ims[lint]; ok {
		return im
	}
	im := &image{importPaths: map[string]bool{}, sources: m.cur, onlyVers: []*version{versions[2]}}
	im.img = buildImage(toBytes(m.cur), nil)
	if !lint {
		im.against = buildImage(toBytes(m.old), nil)
	}
	im.measureWith(lint, nil, true, nil)
	m.ims[lint] = im
	return im
}

// mNorm: the path as a cleaned workspace-relative path; bad = absolute or leaving the workspace.
func mNorm(p string) (string, bool) {
	if strings.HasPrefix(p, "/") {
		return "", true
	}
	var out []string
	for _, c := range strings.Split(p, "/") {
		switch c {
		case "", ".":
		case "..":
			if len(out) == 0 {
				return "", true
			}
			out = out[:len(out)-1]
		default:
			out = append(out, c)
		}
	}
	if len(out) == 0 {
		return ".", false
	}
	return strings.Join(out, "/"), false
}

func mNested(ns []string) bool {
	u := slices.Compact(slices.Sorted(slices.Values(ns)))
	for i := range u {
		for j := range u {
			if i != j && (u[i] == "." || under(u[j], u[i])) {
				return true
			}
		}
	}
	return false
}

// mExpect: what the documentation says about one module, from what was WRITTEN.
type mExpect struct {
	err      bool
	unsure   bool // a module directory under ignore_only ("." for that module): as coded, not asserted
	disabled bool
	sec      *ySection
	own      bool
}

func mExpectModule(dir string, ws, mod *ySection) mExpect {
	s, own := ws, false
	if mod.nonZero() {
		s, own = mod, true
	}
	if !s.nonZero() {
		return mExpect{sec: &ySection{flags: map[string]bool{}, ioPaths: map[string][]string{}}, own: own}
	}
	e := mExpect{sec: s, own: own}
	lists := [][]string{}
	if s.has("ignore") {
		for _, p := range s.ignore {
			n, bad := mNorm(p)
			if bad {
				e.err = true
				return e
			}
			if n == dir {
				e.disabled = true
				return e
			}
		}
		lists = append(lists, s.ignore)
	}
	if s.has("ignore_only") {
		for _, k := range s.ioKeys {
			lists = append(lists, s.ioPaths[k])
		}
	}
	for li, ps := range lists {
		var in []string
		for _, p := range ps {
			n, bad := mNorm(p)
			switch {
			case bad:
				e.err = true
			case mInside(dir, n):
				if n == dir && !(li == 0 && s.has("ignore")) {
					// "." under ignore_only: accepted by the reader when it stands alone, rejected later by
					// bufcheck (bad path) — as coded; compared with the model only
					e.unsure = true
				}
				in = append(in, n)
			case own:
				e.err = true
			}
		}
		if mNested(in) {
			e.err = true
		}
	}
	return e
}

type mCase struct {
	l      *mLayout
	lint   bool
	order  []int // module indices in file order
	ws     *ySection
	mods   []*ySection // per module (layout order); nil = no section
	other  *ySection   // the other type's workspace-level section (decoy)
	exi    bool
	label  string
	cli    bool
	strata string
}

func (c *mCase) typeName() string { return typeName(c.lint) }

func (c *mCase) textWith(order []int, strip bool) string {
	v2 := versions[2]
	// strip: the same file with every ignore / ignore_only path replaced by a path that matches
	// nothing (the keys stay, so the same section applies to every module)
	st := func(s *ySection, dir string) *ySection {
		if !strip || s == nil || !s.written {
			return s
		}
		t := *s
		none := mJoin(dir, "zz_none")
		if s.has("ignore") {
			t.ignore = []string{none}
		}
		t.ioPaths = map[string][]string{}
		for _, k := range s.ioKeys {
			t.ioPaths[k] = []string{none}
		}
		return &t
	}
	var b strings.Builder
	b.WriteString("version: v2\nmodules:\n")
	for _, i := range order {
		m := c.l.mods[i]
		b.WriteString("  - path: " + m.dir + "\n")
		// a module directory nested in this one is excluded (otherwise its files belong to both modules)
		var ex []string
		for _, o := range c.l.mods {
			if o != m && o.dir != "." && mInside(m.dir, o.dir) {
				ex = append(ex, o.dir)
			}
		}
		if len(ex) > 0 {
			b.WriteString("    excludes: [" + strings.Join(ex, ", ") + "]\n")
		}
		if s := st(c.mods[i], m.dir); s != nil {
			b.WriteString(s.yaml(c.typeName(), "    ", v2))
		}
	}
	if c.other != nil {
		b.WriteString(c.other.yaml(typeName(!c.lint), "", v2))
	}
	b.WriteString(st(c.ws, ".").yaml(c.typeName(), "", v2))
	return b.String()
}

func (c *mCase) text() string { return c.textWith(c.order, false) }

func (c *mCase) sec(i int) *ySection {
	if c.mods[i] == nil {
		return &ySection{}
	}
	return c.mods[i]
}

func mDumpAll(f bufconfig.BufYAMLFile, lint bool) (string, map[string]string) {
	var parts []string
	byDir := map[string]string{}
	for _, m := range f.ModuleConfigs() {
		d := dumpBreaking(m.BreakingConfig())
		if lint {
			d = dumpLint(m.LintConfig())
		}
		parts = append(parts, "m "+hx.Enc(m.DirPath())+" "+d)
		byDir[m.DirPath()] = d
	}
	top := dumpBreaking(f.TopLevelBreakingConfig())
	if lint {
		top = dumpLint(f.TopLevelLintConfig())
	}
	return strings.Join(parts, " ; ") + " top " + top, byDir
}

func mRead(text string) (f bufconfig.BufYAMLFile, err error) {
	defer func() {
		if p := recover(); p != nil {
			err = fmt.Errorf("panic: %v", p)
			run.Fail(hx.OracleFailure{Class: "C06-panic", What: fmt.Sprint("buf.yaml reader panicked: ", p), Input: map[string]any{"buf.yaml": text}})
		}
	}()
	return bufconfig.ReadBufYAMLFile(strings.NewReader(text), "buf.yaml")
}

func (c *mCase) input(text string) map[string]any {
	var dirs []string
	for _, i := range c.order {
		dirs = append(dirs, c.l.mods[i].dir)
	}
	return map[string]any{"buf.yaml": text, "type": c.typeName(), "layout": c.l.name, "modules_in_file_order": dirs, "case": c.label}
}

func (c *mCase) replay(text string) string {
	var b strings.Builder
	b.WriteString("d=$(mktemp -d) && cd $d && (cd ${VERIF_REPO:-/repo} && GOPROXY=off GOFLAGS=-mod=mod go build -o $d/buf ./cmd/buf) && mkdir ws old")
	for _, m := range c.l.mods {
		for _, rp := range sortedKeysS(m.cur) {
			p := mJoin(m.dir, rp)
			b.WriteString(fmt.Sprintf(" && mkdir -p ws/%s && printf %%s %s > ws/%s", filepath.Dir(p), shq(m.cur[rp]), p))
			if !c.lint {
				b.WriteString(fmt.Sprintf(" && mkdir -p old/%s && printf %%s %s > old/%s", filepath.Dir(p), shq(m.old[rp]), p))
			}
		}
	}
	b.WriteString(" && printf %s " + shq(text) + " > ws/buf.yaml")
	if c.lint {
		b.WriteString(" && ./buf lint ws")
	} else {
		b.WriteString(" && printf %s " + shq(c.oldYaml()) + " > old/buf.yaml && ./buf breaking ws --against old")
	}
	b.WriteString(fmt.Sprintf("   # harness: C06_SECTIONS=multi build/c06 --seed %d --tier %s --out /tmp/c06-replay", run.Seed, run.Tier))
	return b.String()
}

func shq(s string) string { return "'" + strings.ReplaceAll(s, "'", `'\''`) + "'" }

func sortedKeysS(m map[string]string) []string {
	ks := make([]string, 0, len(m))
	for k := range m {
		ks = append(ks, k)
	}
	sort.Strings(ks)
	return ks
}

func (c *mCase) oldYaml() string {
	var b strings.Builder
	b.WriteString("version: v2\nmodules:\n")
	for _, m := range c.l.mods {
		b.WriteString("  - path: " + m.dir + "\n")
		var ex []string
		for _, o := range c.l.mods {
			if o != m && o.dir != "." && mInside(m.dir, o.dir) {
				ex = append(ex, o.dir)
			}
		}
		if len(ex) > 0 {
			b.WriteString("    excludes: [" + strings.Join(ex, ", ") + "]\n")
		}
	}
	return b.String()
}

func (c *mCase) fail(class, what, text string, more map[string]any) {
	in := c.input(text)
	for k, v := range more {
		in[k] = v
	}
	run.Fail(hx.OracleFailure{Class: class, What: what, Input: in, Replay: c.replay(text)})
}

// covered: is the workspace-relative file path under a path of the list?  inside = through a
// path that lies inside (or is) the module directory; above = only through a strict ancestor of
// the module directory.
func mCovered(dir string, ps []string, wsPath string) (inside, above bool, by string) {
	for _, p := range ps {
		n, bad := mNorm(p)
		if bad || !(n == "." || under(wsPath, n)) {
			continue
		}
		if mInside(dir, n) {
			return true, false, p
		}
		above, by = true, p
	}
	return false, above, by
}

var mStrataSeen = map[string]bool{}

// mOracleModule: exactness of one module's report in workspace-relative terms.
// expected: key -> annotation for everything that must be reported; returned for the CLI oracle.
func (c *mCase) oracleModule(i int, text string, e mExpect, im *image, got []fa, class string) {
	m := c.l.mods[i]
	more := map[string]any{"module": m.dir, "applies": map[bool]string{true: "the module's own section", false: "the workspace-level section"}[e.own]}
	if e.disabled {
		run.Count("multi:module-disabled-by-its-root")
		if len(got) > 0 || class != "" {
			c.fail("C06-workspace-ignore-not-applied", "an ignore path equal to the module directory disables the check for that module, but something was reported", text, more)
		}
		return
	}
	s := e.sec
	ids, cl := mConfigured(c.lint, s.use, s.except)
	if class != "" || cl != "" {
		if class != cl {
			more["class"], more["expected_class"] = class, cl
			c.fail("C06-workspace-run-failed", "Lint/Breaking with the module configuration read from the multi-module buf.yaml fails differently from the same selection built directly", text, more)
		}
		return
	}
	gotSet := faSet(got)
	single := im.single["v2"]
	union := map[string]fa{}
	for _, id := range ids {
		for _, a := range single[id] {
			union[a.key()] = a
		}
	}
	for k := range gotSet {
		if _, ok := union[k]; !ok {
			more["annotation"] = k
			c.fail("C06-report-not-union", "annotation is not reported by a selected rule run alone", text, more)
		}
	}
	for k, a := range union {
		_, reported := gotSet[k]
		inside, above, by, why := false, false, "", ""
		check := func(ps []string, w string) {
			for _, rp := range []string{a.path, a.apath} {
				if rp == "" || rp == "\x00nil" {
					continue
				}
				in, ab, b := mCovered(m.dir, ps, mJoin(m.dir, rp))
				if in {
					inside, by, why = true, b, w
				} else if ab && !inside {
					above, by, why = true, b, w
				}
			}
		}
		if s.has("ignore") {
			check(s.ignore, "ignore")
		}
		if s.has("ignore_only") {
			for _, key := range s.ioKeys {
				if exp, _ := expandID(versions[2], c.lint, key); slices.Contains(exp, a.typ) {
					check(s.ioPaths[key], "ignore_only."+key)
				}
			}
		}
		wsPath := mJoin(m.dir, a.path)
		switch {
		case inside && !reported:
			run.Count("multi:suppressed-by:" + strings.SplitN(why, ".", 2)[0])
			if c.strata != "" {
				mStrataSeen[c.strata+":applied"] = true
			}
		case inside && reported:
			c.fail("C06-workspace-ignore-not-applied", fmt.Sprintf("%s annotation in %s (module %s) is reported although the file lies under the %s path %q of the section that applies to its module",
				a.typ, wsPath, m.dir, why, by), text, withKV(more, "annotation", k))
		case above && reported:
			run.Count("multi:ancestor-of-module-root:reported")
			if reportAncestorIgnoreSkipped {
				c.fail("C06-workspace-ignore-above-module-root-not-applied", fmt.Sprintf("%s annotation in %s (module %s) is reported although the file lies under the workspace-level %s path %q (a directory ABOVE the module directory)",
					a.typ, wsPath, m.dir, why, by), text, withKV(more, "annotation", k))
			}
		case above && !reported:
			run.Count("multi:ancestor-of-module-root:suppressed")
		case !reported:
			c.fail("C06-workspace-ignore-leaks-to-other-module", fmt.Sprintf("%s annotation in %s (module %s) is missing although no ignore / ignore_only path of the section that applies to its module covers that file (paths are relative to the workspace root); the suppression reached a file outside its scope",
				a.typ, wsPath, m.dir), text, withKV(more, "annotation", k))
		default:
			run.Count("multi:reported")
			if c.strata != "" {
				mStrataSeen[c.strata+":other-module-reported:"+m.dir] = true
			}
		}
	}
}

var mConfiguredCache = map[string]struct {
	ids []string
	cl  string
}{}

func mConfigured(lint bool, use, except []string) ([]string, string) {
	k := b01(lint) + "|" + strings.Join(use, ",") + "|" + strings.Join(except, ",")
	if e, ok := mConfiguredCache[k]; ok {
		return e.ids, e.cl
	}
	ids, cl := configured(&cfgSpec{ver: versions[2], lint: lint, validated: true, use: use, except: except, ioPaths: map[string][]string{}})
	mConfiguredCache[k] = struct {
		ids []string
		cl  string
	}{ids, cl}
	return ids, cl
}

func withKV(m map[string]any, k string, v any) map[string]any {
	o := map[string]any{k: v}
	for a, b := range m {
		o[a] = b
	}
	return o
}

// runCase: M1 for one generated file.
func (c *mCase) run() {
	text := c.text()
	f, readErr := mRead(text)
	// what must happen, from what was written
	var exps []mExpect
	expErr := mExpectModule(".", c.ws, &ySection{}).err
	for i, m := range c.l.mods {
		e := mExpectModule(m.dir, c.ws, c.sec(i))
		exps = append(exps, e)
		expErr = expErr || e.err
	}
	// ymulti: one line with all modules
	ty := "b"
	if c.lint {
		ty = "l"
	}
	fields := []string{"ymulti", ty, c.ws.fields()}
	for _, i := range c.order {
		fields = append(fields, hx.Enc(c.l.mods[i].dir), c.sec(i).fields())
	}
	out, byDir := "err config", map[string]string{}
	if readErr == nil {
		out, byDir = mDumpAll(f, c.lint)
	}
	run.Case(strings.Join(fields, "\t"), out, true)
	run.Count("multi:" + c.typeName() + ":" + c.l.name)
	run.Count("multi:case:" + c.label)
	for _, e := range append([]mExpect{mExpectModule(".", c.ws, &ySection{})}, exps...) {
		if e.unsure {
			// still one ycheck line per module for the model, no assertion
			run.Count("multi:module-directory-under-ignore_only (not asserted)")
			if readErr == nil {
				for i, m := range c.l.mods {
					im := c.l.image(m, c.lint)
					ycm := &yamlCase{ver: versions[2], lint: c.lint, dir: m.dir, ws: c.ws, mod: c.sec(i), exi: c.exi}
					if o, _, _, rerr := runYaml(ycm, text, im); rerr == nil {
						run.Case(strings.Join([]string{"ycheck", "v2", ty, hx.Enc(m.dir), c.ws.fields(), c.sec(i).fields(), b01(c.exi), im.proto["v2"]}, "\t"), o, true)
					}
				}
			}
			c.cli = false
			return
		}
	}
	if expErr {
		run.Count("multi:read-error-expected")
		if readErr == nil {
			c.fail("C06-yaml-invalid-path-accepted", "a path outside the workspace / outside the module of a module-level section / nested in another path of its list was accepted", text, nil)
		}
		return
	}
	if readErr != nil {
		c.fail("C06-yaml-valid-config-rejected", "a valid multi-module buf.yaml was rejected", text, map[string]any{"error": readErr.Error()})
		return
	}
	// one ycheck line per module: configuration + report
	for i, m := range c.l.mods {
		im := c.l.image(m, c.lint)
		ycm := &yamlCase{ver: versions[2], lint: c.lint, dir: m.dir, ws: c.ws, mod: c.sec(i), exi: c.exi}
		o, got, class, rerr := runYaml(ycm, text, im)
		if rerr != nil {
			continue // cannot happen: the same text was read above
		}
		line := strings.Join([]string{"ycheck", "v2", ty, hx.Enc(m.dir), c.ws.fields(), c.sec(i).fields(), b01(c.exi), im.proto["v2"]}, "\t")
		run.Case(line, o, true)
		if exps[i].own {
			run.Count("multi:module-with-own-section")
		} else {
			run.Count("multi:module-on-workspace-section")
		}
		c.oracleModule(i, text, exps[i], im, got, class)
	}
	// the same text read again, and with the modules in reverse order: no module's
	// configuration may change
	if f2, err := mRead(text); err != nil {
		c.fail("C06-workspace-config-differs-between-reads", "the second read of the same buf.yaml fails", text, nil)
	} else if out2, _ := mDumpAll(f2, c.lint); out2 != out {
		c.fail("C06-workspace-config-differs-between-reads", "two reads of the same buf.yaml give different module configurations", text, map[string]any{"first": out, "second": out2})
	}
	rev := slices.Clone(c.order)
	slices.Reverse(rev)
	revText := c.textWith(rev, false)
	if f3, err := mRead(revText); err != nil {
		c.fail("C06-workspace-module-order-changes-config", "the same buf.yaml with the modules listed in reverse order is rejected", text, map[string]any{"reversed": revText})
	} else if _, byDir3 := mDumpAll(f3, c.lint); !mapsEqual(byDir, byDir3) {
		c.fail("C06-workspace-module-order-changes-config", "listing the modules in reverse order changes the configuration of a module", text,
			map[string]any{"reversed": revText, "configs": byDir, "configs_reversed": byDir3})
	}
	run.Eval()
	run.Eval()
}

func mapsEqual(a, b map[string]string) bool {
	if len(a) != len(b) {
		return false
	}
	for k, v := range a {
		if b[k] != v {
			return false
		}
	}
	return true
}

// ---------------------------------------------------------------------------------------------
// generation

var mUse = map[bool][][]string{
	true:  {{"ENUM_PASCAL_CASE", "MESSAGE_PASCAL_CASE", "FIELD_LOWER_SNAKE_CASE"}, {"BASIC"}, nil, {"STANDARD", "COMMENT_ENUM"}, {"ENUM_PASCAL_CASE"}},
	false: {{"FIELD_NO_DELETE", "FIELD_SAME_TYPE"}, {"FILE"}, nil, {"WIRE_JSON"}, {"WIRE", "FIELD_NO_DELETE"}},
}
var mExcept = map[bool][][]string{
	true:  {nil, {"FIELD_LOWER_SNAKE_CASE"}, nil, {"PACKAGE_VERSION_SUFFIX"}},
	false: {nil, {"FIELD_SAME_TYPE"}, nil, {"FIELD_SAME_JSON_NAME"}},
}
var mIoKeys = map[bool][]string{
	true:  {"ENUM_PASCAL_CASE", "FIELD_LOWER_SNAKE_CASE", "BASIC", "MESSAGE_PASCAL_CASE", "STANDARD"},
	false: {"FIELD_NO_DELETE", "FIELD_SAME_TYPE", "FILE", "WIRE_JSON", "WIRE"},
}

// mSection builds a section from a selection and path lists (nil / empty = key absent).
func mSection(use, except, ignore []string, io map[string][]string, n int) *ySection {
	s := &ySection{written: true, zero: map[string]bool{}, ioPaths: map[string][]string{}, flags: map[string]bool{}, flow: n%3 == 0}
	type kv struct {
		k  string
		on bool
	}
	ks := []kv{{"use", len(use) > 0}, {"except", len(except) > 0}, {"ignore", len(ignore) > 0}, {"ignore_only", len(io) > 0}}
	// key order in the file rotates
	for x := 0; x < len(ks); x++ {
		if k := ks[(x+n)%len(ks)]; k.on {
			s.keys = append(s.keys, k.k)
		}
	}
	s.use, s.except, s.ignore = use, except, ignore
	for _, k := range sortedKeysOfLists(io) {
		s.ioKeys = append(s.ioKeys, k)
		s.ioPaths[k] = io[k]
	}
	if len(s.keys) == 0 {
		return &ySection{}
	}
	return s
}

func sortedKeysOfLists(m map[string][]string) []string {
	ks := make([]string, 0, len(m))
	for k := range m {
		ks = append(ks, k)
	}
	sort.Strings(ks)
	return ks
}

// pickPaths: up to n pairwise non-nested paths from the candidates (in candidate order).
func mPickPaths(cands []mPath, n int, allowNested bool) (ps []string, kinds []string) {
	var ns []string
	for _, c := range cands {
		if len(ps) >= n {
			break
		}
		nn, _ := mNorm(c.p)
		if !allowNested && mNested(append(slices.Clone(ns), nn)) || slices.Contains(ns, nn) {
			continue
		}
		ps, ns, kinds = append(ps, c.p), append(ns, nn), append(kinds, c.kind)
	}
	return
}

func mOrders(n int, r *hx.Rand) []int {
	o := make([]int, n)
	for i := range o {
		o[i] = i
	}
	hx.Shuffle(r, o)
	return o
}

// order with module i before module j (the others in between / around, rotating)
func mOrderWith(n, i, j, rot int) []int {
	var rest []int
	for k := 0; k < n; k++ {
		if k != i && k != j {
			rest = append(rest, k)
		}
	}
	switch rot % 3 {
	case 0:
		return append([]int{i, j}, rest...)
	case 1:
		return append(append([]int{i}, rest...), j)
	default:
		return append(append(slices.Clone(rest), i), j)
	}
}

func sectionMulti(r *hx.Rand) (finish func()) {
	var layouts []*mLayout
	for _, ld := range mLayoutDirs {
		layouts = append(layouts, newMLayout(ld.name, ld.dirs))
	}
	var cliCases []*mCase
	n := 0
	emit := func(c *mCase) {
		n++
		c.run()
		if c.cli {
			cliCases = append(cliCases, c)
		}
		if n <= 1 {
			run.Sample(map[string]any{"section": "multi", "buf.yaml": c.text(), "layout": c.l.name})
		}
	}
	noSec := func(l *mLayout) []*ySection { return make([]*ySection, len(l.mods)) }
	// (1) strata: every trap path (inside module i, aimed at module j) under ignore and under
	// ignore_only, module i listed before module j and after it; quick: a rotating third
	wanted := map[string]bool{}
	k := 0
	for li, l := range layouts {
		for _, lint := range []bool{true, false} {
			for _, tp := range l.pool {
				if !strings.HasPrefix(tp.kind, "trap-") {
					continue
				}
				for _, key := range []string{"ignore", "ignore_only"} {
					k++
					strata := fmt.Sprintf("%s:%s:%s:%s->%s", l.name, key, tp.kind, l.mods[tp.i].dir, l.mods[tp.j].dir)
					// the headline case (modules [proto, vendor], `ignore: [proto/vendor]`) runs on every seed
					headline := li == 0 && key == "ignore" && tp.kind == "trap-module-dir" && tp.i == 0
					if !headline && !c06MultiQuickPick(k, lint) {
						continue
					}
					wanted[strata] = true
					for _, firstI := range []bool{true, false} {
						a, b := tp.i, tp.j
						if !firstI {
							a, b = b, a
						}
						use := mUse[lint][0]
						var ignore []string
						io := map[string][]string{}
						// a second, harmless path of another module in front / behind (the in-place
						// filter shifts entries)
						extra := l.pool[(k*7)%len(l.pool)]
						for x := 0; extra.kind == "module-root" || extra.kind == "ancestor" || strings.HasPrefix(extra.kind, "trap-"); x++ {
							extra = l.pool[(k*7+x)%len(l.pool)]
						}
						ps, _ := mPickPaths([]mPath{tp, extra}, 2, false)
						if headline {
							ps = []string{tp.p}
						}
						if k%2 == 0 {
							slices.Reverse(ps)
						}
						if key == "ignore" {
							ignore = ps
						} else {
							io[mIoKeys[lint][k%2]] = ps
						}
						c := &mCase{l: l, lint: lint, order: mOrderWith(len(l.mods), a, b, k), ws: mSection(use, nil, ignore, io, k), mods: noSec(l),
							label: "strata:" + key + ":" + tp.kind + map[bool]string{true: ":trap-module-first", false: ":target-module-first"}[firstI], strata: strata,
							exi: !lint && k%4 == 0}
						// the commands: a rotating sample of the strata (thorough: all of them)
						c.cli = firstI && (run.Thorough() || (k/3+li+int(run.Seed))%4 == 0) && len(cliCases) < run.N(14, 400)
						emit(c)
					}
				}
			}
		}
	}
	// (2) module roots, ancestors, own sections replacing the workspace-level one
	for _, l := range layouts {
		for _, lint := range []bool{true, false} {
			for pi, p := range l.pool {
				if p.kind != "module-root" && p.kind != "ancestor" && p.kind != "none" {
					continue
				}
				k++
				if !run.Thorough() && (k+int(run.Seed))%2 != 0 {
					continue
				}
				own, _ := mPickPaths([]mPath{p, l.pool[(pi+3)%len(l.pool)], l.pool[(pi+11)%len(l.pool)]}, 2+k%2, false)
				c := &mCase{l: l, lint: lint, order: mOrders(len(l.mods), r), ws: mSection(mUse[lint][k%2], nil, own, nil, k), mods: noSec(l), label: "ignore:" + p.kind}
				emit(c)
			}
			// a module with its own section: the workspace-level paths no longer apply to it
			for i, m := range l.mods {
				k++
				var ownP, wsP []mPath
				for _, p := range l.pool {
					if p.i == i && (p.kind == "own-dir" || p.kind == "own-file" || strings.HasPrefix(p.kind, "trap-")) {
						ownP = append(ownP, p)
					}
					if p.i >= 0 && p.kind != "module-root" {
						wsP = append(wsP, p)
					}
				}
				hx.Shuffle(r, ownP)
				hx.Shuffle(r, wsP)
				op, _ := mPickPaths(ownP, 1+k%2, false)
				wp, _ := mPickPaths(wsP, 2+k%3, false)
				mods := noSec(l)
				if k%2 == 0 {
					mods[i] = mSection(mUse[lint][k%3], nil, op, nil, k)
				} else {
					mods[i] = mSection(nil, mExcept[lint][1], nil, map[string][]string{mIoKeys[lint][k%3]: op}, k)
				}
				if k%5 == 0 && len(l.mods) > 2 {
					mods[(i+1)%len(l.mods)] = &ySection{written: true} // `lint: {}`: falls back
				}
				_ = m
				c := &mCase{l: l, lint: lint, order: mOrders(len(l.mods), r), ws: mSection(mUse[lint][(k+1)%3], nil, wp, nil, k+1), mods: mods, label: "own-section"}
				c.cli = k%9 == 0 && len(cliCases) < run.N(18, 160)
				emit(c)
			}
		}
	}
	// (3) random workspaces
	for x := 0; x < run.N(80, 1500); x++ {
		rr := r.Fork(uint64(9000 + x))
		l := layouts[rr.Intn(len(layouts))]
		lint := !rr.Chance(1, 3)
		pickList := func(max int, nestedOK bool) []string {
			pool := slices.Clone(l.pool)
			hx.Shuffle(rr, pool)
			var cands []mPath
			for _, p := range pool {
				if p.kind == "module-root" && !rr.Chance(1, 6) {
					continue
				}
				cands = append(cands, p)
			}
			ps, _ := mPickPaths(cands, 1+rr.Intn(max), nestedOK)
			return ps
		}
		var ignore []string
		io := map[string][]string{}
		nestedOK := rr.Chance(1, 20)
		if rr.Chance(2, 3) {
			ignore = pickList(4, nestedOK)
		}
		for q := rr.Intn(3); q > 0; q-- {
			var ps []string
			for _, p := range pickList(3, nestedOK) {
				if n, _ := mNorm(p); !slices.ContainsFunc(l.mods, func(m *mMod) bool { return m.dir == n }) {
					ps = append(ps, p) // no module root under ignore_only
				}
			}
			if len(ps) > 0 {
				io[hx.Pick(rr, mIoKeys[lint])] = ps
			}
		}
		mods := noSec(l)
		for i := range l.mods {
			if !rr.Chance(1, 4) {
				continue
			}
			var ownP []mPath
			for _, p := range l.pool {
				if p.i == i && p.kind != "module-root" || rr.Chance(1, 40) {
					ownP = append(ownP, p)
				}
			}
			hx.Shuffle(rr, ownP)
			op, _ := mPickPaths(ownP, 1+rr.Intn(2), false)
			switch rr.Intn(4) {
			case 0:
				mods[i] = mSection(hx.Pick(rr, mUse[lint]), nil, op, nil, x)
			case 1:
				mods[i] = mSection(nil, hx.Pick(rr, mExcept[lint]), nil, map[string][]string{hx.Pick(rr, mIoKeys[lint]): op}, x)
			case 2:
				mods[i] = mSection(hx.Pick(rr, mUse[lint]), nil, nil, nil, x)
			default:
				mods[i] = &ySection{written: true, null: rr.Bool()}
			}
		}
		var other *ySection
		if rr.Chance(1, 3) {
			other = mSection(hx.Pick(rr, mUse[!lint]), nil, pickList(2, false), nil, x)
		}
		c := &mCase{l: l, lint: lint, order: mOrders(len(l.mods), rr), ws: mSection(hx.Pick(rr, mUse[lint]), hx.Pick(rr, mExcept[lint]), ignore, io, x),
			mods: mods, other: other, label: "random", exi: !lint && rr.Bool()}
		c.cli = run.Thorough() && x%12 == 0
		emit(c)
	}
	// coverage: every wanted stratum must have been observable (the trap path suppressed
	// something in its own module AND the other module reported annotations)
	missing := []string{}
	for s := range wanted {
		if !mStrataSeen[s+":applied"] {
			missing = append(missing, s+" (trap path suppressed nothing)")
		}
		tgt := s[strings.LastIndex(s, "->")+2:]
		if !mStrataSeen[s+":other-module-reported:"+tgt] {
			missing = append(missing, s+" (target module reported nothing)")
		}
	}
	sort.Strings(missing)
	run.Set("multi_strata", len(wanted))
	run.Set("multi_strata_not_observable", missing)
	if run.Only >= 0 {
		return func() {}
	}
	return multiCLIStart(cliCases)
}

// quick tier: a third of the strata, rotating with the seed; thorough: all
func c06MultiQuickPick(k int, lint bool) bool {
	if run.Thorough() {
		return true
	}
	if lint {
		return (k+int(run.Seed))%3 == 0
	}
	return (k+int(run.Seed))%6 == 1
}

// ---------------------------------------------------------------------------------------------
// M2: the commands

type mCLIJob struct {
	c              *mCase
	dir            string
	text, baseText string
	own, base      cliResult
	modDir         string // `buf lint <ws>/<module>` for this module ("" = not run)
	mod            cliResult
	args           []string
}

func multiCLIStart(cases []*mCase) (finish func()) {
	root := must(filepath.Abs(filepath.Join(run.OutDir, "multi")))
	must0(os.RemoveAll(root))
	must0(os.MkdirAll(root, 0o755))
	var jobs []*mCLIJob
	for _, c := range cases {
		jobs = append(jobs, &mCLIJob{c: c, text: c.text(), baseText: c.textWith(c.order, true)})
	}
	const workers = 6
	var wg sync.WaitGroup
	ch := make(chan int)
	var mu sync.Mutex
	baseCache := map[string]cliResult{}
	for w := 0; w < workers; w++ {
		wg.Add(1)
		go func(w int) {
			defer wg.Done()
			for ji := range ch {
				j := jobs[ji]
				c := j.c
				d := filepath.Join(root, fmt.Sprintf("c%d", ji))
				j.dir = d
				for _, m := range c.l.mods {
					for rp, src := range m.cur {
						writeTree(d, map[string]string{mJoin(m.dir, rp): src})
						if !c.lint {
							writeTree(d+"-old", map[string]string{mJoin(m.dir, rp): m.old[rp]})
						}
					}
				}
				args := []string{"lint", d, "--error-format=json"}
				if !c.lint {
					must0(os.WriteFile(filepath.Join(d+"-old", "buf.yaml"), []byte(c.oldYaml()), 0o644))
					args = []string{"breaking", d, "--against", d + "-old", "--error-format=json"}
				}
				j.args = args
				bk := c.l.name + "|" + c.typeName() + "|" + j.baseText
				mu.Lock()
				base, ok := baseCache[bk]
				mu.Unlock()
				if !ok {
					must0(os.WriteFile(filepath.Join(d, "buf.yaml"), []byte(j.baseText), 0o644))
					base = runBuf(root, args...)
					// paths are reported relative to the input directory name: normalise now
					base.stdout = strings.ReplaceAll(base.stdout, d+"/", "")
					mu.Lock()
					baseCache[bk] = base
					mu.Unlock()
				}
				j.base = base
				must0(os.WriteFile(filepath.Join(d, "buf.yaml"), []byte(j.text), 0o644))
				j.own = runBuf(root, args...)
				j.own.stdout = strings.ReplaceAll(j.own.stdout, d+"/", "")
				if c.lint {
					m := c.l.mods[ji%len(c.l.mods)]
					// `buf lint <workspace>/<module>`: only for a module directory that neither contains
					// nor lies in another module directory (which modules a nested input directory
					// targets is workspace targeting, not C06)
					overlap := false
					for _, o := range c.l.mods {
						if o != m && (mInside(o.dir, m.dir) || mInside(m.dir, o.dir)) {
							overlap = true
						}
					}
					if !overlap {
						j.modDir = m.dir
						j.mod = runBuf(root, "lint", filepath.Join(d, m.dir), "--error-format=json")
						j.mod.stdout = strings.ReplaceAll(j.mod.stdout, d+"/", "")
					}
				}
			}
		}(w)
	}
	go func() {
		for i := range jobs {
			ch <- i
		}
		close(ch)
	}()
	return func() {
		t0 := time.Now()
		wg.Wait()
		if os.Getenv("C06_TIMING") != "" {
			fmt.Fprintf(os.Stderr, "multi M2: waited %.1fs for %d workspaces at the end\n", time.Since(t0).Seconds(), len(jobs))
		}
		for _, j := range jobs {
			j.oracle()
		}
	}
}

func (j *mCLIJob) oracle() {
	c := j.c
	run.Eval()
	run.Count("multi:cli:" + c.typeName())
	cmd := "buf " + strings.Join(j.args, " ")
	more := func(kv ...any) map[string]any {
		m := map[string]any{"command": cmd, "via": "command"}
		for i := 0; i+1 < len(kv); i += 2 {
			m[kv[i].(string)] = kv[i+1]
		}
		return m
	}
	if j.own.panicked != "" || j.base.panicked != "" {
		c.fail("C06-panic", "the command panicked: "+j.own.panicked+j.base.panicked, j.text, more())
		return
	}
	expErr := mExpectModule(".", c.ws, &ySection{}).err
	exps := make([]mExpect, len(c.l.mods))
	for i, m := range c.l.mods {
		exps[i] = mExpectModule(m.dir, c.ws, c.sec(i))
		expErr = expErr || exps[i].err
	}
	if expErr {
		if j.own.code == 0 || j.own.code == 100 {
			c.fail("C06-yaml-invalid-path-accepted", "the command accepts a buf.yaml with a path outside the workspace / module / nested in another path", j.text, more())
		}
		return
	}
	baseAnns, ok1 := parseCliAnns(j.base.stdout, "")
	ownAnns, ok2 := parseCliAnns(j.own.stdout, "")
	if !(j.base.code == 0 || j.base.code == 100) || !ok1 {
		c.fail("C06-workspace-cli-baseline-failed", "the command fails on the workspace WITHOUT ignore / ignore_only keys", j.baseText, more("stderr", j.base.stderr, "stdout", j.base.stdout, "code", j.base.code))
		return
	}
	if !(j.own.code == 0 || j.own.code == 100) || !ok2 {
		c.fail("C06-yaml-valid-config-rejected", "the command fails on a valid multi-module workspace", j.text, more("stderr", j.own.stderr, "code", j.own.code))
		return
	}
	if len(baseAnns) == 0 {
		c.fail("C06-workspace-cli-baseline-failed", "the workspace without ignore keys reports nothing (the planted violations are not observable)", j.baseText, more())
		return
	}
	ownerOf := func(p string) int {
		best, bl := -1, -1
		for i, m := range c.l.mods {
			n := len(m.dir)
			if m.dir == "." {
				n = 0
			}
			if mInside(m.dir, p) && n > bl {
				best, bl = i, n
			}
		}
		return best
	}
	check := func(anns []cliAnn, only int, label string) {
		got := map[string]bool{}
		for _, a := range anns {
			got[a.key()] = true
		}
		baseSet := map[string]bool{}
		for _, a := range baseAnns {
			i := ownerOf(a.Path)
			if i < 0 || only >= 0 && i != only {
				continue
			}
			baseSet[a.key()] = true
			e, m := exps[i], c.l.mods[i]
			inside, above, by := false, false, ""
			if e.disabled {
				inside, by = true, m.dir
			}
			if e.sec.has("ignore") && !e.disabled {
				in, ab, b := mCovered(m.dir, e.sec.ignore, a.Path)
				inside, above, by = in, ab, b
			}
			if e.sec.has("ignore_only") && !e.disabled && !inside {
				for _, key := range e.sec.ioKeys {
					if exp, _ := expandID(versions[2], c.lint, key); slices.Contains(exp, a.Type) {
						in, ab, b := mCovered(m.dir, e.sec.ioPaths[key], a.Path)
						if in {
							inside, by = true, b
						} else if ab {
							above, by = true, b
						}
					}
				}
			}
			switch {
			case inside && got[a.key()]:
				c.fail("C06-workspace-ignore-not-applied", fmt.Sprintf("%s: %s annotation in %s (module %s) is reported although the file lies under the path %q of the section that applies to its module", label, a.Type, a.Path, m.dir, by),
					j.text, more("annotation", a.key()))
			case !inside && !above && !got[a.key()]:
				c.fail("C06-workspace-ignore-leaks-to-other-module", fmt.Sprintf("%s: %s annotation in %s (module %s) is reported without the ignore / ignore_only keys and disappears with them although no path of the section that applies to its module covers that file (paths are relative to the workspace root)", label, a.Type, a.Path, m.dir),
					j.text, more("annotation", a.key(), "buf.yaml_without_ignores", j.baseText))
			case above && got[a.key()]:
				run.Count("multi:cli:ancestor-of-module-root:reported")
			}
		}
		for k := range got {
			if !baseSet[k] {
				c.fail("C06-suppression-adds-annotation", label+": an annotation appears only WITH the ignore / ignore_only keys", j.text, more("annotation", k))
			}
		}
	}
	check(ownAnns, -1, cmd)
	if j.modDir != "" {
		run.Eval()
		anns, ok := parseCliAnns(j.mod.stdout, "")
		if !(j.mod.code == 0 || j.mod.code == 100) || !ok {
			c.fail("C06-yaml-valid-config-rejected", "buf lint <workspace>/"+j.modDir+" fails on a valid multi-module workspace", j.text, more("stderr", j.mod.stderr, "code", j.mod.code))
			return
		}
		for i, m := range c.l.mods {
			if m.dir == j.modDir {
				check(anns, i, "buf lint <workspace>/"+j.modDir)
			}
		}
	}
}
