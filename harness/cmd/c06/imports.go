package main

// Section F — import-only files that SHARE packages and directories with target files, and
// ignore paths that split the participants of a cross-file violation.
//
// A world is a small workspace: two target files (t1, t2), two import-only files (i1, i2) that
// t1 imports, a shared import-only types file, optional cycle files and optional unused / public
// import files.  Every file carries violations of every kind of per-element rule; for every
// cross-file rule the four files get attribute values (option value / directory / package /
// rpc request type) from a PATTERN: disagreement only between a target and an import, between the
// two targets with an agreeing import, between the two targets with an import holding a third
// value, only among the imports, or none.  Patterns rotate deterministically over the first
// worlds of the section (rule x pattern x build mode), later worlds draw them at random.
//
// Every world is built FOUR ways: all files targets (the control: the planted violations must be
// observable), and three ways in which only t1 / t2 (/ x1 / x2) are targets:
//   module-paths  one module, bufmodule.LocalModuleWithTargetPaths (what `buf lint --path` does),
//   image-paths   bufimage.ImageWithOnlyPaths / ...AllowNotExist on the full image,
//   dep-module    target module + NON-targeted dependency module that contributes files to the
//                 same protobuf packages and directories.
//
// Oracle (implementation only):
//   (a) no rule run alone, and no Client.Lint report, locates an annotation in a file that is not
//       a target of the build (which files are targets is known from the WORLD, not from the
//       image's flags; the flags are checked against the world too);
//   (b) per cross-file rule the set of annotated files is what the rule's documentation gives
//       when it is applied to the TARGET files alone (imports neither reported nor compared;
//       PACKAGE_NO_IMPORT_CYCLE: as coded the cycle may run through imports, only the
//       import statement in a target is reported), the three targeted builds give the same
//       report, and replacing the content of every import-only file by a neutral stub (same
//       path, package and exported type names; no options, no other declarations, no imports)
//       leaves the report unchanged for every rule except PACKAGE_NO_IMPORT_CYCLE;
//   (c) adding `ignore` (file or directory) or `ignore_only` paths that cover only SOME of the
//       files taking part in a cross-file violation removes exactly the annotations located in
//       the covered files: report(with) == { a in report(without) | a's file not covered }.

import (
	"fmt"
	"slices"
	"sort"
	"strings"

	"github.com/bufbuild/buf/private/bufpkg/bufimage"
	"github.com/bufbuild/buf/private/bufpkg/bufmodule"
	"github.com/bufbuild/buf/private/bufpkg/bufmodule/bufmoduletesting"
	"github.com/bufbuild/buf/private/pkg/slogext"
	"github.com/bufbuild/buf/private/pkg/storage/storagemem"
	"github.com/bufbuild/verifharness/internal/hx"
)

type iimp struct {
	path   string
	public bool
}

type ifile struct {
	role    string
	dir     string
	pkg     string
	target  bool // a target of the targeted builds (every file is a target of the full build)
	proto2  bool
	opts    map[string]string // option name -> literal; absent = no statement
	imports []iimp
	req     int      // request type index of the file's rpc; -1 = no service
	elems   bool     // carries the per-element violations
	uses    []string // fully-qualified message types used as fields of <Role>Msg
	extra   []string // extra top-level declarations (kept in the neutral stub)
	unused  bool     // has an import that is not used
	public  bool     // has a public import
}

func (f *ifile) path() string { return f.dir + "/" + f.role + ".proto" }
func (f *ifile) Role() string { return strings.ToUpper(f.role[:1]) + f.role[1:] }
func (f *ifile) msg() string  { return f.pkg + "." + f.Role() + "Msg" }

var optRules = []struct {
	rule, opt string
	vals      [3]string
}{
	{"PACKAGE_SAME_GO_PACKAGE", "go_package", [3]string{`"example.com/x"`, `"example.com/y"`, `"example.com/z"`}},
	{"PACKAGE_SAME_JAVA_PACKAGE", "java_package", [3]string{`"com.x"`, `"com.y"`, `"com.z"`}},
	{"PACKAGE_SAME_JAVA_MULTIPLE_FILES", "java_multiple_files", [3]string{"true", "false", ""}},
	{"PACKAGE_SAME_CSHARP_NAMESPACE", "csharp_namespace", [3]string{`"X.V1"`, `"Y.V1"`, `"Z.V1"`}},
	{"PACKAGE_SAME_PHP_NAMESPACE", "php_namespace", [3]string{`"X\\V1"`, `"Y\\V1"`, `"Z\\V1"`}},
	{"PACKAGE_SAME_RUBY_PACKAGE", "ruby_package", [3]string{`"X::V1"`, `"Y::V1"`, `"Z::V1"`}},
	{"PACKAGE_SAME_SWIFT_PREFIX", "swift_prefix", [3]string{`"XV"`, `"YV"`, `"ZV"`}},
}

// attribute patterns over [t1, t2, i1, i2]
var slotPatterns = [][4]int{
	{0, 0, 1, 0}, // disagreement only between a target and an import
	{0, 1, 0, 1}, // the targets disagree, each import agrees with one of them
	{0, 1, 2, 2}, // the targets disagree, the imports hold a third value
	{0, 0, 1, 2}, // the imports disagree among themselves (and with the targets)
	{0, 0, 0, 0}, // agreement
}
var slotPatternNames = []string{"target-vs-import", "targets+import-agrees", "targets+import-third", "imports-disagree", "all-agree"}

// request type index per [t1, t2, i1, i2]: sharing = equal index
var rpcPatterns = [][4]int{
	{0, 1, 0, 2}, // a target rpc and an import rpc share the request type
	{0, 0, 0, 1}, // the two target rpcs share it (and an import rpc too)
	{0, 1, 2, 2}, // only the import rpcs share
	{0, 1, 2, 3}, // nobody shares
}
var rpcPatternNames = []string{"target-shares-with-import", "targets-share", "imports-share", "none-share"}

var cycPatternNames = []string{"no-cycle", "target->import->import-of-target-package", "cycle-among-imports-only", "target->target->import"}
var impPatternNames = []string{"none", "in-import", "in-target", "in-both"}

var dirPool = []string{"pk/v1", "other", "third/sub"}
var pkgPool = []string{"pk.v1", "pk.other.v1", "alt.v1"}

const (
	modeFull = iota
	modeModulePaths
	modeImagePaths
	modeDepModule
)

var modeNames = []string{"full", "module-paths", "image-paths", "dep-module"}

type impWorld struct {
	k      int
	files  []*ifile
	byRole map[string]*ifile
	cyc    int
	desc   map[string]any
}

func (w *impWorld) add(f *ifile) *ifile {
	if f.opts == nil {
		f.opts = map[string]string{}
	}
	w.files = append(w.files, f)
	w.byRole[f.role] = f
	return f
}

// genImpWorld: strata (k < nImpStrata) pick every pattern from k; later worlds draw at random.
const nImpStrata = 15

func genImpWorld(k int, r *hx.Rand) *impWorld {
	w := &impWorld{k: k, byRole: map[string]*ifile{}}
	strat := k < nImpStrata
	pick := func(det, n int) int {
		if strat {
			return det % n
		}
		return r.Intn(n)
	}
	kind := pick(k, 3) // 0: options only, 1: directories vary, 2: packages vary
	layoutPat := pick(k/3, len(slotPatterns))
	rpcPat := pick(k+3, len(rpcPatterns))
	w.cyc = pick(k/2, 4)
	impPat := pick(k/3, 4)
	unsetAt := pick(k/5, 4) // which value index is spelled as "no option statement" (3 = none)
	roles := []string{"t1", "t2", "i1", "i2"}
	four := make([]*ifile, 4)
	optPats := map[string]string{}
	for i, role := range roles {
		f := &ifile{role: role, dir: dirPool[0], pkg: pkgPool[0], target: i < 2, elems: true, req: rpcPatterns[rpcPat][i], opts: map[string]string{}}
		switch kind {
		case 1:
			f.dir = dirPool[slotPatterns[layoutPat][i]]
		case 2:
			f.pkg = pkgPool[slotPatterns[layoutPat][i]]
		}
		f.proto2 = role == "i2"
		four[i] = f
	}
	for j, o := range optRules {
		pat := pick(k+j, len(slotPatterns))
		optPats[o.rule] = slotPatternNames[pat]
		for i, f := range four {
			vi := slotPatterns[pat][i]
			if vi == unsetAt {
				continue
			}
			if lit := o.vals[vi]; lit != "" {
				f.opts[o.opt] = lit
			}
		}
	}
	types := &ifile{role: "types", dir: "common", pkg: "common.v1", req: -1,
		extra: []string{"message Req0 {}", "message Req1 {}", "message Req2 {}", "message Req3 {}"}}
	t1, t2, i1, i2 := four[0], four[1], four[2], four[3]
	for _, f := range four {
		f.imports = append(f.imports, iimp{path: types.path()})
	}
	t1.imports = append(t1.imports, iimp{path: i1.path()}, iimp{path: i2.path()})
	t1.uses = append(t1.uses, i1.msg(), i2.msg())
	for _, f := range four {
		w.add(f)
	}
	w.add(types)
	// unused / public imports
	addSide := func(f *ifile) {
		// the unused import lives in an UNSTABLE package (STABLE_PACKAGE_NO_IMPORT_UNSTABLE, v2)
		u := w.add(&ifile{role: "unused_" + f.role, dir: "common", pkg: "common.v1beta1", req: -1})
		p := w.add(&ifile{role: "pub_" + f.role, dir: "common", pkg: "common.v1", req: -1})
		f.imports = append(f.imports, iimp{path: u.path()}, iimp{path: p.path(), public: true})
		f.unused, f.public = true, true
	}
	if impPat == 1 || impPat == 3 {
		addSide(i1)
	}
	if impPat == 2 || impPat == 3 {
		addSide(t1)
	}
	// import cycles between packages
	mk := func(role, dir, pkg string, target bool, imports ...*ifile) *ifile {
		f := &ifile{role: role, dir: dir, pkg: pkg, target: target, req: -1}
		for _, im := range imports {
			f.imports = append(f.imports, iimp{path: im.path()})
			f.uses = append(f.uses, im.msg())
		}
		return w.add(f)
	}
	switch w.cyc {
	case 1:
		// t1 (its package) -> c1 (cyc.v1, import) -> b1 (t1's package again, import)
		b1 := mk("b1", "back", t1.pkg, false)
		c1 := mk("c1", "cyc/v1", "cyc.v1", false, b1)
		t1.imports = append(t1.imports, iimp{path: c1.path()})
		t1.uses = append(t1.uses, c1.msg())
	case 2:
		// t1 -> c1 (cyc.v1) -> c2 (cyd.v1) -> c3 (cyc.v1): the cycle does not touch a target package
		c3 := mk("c3", "cyc/v1", "cyc.v1", false)
		c2 := mk("c2", "cyd/v1", "cyd.v1", false, c3)
		c1 := mk("c1", "cyc/v1", "cyc.v1", false, c2)
		t1.imports = append(t1.imports, iimp{path: c1.path()})
		t1.uses = append(t1.uses, c1.msg())
	case 3:
		// x1 (zz.v1, target) -> x2 (zy.v1, target) -> x3 (zz.v1, import)
		x3 := mk("x3", "zz/v1", "zz.v1", false)
		x2 := mk("x2", "zy/v1", "zy.v1", true, x3)
		mk("x1", "zz/v1", "zz.v1", true, x2)
	}
	_ = t2
	w.desc = map[string]any{"world": k, "kind": []string{"options", "directories-vary", "packages-vary"}[kind],
		"layout_pattern": slotPatternNames[layoutPat], "option_patterns": optPats, "rpc_pattern": rpcPatternNames[rpcPat],
		"cycle_pattern": cycPatternNames[w.cyc], "unused_and_public_imports": impPatternNames[impPat]}
	return w
}

func (f *ifile) render(neutral bool) string {
	var b []string
	label := ""
	if f.proto2 && !neutral {
		b = append(b, `syntax = "proto2";`)
		label = "optional "
	} else {
		b = append(b, `syntax = "proto3";`)
	}
	b = append(b, "package "+f.pkg+";")
	if neutral {
		b = append(b, "message "+f.Role()+"Msg {}")
		b = append(b, f.extra...)
		return strings.Join(b, "\n") + "\n"
	}
	for _, im := range f.imports {
		if im.public {
			b = append(b, `import public "`+im.path+`";`)
		} else {
			b = append(b, `import "`+im.path+`";`)
		}
	}
	for _, o := range optRules {
		if lit, ok := f.opts[o.opt]; ok {
			b = append(b, "option "+o.opt+" = "+lit+";")
		}
	}
	b = append(b, "message "+f.Role()+"Msg {")
	for i, u := range f.uses {
		b = append(b, fmt.Sprintf("  %s%s u%d = %d;", label, u, i, i+1))
	}
	b = append(b, "}")
	b = append(b, f.extra...)
	if f.elems {
		s := f.role
		b = append(b, "message bad_msg_"+s+" {",
			"  "+label+"string BadField = 1;",
			"  oneof BadOneof {",
			"    string InOneof = 2;",
			"  }",
			"  enum bad_enum {",
			"    bad_value = 0;",
			"  }")
		if f.proto2 {
			b = append(b, "  required int32 Needed = 3;")
		}
		b = append(b, "}",
			"enum top_enum_"+s+" {",
			"  top_bad_"+s+" = 0;",
			"}")
	}
	if f.req >= 0 {
		b = append(b, "message "+f.Role()+"Resp {}",
			"service bad_service_"+f.role+" {",
			fmt.Sprintf("  rpc do_%s(common.v1.Req%d) returns (%sResp);", f.role, f.req, f.Role()),
			"}")
	}
	return strings.Join(b, "\n") + "\n"
}

func (w *impWorld) sources(neutralImports bool) map[string][]byte {
	out := map[string][]byte{}
	for _, f := range w.files {
		out[f.path()] = []byte(f.render(neutralImports && !f.target))
	}
	return out
}

func (w *impWorld) targetPaths() []string {
	var out []string
	for _, f := range w.files {
		if f.target {
			out = append(out, f.path())
		}
	}
	sort.Strings(out)
	return out
}

// build: the image of the world in the given mode.  variant switches between equivalent
// spellings of the mode (ImageWithOnlyPaths vs ...AllowNotExist with an extra missing path;
// target paths vs exclude paths).
func (w *impWorld) build(mode int, neutralImports bool, variant int) (bufimage.Image, error) {
	return buildTargeted(w.sources(neutralImports), w.targetPaths(), mode, variant)
}

// buildTargeted builds the image of src in which only `targets` are targets (modeFull: all).
func buildTargeted(src map[string][]byte, targets []string, mode, variant int) (img bufimage.Image, err error) {
	defer func() {
		if p := recover(); p != nil {
			img, err = nil, fmt.Errorf("panic: %v", p)
		}
	}()
	isTarget := map[string]bool{}
	for _, p := range targets {
		isTarget[p] = true
	}
	split := func(keep func(string) bool) map[string][]byte {
		m := map[string][]byte{}
		for p, d := range src {
			if keep(p) {
				m[p] = d
			}
		}
		return m
	}
	fullImage := func() (bufimage.Image, error) {
		ms, err := bufmoduletesting.NewModuleSetForPathToData(src)
		if err != nil {
			return nil, err
		}
		return bufimage.BuildImage(ctx, logger, bufmodule.ModuleSetToModuleReadBucketWithOnlyProtoFiles(ms))
	}
	switch mode {
	case modeFull:
		return fullImage()
	case modeImagePaths:
		full, err := fullImage()
		if err != nil {
			return nil, err
		}
		if variant%2 == 1 {
			return bufimage.ImageWithOnlyPathsAllowNotExist(full, append(slices.Clone(targets), "not/there.proto"), nil)
		}
		return bufimage.ImageWithOnlyPaths(full, targets, nil)
	case modeModulePaths:
		bucket, err := storagemem.NewReadBucket(src)
		if err != nil {
			return nil, err
		}
		b := bufmodule.NewModuleSetBuilder(ctx, slogext.NopLogger, bufmodule.NopModuleDataProvider, bufmodule.NopCommitProvider)
		opt := bufmodule.LocalModuleWithTargetPaths(targets, nil)
		if variant%2 == 1 {
			var excl []string
			for p := range src {
				if !isTarget[p] {
					excl = append(excl, p)
				}
			}
			sort.Strings(excl)
			opt = bufmodule.LocalModuleWithTargetPaths(nil, excl)
		}
		b.AddLocalModule(bucket, "c06-imports-module", true, opt)
		ms, err := b.Build()
		if err != nil {
			return nil, err
		}
		return bufimage.BuildImage(ctx, logger, bufmodule.ModuleSetToModuleReadBucketWithOnlyProtoFiles(ms))
	case modeDepModule:
		ms, err := bufmoduletesting.NewModuleSet(
			bufmoduletesting.ModuleData{Name: "buf.build/c06/main", PathToData: split(func(p string) bool { return isTarget[p] })},
			bufmoduletesting.ModuleData{Name: "buf.build/c06/dep", PathToData: split(func(p string) bool { return !isTarget[p] }), NotTargeted: true})
		if err != nil {
			return nil, err
		}
		return bufimage.BuildImage(ctx, logger, bufmodule.ModuleSetToModuleReadBucketWithOnlyProtoFiles(ms))
	}
	return nil, fmt.Errorf("unknown mode %d", mode)
}

// ---------------------------------------------------------------------------------------------
// reference: what the documentation of each cross-file rule gives on the TARGET files alone

var elemRules = []string{"MESSAGE_PASCAL_CASE", "FIELD_LOWER_SNAKE_CASE", "ONEOF_LOWER_SNAKE_CASE", "ENUM_PASCAL_CASE",
	"ENUM_VALUE_UPPER_SNAKE_CASE", "SERVICE_PASCAL_CASE", "RPC_PASCAL_CASE", "COMMENT_MESSAGE", "COMMENT_ENUM", "COMMENT_RPC"}

func (w *impWorld) attr(rule string, f *ifile) (group, value string, ok bool) {
	for _, o := range optRules {
		if o.rule == rule {
			return f.pkg, f.opts[o.opt], true
		}
	}
	switch rule {
	case "PACKAGE_SAME_DIRECTORY":
		return f.pkg, f.dir, true
	case "DIRECTORY_SAME_PACKAGE":
		return f.dir, f.pkg, true
	}
	return "", "", false
}

var groupRules = func() []string {
	out := []string{"PACKAGE_SAME_DIRECTORY", "DIRECTORY_SAME_PACKAGE"}
	for _, o := range optRules {
		out = append(out, o.rule)
	}
	return out
}()

var crossRules = append(append([]string{}, groupRules...), "PACKAGE_DIRECTORY_MATCH", "RPC_REQUEST_RESPONSE_UNIQUE",
	"PACKAGE_NO_IMPORT_CYCLE", "IMPORT_USED", "IMPORT_NO_PUBLIC")

// expect returns, for a rule, the files that must carry at least one annotation and the files
// that may; known = false when the reference says nothing about the rule.
func (w *impWorld) expect(rule string, isTarget func(*ifile) bool) (must, may map[string]bool, known bool) {
	must, may = map[string]bool{}, map[string]bool{}
	both := func(f *ifile) { must[f.path()], may[f.path()] = true, true }
	var targets []*ifile
	for _, f := range w.files {
		if isTarget(f) {
			targets = append(targets, f)
		}
	}
	if _, _, ok := w.attr(rule, w.files[0]); ok {
		values := map[string]map[string]bool{}
		for _, f := range targets {
			g, v, _ := w.attr(rule, f)
			if values[g] == nil {
				values[g] = map[string]bool{}
			}
			values[g][v] = true
		}
		for _, f := range targets {
			if g, _, _ := w.attr(rule, f); len(values[g]) > 1 {
				both(f)
			}
		}
		return must, may, true
	}
	switch rule {
	case "PACKAGE_DIRECTORY_MATCH":
		for _, f := range targets {
			if strings.ReplaceAll(f.pkg, ".", "/") != f.dir {
				both(f)
			}
		}
	case "RPC_REQUEST_RESPONSE_UNIQUE":
		n := map[int]int{}
		for _, f := range targets {
			if f.req >= 0 {
				n[f.req]++
			}
		}
		for _, f := range targets {
			if f.req >= 0 && n[f.req] > 1 {
				both(f)
			}
		}
	case "PACKAGE_NO_IMPORT_CYCLE":
		// as coded: the import graph of ALL files (imports included) is searched, the import
		// statements of non-import files on a cycle back to their own package are reported
		roles := map[int][]string{1: {"t1"}, 3: {"x1", "x2"}}[w.cyc]
		for _, role := range roles {
			if f := w.byRole[role]; isTarget(f) {
				both(f)
			}
		}
		if w.cyc == 2 {
			for _, role := range []string{"c1", "c2"} {
				if f := w.byRole[role]; isTarget(f) {
					both(f)
				}
			}
		}
		if w.cyc == 1 {
			if f := w.byRole["c1"]; isTarget(f) {
				both(f)
			}
		}
		if w.cyc == 3 {
			// x3 imports nothing
		}
	case "IMPORT_NO_PUBLIC":
		for _, f := range targets {
			if f.public {
				both(f)
			}
		}
	case "IMPORT_USED":
		for _, f := range targets {
			if f.unused {
				both(f)
			}
			if f.public {
				may[f.path()] = true
			}
		}
	default:
		if slices.Contains(elemRules, rule) {
			for _, f := range targets {
				may[f.path()] = true
				if f.elems {
					must[f.path()] = true
				}
			}
			return must, may, true
		}
		return nil, nil, false
	}
	return must, may, true
}

// ---------------------------------------------------------------------------------------------

type impImage struct {
	*image
	w        *impWorld
	mode     int
	isTarget func(*ifile) bool
	reports  map[string][]fa // version name -> report with all rules, no suppression
}

func (w *impWorld) input(mode int, c *cfgSpec, more map[string]any) map[string]any {
	src := map[string]string{}
	for p, d := range w.sources(false) {
		src[p] = string(d)
	}
	m := map[string]any{"world": w.desc, "build_mode": modeNames[mode], "targets": w.targetPaths(), "sources": src,
		"replay": impReplay(w, mode)}
	if mode == modeFull {
		m["targets"] = "all files"
	}
	for k, v := range more {
		m[k] = v
	}
	return m
}

func impReplay(w *impWorld, mode int) string {
	return fmt.Sprintf("C06_SECTIONS=imports build/c06 --seed %d --tier %s --out /tmp/c06-replay   (world %d, build mode %s)", run.Seed, run.Tier, w.k, modeNames[mode])
}

func impFail(class, what string, w *impWorld, mode int, c *cfgSpec, more map[string]any) {
	in := w.input(mode, c, more)
	if c != nil {
		in["config"] = c.describe()
	}
	delete(in, "replay")
	run.Fail(hx.OracleFailure{Class: class, What: what, Input: in, Replay: impReplay(w, mode)})
}

func allRulesCfg(v *version) *cfgSpec {
	var use []string
	for _, id := range v.lintLive {
		if id != "PROTOVALIDATE" {
			use = append(use, id)
		}
	}
	return &cfgSpec{ver: v, lint: true, validated: true, use: use, ioPaths: map[string][]string{}}
}

func checkLine(c *cfgSpec, im *image) string {
	return "check\t" + c.fields() + "\t" + b01(c.aci) + b01(c.iup) + b01(c.exi) + "\t" + im.proto[c.ver.name]
}

func filesWith(fas []fa, rule string) map[string]bool {
	out := map[string]bool{}
	for _, a := range fas {
		if a.typ == rule {
			out[a.path] = true
		}
	}
	return out
}

var impStrata = map[string]int{}

// newImpImage builds, measures (in the given versions) and runs the whole-rule-set lint.
func newImpImage(w *impWorld, mode, variant int, vers []*version) *impImage {
	img, err := w.build(mode, false, variant)
	if err != nil {
		impFail("C06-import-family-build-failed", "building the world failed: "+err.Error(), w, mode, nil, nil)
		return nil
	}
	ii := &impImage{image: &image{img: img, importPaths: map[string]bool{}, sources: map[string]string{}}, w: w, mode: mode, reports: map[string][]fa{}}
	ii.isTarget = func(f *ifile) bool { return f != nil && (mode == modeFull || f.target) }
	byPath := map[string]*ifile{}
	for _, f := range w.files {
		byPath[f.path()] = f
	}
	// (a0) the image's import flags are the world's: exactly the non-target files are imports
	present := map[string]bool{}
	for _, f := range img.Files() {
		present[f.Path()] = true
		wf := byPath[f.Path()]
		if wf == nil {
			continue
		}
		if !ii.isTarget(wf) {
			ii.importPaths[f.Path()] = true
		}
		if f.IsImport() == ii.isTarget(wf) {
			impFail("C06-import-flag-wrong", fmt.Sprintf("file %s: IsImport()=%v but the file is target=%v in this build", f.Path(), f.IsImport(), ii.isTarget(wf)), w, mode, nil, nil)
		}
	}
	for _, f := range w.files {
		if !present[f.path()] {
			impFail("C06-import-flag-wrong", "file "+f.path()+" is reachable from the targets but missing in the image", w, mode, nil, nil)
		}
	}
	ii.onlyVers = vers
	ii.measureWith(true, nil, true, map[string]bool{"PROTOVALIDATE": true})
	for _, v := range vers {
		// (a) no rule, run alone, locates anything in a non-target file
		for _, id := range sortedKeys(setOf(v.lintLive)) {
			for _, a := range ii.single[v.name][id] {
				if ii.importPaths[a.path] {
					impFail("C06-import-reported", fmt.Sprintf("rule %s run alone reports import-only file %s (%s build, %s)", id, a.path, modeNames[mode], v.name), w, mode, nil, map[string]any{"annotation": a.key()})
				}
			}
		}
		c := allRulesCfg(v)
		got, class := runCheck(c, ii.image)
		run.Case(checkLine(c, ii.image), implLine(got, class), true)
		run.Count("imports:runs:" + modeNames[mode] + ":" + v.name)
		if class != "" {
			impFail("C06-import-family-run-failed", "Client.Lint failed: "+class, w, mode, c, nil)
			continue
		}
		ii.reports[v.name] = got
		exactnessOracle(c, ii.image, got, c.use, false, "", w.input(mode, c, nil))
		// (b1) the documented semantics on the target files alone
		for _, rule := range append(append([]string{}, crossRules...), elemRules...) {
			if !slices.Contains(c.use, rule) {
				continue
			}
			must, may, known := w.expect(rule, ii.isTarget)
			if !known {
				continue
			}
			have := filesWith(got, rule)
			run.CountN("imports:expected-annotated-files:"+modeNames[mode]+":"+rule, len(must))
			for p := range must {
				if !have[p] {
					impFail("C06-import-masks-target", fmt.Sprintf("%s (%s, %s build): target file %s should be reported (the rule applied to the target files alone reports it) but is not", rule, v.name, modeNames[mode], p), w, mode, c, nil)
				}
			}
			for p := range have {
				if ii.importPaths[p] {
					impFail("C06-import-reported", fmt.Sprintf("%s (%s, %s build): import-only file %s is reported", rule, v.name, modeNames[mode], p), w, mode, c, nil)
				} else if !may[p] {
					impFail("C06-import-compared", fmt.Sprintf("%s (%s, %s build): target file %s is reported although the rule applied to the target files alone reports nothing there (only an import-only file disagrees / shares)", rule, v.name, modeNames[mode], p), w, mode, c, nil)
				}
			}
			run.Eval()
		}
		ii.countStrata(v)
	}
	return ii
}

// countStrata records which (rule, situation, build mode) classes the image realises.
func (ii *impImage) countStrata(v *version) {
	if ii.mode == modeFull {
		return
	}
	w := ii.w
	for _, rule := range groupRules {
		if !slices.Contains(v.lintLive, rule) {
			continue
		}
		type grp struct {
			tv, iv map[string]bool
		}
		groups := map[string]*grp{}
		for _, f := range w.files {
			g, val, _ := w.attr(rule, f)
			if groups[g] == nil {
				groups[g] = &grp{tv: map[string]bool{}, iv: map[string]bool{}}
			}
			if f.target {
				groups[g].tv[val] = true
			} else {
				groups[g].iv[val] = true
			}
		}
		for _, g := range groups {
			if len(g.tv) == 0 {
				if len(g.iv) > 1 {
					impStrata[rule+" / imports-only-group-disagrees / "+modeNames[ii.mode]]++
				}
				continue
			}
			out := 0
			for val := range g.iv {
				if !g.tv[val] {
					out++
				}
			}
			switch {
			case len(g.tv) == 1 && out > 0:
				impStrata[rule+" / target-vs-import / "+modeNames[ii.mode]]++
			case len(g.tv) > 1 && len(g.iv) > 0:
				impStrata[rule+" / targets-disagree-with-import-present / "+modeNames[ii.mode]]++
			}
		}
	}
	for i, name := range rpcPatternNames {
		if w.desc["rpc_pattern"] == name && i < 3 {
			impStrata["RPC_REQUEST_RESPONSE_UNIQUE / "+name+" / "+modeNames[ii.mode]]++
		}
	}
	if w.cyc > 0 {
		impStrata["PACKAGE_NO_IMPORT_CYCLE / "+cycPatternNames[w.cyc]+" / "+modeNames[ii.mode]]++
	}
	if p := w.desc["unused_and_public_imports"].(string); p != "none" {
		impStrata["IMPORT_USED+IMPORT_NO_PUBLIC / "+p+" / "+modeNames[ii.mode]]++
	}
	impStrata["per-element rules in import files / "+modeNames[ii.mode]]++
}

func keysOf(fas []fa, skipRule string) []string {
	var out []string
	for _, a := range fas {
		if a.typ != skipRule {
			out = append(out, a.key())
		}
	}
	sort.Strings(out)
	return out
}

// ---------------------------------------------------------------------------------------------
// (c) ignore paths that split the participants of a cross-file violation

var ignQuota = map[string]int{}

type ignCase struct {
	rule, kind string
	c          *cfgSpec
	covered    func(a fa) bool
}

func dirOf(p string) string {
	if i := strings.LastIndex(p, "/"); i >= 0 {
		return p[:i]
	}
	return "."
}

// splitCases: for every cross-file rule whose violation around t1 has participants with another
// value, the configurations that ignore exactly those participants.
func (ii *impImage) splitCases(v *version) []ignCase {
	w := ii.w
	var out []ignCase
	t1 := w.byRole["t1"]
	var targets []*ifile
	for _, f := range w.files {
		if ii.isTarget(f) {
			targets = append(targets, f)
		}
	}
	for _, rule := range append(append([]string{}, groupRules...), "RPC_REQUEST_RESPONSE_UNIQUE", "PACKAGE_NO_IMPORT_CYCLE") {
		if !slices.Contains(v.lintLive, rule) {
			continue
		}
		var s, rest []*ifile
		switch rule {
		case "RPC_REQUEST_RESPONSE_UNIQUE":
			for _, f := range targets {
				if f.req == t1.req && f != t1 {
					s = append(s, f)
				}
			}
			rest = []*ifile{t1}
		case "PACKAGE_NO_IMPORT_CYCLE":
			if w.cyc == 3 {
				s, rest = []*ifile{w.byRole["x2"]}, []*ifile{w.byRole["x1"]}
			}
		default:
			g1, v1, _ := w.attr(rule, t1)
			for _, f := range targets {
				if g, val, _ := w.attr(rule, f); g == g1 {
					if val != v1 {
						s = append(s, f)
					} else {
						rest = append(rest, f)
					}
				}
			}
		}
		if len(s) == 0 {
			continue
		}
		var paths, dirs []string
		dirsOK := true
		for _, f := range s {
			paths = append(paths, f.path())
			if !slices.Contains(dirs, f.dir) {
				dirs = append(dirs, f.dir)
			}
		}
		for _, f := range rest {
			for _, d := range dirs {
				if under(f.path(), d) {
					dirsOK = false
				}
			}
		}
		sort.Strings(paths)
		sort.Strings(dirs)
		under1 := func(ps []string) func(a fa) bool {
			return func(a fa) bool {
				for _, p := range ps {
					if a.path != "\x00nil" && under(a.path, p) {
						return true
					}
				}
				return false
			}
		}
		base := allRulesCfg(v)
		mk := func(kind string, mod func(c *cfgSpec), cov func(a fa) bool) {
			c := base.clone()
			mod(c)
			out = append(out, ignCase{rule: rule, kind: kind, c: c, covered: cov})
		}
		mk("ignore-file", func(c *cfgSpec) { c.ignore = paths }, under1(paths))
		if dirsOK {
			mk("ignore-dir", func(c *cfgSpec) { c.ignore = dirs }, under1(dirs))
		}
		mk("ignore_only-rule", func(c *cfgSpec) { c.ioKeys = []string{rule}; c.ioPaths[rule] = paths },
			func(a fa) bool { return a.typ == rule && under1(paths)(a) })
		// a category that contains the rule, as ignore_only key, over the directories when possible
		if cats := ruleCategories[rule]; len(cats) > 0 {
			cat := cats[(w.k+len(out))%len(cats)]
			if e, ok := expandID(v, true, cat); ok && slices.Contains(e, rule) {
				ps := paths
				if dirsOK {
					ps = dirs
				}
				mk("ignore_only-category", func(c *cfgSpec) { c.ioKeys = []string{cat}; c.ioPaths[cat] = ps },
					func(a fa) bool { return slices.Contains(e, a.typ) && under1(ps)(a) })
			}
		}
	}
	return out
}

func (ii *impImage) ignoreFamily(v *version, quota int) {
	without, ok := ii.reports[v.name]
	if !ok {
		return
	}
	imgKind := "full"
	if ii.mode != modeFull {
		imgKind = "targeted"
	}
	for _, ic := range ii.splitCases(v) {
		// does the violation really have annotations on both sides of the path?
		in, outside := 0, 0
		for _, a := range without {
			if a.typ != ic.rule {
				continue
			}
			if ic.covered(fa{path: a.path, typ: ic.rule}) || ic.kind == "ignore_only-category" && ic.covered(a) {
				in++
			} else {
				outside++
			}
		}
		if in == 0 || outside == 0 {
			run.Count("ignfam:not-split:" + ic.kind)
			continue
		}
		key := ic.rule + " / " + ic.kind + " / " + v.name + " / " + imgKind
		if ignQuota[key] >= quota {
			continue
		}
		ignQuota[key]++
		got, class := runCheck(ic.c, ii.image)
		run.Case(checkLine(ic.c, ii.image), implLine(got, class), true)
		run.Count("ignfam:runs:" + ic.kind + ":" + v.name + ":" + imgKind)
		more := map[string]any{"split_rule": ic.rule, "ignore_kind": ic.kind}
		if class != "" {
			impFail("C06-import-family-run-failed", "Client.Lint failed with the ignore configuration: "+class, ii.w, ii.mode, ic.c, more)
			continue
		}
		gotSet := faSet(got)
		withoutSet := faSet(without)
		wkeys := make([]string, 0, len(withoutSet))
		for k := range withoutSet {
			wkeys = append(wkeys, k)
		}
		sort.Strings(wkeys)
		for _, k := range wkeys {
			a := withoutSet[k]
			_, still := gotSet[k]
			switch {
			case ic.covered(a) && still:
				impFail("C06-suppression-not-applied", fmt.Sprintf("%s: annotation in %s survives although the file is covered by the added %s", a.typ, a.path, ic.kind), ii.w, ii.mode, ic.c, more)
			case !ic.covered(a) && !still:
				impFail("C06-suppression-out-of-scope", fmt.Sprintf("%s: the added %s covers only some participants of the violation, but the annotation in the NON-covered file %s disappeared as well", a.typ, ic.kind, a.path), ii.w, ii.mode, ic.c, more)
			}
		}
		for k, a := range gotSet {
			if _, ok := withoutSet[k]; !ok {
				impFail("C06-suppression-adds-annotation", fmt.Sprintf("%s: annotation in %s appears only with the added %s", a.typ, a.path, ic.kind), ii.w, ii.mode, ic.c, more)
			}
		}
		exactnessOracle(ic.c, ii.image, got, ic.c.use, false, "", ii.w.input(ii.mode, ic.c, more))
		run.Eval()
	}
}

// ---------------------------------------------------------------------------------------------

func sectionImports(r *hx.Rand) {
	if len(ruleCategories) == 0 {
		initRuleCategories()
	}
	// every check line carries its image (~25 KB): thorough 72 worlds x 12 runs + ~500 ignore runs
	nWorlds := run.N(21, 72)
	quota := run.N(1, 2)
	for k := 0; k < nWorlds; k++ {
		rk := r.Fork(uint64(7000 + k))
		w := genImpWorld(k, rk)
		for key, val := range w.desc {
			if s, ok := val.(string); ok && key != "kind" {
				run.Count("imports:world:" + key + ":" + s)
			}
		}
		vAim := versions[k%3]
		allVers := run.Thorough() || k < nImpStrata
		// control: every file is a target
		fullVers := versions
		if !allVers {
			fullVers = []*version{vAim}
		}
		full := newImpImage(w, modeFull, 0, fullVers)
		if full != nil {
			for _, v := range fullVers {
				full.ignoreFamily(v, quota)
			}
		}
		targetedVers := []*version{vAim}
		if run.Thorough() {
			targetedVers = versions
		}
		var targeted []*impImage
		for _, mode := range []int{modeModulePaths, modeImagePaths, modeDepModule} {
			ii := newImpImage(w, mode, k/3, targetedVers)
			if ii == nil {
				continue
			}
			targeted = append(targeted, ii)
			for _, v := range targetedVers {
				ii.ignoreFamily(v, quota)
			}
			// (b3) the content of the import-only files does not matter
			nimg, err := w.build(mode, true, k/3)
			if err != nil {
				impFail("C06-import-family-build-failed", "building the world with neutral import files failed: "+err.Error(), w, mode, nil, nil)
				continue
			}
			for _, v := range targetedVers {
				c := allRulesCfg(v)
				ngot, nclass := runCheck(c, &image{img: nimg})
				run.Eval()
				if nclass != "" {
					impFail("C06-import-family-run-failed", "Client.Lint failed on the world with neutral import files: "+nclass, w, mode, c, nil)
					continue
				}
				a, b := keysOf(ii.reports[v.name], "PACKAGE_NO_IMPORT_CYCLE"), keysOf(ngot, "PACKAGE_NO_IMPORT_CYCLE")
				if !slices.Equal(a, b) {
					impFail("C06-import-compared", fmt.Sprintf("%s, %s build: the report changes when the CONTENT of the import-only files is replaced by neutral stubs (same paths, packages, type names): only with the real imports %v, only with the stubs %v",
						v.name, modeNames[mode], diffStrings(a, b), diffStrings(b, a)), w, mode, c, nil)
				}
				nc, rc := len(filesWith(ngot, "PACKAGE_NO_IMPORT_CYCLE")), len(filesWith(ii.reports[v.name], "PACKAGE_NO_IMPORT_CYCLE"))
				if rc > nc {
					run.Count("imports:observe:PACKAGE_NO_IMPORT_CYCLE-in-target-depends-on-import-content")
				}
			}
		}
		// observation (as coded, not an oracle): STABLE_PACKAGE_NO_IMPORT_UNSTABLE looks the imported
		// file up among the NON-import files only, so the annotation in a stable target that imports
		// an unstable file exists only while the imported file is a target itself
		if full != nil {
			for _, ii := range targeted {
				for _, v := range targetedVers {
					const r = "STABLE_PACKAGE_NO_IMPORT_UNSTABLE"
					for p := range filesWith(full.reports[v.name], r) {
						if !ii.importPaths[p] && !filesWith(ii.reports[v.name], r)[p] {
							run.Count("imports:observe:" + r + "-in-target-lost-when-the-imported-file-is-import-only")
						}
					}
				}
			}
		}
		// (b2) the three ways of making the same files targets agree
		for _, v := range targetedVers {
			for i := 1; i < len(targeted); i++ {
				a, b := keysOf(targeted[0].reports[v.name], ""), keysOf(targeted[i].reports[v.name], "")
				if !slices.Equal(a, b) {
					impFail("C06-build-mode-dependent-report", fmt.Sprintf("%s: the %s build and the %s build of the same world with the same targets report differently: only %s %v, only %s %v",
						v.name, modeNames[targeted[0].mode], modeNames[targeted[i].mode], modeNames[targeted[0].mode], diffStrings(a, b), modeNames[targeted[i].mode], diffStrings(b, a)), w, targeted[i].mode, allRulesCfg(v), nil)
				}
				run.Eval()
			}
		}
		if k == 0 {
			run.Sample(map[string]any{"section": "imports", "world": w.desc, "t1": string(w.sources(false)["pk/v1/t1.proto"]), "i1": string(w.sources(false)[w.byRole["i1"].path()])})
		}
	}
	// coverage of the strata
	var missing []string
	for _, mode := range modeNames[1:] {
		for _, rule := range groupRules {
			for _, sit := range []string{"target-vs-import", "targets-disagree-with-import-present"} {
				if key := rule + " / " + sit + " / " + mode; impStrata[key] == 0 {
					missing = append(missing, key)
				}
			}
		}
		for _, name := range rpcPatternNames[:3] {
			if key := "RPC_REQUEST_RESPONSE_UNIQUE / " + name + " / " + mode; impStrata[key] == 0 {
				missing = append(missing, key)
			}
		}
		for _, name := range cycPatternNames[1:] {
			if key := "PACKAGE_NO_IMPORT_CYCLE / " + name + " / " + mode; impStrata[key] == 0 {
				missing = append(missing, key)
			}
		}
	}
	for k, n := range impStrata {
		run.CountN("imports:stratum:"+k, n)
	}
	sort.Strings(missing)
	if missing == nil {
		missing = []string{}
	}
	run.Set("imports_strata_not_reached", missing)
	var ignMissing []string
	for _, v := range versions {
		for _, rule := range append(append([]string{}, groupRules...), "RPC_REQUEST_RESPONSE_UNIQUE") {
			if !slices.Contains(v.lintLive, rule) {
				continue
			}
			for _, kind := range []string{"ignore-file", "ignore-dir", "ignore_only-rule"} {
				if kind == "ignore-dir" && rule == "DIRECTORY_SAME_PACKAGE" {
					continue // all participants share the directory
				}
				if key := rule + " / " + kind + " / " + v.name + " / full"; ignQuota[key] == 0 {
					ignMissing = append(ignMissing, key)
				}
			}
		}
	}
	sort.Strings(ignMissing)
	if ignMissing == nil {
		ignMissing = []string{}
	}
	run.Set("ignore_split_strata_not_reached", ignMissing)
	run.CountN("ignfam:strata-reached", len(ignQuota))
}

func diffStrings(a, b []string) []string {
	inB := setOf(b)
	out := []string{}
	for _, s := range a {
		if !inB[s] {
			out = append(out, s)
		}
	}
	if len(out) > 6 {
		out = append(out[:6], fmt.Sprintf("… (%d more)", len(out)-6))
	}
	return out
}
