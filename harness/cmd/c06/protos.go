package main

import (
	"fmt"
	"strings"

	"github.com/bufbuild/verifharness/internal/hx"
)

// directive is one `buf:lint:ignore …` comment line the generator planted: text is what follows
// "buf:lint:ignore " on the line, [from,to] is the 1-based line span of the element the comment
// leads (declaration line to closing brace).
type directive struct {
	file     string
	text     string
	from, to int
}

type srcBuilder struct {
	file       string
	lines      []string
	r          *hx.Rand
	ruleIDs    []string // lint rule ids to name in directives
	density    int      // chance (of 10) that a slot gets comments
	directives []directive
	open       []int // indexes into directives-start bookkeeping: stack of (first directive idx)
	openDecl   []int
	openNDir   []int
}

func (b *srcBuilder) ln(s string) { b.lines = append(b.lines, s) }

// comments emits 0..2 comment lines for the element that starts on the next line and returns
// the directive texts planted.
func (b *srcBuilder) comments(indent string) []string {
	var texts []string
	if b.density == 0 || !b.r.Chance(b.density, 10) {
		return nil
	}
	n := 1 + b.r.Intn(2)
	for i := 0; i < n; i++ {
		id := hx.Pick(b.r, b.ruleIDs)
		switch b.r.Intn(12) {
		case 0:
			b.ln(indent + "// just a comment")
		case 1:
			b.ln(indent + "// buf:lint:ignore" + id) // nop: no space
		case 2:
			b.ln(indent + "//buf:lint:ignore " + id) // no space after slashes
			texts = append(texts, id)
		case 3:
			b.ln(indent + "// buf:lint:ignore " + id + " because reasons")
			texts = append(texts, id+" because reasons")
		case 4:
			b.ln(indent + "//   \tbuf:lint:ignore " + id + "  ")
			texts = append(texts, id)
		case 5:
			b.ln(indent + "// buf:lint:ignore  " + id) // two spaces: nop
		case 6:
			b.ln(indent + "// Buf:lint:ignore " + id) // wrong case: nop
		case 7:
			b.ln(indent + "// buf:lint:ignore " + id + "X") // prefix quirk: still ignores id
			texts = append(texts, id+"X")
		case 8:
			b.ln(indent + "// some text buf:lint:ignore " + id) // not at line start: nop
		default:
			b.ln(indent + "// buf:lint:ignore " + id)
			texts = append(texts, id)
		}
	}
	return texts
}

// leaf emits a one-line element with optional leading comments.
func (b *srcBuilder) leaf(indent, decl string) {
	texts := b.comments(indent)
	b.ln(indent + decl)
	n := len(b.lines)
	for _, t := range texts {
		b.directives = append(b.directives, directive{file: b.file, text: t, from: n, to: n})
	}
}

// begin opens a block element.
func (b *srcBuilder) begin(indent, decl string) {
	texts := b.comments(indent)
	b.ln(indent + decl)
	n := len(b.lines)
	b.openDecl = append(b.openDecl, n)
	b.open = append(b.open, len(b.directives))
	b.openNDir = append(b.openNDir, len(texts))
	for _, t := range texts {
		b.directives = append(b.directives, directive{file: b.file, text: t, from: n, to: n})
	}
}

func (b *srcBuilder) end(indent string) {
	b.ln(indent + "}")
	n := len(b.lines)
	top := len(b.open) - 1
	start, cnt := b.open[top], b.openNDir[top]
	for i := start; i < start+cnt; i++ {
		b.directives[i].to = n
	}
	b.open, b.openDecl, b.openNDir = b.open[:top], b.openDecl[:top], b.openNDir[:top]
}

func (b *srcBuilder) String() string { return strings.Join(b.lines, "\n") + "\n" }

type lintSources struct {
	pathToData map[string][]byte
	directives []directive
	importOnly map[string]bool // files to be flagged IsImport after the build
}

// genLintSources writes a small module with planted lint violations in two directories, a file
// that will be import-only, a well-known-type import, nested elements and buf:lint:ignore
// comments at random enclosing levels.
func genLintSources(r *hx.Rand, ruleIDs []string, density int) *lintSources {
	out := &lintSources{pathToData: map[string][]byte{}, importOnly: map[string]bool{"dep/dep.proto": true}}
	nb := func(file string) *srcBuilder {
		return &srcBuilder{file: file, r: r, ruleIDs: ruleIDs, density: density}
	}
	fin := func(b *srcBuilder) {
		out.pathToData[b.file] = []byte(b.String())
		out.directives = append(out.directives, b.directives...)
	}

	// a/v1/a.proto
	b := nb("a/v1/a.proto")
	b.ln(`syntax = "proto3";`)
	b.leaf("", "package a.v1;")
	b.ln(`import "google/protobuf/timestamp.proto";`)
	b.ln(`import "dep/dep.proto";`)
	if r.Bool() {
		b.leaf("", `option java_package = "com.wrong";`)
	}
	b.begin("", "message bad_message {")
	b.leaf("  ", "string BadField = 1;")
	b.begin("  ", "message nested_bad {")
	b.leaf("    ", "int32 AlsoBad = 1;")
	b.begin("    ", "enum inner_enum {")
	b.leaf("      ", "inner_bad = 0;")
	if r.Bool() {
		b.leaf("      ", "INNER_ENUM_OK = 1;")
	}
	b.end("    ")
	b.end("  ")
	b.begin("  ", "oneof BadOneof {")
	b.leaf("    ", "string InOneof = 2;")
	b.end("  ")
	b.leaf("  ", "google.protobuf.Timestamp ts = 3;")
	b.leaf("  ", "dep.v1.dep_message d = 4;")
	if r.Bool() {
		b.leaf("  ", "nested_bad Nested = 5 [deprecated = true];")
	}
	b.end("")
	b.begin("", "enum bad_enum {")
	if r.Chance(1, 3) {
		b.leaf("  ", "option allow_alias = true;")
		b.leaf("  ", "bad_value = 0;")
		b.leaf("  ", "ALIAS = 0;")
	} else {
		b.leaf("  ", "bad_value = 0;")
	}
	b.leaf("  ", "OTHER = 1;")
	b.end("")
	b.begin("", "service bad_service {")
	b.leaf("  ", "rpc bad_rpc(bad_message) returns (bad_message);")
	b.leaf("  ", "rpc Stream(stream bad_message) returns (stream bad_message);")
	b.end("")
	fin(b)

	// a/v1/b.proto — same package, fewer violations
	b = nb("a/v1/b.proto")
	b.ln(`syntax = "proto3";`)
	b.leaf("", "package a.v1;")
	if r.Bool() {
		b.leaf("", `option java_package = "com.a.v1";`)
	}
	b.begin("", "message GoodMessage {")
	b.leaf("  ", "string good_field = 1;")
	b.leaf("  ", "string camelCase = 2;")
	b.end("")
	b.begin("", "enum Color {")
	b.leaf("  ", "COLOR_UNSPECIFIED = 0;")
	b.leaf("  ", "RED = 1;")
	b.end("")
	fin(b)

	// b/sub/c.proto — package does not match directory, no version suffix
	b = nb("b/sub/c.proto")
	b.ln(`syntax = "proto3";`)
	b.leaf("", "package wrong.Pkg;")
	b.begin("", "message lower_c {")
	b.leaf("  ", "int64 X = 1;")
	b.end("")
	b.begin("", "service CService {")
	b.leaf("  ", "rpc Get(lower_c) returns (lower_c);")
	b.end("")
	fin(b)

	// dep/dep.proto — becomes import-only; has violations of its own
	b = nb("dep/dep.proto")
	b.ln(`syntax = "proto3";`)
	b.leaf("", "package dep.v1;")
	b.begin("", "message dep_message {")
	b.leaf("  ", "string BadDepField = 1;")
	b.end("")
	b.begin("", "enum dep_enum {")
	b.leaf("  ", "dep_zero = 0;")
	b.end("")
	fin(b)
	return out
}

type breakingSources struct {
	old, new   map[string][]byte
	importOnly map[string]bool
}

// genBreakingSources writes an (against, current) pair with planted incompatible changes in
// two directories, in an unstable package and in a file that is import-only.
func genBreakingSources(r *hx.Rand) *breakingSources {
	out := &breakingSources{old: map[string][]byte{}, new: map[string][]byte{}, importOnly: map[string]bool{"dep/dep.proto": true}}
	pick := func(a, b string) string {
		if r.Chance(2, 3) {
			return b
		}
		return a
	}
	out.old["a/v1/a.proto"] = []byte(`syntax = "proto3";
package a.v1;
import "dep/dep.proto";
message M {
  string name = 1;
  int32 count = 2;
  dep.v1.D d = 3;
  message Inner { string x = 1; }
  enum E { E_UNSPECIFIED = 0; E_ONE = 1; }
}
message Gone { string a = 1; }
enum Top { TOP_UNSPECIFIED = 0; TOP_A = 1; }
service S {
  rpc Get(M) returns (M);
  rpc Old(M) returns (M);
}
`)
	out.new["a/v1/a.proto"] = []byte(`syntax = "proto3";
package a.v1;
import "dep/dep.proto";
message M {
  ` + pick("string name = 1;", "bytes name = 1;") + `
  ` + pick("int32 count = 2;", "") + `
  dep.v1.D d = 3;
  message Inner { ` + pick("string x = 1;", "string renamed = 1;") + ` }
  enum E { E_UNSPECIFIED = 0; ` + pick("E_ONE = 1;", "") + ` }
}
` + pick("message Gone { string a = 1; }", "") + `
enum Top { TOP_UNSPECIFIED = 0; ` + pick("TOP_A = 1;", "TOP_B = 1;") + ` }
service S {
  rpc Get(M) returns (` + pick("M", "stream M") + `);
  ` + pick("rpc Old(M) returns (M);", "") + `
}
`)
	out.old["b/sub/c.proto"] = []byte(`syntax = "proto3";
package b.sub.v1;
message C { string id = 1; repeated string tags = 2; }
`)
	out.new["b/sub/c.proto"] = []byte(`syntax = "proto3";
package b.sub.v1;
message C { ` + pick("string id = 1;", "int64 id = 1;") + ` ` + pick("repeated string tags = 2;", "string tags = 2;") + ` }
`)
	out.old["a/v1beta1/x.proto"] = []byte(`syntax = "proto3";
package a.v1beta1;
message X { string s = 1; int32 n = 2; }
`)
	out.new["a/v1beta1/x.proto"] = []byte(`syntax = "proto3";
package a.v1beta1;
message X { ` + pick("string s = 1;", "bool s = 1;") + ` ` + pick("int32 n = 2;", "") + ` }
`)
	out.old["dep/dep.proto"] = []byte(`syntax = "proto3";
package dep.v1;
message D { string k = 1; string v = 2; }
message DGone { string k = 1; }
`)
	out.new["dep/dep.proto"] = []byte(`syntax = "proto3";
package dep.v1;
message D { ` + pick("string k = 1;", "int32 k = 1;") + ` ` + pick("string v = 2;", "") + ` }
` + pick("message DGone { string k = 1; }", "") + `
`)
	if r.Chance(1, 2) {
		out.old["b/old.proto"] = []byte(`syntax = "proto3";
package b.v1;
message Old { string a = 1; }
`)
	}
	return out
}

// genBreakingShared writes an (against, current) pair in which the only TARGET a/v1/a.proto and
// the import-only files a/v1/b.proto, a/v1/c.proto belong to the SAME package and directory:
// incompatible changes inside the import files, a message that moves from the target into an
// import file (annotation located in a current import, against location in a previous target)
// and one that moves the other way (located in a target, against location in a previous import).
func genBreakingShared(r *hx.Rand) *breakingSources {
	out := &breakingSources{old: map[string][]byte{}, new: map[string][]byte{}, importOnly: map[string]bool{"a/v1/b.proto": true, "a/v1/c.proto": true}}
	pick := func(a, b string) string {
		if r.Chance(3, 4) {
			return b
		}
		return a
	}
	out.old["a/v1/a.proto"] = []byte(`syntax = "proto3";
package a.v1;
import "a/v1/b.proto";
import "a/v1/c.proto";
message M {
  string name = 1;
  B b = 2;
  C c = 3;
}
message Moved { string x = 1; }
service S {
  rpc Get(M) returns (B);
}
`)
	out.new["a/v1/a.proto"] = []byte(`syntax = "proto3";
package a.v1;
import "a/v1/b.proto";
import "a/v1/c.proto";
message M {
  ` + pick("string name = 1;", "bytes name = 1;") + `
  B b = 2;
  C c = 3;
}
message Back { ` + pick("int32 y = 1;", "int64 y = 1;") + ` }
service S {
  rpc Get(M) returns (B);
}
`)
	out.old["a/v1/b.proto"] = []byte(`syntax = "proto3";
package a.v1;
message B { string k = 1; string v = 2; }
message BGone { string k = 1; }
message Back { int32 y = 1; }
enum BE { BE_UNSPECIFIED = 0; BE_ONE = 1; }
`)
	out.new["a/v1/b.proto"] = []byte(`syntax = "proto3";
package a.v1;
message B { ` + pick("string k = 1;", "int32 k = 1;") + ` ` + pick("string v = 2;", "") + ` }
` + pick("message BGone { string k = 1; }", "") + `
message Moved { ` + pick("string x = 1;", "int32 x = 1;") + ` }
enum BE { BE_UNSPECIFIED = 0; ` + pick("BE_ONE = 1;", "") + ` }
`)
	out.old["a/v1/c.proto"] = []byte(`syntax = "proto3";
package a.v1;
message C { string id = 1; }
`)
	out.new["a/v1/c.proto"] = []byte(`syntax = "proto3";
package a.v1;
message C { ` + pick("string id = 1;", "int64 id = 1;") + ` }
`)
	return out
}

func fmtDirective(d directive) string {
	return fmt.Sprintf("%s:%d-%d:%q", d.file, d.from, d.to, d.text)
}
