// Command c13 is the correspondence + oracle harness for property C13
// ("no path can escape a bucket's root").
//
// Section A ties the Lean path model (clean / normalizeAndValidate / dir / base / join / rel /
// equalsOrContainsPath / stripComponents / components) to private/pkg/normalpath by
// exhaustive enumeration of all strings over {a,b,.,/} up to a length bound plus random
// long strings with spaces, unicode and dotted names.
//
// Section B runs operation histories with hostile path spellings through nestings of
// prefix-mapped / filtered views over a memory parent and over a disk parent, with sentinel
// objects placed outside every root.  The implementation's per-op results and the parent's
// final contents are compared with the Lean bucket model; the oracle (implementation only)
// checks that nothing outside the view's root was read, created, changed or deleted and that
// escaping names were rejected.
//
// Section D (archive.go): storagearchive.Untar / Unzip over the whole entry-kind x name x
// strip-components family (replaces the former section C, which only put hostile names on
// regular entries).  Section E (unicode.go): spellings that differ only in Unicode normalisation
// form are different keys in every bucket.  Section F (gate.go): the bufcas gate — NewFileNode / ParseFileNode /
// ParseManifest / NewFileSetForBucket / PutFileSetToBucket over the path pools (`--only 3000000+i`).
// Section G (siblings.go): the sibling gates (module file paths, --path values, buf.yaml / buf.work.yaml
// paths), oracle only (`--only 4000000+i`).
package main

import (
	"context"
	"fmt"
	"os"
	"path/filepath"
	"sort"
	"strconv"
	"strings"
	"time"

	"github.com/bufbuild/buf/private/pkg/normalpath"
	"github.com/bufbuild/buf/private/pkg/storage"
	"github.com/bufbuild/buf/private/pkg/storage/storagemem"
	"github.com/bufbuild/buf/private/pkg/storage/storageos"
	"github.com/bufbuild/buf/private/pkg/storage/storageutil"
	"github.com/bufbuild/verifharness/internal/bk"
	"github.com/bufbuild/verifharness/internal/hx"
)

var ctx = context.Background()

func nvLine(s string) string {
	p, err := normalpath.NormalizeAndValidate(s)
	if err != nil {
		return bk.ErrClass(err)
	}
	return "ok " + hx.Enc(p)
}

func errSp(s string) string { return strings.Replace(s, "err:", "err ", 1) }

func pathLines(run *hx.Run, s string) {
	e := hx.Enc(s)
	cleaned := normalpath.Normalize(s)
	run.Case("clean\t"+e, hx.Enc(cleaned), cleaned != s)
	nv := nvLine(s)
	run.Case("nv\t"+e, errSp(nv), true)
	if strings.HasPrefix(nv, "err") {
		run.Count("nv:" + nv)
	} else {
		run.Count("nv:ok")
	}
	run.Case("dir\t"+e, hx.Enc(normalpath.Dir(s)), true)
	run.Case("base\t"+e, hx.Enc(normalpath.Base(s)), true)
	// the glue every bucket actually calls (storageutil.ValidatePath = NormalizeAndValidate + "not the root")
	if vp, verr := storageutil.ValidatePath(s); verr != nil {
		run.Case("vpath\t"+e, errSp(bk.ErrClass(verr)), true)
	} else {
		run.Case("vpath\t"+e, "ok "+hx.Enc(vp), true)
	}
	// Components / StripComponents expect a normalized path.
	comps := normalpath.Components(cleaned)
	encs := make([]string, len(comps))
	for i, c := range comps {
		encs[i] = hx.Enc(c)
	}
	run.Case("comps\t"+hx.Enc(cleaned), strings.Join(encs, ","), len(comps) > 1)
}

func pairLines(run *hx.Run, a, b string, r *hx.Rand) {
	ea, eb := hx.Enc(a), hx.Enc(b)
	run.Case("join\t"+ea+"\t"+eb, hx.Enc(normalpath.Join(a, b)), true)
	rel, err := normalpath.Rel(a, b)
	if err != nil {
		run.Case("rel\t"+ea+"\t"+eb, "err", true)
		run.Count("rel:err")
	} else {
		run.Case("rel\t"+ea+"\t"+eb, "ok "+hx.Enc(rel), true)
		run.Count("rel:ok")
	}
	// EqualsOrContainsPath(Relative) does not terminate for an absolute `path`; its contract
	// is "normalized and validated" arguments, so only relative cleaned paths are passed.
	ca, cb := normalpath.Normalize(a), normalpath.Normalize(b)
	if !strings.HasPrefix(cb, "/") {
		got := normalpath.EqualsOrContainsPath(ca, cb, normalpath.Relative)
		run.Case("ecp\t"+hx.Enc(ca)+"\t"+hx.Enc(cb), strconv.FormatBool(got), got)
		run.Count("ecp:" + strconv.FormatBool(got))
	}
	n := r.Intn(4)
	sp, ok := normalpath.StripComponents(ca, uint32(n))
	if ok {
		run.Case("strip\t"+strconv.Itoa(n)+"\t"+hx.Enc(ca), "ok "+hx.Enc(sp), n > 0)
	} else {
		run.Case("strip\t"+strconv.Itoa(n)+"\t"+hx.Enc(ca), "none", true)
	}
}

func enumerate(alphabet []byte, maxLen int, f func(string)) {
	var rec func(prefix []byte)
	rec = func(prefix []byte) {
		f(string(prefix))
		if len(prefix) == maxLen {
			return
		}
		for _, c := range alphabet {
			rec(append(prefix, c))
		}
	}
	rec(nil)
}

var nameAtoms = []string{"a", "b", "c.d", "x y", "é", "..a", "a..", ".hidden", "...", "日本", "a b.proto", "LICENSE",
	// normalisation-form twins, zero-width joiner, right-to-left override: all ordinary, DISTINCT name characters
	"e\u0301", "\u00e9", "\u1100\u1161", "\uac00", "\u212b", "\u00c5", "a\u200db", "\u202ex"}
var glue = []string{"/", "/", "/", "//", "/./", "/../", "/"}

func randomPath(r *hx.Rand) string {
	var sb strings.Builder
	if r.Chance(1, 8) {
		sb.WriteString("/")
	}
	if r.Chance(1, 6) {
		sb.WriteString("../")
	}
	if r.Chance(1, 8) {
		sb.WriteString("./")
	}
	n := 1 + r.Intn(6)
	for i := 0; i < n; i++ {
		if i > 0 {
			sb.WriteString(hx.Pick(r, glue))
		}
		switch r.Intn(10) {
		case 0:
			sb.WriteString("..")
		case 1:
			sb.WriteString(".")
		default:
			sb.WriteString(hx.Pick(r, nameAtoms))
		}
	}
	if r.Chance(1, 6) {
		sb.WriteString("/")
	}
	return sb.String()
}

func sectionA(run *hx.Run, r *hx.Rand) {
	maxLen := run.N(6, 8)
	var all []string
	enumerate([]byte("ab./"), maxLen, func(s string) {
		pathLines(run, s)
		if len(s) <= 4 {
			all = append(all, s)
		}
	})
	// backslashes and other separator look-alikes are ordinary name characters on unix: a second,
	// smaller exhaustive sweep with '\\' in the alphabet
	enumerate([]byte("a./\\"), run.N(5, 6), func(s string) {
		if strings.ContainsRune(s, '\\') {
			pathLines(run, s)
		}
	})
	run.Set("exhaustive_alphabet", "ab./ and a./\\")
	run.Set("exhaustive_max_len", maxLen)
	// all pairs of strings of length <= 3, random pairs beyond
	var small []string
	for _, s := range all {
		if len(s) <= 3 {
			small = append(small, s)
		}
	}
	for _, a := range small {
		for _, b := range small {
			pairLines(run, a, b, r)
		}
	}
	nRand := run.N(4000, 60000)
	for i := 0; i < nRand; i++ {
		a, b := randomPath(r), randomPath(r)
		if r.Chance(1, 3) {
			// make b an extension of a so that containment is exercised
			b = a + "/" + randomPath(r)
		}
		pathLines(run, a)
		pairLines(run, a, b, r)
		if i < 3 {
			run.Sample(map[string]string{"section": "A", "a": a, "b": b})
		}
	}
}

// ---------------------------------------------------------------------------------------
// Section B

// pool is prefix-free: no element is an ancestor of another (needed for the disk parent).
var pool = []string{"a/x", "a/y.proto", "a/sub/z", "b", "c/d/e", "a.b", "s t/u", "c/d/f g", "é/n",
	"nf/e\u0301", "nf/\u00e9", "nf/\u212b.proto", "nf/\u00c5.proto", "\uac00/n", "\u1100\u1161/n"}
var dirs = []string{"a", "a/sub", "c", "c/d", "s t", "é", ".", "nf", "\uac00", "\u1100\u1161"}
var prefixes = []string{"a", "c/d", "c", ".", "a/sub", "s t", "nf", "\uac00"}

// MapOnPrefix documents that its prefix is "expected to be normalized and validated" and does not
// check it: hostile prefixes must still never let an operation leave the PARENT bucket's root.
var hostilePrefixes = []string{"../x", "a/../../b", "/abs", "a//b/", "..", "a/./c", "../root_sibling", "a/..", "./c/d/"}

func obfuscate(r *hx.Rand, p string) string {
	parts := strings.Split(p, "/")
	var sb strings.Builder
	if r.Chance(1, 5) {
		sb.WriteString("./")
	}
	for i, part := range parts {
		if i > 0 {
			sb.WriteString(hx.Pick(r, []string{"/", "/", "//", "/./", "/q/../"}))
		}
		sb.WriteString(part)
	}
	if r.Chance(1, 6) {
		sb.WriteString("/")
	}
	if r.Chance(1, 8) {
		sb.WriteString("/.")
	}
	return sb.String()
}

var escapes = []string{"..", "../", "../o", "../../o", "a/../..", "a/../../o", "/", "/o", "/etc/passwd",
	"./..", "x/../../a/x", "..//o", "a/sub/../../../o", "", ".", "./", "a/..", "../sent", "../root_sibling/s",
	"../outside.txt", "c/d/../../../outside.txt", "..a/../../outside.txt",
	// separators that are NOT separators on unix: these are plain (odd) names inside the root
	"..\\o", "..\\sent", "sub\\..\\..\\o", "a\\..\\..\\outside.txt", "..\\root_sibling\\s", "a/..\\..\\x", "..\\", "\\abs",
	"．．/o", "..／o", "%2e%2e/o", "..%2fo"}

// genPath returns a path argument: mostly a (possibly obfuscated) pool path relative to the
// view, sometimes a directory, sometimes an escape attempt.
func genPath(r *hx.Rand, viewPrefix string, wantDir bool) string {
	switch k := r.Intn(10); {
	case k < 2:
		return hx.Pick(r, escapes)
	case k < 3:
		// escape built from depth
		up := strings.Repeat("../", 1+r.Intn(3))
		return up + hx.Pick(r, pool)
	default:
		var cands []string
		src := pool
		if wantDir {
			src = append(append([]string{}, dirs...), pool...)
		}
		for _, p := range src {
			if viewPrefix == "." {
				cands = append(cands, p)
			} else if p == viewPrefix {
				cands = append(cands, ".")
			} else if strings.HasPrefix(p, viewPrefix+"/") {
				cands = append(cands, strings.TrimPrefix(p, viewPrefix+"/"))
			}
		}
		if len(cands) == 0 || r.Chance(1, 8) {
			cands = append(cands, "new", "n1/n2", "x")
		}
		p := hx.Pick(r, cands)
		if r.Chance(1, 3) {
			return obfuscate(r, p)
		}
		return p
	}
}

type layer struct {
	kind    byte // 'p' or 'f'
	prefix  string
	matcher string // protocol encoding
	m       storage.Matcher
}

func (l layer) enc() string {
	if l.kind == 'p' {
		return "p:" + hx.Enc(l.prefix)
	}
	return "f:" + l.matcher
}

func genMatcher(r *hx.Rand) (string, storage.Matcher) {
	switch r.Intn(6) {
	case 0:
		return "ext:" + hx.Enc(".proto"), storage.MatchPathExt(".proto")
	case 1:
		d := hx.Pick(r, dirs)
		return "eoc:" + hx.Enc(d), storage.MatchPathEqualOrContained(d)
	case 2:
		d := hx.Pick(r, dirs)
		return "cont:" + hx.Enc(d), storage.MatchPathContained(d)
	case 3:
		p := hx.Pick(r, pool)
		return "not:eq:" + hx.Enc(p), storage.MatchNot(storage.MatchPathEqual(p))
	case 4:
		return "or:base:" + hx.Enc("x") + ":ext:" + hx.Enc(".proto"), storage.MatchOr(storage.MatchPathBase("x"), storage.MatchPathExt(".proto"))
	default:
		d := hx.Pick(r, dirs)
		return "and:eoc:" + hx.Enc(d) + ":not:ext:" + hx.Enc(".proto"), storage.MatchAnd(storage.MatchPathEqualOrContained(d), storage.MatchNot(storage.MatchPathExt(".proto")))
	}
}

// history is one generated case.
type history struct {
	layers []layer // outermost first
	init   []bk.KV // parent objects
	ops    []bk.Op
	disk   bool
}

func fullPrefix(layers []layer) string {
	// outermost first: path is joined innermost-last, so the full prefix is p_inner/.../p_outer
	// layers are applied outermost first, so the innermost prefix is leftmost
	full := "."
	for i := len(layers) - 1; i >= 0; i-- {
		if layers[i].kind == 'p' {
			full = normalpath.Join(full, layers[i].prefix)
		}
	}
	return full
}

func under(prefix, key string) bool {
	return normalpath.EqualsOrContainsPath(prefix, key, normalpath.Relative)
}

func genHistory(r *hx.Rand, disk bool) history {
	h := history{disk: disk}
	nLayers := r.Intn(4)
	writable := true
	viewPrefix := "."
	for i := 0; i < nLayers; i++ {
		if r.Chance(3, 4) {
			p := hx.Pick(r, prefixes)
			if r.Chance(1, 6) {
				p = hx.Pick(r, hostilePrefixes)
			}
			h.layers = append(h.layers, layer{kind: 'p', prefix: p})
		} else {
			enc, m := genMatcher(r)
			h.layers = append(h.layers, layer{kind: 'f', matcher: enc, m: m})
			writable = false
		}
	}
	_ = viewPrefix
	full := fullPrefix(h.layers)
	// initial parent contents: sentinels everywhere (inside and outside the root)
	seen := map[string]bool{}
	for i, p := range pool {
		if r.Chance(2, 3) {
			h.init = append(h.init, bk.KV{K: p, V: "S" + strconv.Itoa(i)})
			seen[p] = true
		}
	}
	// make sure something lives under the full prefix reasonably often
	if _, verr := normalpath.NormalizeAndValidate(full); verr == nil && full != "." && r.Chance(2, 3) {
		k := normalpath.Join(full, "in")
		okKey := true
		for p := range seen {
			if under(p, k) || under(k, p) {
				okKey = false
			}
		}
		if okKey {
			h.init = append(h.init, bk.KV{K: k, V: "SIN"})
		}
	}
	nOps := 4 + r.Intn(10)
	// the innermost view-relative prefix for choosing plausible paths: only the outermost
	// layer's coordinate system matters to the caller; approximate by the full prefix.
	for i := 0; i < nOps; i++ {
		var k byte
		if writable {
			k = hx.Pick(r, []byte{'g', 's', 'w', 'p', 'p', 'd', 'D', 'w', 'g'})
		} else {
			k = hx.Pick(r, []byte{'g', 's', 'w', 'w', 'g'})
		}
		op := bk.Op{Kind: k}
		wantDir := k == 'w' || k == 'D'
		op.Path = genPath(r, full, wantDir)
		if k == 'p' {
			op.Content = "C" + strconv.Itoa(i)
			if r.Chance(1, 6) {
				op.Content = "-"
			}
		}
		h.ops = append(h.ops, op)
	}
	return h
}

// build the real view over a parent bucket
func buildView(parent storage.ReadWriteBucket, layers []layer) (storage.ReadBucket, storage.WriteBucket) {
	var rb storage.ReadBucket = parent
	var wb storage.WriteBucket = parent
	// innermost layer is last in the list → apply from the end
	for i := len(layers) - 1; i >= 0; i-- {
		l := layers[i]
		if l.kind == 'p' {
			rb = storage.MapReadBucket(rb, storage.MapOnPrefix(l.prefix))
			if wb != nil {
				wb = storage.MapWriteBucket(wb, storage.MapOnPrefix(l.prefix))
			}
		} else {
			rb = storage.FilterReadBucket(rb, l.m)
			wb = nil
		}
	}
	return rb, wb
}

func content(c string) string {
	if c == "-" {
		return ""
	}
	return c
}

// diskConflict reports whether an op with this (view-relative) path would make a file and a
// directory share a name on disk, or address a directory as an object: those are outside the
// model's prefix-free hypothesis and are skipped for disk parents.
func diskConflict(full string, op bk.Op, keys map[string]bool) bool {
	n, err := normalpath.NormalizeAndValidate(op.Path)
	if err != nil {
		return false
	}
	k := normalpath.Join(full, n)
	if op.Kind == 'w' || op.Kind == 'D' {
		return false
	}
	if n == "." {
		return false
	}
	for p := range keys {
		if p != k && (under(p, k) || under(k, p)) {
			return true
		}
	}
	if op.Kind == 'p' {
		keys[k] = true
	}
	return false
}

func listOutside(tmp string) string {
	var out []string
	filepath.Walk(tmp, func(p string, info os.FileInfo, err error) error {
		if err != nil {
			return nil
		}
		rel, _ := filepath.Rel(tmp, p)
		if rel == "root" {
			return filepath.SkipDir
		}
		if info.Mode().IsRegular() {
			data, _ := os.ReadFile(p)
			out = append(out, rel+"="+string(data))
		} else if rel != "." {
			out = append(out, rel+"/")
		}
		return nil
	})
	sort.Strings(out)
	return strings.Join(out, ",")
}

func runHistory(run *hx.Run, idx int, h history, tmpRoot string) {
	defer func() {
		if p := recover(); p != nil {
			// The implementation left the parent bucket in a state the harness cannot even
			// snapshot (e.g. the disk root itself was replaced): that is an escape.
			run.Fail(hx.OracleFailure{Class: "parent-destroyed", What: fmt.Sprintf("history %d: %v", idx, p),
				Input:  map[string]any{"disk": h.disk, "layers": layerStrings(h.layers), "init": h.init, "ops": opStrings(h.ops)},
				Replay: fmt.Sprintf("build/c13 --out /tmp/c13-replay --seed %d --tier %s --only %d", run.Seed, run.Tier, idx)})
		}
	}()
	var parent storage.ReadWriteBucket
	var tmp string
	if h.disk {
		tmp = filepath.Join(tmpRoot, "h"+strconv.Itoa(idx))
		must(os.MkdirAll(filepath.Join(tmp, "root"), 0o755))
		must(os.MkdirAll(filepath.Join(tmp, "root_sibling"), 0o755))
		must(os.WriteFile(filepath.Join(tmp, "outside.txt"), []byte("OUT1"), 0o644))
		must(os.WriteFile(filepath.Join(tmp, "root_sibling", "s"), []byte("OUT2"), 0o644))
		must(os.WriteFile(filepath.Join(tmp, "sent"), []byte("OUT3"), 0o644))
		defer os.RemoveAll(tmp)
		p, err := storageos.NewProvider().NewReadWriteBucket(filepath.Join(tmp, "root"))
		must(err)
		parent = p
	} else {
		parent = storagemem.NewReadWriteBucket()
	}
	keys := map[string]bool{}
	for _, kv := range h.init {
		must(bk.PutString(ctx, parent, kv.K, kv.V))
		keys[kv.K] = true
	}
	full := fullPrefix(h.layers)
	rb, wb := buildView(parent, h.layers)
	var ops []bk.Op
	var results []string
	outsideBefore := ""
	if h.disk {
		outsideBefore = listOutside(tmp)
	}
	fail := func(class, what string) {
		run.Fail(hx.OracleFailure{Class: class, What: what,
			Input:  map[string]any{"disk": h.disk, "layers": layerStrings(h.layers), "init": h.init, "ops": opStrings(ops)},
			Replay: fmt.Sprintf("build/c13 --out /tmp/c13-replay --seed %d --tier %s --only %d", run.Seed, run.Tier, idx)})
	}
	for _, op := range h.ops {
		if h.disk && diskConflict(full, op, keys) {
			run.Count("hist:disk-skip-conflict")
			continue
		}
		// snapshot of parent keys outside the full prefix
		before, err := bk.WalkAll(ctx, parent, "")
		must(err)
		o := op
		o.Content = content(op.Content)
		res := bk.Apply(ctx, rb, wb, o)
		ops = append(ops, op)
		results = append(results, res)
		run.Count("op:" + string(op.Kind) + ":" + strings.SplitN(res, ":", 3)[0] + classOf(res))
		after, err := bk.WalkAll(ctx, parent, "")
		must(err)
		// ---- oracle (implementation only) ----
		am := map[string]string{}
		for _, kv := range after {
			am[kv.K] = kv.V
		}
		bm := map[string]string{}
		for _, kv := range before {
			bm[kv.K] = kv.V
			if !under(full, kv.K) {
				if v, ok := am[kv.K]; !ok || v != kv.V {
					fail("outside-modified", fmt.Sprintf("op %s through view rooted at %q changed/deleted parent object %q", op.Enc(), full, kv.K))
				}
			}
		}
		for _, kv := range after {
			if _, ok := bm[kv.K]; !ok && !under(full, kv.K) {
				fail("outside-created", fmt.Sprintf("op %s through view rooted at %q created parent object %q", op.Enc(), full, kv.K))
			}
		}
		if op.Kind == 'g' && strings.HasPrefix(res, "ok:") {
			c := strings.TrimPrefix(res, "ok:")
			for _, kv := range before {
				if !under(full, kv.K) && kv.V == c && c != "" {
					fail("outside-read", fmt.Sprintf("get %q through view rooted at %q returned the content of outside object %q", op.Path, full, kv.K))
				}
			}
		}
		// escaping names must be rejected
		cl := normalpath.Normalize(op.Path)
		if (cl == ".." || strings.HasPrefix(cl, "../") || strings.HasPrefix(cl, "/")) && !strings.HasPrefix(res, "err") {
			fail("escape-accepted", fmt.Sprintf("op %s with escaping path %q (cleaned %q) was not rejected: %s", string(op.Kind), op.Path, cl, res))
		}
		if h.disk {
			if now := listOutside(tmp); now != outsideBefore {
				fail("disk-outside-modified", fmt.Sprintf("op %s changed files outside the bucket root: before %q after %q", op.Enc(), outsideBefore, now))
				outsideBefore = now
			}
		}
	}
	final, err := bk.WalkAll(ctx, parent, "")
	must(err)
	layersEnc := "-"
	if len(h.layers) > 0 {
		ls := make([]string, len(h.layers))
		for i, l := range h.layers {
			ls[i] = l.enc()
		}
		layersEnc = strings.Join(ls, ",")
	}
	initEnc := "-"
	if len(h.init) > 0 {
		is := make([]string, len(h.init))
		for i, kv := range h.init {
			is[i] = hx.Enc(kv.K) + "=" + kv.V
		}
		initEnc = strings.Join(is, ",")
	}
	nontrivial := false
	for _, res := range results {
		if strings.HasPrefix(res, "ok") {
			nontrivial = true
		}
	}
	line := "hist\t" + layersEnc + "\t" + initEnc + "\t" + bk.EncOps(ops)
	if h.disk {
		run.Count("hist:disk")
	} else {
		run.Count("hist:mem")
	}
	run.Count("hist:layers=" + strconv.Itoa(len(h.layers)))
	run.Case(line, strings.Join(results, ";")+"|"+bk.Dump(final), nontrivial)
	if idx < 3 {
		run.Sample(map[string]any{"section": "B", "disk": h.disk, "layers": layerStrings(h.layers), "ops": opStrings(ops), "results": results})
	}
}

func classOf(res string) string {
	if strings.HasPrefix(res, "err:") {
		return ":" + strings.TrimPrefix(res, "err:")
	}
	return ""
}

func layerStrings(ls []layer) []string {
	out := make([]string, len(ls))
	for i, l := range ls {
		if l.kind == 'p' {
			out[i] = "prefix(" + l.prefix + ")"
		} else {
			out[i] = "filter(" + l.matcher + ")"
		}
	}
	return out
}

func opStrings(ops []bk.Op) []string {
	out := make([]string, len(ops))
	for i, o := range ops {
		out[i] = string(o.Kind) + " " + strconv.Quote(o.Path)
		if o.Kind == 'p' {
			out[i] += " " + o.Content
		}
	}
	return out
}

func must(err error) {
	if err != nil {
		panic(err)
	}
}

func main() {
	run := hx.Start("C13")
	r := hx.NewRand(run.Seed)
	tmpRoot, err := os.MkdirTemp("", "verif-c13-")
	must(err)
	defer os.RemoveAll(tmpRoot)
	if run.Only < 0 {
		sectionA(run, r.Fork(1))
	}
	nHist := run.N(2500, 40000)
	hr := r.Fork(2)
	for i := 0; i < nHist; i++ {
		cr := hr.Fork(uint64(i))
		if run.Only >= archOnlyBase {
			break
		}
		h := genHistory(cr, i%3 == 2)
		if run.Only >= 0 && run.Only != i {
			continue
		}
		runHistory(run, i, h, tmpRoot)
	}
	if run.Only < 0 || (run.Only >= archOnlyBase && run.Only < unicodeOnlyBase) {
		sectionD(run, r.Fork(4), tmpRoot)
	}
	if run.Only < 0 || (run.Only >= unicodeOnlyBase && run.Only < gateOnlyBase) {
		sectionE(run, tmpRoot)
	}
	if run.Only < 0 || (run.Only >= gateOnlyBase && run.Only < siblingOnlyBase) {
		t0 := time.Now()
		sectionF(run, r.Fork(6), tmpRoot)
		run.Set("sectionF_seconds", int(time.Since(t0).Seconds()+0.5))
	}
	if run.Only < 0 || run.Only >= siblingOnlyBase {
		t0 := time.Now()
		sectionG(run, tmpRoot)
		run.Set("sectionG_seconds", int(time.Since(t0).Seconds()+0.5))
	}
	run.Finish()
}
