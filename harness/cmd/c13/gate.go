package main

// Section F: the BUFCAS GATE family (module file paths).
//
// private/bufpkg/bufcas/file_node.go `validateFileNodeParameters` is the single path check behind
// NewFileNode, ParseFileNode and therefore ParseManifest / BlobToManifest / NewFileSetForBucket.
// Every path of a fixed hostile table, of the exhaustive pools of section A (all strings over
// {a,b,.,/} and over {a,.,/,\} up to a length bound) and of two random pools (the unnormalised
// spellings of section A and paths that are ALREADY in cleaned form, with and without a leading
// "../"… or "/") goes through
//
//   - bufcas.NewFileNode(path, digest)                         -> line `fnode <hexpath>`
//   - bufcas.ParseFileNode("<digest>  <path>")                 -> line `fparse <hextext>`
//   - bufcas.ParseManifest / BlobToManifest of a manifest text with the path on ONE line at position
//     pos among k benign lines (k = 0..3, every position; the table entries get all ten (k, pos)
//     combinations, the pool paths one combination each, rotating)        -> line `fman <hextext>`
//   - bufcas.NewFileSetForBucket over a read bucket whose Walk YIELDS the path among benign ones
//   - for every path a FileNode can be built for: NewManifest + NewBlobSet + NewFileSet +
//     PutFileSetToBucket into a DISK bucket with sentinels outside the root, and into a prefix view of a
//     memory bucket with sentinel keys outside the view.
//
// Oracle (implementation + Go's own path.Clean only, independent of the Lean model and of normalpath):
// a path is VALID iff it is non-empty, equals its own path.Clean form, is not "..", does not start with
// "../", is not absolute and holds no line feed.  "." is valid in that sense AS CODED (it is its own
// normal form and names the root itself, it does not leave it); no accept/reject verdict is demanded
// for it by the oracle — the model pins it.
//
//	bufcas-escaping-path-accepted     a path whose cleaned form is "..", "../…" or absolute was accepted
//	bufcas-unnormalized-path-accepted another invalid path (empty, not its own cleaned form, line feed) was accepted
//	bufcas-valid-path-rejected        a valid path was refused
//	bufcas-path-altered               an accepted node / manifest does not carry the literal path(s)
//	bufcas-entry-points-disagree      NewFileNode / ParseFileNode / ParseManifest / BlobToManifest /
//	                                  NewFileSetForBucket give different verdicts for the same path
//	bufcas-outside-created / bufcas-outside-modified   something outside the destination root changed
//	bufcas-valid-fileset-not-written  a file set of valid paths could not be written / has wrong content
//	bufcas-gate-panic
//
// Replay: `--only 3000000+i` runs case i of this section alone.

import (
	"bytes"
	"fmt"
	"io"
	"os"
	"path"
	"path/filepath"
	"sort"
	"strconv"
	"strings"

	"context"
	"github.com/bufbuild/buf/private/bufpkg/bufcas"
	"github.com/bufbuild/buf/private/pkg/storage"
	"github.com/bufbuild/buf/private/pkg/storage/storagemem"
	"github.com/bufbuild/buf/private/pkg/storage/storageos"
	"github.com/bufbuild/buf/private/pkg/storage/storageutil"
	"github.com/bufbuild/verifharness/internal/bk"
	"github.com/bufbuild/verifharness/internal/hx"
)

const gateOnlyBase = 3000000

// absProbe is an absolute path that COULD be created if something wrote it (we may run as root):
// checked and removed after every case that got a file node for it.
const absProbeDir = "/verif-c13-gate-abs-probe"

func mustDigest(content string) bufcas.Digest {
	d, err := bufcas.NewDigestForContent(strings.NewReader(content))
	must(err)
	return d
}

func mustBlob(content string) bufcas.Blob {
	b, err := bufcas.NewBlobForContent(strings.NewReader(content))
	must(err)
	return b
}

// gateValid is the oracle's own notion of a valid file-node path.
func gateValid(p string) (valid, escaping bool) {
	c := path.Clean(p)
	escaping = p != "" && (c == ".." || strings.HasPrefix(c, "../") || strings.HasPrefix(c, "/"))
	valid = p != "" && c == p && !escaping && !strings.Contains(p, "\n")
	return
}

func errChainAll(err error) []error {
	var out []error
	var walk func(e error)
	walk = func(e error) {
		if e == nil {
			return
		}
		out = append(out, e)
		switch u := e.(type) {
		case interface{ Unwrap() error }:
			walk(u.Unwrap())
		case interface{ Unwrap() []error }:
			for _, c := range u.Unwrap() {
				walk(c)
			}
		}
	}
	walk(err)
	return out
}

// gateClassify maps an error of the bufcas constructors / parsers to the tag vocabulary of the model
// (BufModel.Manifest.MErr; with detail the reason NormalizeAndValidate gave is appended).
func gateClassify(err error, detail bool) string {
	if err == nil {
		return "ok"
	}
	for _, e := range errChainAll(err) {
		msg := e.Error()
		switch {
		case msg == "empty string passed to ParseDigest":
			return "err digest-empty"
		case strings.HasPrefix(msg, "could not parse hex"):
			return "err digest-hex"
		case msg == `must in the form "digest_type:digest_hex_value"`:
			return "err digest-form"
		case strings.HasPrefix(msg, "unknown type"):
			return "err digest-type"
		case strings.HasPrefix(msg, "invalid shake256 digest value"):
			return "err digest-len"
		case msg == `must in the form "digest[SP][SP]path"`:
			return "err node-form"
		case msg == "path was empty":
			return "err path-empty"
		case strings.HasPrefix(msg, "path ") && strings.Contains(msg, " was not valid: "):
			if !detail {
				return "err path-invalid"
			}
			switch {
			case strings.HasSuffix(msg, "expected to be relative"):
				return "err path-invalid:not-relative"
			case strings.HasSuffix(msg, "is outside the context directory"):
				return "err path-invalid:outside-context"
			}
			return "err path-invalid:other"
		case strings.HasPrefix(msg, "path ") && strings.Contains(msg, " was not equal to normalized path "):
			return "err path-not-normal"
		case strings.HasPrefix(msg, "path ") && strings.HasSuffix(msg, " contains a line feed, which a manifest cannot represent"):
			return "err path-line-feed"
		case msg == "did not end with newline":
			return "err no-trailing-newline"
		case strings.HasPrefix(msg, "path ") && strings.Contains(msg, " was duplicated when creating a manifest"):
			return "err duplicate-path"
		}
	}
	return "err other"
}

// yieldBucket is a tiny storage.ReadBucket whose Walk yields exactly the given paths, in the given
// order, WITHOUT any validation — what a (buggy or hostile) bucket implementation could hand to
// bufcas.NewFileSetForBucket or to a module.
type yieldBucket struct {
	paths []string
	data  map[string]string
}

type yieldObject struct {
	storageutil.ObjectInfo
	io.Reader
}

func (yieldObject) Close() error { return nil }

func (y *yieldBucket) info(p string) storageutil.ObjectInfo {
	return storageutil.NewObjectInfo(p, p, "")
}

func (y *yieldBucket) Get(_ context.Context, p string) (storage.ReadObjectCloser, error) {
	d, ok := y.data[p]
	if !ok {
		return nil, &os.PathError{Op: "read", Path: p, Err: os.ErrNotExist}
	}
	return yieldObject{ObjectInfo: y.info(p), Reader: strings.NewReader(d)}, nil
}

func (y *yieldBucket) Stat(_ context.Context, p string) (storage.ObjectInfo, error) {
	if _, ok := y.data[p]; !ok {
		return nil, &os.PathError{Op: "stat", Path: p, Err: os.ErrNotExist}
	}
	return y.info(p), nil
}

func (y *yieldBucket) Walk(_ context.Context, _ string, f func(storage.ObjectInfo) error) error {
	for _, p := range y.paths {
		if err := f(y.info(p)); err != nil {
			return err
		}
	}
	return nil
}

// ---------------------------------------------------------------------------------------------
// generators

var cleanAtoms = []string{"a", "b", "x.proto", "etc", "passwd", "c.d", "x y", "..a", "a..", "...", ".hidden", "é", "é", "日本",
	"a\\b", "..\\o", "root", "sent", "outside.txt", "root_sibling", "s", "LICENSE", "buf.yaml", "a  b", " ", "%2e%2e"}

// cleanFormPath returns a path that is ALREADY in cleaned form: proper names joined by single
// separators, behind nothing, behind k copies of "../", or behind "/" — the class the seed needs.
func cleanFormPath(r *hx.Rand) string {
	var head string
	switch r.Intn(8) {
	case 0, 1, 2:
		head = ""
	case 3, 4:
		head = strings.Repeat("../", 1+r.Intn(3))
	case 5:
		head = "/"
	case 6:
		// ".." alone or "../.." …
		return strings.TrimSuffix(strings.Repeat("../", 1+r.Intn(3)), "/")
	default:
		if r.Bool() {
			return "/"
		}
		return "."
	}
	n := 1 + r.Intn(4)
	parts := make([]string, n)
	for i := range parts {
		parts[i] = hx.Pick(r, cleanAtoms)
	}
	return head + strings.Join(parts, "/")
}

type gateCase struct {
	path  string
	combo int // index into gateCombos, or -1 = all of them
	src   string
}

// (k benign lines, position of the probed line)
var gateCombos = [][2]int{{0, 0}, {1, 0}, {1, 1}, {2, 0}, {2, 1}, {2, 2}, {3, 0}, {3, 1}, {3, 2}, {3, 3}}

func gatePool(run *hx.Run, r *hx.Rand, benignDigest bufcas.Digest) []gateCase {
	var cases []gateCase
	ds := benignDigest.String()
	table := []string{
		// the seed's own witnesses first
		"..", "../x.proto", "../../etc/passwd", "../root/a.proto", "/etc/passwd", "/a.proto",
		"/", "../..", "../", "a/../../x", "./../x", "a/../..", "a//b", "./a", "a/", "a/.", "a/./b", "a/../b", ".", "", "./", "//a", "/../a",
		"a", "a/b.proto", "a.b", "..a", "a..", "...", ".../x", "a/.../b", ".hidden/x", "x y/z", " ", " a", "a ", "a  b", "a  b/c",
		"../sent", "../outside.txt", "../root_sibling/s", "../root_sibling/new.proto", "../new-outside.proto", "../root", "../root/x.proto",
		absProbeDir + "/x.proto", "/root/x.proto",
		// line feeds: a manifest cannot represent them
		"a\nb", "\n", "a/b\n", "\na", "a\n/b", "../x\n", "x\n" + ds + "  ../evil.proto", "x\n" + ds + "  y.proto", "x\n" + ds + "  /abs",
		"a\rb", "a\tb", "a\x00b",
	}
	table = append(table, escapes...)
	for _, a := range nameAtoms {
		table = append(table, a, "d/"+a, "../"+a, "/"+a, a+"/..", a+"/../..")
	}
	seen := map[string]bool{}
	for _, p := range table {
		if !seen[p] {
			seen[p] = true
			cases = append(cases, gateCase{path: p, combo: -1, src: "table"})
		}
	}
	n := 0
	add := func(p, src string) {
		cases = append(cases, gateCase{path: p, combo: n % len(gateCombos), src: src})
		n++
	}
	enumerate([]byte("ab./"), run.N(6, 8), func(s string) { add(s, "exhaustive") })
	enumerate([]byte("a./\\"), run.N(5, 6), func(s string) {
		if strings.ContainsRune(s, '\\') {
			add(s, "exhaustive-backslash")
		}
	})
	for i, m := 0, run.N(2500, 20000); i < m; i++ {
		add(cleanFormPath(r), "random-clean-form")
	}
	for i, m := 0, run.N(1500, 10000); i < m; i++ {
		add(randomPath(r), "random-unnormalised")
	}
	return cases
}

func sectionF(run *hx.Run, r *hx.Rand, tmpRoot string) {
	benign := []string{"zz-benign/k0.proto", "zz-benign/k1.proto", "zz-benign/sub/k2.proto"}
	benignContent := []string{"BENIGN0", "BENIGN1", "BENIGN2"}
	benignBlobs := make([]bufcas.Blob, len(benign))
	for i := range benign {
		benignBlobs[i] = mustBlob(benignContent[i])
	}
	probeBlob := mustBlob("PROBE")
	g := &gateRun{run: run, tmpRoot: tmpRoot, benign: benign, benignContent: benignContent, benignBlobs: benignBlobs, probeBlob: probeBlob}
	cases := gatePool(run, r, benignBlobs[0].Digest())
	run.Set("gate_cases", len(cases))
	for i, c := range cases {
		if run.Only >= 0 && run.Only != gateOnlyBase+i {
			continue
		}
		g.one(i, c)
	}
}

type gateRun struct {
	run           *hx.Run
	tmpRoot       string
	benign        []string
	benignContent []string
	benignBlobs   []bufcas.Blob
	probeBlob     bufcas.Blob
}

func (g *gateRun) one(i int, c gateCase) {
	run := g.run
	p := c.path
	valid, escaping := gateValid(p)
	replay := fmt.Sprintf("build/c13 --out /tmp/c13-replay --seed %d --tier %s --only %d", run.Seed, run.Tier, gateOnlyBase+i)
	input := map[string]any{"section": "F", "path": p, "path_hex": hx.Enc(p), "path_clean": path.Clean(p), "source": c.src,
		"oracle_valid": valid, "oracle_escaping": escaping}
	fail := func(class, what string) {
		run.Fail(hx.OracleFailure{Class: class, What: what, Input: input, Replay: replay})
	}
	defer func() {
		if rec := recover(); rec != nil {
			fail("bufcas-gate-panic", fmt.Sprintf("path %q: panic: %v", p, rec))
		}
	}()
	switch {
	case p == ".":
		run.Count("gate:class=dot")
	case valid:
		run.Count("gate:class=valid")
	case escaping && path.Clean(p) == p:
		run.Count("gate:class=escaping-clean-form")
	case escaping:
		run.Count("gate:class=escaping-unnormalised")
	case strings.Contains(p, "\n"):
		run.Count("gate:class=line-feed")
	case p == "":
		run.Count("gate:class=empty")
	default:
		run.Count("gate:class=unnormalised-inside")
	}
	run.Count("gate:src=" + c.src)
	// verdict judges one entry point's answer for the probed path against the oracle
	verdict := func(entry string, accepted bool) {
		if p == "." {
			return
		}
		switch {
		case accepted && escaping:
			fail("bufcas-escaping-path-accepted", fmt.Sprintf("%s accepted the path %q, whose cleaned form %q leaves the root", entry, p, path.Clean(p)))
		case accepted && !valid:
			fail("bufcas-unnormalized-path-accepted", fmt.Sprintf("%s accepted the path %q (cleaned form %q; empty, not normal, or with a line feed)", entry, p, path.Clean(p)))
		case !accepted && valid:
			fail("bufcas-valid-path-rejected", fmt.Sprintf("%s refused the valid path %q", entry, p))
		}
	}
	digest := g.probeBlob.Digest()

	// 1. NewFileNode
	node, nerr := bufcas.NewFileNode(p, digest)
	newOK := nerr == nil
	run.Case("fnode\t"+hx.Enc(p), gateClassify(nerr, true), newOK || escaping)
	run.Count("gate:NewFileNode=" + gateClassify(nerr, true))
	verdict("NewFileNode", newOK)
	if newOK && node.Path() != p {
		fail("bufcas-path-altered", fmt.Sprintf("NewFileNode(%q).Path() = %q", p, node.Path()))
	}

	// 2. ParseFileNode
	text := digest.String() + "  " + p
	pnode, perr := bufcas.ParseFileNode(text)
	parseOK := perr == nil
	pout := gateClassify(perr, false)
	if parseOK {
		pout = "ok " + hx.Enc(pnode.Path())
		if pnode.Path() != p {
			fail("bufcas-path-altered", fmt.Sprintf("ParseFileNode(%q).Path() = %q", text, pnode.Path()))
		}
	}
	run.Case("fparse\t"+hx.Enc(text), pout, true)
	verdict("ParseFileNode", parseOK)
	if parseOK != newOK {
		fail("bufcas-entry-points-disagree", fmt.Sprintf("path %q: NewFileNode error %v, ParseFileNode error %v", p, nerr, perr))
	}

	// 3. ParseManifest / BlobToManifest, the path at every position
	combos := gateCombos
	if c.combo >= 0 {
		combos = gateCombos[c.combo : c.combo+1]
	}
	for ci, kp := range combos {
		g.manifest(i, ci, p, kp[0], kp[1], valid, escaping, newOK, verdict, fail)
	}

	// 4. NewFileSetForBucket over a bucket that yields the path
	{
		yb := &yieldBucket{data: map[string]string{}}
		pos := i % 3
		for j := 0; j < 2; j++ {
			if j == pos {
				yb.paths = append(yb.paths, p)
			}
			yb.paths = append(yb.paths, g.benign[j])
			yb.data[g.benign[j]] = g.benignContent[j]
		}
		if pos == 2 {
			yb.paths = append(yb.paths, p)
		}
		yb.data[p] = "PROBE"
		fs, ferr := bufcas.NewFileSetForBucket(ctx, yb)
		run.Eval()
		verdict("NewFileSetForBucket (a bucket whose Walk yields the path)", ferr == nil)
		if (ferr == nil) != newOK {
			fail("bufcas-entry-points-disagree", fmt.Sprintf("path %q: NewFileNode error %v, NewFileSetForBucket error %v", p, nerr, ferr))
		}
		if ferr == nil {
			want := append([]string{p}, g.benign[:2]...)
			sort.Strings(want)
			var got []string
			for _, n := range fs.Manifest().FileNodes() {
				got = append(got, n.Path())
			}
			if strings.Join(got, "\x00") != strings.Join(want, "\x00") {
				fail("bufcas-path-altered", fmt.Sprintf("NewFileSetForBucket over paths %q has the manifest paths %q", yb.paths, got))
			}
		}
	}

	// 5. a file set holding the node, written to disk and through a memory view
	if newOK {
		g.fileSet(i, p, node, valid, c.src == "table", fail)
	} else {
		run.Count("gate:fileset=no-node")
	}
}

func (g *gateRun) manifest(i, ci int, p string, k, pos int, valid, escaping, newOK bool, verdict func(string, bool), fail func(string, string)) {
	run := g.run
	digest := g.probeBlob.Digest()
	var lines, wantPaths []string
	for j := 0; j <= k; j++ {
		if j == pos {
			lines = append(lines, digest.String()+"  "+p)
			wantPaths = append(wantPaths, p)
		}
		if j < k {
			lines = append(lines, g.benignBlobs[j].Digest().String()+"  "+g.benign[j])
			wantPaths = append(wantPaths, g.benign[j])
		}
	}
	text := strings.Join(lines, "\n") + "\n"
	m, err := bufcas.ParseManifest(text)
	out := gateClassify(err, false)
	var got []string
	if err == nil {
		encs := []string{}
		for _, n := range m.FileNodes() {
			got = append(got, n.Path())
			encs = append(encs, hx.Enc(n.Path()))
		}
		out = "ok " + strings.Join(encs, ",")
	}
	run.Case("fman\t"+hx.Enc(text), out, true)
	run.Count(fmt.Sprintf("gate:manifest k=%d pos=%d", k, pos))
	entry := fmt.Sprintf("ParseManifest (the path on line %d of %d)", pos, k+1)
	// whatever the text: a manifest that parsed holds valid paths only
	if err == nil {
		for _, q := range got {
			v, e := gateValid(q)
			if q == "." || v {
				continue
			}
			if e {
				fail("bufcas-escaping-path-accepted", fmt.Sprintf("%s of %q returned a manifest holding the path %q, whose cleaned form %q leaves the root", entry, text, q, path.Clean(q)))
			} else {
				fail("bufcas-unnormalized-path-accepted", fmt.Sprintf("%s of %q returned a manifest holding the path %q", entry, text, q))
			}
		}
	}
	if !strings.Contains(p, "\n") {
		verdict(entry, err == nil)
		if (err == nil) != newOK {
			fail("bufcas-entry-points-disagree", fmt.Sprintf("path %q: NewFileNode accepted=%v, %s error %v", p, newOK, entry, err))
		}
		if err == nil {
			sort.Strings(wantPaths)
			if strings.Join(got, "\x00") != strings.Join(wantPaths, "\x00") {
				fail("bufcas-path-altered", fmt.Sprintf("%s of %q has the paths %q, want %q", entry, text, got, wantPaths))
			}
		}
	}
	if (i+ci)%3 == 0 {
		blob, berr := bufcas.NewBlobForContent(strings.NewReader(text))
		must(berr)
		_, err2 := bufcas.BlobToManifest(blob)
		run.Eval()
		if (err2 == nil) != (err == nil) {
			fail("bufcas-entry-points-disagree", fmt.Sprintf("manifest text %q: ParseManifest error %v, BlobToManifest error %v", text, err, err2))
		}
	}
}

func memOutside(parent storage.ReadBucket) string {
	all, err := bk.WalkAll(ctx, parent, "")
	must(err)
	var out []string
	for _, kv := range all {
		if kv.K != "root" && !strings.HasPrefix(kv.K, "root/") {
			out = append(out, kv.K+"="+kv.V)
		}
	}
	sort.Strings(out)
	return strings.Join(out, ",")
}

func (g *gateRun) fileSet(i int, p string, node bufcas.FileNode, valid, fromTable bool, fail func(string, string)) {
	run := g.run
	nodes := []bufcas.FileNode{}
	blobs := []bufcas.Blob{g.probeBlob}
	for j := 0; j < 2; j++ {
		n, err := bufcas.NewFileNode(g.benign[j], g.benignBlobs[j].Digest())
		must(err)
		nodes = append(nodes, n)
		blobs = append(blobs, g.benignBlobs[j])
	}
	// the probed node between the benign ones (NewManifest sorts anyway)
	nodes = []bufcas.FileNode{nodes[0], node, nodes[1]}
	man, err := bufcas.NewManifest(nodes)
	if err != nil {
		fail("bufcas-valid-fileset-not-written", fmt.Sprintf("NewManifest over [%q %q %q] failed: %v", g.benign[0], p, g.benign[1], err))
		return
	}
	blobSet, err := bufcas.NewBlobSet(blobs)
	must(err)
	fileSet, err := bufcas.NewFileSet(man, blobSet)
	if err != nil {
		fail("bufcas-valid-fileset-not-written", fmt.Sprintf("NewFileSet with path %q failed: %v", p, err))
		return
	}
	want := map[string]string{g.benign[0]: g.benignContent[0], g.benign[1]: g.benignContent[1], p: "PROBE"}

	// memory: a prefix view "root" of a parent with sentinel keys outside
	{
		parent := storagemem.NewReadWriteBucket()
		for _, kv := range []bk.KV{{K: "outside.txt", V: "OUT1"}, {K: "root_sibling/s", V: "OUT2"}, {K: "sent", V: "OUT3"}, {K: "root/keep", V: "IN"}} {
			must(bk.PutString(ctx, parent, kv.K, kv.V))
		}
		before := memOutside(parent)
		view := storage.MapWriteBucket(parent, storage.MapOnPrefix("root"))
		perr := bufcas.PutFileSetToBucket(ctx, fileSet, view)
		run.Eval()
		if after := memOutside(parent); after != before {
			class := "bufcas-outside-modified"
			if len(after) > len(before) {
				class = "bufcas-outside-created"
			}
			fail(class, fmt.Sprintf("PutFileSetToBucket of a file set with path %q through a view rooted at \"root\" changed the parent outside the root: before %q after %q", p, before, after))
		}
		if valid && p != "." {
			if perr != nil {
				fail("bufcas-valid-fileset-not-written", fmt.Sprintf("PutFileSetToBucket (memory view) of a file set with the valid path %q failed: %v", p, perr))
			} else {
				for k, v := range want {
					if got, gerr := bk.ReadAll(ctx, parent, "root/"+k); gerr != nil || got != v {
						fail("bufcas-valid-fileset-not-written", fmt.Sprintf("after PutFileSetToBucket (memory view) object %q holds %q (%v), want %q", "root/"+k, got, gerr, v))
					}
				}
			}
		}
		run.Count("gate:fileset-mem=" + strconv.FormatBool(perr == nil))
	}

	// disk: every path the oracle calls invalid (a file node for it exists only on a broken tree), every table
	// entry, and every third valid pool path (quick tier budget; the memory view above sees them all)
	if valid && !fromTable && i%3 != 0 && !g.run.Thorough() {
		run.Count("gate:fileset-disk=skipped-valid-2-of-3")
		return
	}
	if strings.HasPrefix(p, "/") && !strings.HasPrefix(p, absProbeDir+"/") {
		// never hand an absolute path outside the probe directory to a disk bucket (we may be root)
		run.Count("gate:fileset-disk=skipped-absolute")
		return
	}
	tmp := filepath.Join(g.tmpRoot, "g"+strconv.Itoa(i))
	must(os.MkdirAll(filepath.Join(tmp, "root"), 0o755))
	must(os.MkdirAll(filepath.Join(tmp, "root_sibling"), 0o755))
	must(os.WriteFile(filepath.Join(tmp, "outside.txt"), []byte("OUT1"), 0o644))
	must(os.WriteFile(filepath.Join(tmp, "root_sibling", "s"), []byte("OUT2"), 0o644))
	must(os.WriteFile(filepath.Join(tmp, "sent"), []byte("OUT3"), 0o644))
	defer os.RemoveAll(tmp)
	before := listOutside(tmp)
	bucket, err := storageos.NewProvider().NewReadWriteBucket(filepath.Join(tmp, "root"))
	must(err)
	perr := bufcas.PutFileSetToBucket(ctx, fileSet, bucket)
	run.Eval()
	if after := listOutside(tmp); after != before {
		class := "bufcas-outside-modified"
		if len(after) > len(before) {
			class = "bufcas-outside-created"
		}
		fail(class, fmt.Sprintf("PutFileSetToBucket of a file set with path %q into the disk bucket %s/root changed files outside the root: before %q after %q", p, tmp, before, after))
	}
	if _, serr := os.Lstat(absProbeDir); serr == nil {
		os.RemoveAll(absProbeDir)
		fail("bufcas-outside-created", fmt.Sprintf("PutFileSetToBucket of a file set with path %q created %s", p, absProbeDir))
	}
	if st, serr := os.Lstat(filepath.Join(tmp, "root")); serr != nil || !st.IsDir() {
		fail("bufcas-outside-modified", fmt.Sprintf("after PutFileSetToBucket with path %q the bucket root is no longer a directory (%v)", p, serr))
	}
	if valid && p != "." && !strings.Contains(p, "\x00") { // NUL is a legal path byte for bufcas, not for the OS
		if perr != nil {
			fail("bufcas-valid-fileset-not-written", fmt.Sprintf("PutFileSetToBucket (disk) of a file set with the valid path %q failed: %v", p, perr))
		} else {
			for k, v := range want {
				data, rerr := os.ReadFile(filepath.Join(tmp, "root", filepath.FromSlash(k)))
				if rerr != nil || !bytes.Equal(data, []byte(v)) {
					fail("bufcas-valid-fileset-not-written", fmt.Sprintf("after PutFileSetToBucket (disk) file root/%s holds %q (%v), want %q", k, data, rerr, v))
				}
			}
		}
	}
	run.Count("gate:fileset-disk=" + strconv.FormatBool(perr == nil))
}
