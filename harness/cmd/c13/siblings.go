package main

// Section G: the SIBLING gates of the bufcas gate — the other places where a path NAMED BY SOMEBODY ELSE
// enters buf and must not leave its root.  Oracle only (no model lines): every escaping spelling of a
// small table (cleaned form "..", "../…" or absolute) must be REJECTED WITH AN ERROR by
//
//	module file paths   a module over a bucket whose Walk yields the path: Module.Digest (b5; goes through
//	                    the bufcas gate), StatFileInfo, GetFile must fail, and exporting the module
//	                    (storage.Copy of its storage view into a disk bucket) must fail and create nothing
//	                    outside the destination.  AS CODED the module's own WalkFileInfos passes a yielded
//	                    path through unchecked (buckets never yield such paths: view_frame_walk) — counted,
//	                    not alarmed; see the hand-off table.
//	--path values       bufmodule.LocalModuleWithTargetPaths (paths and exclude paths),
//	                    LocalModuleWithProtoFileTargetPath, buftarget.NewBucketTargeting (input sub-directory;
//	                    target paths / exclude paths below a controlling workspace)
//	buf.yaml            v2 modules[].path / includes / excludes, lint.ignore, breaking.ignore;
//	                    v1 build.excludes, lint.ignore (bufconfig.ReadBufYAMLFile on an in-memory reader)
//	buf.work.yaml       directories (bufconfig.ReadBufWorkYAMLFile)
//
// and a handful of benign spellings must be accepted by the gates that take any inside path.
// (Plugin response file names are C17's; archive entry names are section D.)
//
//	sibling-module-escaping-path-not-rejected, sibling-module-export-outside-created,
//	sibling-target-path-escaping-accepted, sibling-config-path-escaping-accepted,
//	sibling-valid-path-rejected, sibling-gate-panic, sibling-gate-hang (a gate call that does not return)
//
// Replay: `--only 4000000+i` (i = index into the table below).

import (
	"context"
	"fmt"
	"os"
	"path"
	"path/filepath"
	"strconv"
	"strings"
	"time"

	"github.com/bufbuild/buf/private/buf/buftarget"
	"github.com/bufbuild/buf/private/bufpkg/bufconfig"
	"github.com/bufbuild/buf/private/bufpkg/bufmodule"
	"github.com/bufbuild/buf/private/pkg/slogext"
	"github.com/bufbuild/buf/private/pkg/storage"
	"github.com/bufbuild/buf/private/pkg/storage/storagemem"
	"github.com/bufbuild/buf/private/pkg/storage/storageos"
	"github.com/bufbuild/verifharness/internal/hx"
)

const siblingOnlyBase = 4000000

var siblingTable = []string{
	// escaping
	"..", "../x", "../../x", "../../etc/passwd", "a/../..", "a/../../x", "./..", "./../x", "../", "..//x", "a/b/../../../x", "x/../../a",
	"../ok/../..", "../é", "../x y", "../sent", "../outside.txt", "../root_sibling/s", "../root/x",
	"/", "/abs", "/abs/x", "//abs", "/etc/passwd", "/../x", "/a/..",
	// benign controls (inside the root whatever the spelling)
	"ok/x", "a", "a/b/c", "..a/x", "a../x", ".../x", "ok/../x", "ok//x", "./ok/x",
}

// A mutated gate that lets an absolute path through can send normalpath.EqualsOrContainsPath into its
// (documented) endless loop: every gate call is bounded.  A gate that hung once is not called again
// (the stuck goroutine keeps a CPU until the harness exits).
const siblingTimeout = 20 * time.Second

var siblingHung = map[string]bool{}

func bounded(name string, f func() error) (err error, hung bool) {
	if siblingHung[name] {
		return fmt.Errorf("gate %q hung before; not called again", name), false
	}
	type res struct {
		err error
		p   any
	}
	ch := make(chan res, 1)
	go func() {
		defer func() {
			if r := recover(); r != nil {
				ch <- res{p: r}
			}
		}()
		ch <- res{err: f()}
	}()
	select {
	case r := <-ch:
		if r.p != nil {
			panic(r.p)
		}
		return r.err, false
	case <-time.After(siblingTimeout):
		siblingHung[name] = true
		return nil, true
	}
}

const siblingProto = "syntax = \"proto3\";\npackage p;\n"

func sectionG(run *hx.Run, tmpRoot string) {
	for i, h := range siblingTable {
		if run.Only >= 0 && run.Only != siblingOnlyBase+i {
			continue
		}
		siblingCase(run, i, h, tmpRoot)
	}
}

func siblingCase(run *hx.Run, i int, h string, tmpRoot string) {
	c := path.Clean(h)
	escaping := c == ".." || strings.HasPrefix(c, "../") || strings.HasPrefix(c, "/")
	replay := fmt.Sprintf("build/c13 --out /tmp/c13-replay --seed %d --tier %s --only %d", run.Seed, run.Tier, siblingOnlyBase+i)
	input := map[string]any{"section": "G", "path": h, "path_hex": hx.Enc(h), "path_clean": c, "escaping": escaping}
	fail := func(class, what string) {
		run.Fail(hx.OracleFailure{Class: class, What: what, Input: input, Replay: replay})
	}
	// gate runs one gate; accepted reports whether it took the value without an error
	gate := func(class, name string, f func() error) {
		defer func() {
			if rec := recover(); rec != nil {
				fail("sibling-gate-panic", fmt.Sprintf("%s with %q: panic: %v", name, h, rec))
			}
		}()
		err, hung := bounded(name, f)
		if hung {
			fail("sibling-gate-hang", fmt.Sprintf("%s with %q did not return within %v", name, h, siblingTimeout))
			return
		}
		run.Eval()
		run.Count(fmt.Sprintf("sibling:%s escaping=%v accepted=%v", name, escaping, err == nil))
		if escaping && err == nil {
			fail(class, fmt.Sprintf("%s accepted %q, whose cleaned form %q leaves the root", name, h, c))
		}
	}
	// control: a benign value must be accepted (only for the gates that take ANY inside path)
	control := func(name string, f func() error) {
		if escaping || siblingHung[name] {
			return
		}
		defer func() {
			if rec := recover(); rec != nil {
				fail("sibling-gate-panic", fmt.Sprintf("%s with %q: panic: %v", name, h, rec))
			}
		}()
		err, hung := bounded(name, f)
		if hung {
			fail("sibling-gate-hang", fmt.Sprintf("%s with %q did not return within %v", name, h, siblingTimeout))
		} else if err != nil {
			fail("sibling-valid-path-rejected", fmt.Sprintf("%s refused the inside path %q: %v", name, h, err))
		}
	}

	// ---- module file paths: a bucket that yields the path ----
	if escaping {
		hp := h + ".proto"
		if strings.HasSuffix(h, "/") || h == ".." || strings.HasSuffix(h, "/..") {
			hp = h // a directory-like spelling: keep it literal, the module classifies it as "other file"
		}
		build := func() (bufmodule.Module, error) {
			yb := &yieldBucket{paths: []string{"good.proto", hp}, data: map[string]string{"good.proto": siblingProto, hp: siblingProto}}
			b := bufmodule.NewModuleSetBuilder(ctx, slogext.NopLogger, bufmodule.NopModuleDataProvider, bufmodule.NopCommitProvider)
			b.AddLocalModule(yb, "m", true)
			ms, err := b.Build()
			if err != nil {
				return nil, err
			}
			return ms.Modules()[0], nil
		}
		yielded := false
		gate("sibling-module-escaping-path-not-rejected", "module walk + digest (b5) over a bucket yielding the path", func() error {
			m, err := build()
			if err != nil {
				return err
			}
			if werr := m.WalkFileInfos(ctx, func(fi bufmodule.FileInfo) error {
				if fi.Path() == hp {
					yielded = true
				}
				return nil
			}); werr != nil {
				return werr
			}
			if !yielded {
				// the module did not consider the name a module file at all (e.g. ".."): nothing to digest
				return fmt.Errorf("not a module file")
			}
			_, err = m.Digest(bufmodule.DigestTypeB5)
			return err
		})
		if yielded {
			run.Count("sibling:module-walk-yields-escaping-path-as-coded")
		}
		gate("sibling-module-escaping-path-not-rejected", "Module.StatFileInfo", func() error {
			m, err := build()
			if err != nil {
				return err
			}
			_, err = m.StatFileInfo(ctx, hp)
			return err
		})
		gate("sibling-module-escaping-path-not-rejected", "Module.GetFile", func() error {
			m, err := build()
			if err != nil {
				return err
			}
			f, err := m.GetFile(ctx, hp)
			if err == nil {
				f.Close()
			}
			return err
		})
		// export: copy the module's storage view into a disk bucket with sentinels outside
		func() {
			defer func() {
				if rec := recover(); rec != nil {
					fail("sibling-gate-panic", fmt.Sprintf("module export with %q: panic: %v", h, rec))
				}
			}()
			if strings.HasPrefix(hp, "/") {
				return // never hand an absolute path to a disk bucket (we may be root)
			}
			m, err := build()
			if err != nil || !yielded {
				return
			}
			tmp := filepath.Join(tmpRoot, "sib"+strconv.Itoa(i))
			must(os.MkdirAll(filepath.Join(tmp, "root"), 0o755))
			must(os.MkdirAll(filepath.Join(tmp, "root_sibling"), 0o755))
			must(os.WriteFile(filepath.Join(tmp, "outside.txt"), []byte("OUT1"), 0o644))
			must(os.WriteFile(filepath.Join(tmp, "root_sibling", "s"), []byte("OUT2"), 0o644))
			must(os.WriteFile(filepath.Join(tmp, "sent"), []byte("OUT3"), 0o644))
			defer os.RemoveAll(tmp)
			before := listOutside(tmp)
			dest, err := storageos.NewProvider().NewReadWriteBucket(filepath.Join(tmp, "root"))
			must(err)
			cerr, hung := bounded("module export", func() error {
				_, err := storage.Copy(ctx, bufmodule.ModuleReadBucketToStorageReadBucket(m), dest)
				return err
			})
			if hung {
				fail("sibling-gate-hang", fmt.Sprintf("exporting a module holding the file path %q did not return within %v", hp, siblingTimeout))
				return
			}
			run.Eval()
			if after := listOutside(tmp); after != before {
				fail("sibling-module-export-outside-created", fmt.Sprintf("exporting a module holding the file path %q into %s/root changed files outside: before %q after %q", hp, tmp, before, after))
			}
			if cerr == nil {
				fail("sibling-module-escaping-path-not-rejected", fmt.Sprintf("exporting a module holding the file path %q (cleaned %q) into a disk bucket reported no error", hp, path.Clean(hp)))
			}
		}()
	} else {
		control("module over a bucket yielding the path (walk, digest)", func() error {
			hp := path.Clean(h) + ".proto" // buckets yield normalized paths
			yb := &yieldBucket{paths: []string{"good.proto", hp}, data: map[string]string{"good.proto": siblingProto, hp: siblingProto}}
			b := bufmodule.NewModuleSetBuilder(ctx, slogext.NopLogger, bufmodule.NopModuleDataProvider, bufmodule.NopCommitProvider)
			b.AddLocalModule(yb, "m", true)
			ms, err := b.Build()
			if err != nil {
				return err
			}
			_, err = ms.Modules()[0].Digest(bufmodule.DigestTypeB5)
			return err
		})
	}

	// ---- --path values ----
	localModule := func(opt bufmodule.LocalModuleOption) error {
		b := bufmodule.NewModuleSetBuilder(ctx, slogext.NopLogger, bufmodule.NopModuleDataProvider, bufmodule.NopCommitProvider)
		b.AddLocalModule(storagemem.NewReadWriteBucket(), "m", true, opt)
		_, err := b.Build()
		return err
	}
	for _, g := range []struct {
		name string
		f    func() error
	}{
		{"LocalModuleWithTargetPaths (target path)", func() error { return localModule(bufmodule.LocalModuleWithTargetPaths([]string{h}, nil)) }},
		{"LocalModuleWithTargetPaths (exclude path)", func() error { return localModule(bufmodule.LocalModuleWithTargetPaths(nil, []string{h})) }},
		{"LocalModuleWithTargetPaths (second target path)", func() error {
			return localModule(bufmodule.LocalModuleWithTargetPaths([]string{"ok", h}, []string{"ok/excluded"}))
		}},
		{"LocalModuleWithProtoFileTargetPath", func() error {
			// a .proto file BELOW the probed spelling: escapes exactly when the spelling does
			return localModule(bufmodule.LocalModuleWithProtoFileTargetPath(h+"/x.proto", false))
		}},
		{"buftarget.NewBucketTargeting (input sub-directory)", func() error {
			_, err := buftarget.NewBucketTargeting(ctx, slogext.NopLogger, storagemem.NewReadWriteBucket(), h, nil, nil, nil)
			return err
		}},
	} {
		gate("sibling-target-path-escaping-accepted", g.name, g.f)
		control(g.name, g.f)
	}
	// below a controlling workspace "ws" the target paths are re-expressed relative to it: a target
	// outside the workspace must be refused
	workspaceTerm := func(_ context.Context, _ storage.ReadBucket, prefix string, _ string) (buftarget.ControllingWorkspace, error) {
		if prefix == "ws" {
			return buftarget.NewControllingWorkspace("ws", nil, nil), nil
		}
		return nil, nil
	}
	for _, excl := range []bool{false, true} {
		name := "buftarget.NewBucketTargeting (target path below workspace ws)"
		if excl {
			name = "buftarget.NewBucketTargeting (exclude path below workspace ws)"
		}
		for _, t := range []string{h, "ws/" + h, "ws/sub/../../" + h} {
			esc := func() bool {
				ct := path.Clean(t)
				return !(ct == "ws" || strings.HasPrefix(ct, "ws/"))
			}()
			func() {
				defer func() {
					if rec := recover(); rec != nil {
						fail("sibling-gate-panic", fmt.Sprintf("%s with %q: panic: %v", name, t, rec))
					}
				}()
				var targets, excludes []string
				if excl {
					excludes = []string{t}
				} else {
					targets = []string{t}
				}
				err, hung := bounded(name, func() error {
					_, err := buftarget.NewBucketTargeting(ctx, slogext.NopLogger, storagemem.NewReadWriteBucket(), "ws/sub", targets, excludes, workspaceTerm)
					return err
				})
				if hung {
					fail("sibling-gate-hang", fmt.Sprintf("%s with %q did not return within %v", name, t, siblingTimeout))
					return
				}
				run.Eval()
				run.Count(fmt.Sprintf("sibling:%s outside-workspace=%v accepted=%v", name, esc, err == nil))
				if esc && err == nil {
					fail("sibling-target-path-escaping-accepted", fmt.Sprintf("%s accepted %q (cleaned %q), which is outside the workspace \"ws\"", name, t, path.Clean(t)))
				}
				if !esc && err != nil {
					fail("sibling-valid-path-rejected", fmt.Sprintf("%s refused %q (cleaned %q), which is inside the workspace \"ws\": %v", name, t, path.Clean(t), err))
				}
			}()
		}
	}

	// ---- configuration files ----
	// a YAML double-quoted scalar (the table holds printable characters only)
	bufYAML := func(format string) func(q string) error {
		return func(q string) error {
			_, err := bufconfig.ReadBufYAMLFile(strings.NewReader(fmt.Sprintf(format, q)), "buf.yaml")
			return err
		}
	}
	bufWorkYAML := func(format string) func(q string) error {
		return func(q string) error {
			_, err := bufconfig.ReadBufWorkYAMLFile(strings.NewReader(fmt.Sprintf(format, q)), "buf.work.yaml")
			return err
		}
	}
	type cfg struct {
		name string
		f    func(q string) error
		// the benign control value is the probed spelling itself, or the spelling below the module directory
		belowModule bool
	}
	for _, g := range []cfg{
		{"buf.yaml v2 modules[].path", bufYAML("version: v2\nmodules:\n  - path: %s\n"), false},
		{"buf.yaml v2 modules[1].path", bufYAML("version: v2\nmodules:\n  - path: zz-first\n  - path: %s\n"), false},
		{"buf.yaml v2 modules[].includes", bufYAML("version: v2\nmodules:\n  - path: proto\n    includes:\n      - %s\n"), true},
		{"buf.yaml v2 modules[].excludes", bufYAML("version: v2\nmodules:\n  - path: proto\n    excludes:\n      - %s\n"), true},
		{"buf.yaml v2 lint.ignore", bufYAML("version: v2\nmodules:\n  - path: proto\nlint:\n  ignore:\n    - %s\n"), false},
		{"buf.yaml v2 lint.ignore_only", bufYAML("version: v2\nmodules:\n  - path: proto\nlint:\n  ignore_only:\n    ENUM_PASCAL_CASE:\n      - %s\n"), false},
		{"buf.yaml v2 breaking.ignore", bufYAML("version: v2\nmodules:\n  - path: proto\nbreaking:\n  ignore:\n    - %s\n"), false},
		{"buf.yaml v2 modules[].lint.ignore", bufYAML("version: v2\nmodules:\n  - path: proto\n    lint:\n      ignore:\n        - %s\n"), true},
		{"buf.yaml v2 modules[].breaking.ignore_only", bufYAML("version: v2\nmodules:\n  - path: proto\n    breaking:\n      ignore_only:\n        FILE_NO_DELETE:\n          - %s\n"), true},
		{"buf.yaml v1 build.excludes", bufYAML("version: v1\nbuild:\n  excludes:\n    - %s\n"), false},
		{"buf.yaml v1 lint.ignore", bufYAML("version: v1\nlint:\n  ignore:\n    - %s\n"), false},
		{"buf.yaml v1 breaking.ignore", bufYAML("version: v1\nbreaking:\n  ignore:\n    - %s\n"), false},
		{"buf.yaml v1beta1 build.roots", bufYAML("version: v1beta1\nbuild:\n  roots:\n    - %s\n"), false},
		{"buf.work.yaml directories", bufWorkYAML("version: v1\ndirectories:\n  - %s\n"), false},
		{"buf.work.yaml directories[1]", bufWorkYAML("version: v1\ndirectories:\n  - zz-first\n  - %s\n"), false},
	} {
		gate("sibling-config-path-escaping-accepted", g.name, func() error { return g.f(strconv.Quote(h)) })
		if g.belowModule {
			// the same spelling below the module directory "proto": escapes the module directory when it
			// climbs out of it
			v := "proto/" + h
			cv := path.Clean(v)
			if cv == "proto" || strings.HasPrefix(cv, "proto/") {
				if !strings.HasPrefix(h, "/") {
					control(g.name+" (below the module directory)", func() error { return g.f(strconv.Quote(v)) })
				}
			}
		} else {
			control(g.name, func() error { return g.f(strconv.Quote(h)) })
		}
	}
}
