package main

// Section D: archive extraction over the whole ENTRY-KIND family.
//
// storagearchive.Untar / Unzip are run on real archive bytes whose entries carry hostile and
// benign names on EVERY kind of entry the formats know: tar regular ('0' and the legacy '\x00'),
// directory, symlink and hard link (with hostile link targets), fifo, char/block device,
// contiguous, PAX global header, unknown typeflags, regular typeflags whose MODE FIELD carries
// dir/symlink/fifo/device/socket bits; names carried by plain ustar headers, by PAX `path`
// records, by GNU 'L'/'K' long-name records, by archive/tar's Writer (USTAR/PAX/GNU) and by
// hand-written raw headers; zip regular files, names ending in '/', unix dir/symlink/fifo/
// socket/device modes, the MS-DOS directory attribute; AppleDouble "._" names on all of them.
//
// The first part of the section is a STRATIFIED product (entry kind x name x strip-components),
// enumerated deterministically so that every run covers every combination; destination (memory,
// memory behind a prefix view with sentinels, disk with sentinels), matcher, size limit, carrier,
// link target and the position of the probe entry among benign context entries rotate with the
// seed.  The second part is "slip" sequences (a link entry followed by an entry written beneath /
// onto it), the third random multi-entry archives.
//
// Protocol line (`xt`): the entries exactly as the archive READER yields them (independent listing
// pass over the bytes) + options; the Lean model BufModel.ArchiveKinds.extractRaw answers outcome
// and written objects.  The oracle uses the listing and the implementation's result only.

import (
	"archive/tar"
	"bytes"
	"fmt"
	"io"
	"io/fs"
	"os"
	"path"
	"path/filepath"
	"sort"
	"strconv"
	"strings"

	"github.com/bufbuild/buf/private/pkg/storage"
	"github.com/bufbuild/buf/private/pkg/storage/storagearchive"
	"github.com/bufbuild/buf/private/pkg/storage/storagemem"
	"github.com/bufbuild/buf/private/pkg/storage/storageos"
	"github.com/bufbuild/verifharness/internal/bk"
	"github.com/bufbuild/verifharness/internal/hx"
	"github.com/klauspost/compress/zip"
)

const archOnlyBase = 1000000

// ---- what is written into the archive ------------------------------------------------------

type aKind struct {
	label string
	zip   bool
	// tar
	flag     byte  // typeflag written into the header
	modeBits int64 // c_IS* bits OR-ed into the mode field
	rawOnly  bool  // archive/tar's Writer cannot / will not write it
	// zip
	zmode   fs.FileMode // SetMode argument (0 = leave creator FAT, attributes 0)
	zattr   uint32      // raw ExternalAttrs when zmode == 0
	zslash  bool        // append '/' to the name
	hasLink bool        // entry carries a link target (tar Linkname / zip content)
	noData  bool        // header-only: no content
}

const (
	cISREG  = 0o100000
	cISLNK  = 0o120000
	cISBLK  = 0o060000
	cISDIR  = 0o040000
	cISCHR  = 0o020000
	cISFIFO = 0o010000
	cISSOCK = 0o140000
)

var tarKinds = []aKind{
	{label: "tar:reg", flag: tar.TypeReg},
	{label: "tar:regA", flag: 0, rawOnly: true},
	{label: "tar:dir", flag: tar.TypeDir, noData: true},
	{label: "tar:symlink", flag: tar.TypeSymlink, hasLink: true, noData: true},
	{label: "tar:hardlink", flag: tar.TypeLink, hasLink: true, noData: true},
	{label: "tar:fifo", flag: tar.TypeFifo, noData: true},
	{label: "tar:char", flag: tar.TypeChar, noData: true},
	{label: "tar:block", flag: tar.TypeBlock, noData: true},
	{label: "tar:cont", flag: tar.TypeCont},
	{label: "tar:xglobal", flag: tar.TypeXGlobalHeader, noData: true},
	{label: "tar:unknownZ", flag: 'Z', rawOnly: true},
	{label: "tar:volumeV", flag: 'V', rawOnly: true, noData: true},
	{label: "tar:reg+modeDir", flag: tar.TypeReg, modeBits: cISDIR},
	{label: "tar:reg+modeLnk", flag: tar.TypeReg, modeBits: cISLNK, hasLink: true},
	{label: "tar:reg+modeFifo", flag: tar.TypeReg, modeBits: cISFIFO},
	{label: "tar:reg+modeSock", flag: tar.TypeReg, modeBits: cISSOCK},
	{label: "tar:reg+modeBlk", flag: tar.TypeReg, modeBits: cISBLK},
	{label: "tar:reg+modeChr", flag: tar.TypeReg, modeBits: cISCHR},
	{label: "tar:reg+modeReg", flag: tar.TypeReg, modeBits: cISREG},
	{label: "tar:dir+modeReg", flag: tar.TypeDir, modeBits: cISREG, noData: true},
	{label: "tar:symlink+modeDir", flag: tar.TypeSymlink, modeBits: cISDIR, hasLink: true, noData: true},
}

var zipKinds = []aKind{
	{label: "zip:reg", zip: true},
	{label: "zip:unixReg", zip: true, zmode: 0o644},
	{label: "zip:dirSlash", zip: true, zslash: true, noData: true},
	{label: "zip:unixDirSlash", zip: true, zmode: fs.ModeDir | 0o755, zslash: true, noData: true},
	{label: "zip:unixDirNoSlash", zip: true, zmode: fs.ModeDir | 0o755},
	{label: "zip:dosDirAttr", zip: true, zattr: 0x10},
	{label: "zip:symlink", zip: true, zmode: fs.ModeSymlink | 0o777, hasLink: true},
	{label: "zip:symlinkSlash", zip: true, zmode: fs.ModeSymlink | 0o777, hasLink: true, zslash: true, noData: true},
	{label: "zip:fifo", zip: true, zmode: fs.ModeNamedPipe | 0o644},
	{label: "zip:socket", zip: true, zmode: fs.ModeSocket | 0o644},
	{label: "zip:blockDev", zip: true, zmode: fs.ModeDevice | 0o644},
	{label: "zip:charDev", zip: true, zmode: fs.ModeDevice | fs.ModeCharDevice | 0o644},
}

type aName struct {
	fam  string
	name string
}

var longBenign = strings.Repeat("dd/", 40) + "long.proto"                                    // 130 bytes: needs prefix split / PAX / GNU
var longHostile = strings.Repeat("dd/", 45) + strings.Repeat("../", 46) + "outside.txt"      // 284 bytes, climbs out by one
var longBack = strings.Repeat("dd/", 45) + strings.Repeat("../", 45) + "top/long-back.proto" // long but stays inside
var longAbs = "/" + strings.Repeat("abs-long/", 30) + "e"                                    // absolute, 272 bytes

var archProbeNames = []aName{
	// benign
	{"benign", "top/a/x"}, {"benign", "a/x.proto"}, {"benign", "top/b.proto"}, {"benign", "x/y/z/w.proto"}, {"benign", "top"},
	{"benign-spelling", "./top/c"}, {"benign-spelling", "top//d"}, {"benign-spelling", "top/./e/../f"}, {"benign-spelling", "top/a/."},
	{"benign-spelling", "top/../x"}, {"benign-spelling", "a/b/../../x/y"}, {"benign-spelling", "top/q/../../top2/r.proto"},
	{"trail", "top/a/"}, {"trail", "top/t.proto/"}, {"trail", "top/a//"},
	{"dots", "..a/b"}, {"dots", "a/..b"}, {"dots", "..."}, {"dots", "top/.../x"}, {"dots", "top/..x/y"}, {"dots", ".hidden/.x"},
	{"bslash", "k\\b"}, {"bslash", "top/..\\..\\x"}, {"bslash", "..\\x"}, {"bslash", "\\abs"}, {"bslash", "top\\..\\..\\outside.txt"}, {"bslash", "..\\/../x"},
	{"unicode", "t/e\u0301"}, {"unicode", "t/\u00e9"}, {"unicode", "t/\u1100\u1161"}, {"unicode", "t/\uac00"}, {"unicode", "t/\u212b"}, {"unicode", "t/\u00c5"},
	{"unicode", "t/a\u200db"}, {"unicode", "t/\u202ex.proto"}, {"unicode", "\uff0e\uff0e/o"}, {"unicode", "..\uff0fo"}, {"unicode", "%2e%2e/o"}, {"unicode", "..%2fo"},
	{"space", "t/s p"}, {"space", " /x"}, {"space", "top/ "},
	{"long", longBenign}, {"long", longBack},
	// the root itself / nothing left
	{"root", "."}, {"root", "./"}, {"root", "top/.."}, {"root", "a/b/../.."}, {"root", "./."},
	// escaping
	{"esc", ".."}, {"esc", "../"}, {"esc", "../x"}, {"esc", "../../x"}, {"esc", "a/../../x"}, {"esc", "top/../../evil"},
	{"esc", "a/b/../../../x"}, {"esc", "./../x"}, {"esc", "..//x"}, {"esc", "../."}, {"esc", ".././.."}, {"esc", "a/../.."},
	{"esc", "../outside.txt"}, {"esc", "top/../../outside.txt"}, {"esc", "a/../../root_sibling/s"}, {"esc", "../sent"},
	{"esc", "x/y/z/../../../../sent"}, {"esc", "../top/a/x"}, {"esc", "../k0/k1/k2/k3/x.proto"},
	{"esc-trail", "../evil/"}, {"esc-trail", "x/../../sent/"}, {"esc-trail", "../root_sibling/"}, {"esc-trail", "..//"},
	{"esc-unicode", "../e\u0301"}, {"esc-unicode", "\u00e9/../../x"}, {"esc-unicode", "../\uac00/x.proto"},
	{"esc-long", longHostile},
	// absolute
	{"abs", "/x"}, {"abs", "/abs/e"}, {"abs", "//x"}, {"abs", "/"}, {"abs", "/.."}, {"abs", "/../x"}, {"abs", "/./x.proto"},
	{"abs", "/etc/passwd"}, {"abs", "/abs/d/"}, {"abs", "//"}, {"abs-long", longAbs}, {"abs-scratch", "@SCRATCH@/abs_target/e"},
	// AppleDouble
	{"apple", "._x"}, {"apple", "dir/._x"}, {"apple", "top/a/._x.proto"}, {"apple", "__MACOSX/._x"}, {"apple", "__MACOSX/top/a/._x.proto"},
	{"apple", "._d/"}, {"apple", "top/._d/"}, {"apple", "top/a/../._y"},
	{"apple-not", "top/._d/x"}, {"apple-not", "._x/.."}, {"apple-not", "top/.__x"}, {"apple-not", "top/_.x"}, {"apple-not", "top/x._"},
	{"apple-esc", "../._x"}, {"apple-esc", "/._x"}, {"apple-esc", "a/../../._x"}, {"apple-esc", "../._d/"}, {"apple-esc", "../dir/._x.proto"},
	{"apple-esc", "/abs/._x"}, {"apple-esc", "../../._outside.txt"},
	// empty (raw tar header / zip)
	{"empty", ""},
	// NUL (zip into memory only)
	{"nul", "a\x00b"}, {"nul", "../x\x00"}, {"nul", "top/\x00/../../../x"},
}

var archLinkTargets = []string{"../../etc/passwd", "/etc/passwd", "../outside.txt", "../../outside.txt", "target", "a/x", "",
	"../root_sibling", "@SCRATCH@/slip_target", "../../../../../../../../tmp", strings.Repeat("../", 50) + "etc/passwd", "..", "/", "top/a/x"}

// aEnt is one entry to be written.
type aEnt struct {
	kind    aKind
	name    string
	link    string
	content string
	carrier string // tar: raw | raw-pax | raw-gnu | w-ustar | w-pax | w-gnu ; zip: "zip"
	probe   bool
}

// ---- tar writers -----------------------------------------------------------------------------

func octal(b []byte, v int64) {
	s := strconv.FormatInt(v, 8)
	for len(s) < len(b)-1 {
		s = "0" + s
	}
	copy(b, s)
	b[len(b)-1] = 0
}

// rawHeader writes one 512-byte header block; name/link longer than 100 bytes are truncated (the
// caller uses a PAX or GNU record for those).  gnu selects the GNU magic.
func rawHeader(w *bytes.Buffer, flag byte, name, link string, mode, size int64, gnu bool) {
	var blk [512]byte
	copy(blk[0:100], name)
	octal(blk[100:108], mode)
	octal(blk[108:116], 0)
	octal(blk[116:124], 0)
	octal(blk[124:136], size)
	octal(blk[136:148], 0)
	blk[156] = flag
	copy(blk[157:257], link)
	if gnu {
		copy(blk[257:265], "ustar  \x00")
	} else {
		copy(blk[257:263], "ustar\x00")
		copy(blk[263:265], "00")
	}
	for i := 148; i < 156; i++ {
		blk[i] = ' '
	}
	var sum int64
	for _, c := range blk {
		sum += int64(c)
	}
	s := strconv.FormatInt(sum, 8)
	for len(s) < 6 {
		s = "0" + s
	}
	copy(blk[148:154], s)
	blk[154] = 0
	blk[155] = ' '
	w.Write(blk[:])
}

func rawData(w *bytes.Buffer, data string) {
	w.WriteString(data)
	if pad := (512 - len(data)%512) % 512; pad > 0 {
		w.Write(make([]byte, pad))
	}
}

func paxRecord(k, v string) string {
	// "<len> k=v\n" where len counts itself
	n := len(k) + len(v) + 3
	for {
		s := strconv.Itoa(n)
		if len(s)+len(k)+len(v)+3 == n {
			return s + " " + k + "=" + v + "\n"
		}
		n = len(s) + len(k) + len(v) + 3
	}
}

func placeholderLink(e aEnt) string {
	if e.kind.hasLink {
		return "placeholder-link"
	}
	return ""
}

func writeTarEntryRaw(w *bytes.Buffer, e aEnt) {
	mode := int64(0o644) | e.kind.modeBits
	data := e.content
	if e.kind.noData || (e.kind.flag == 0 && strings.HasSuffix(e.name, "/")) {
		data = "" // a legacy '\x00' header whose name ends in '/' IS a directory for the reader: header-only
	}
	size := int64(len(data))
	switch e.carrier {
	case "raw-pax":
		recs := paxRecord("path", e.name)
		if e.kind.hasLink && e.link != "" {
			recs += paxRecord("linkpath", e.link)
		}
		rawHeader(w, tar.TypeXHeader, "PaxHeaders.0/placeholder", "", 0o644, int64(len(recs)), false)
		rawData(w, recs)
		rawHeader(w, e.kind.flag, "placeholder", placeholderLink(e), mode, size, false)
	case "raw-gnu":
		rawHeader(w, tar.TypeGNULongName, "././@LongLink", "", 0o644, int64(len(e.name)+1), true)
		rawData(w, e.name+"\x00")
		if e.kind.hasLink && e.link != "" {
			rawHeader(w, tar.TypeGNULongLink, "././@LongLink", "", 0o644, int64(len(e.link)+1), true)
			rawData(w, e.link+"\x00")
		}
		rawHeader(w, e.kind.flag, "placeholder", placeholderLink(e), mode, size, true)
	default:
		link := ""
		if e.kind.hasLink {
			link = e.link
		}
		rawHeader(w, e.kind.flag, e.name, link, mode, size, false)
	}
	rawData(w, data)
}

// writeTarEntryWriter writes through archive/tar's Writer into its own buffer (so that a refused
// header cannot corrupt the archive); ok=false → caller falls back to a raw carrier.
func writeTarEntryWriter(e aEnt) ([]byte, bool) {
	var b bytes.Buffer
	tw := tar.NewWriter(&b)
	h := &tar.Header{Typeflag: e.kind.flag, Name: e.name, Mode: 0o644 | e.kind.modeBits}
	switch e.carrier {
	case "w-ustar":
		h.Format = tar.FormatUSTAR
	case "w-pax":
		h.Format = tar.FormatPAX
	case "w-gnu":
		h.Format = tar.FormatGNU
	}
	if e.kind.hasLink {
		h.Linkname = e.link
	}
	data := e.content
	if e.kind.noData {
		data = ""
	}
	h.Size = int64(len(data))
	if e.kind.flag == tar.TypeXGlobalHeader {
		h = &tar.Header{Typeflag: tar.TypeXGlobalHeader, Name: e.name, PAXRecords: map[string]string{"comment": "c13"}, Format: tar.FormatPAX}
	}
	if err := tw.WriteHeader(h); err != nil {
		return nil, false
	}
	if len(data) > 0 {
		if _, err := tw.Write([]byte(data)); err != nil {
			return nil, false
		}
	}
	if err := tw.Flush(); err != nil {
		return nil, false
	}
	return b.Bytes(), true
}

func buildTar(run *hx.Run, ents []aEnt) []byte {
	var w bytes.Buffer
	for i := range ents {
		e := ents[i]
		if strings.HasPrefix(e.carrier, "w-") && !e.kind.rawOnly {
			if blk, ok := writeTarEntryWriter(e); ok {
				w.Write(blk)
				continue
			}
			run.Count("archD:writer-refused:" + e.carrier)
			e.carrier = "raw"
		}
		if strings.HasPrefix(e.carrier, "w-") {
			e.carrier = "raw"
		}
		if e.carrier == "raw" && (len(e.name) > 100 || (e.kind.hasLink && len(e.link) > 100)) {
			e.carrier = "raw-gnu"
		}
		if (e.carrier == "raw-pax" || e.carrier == "raw-gnu") && e.name == "" {
			e.carrier = "raw" // an empty PAX path / GNU long name is "no override"
		}
		if e.carrier == "raw-pax" && strings.ContainsRune(e.name+e.link, 0) {
			e.carrier = "raw"
		}
		ents[i].carrier = e.carrier
		writeTarEntryRaw(&w, e)
	}
	w.Write(make([]byte, 1024))
	return w.Bytes()
}

func buildZip(ents []aEnt) ([]byte, bool) {
	var b bytes.Buffer
	zw := zip.NewWriter(&b)
	for _, e := range ents {
		name := e.name
		if e.kind.zslash && !strings.HasSuffix(name, "/") {
			name += "/"
		}
		fh := &zip.FileHeader{Name: name, Method: zip.Store}
		if e.kind.zmode != 0 {
			fh.SetMode(e.kind.zmode)
		} else if e.kind.zattr != 0 {
			fh.ExternalAttrs = e.kind.zattr
		}
		w, err := zw.CreateHeader(fh)
		if err != nil {
			return nil, false
		}
		data := e.content
		if e.kind.hasLink {
			data = e.link
		}
		if !strings.HasSuffix(name, "/") && len(data) > 0 {
			if _, err := w.Write([]byte(data)); err != nil {
				return nil, false
			}
		}
	}
	if zw.Close() != nil {
		return nil, false
	}
	return b.Bytes(), true
}

// ---- what the archive reader yields -----------------------------------------------------------

type lEnt struct {
	code    string // protocol kind code
	name    string
	link    string
	content string
	// derived from the header fields directly (not from the model): used by the oracle
	plainRegular bool // tar typeflag '0' with no type bits in the mode field / zip regular attrs and no trailing slash
	linkish      bool // symlink or hard link
	special      bool // directory, symlink, fifo, device, socket by typeflag or mode bits / zip attrs / trailing slash
	infoDir      bool // FileInfo().IsDir() (library call; only to route the AppleDouble quirk class)
}

func tarModeCode(mode int64) byte {
	switch mode &^ 0o7777 {
	case 0:
		return 'n'
	case cISREG:
		return 'r'
	case cISDIR:
		return 'd'
	case cISFIFO:
		return 'f'
	case cISLNK:
		return 'l'
	case cISBLK:
		return 'b'
	case cISCHR:
		return 'c'
	case cISSOCK:
		return 's'
	}
	return 'n'
}

func listTar(data []byte) ([]lEnt, error) {
	tr := tar.NewReader(bytes.NewReader(data))
	var out []lEnt
	for {
		h, err := tr.Next()
		if err == io.EOF {
			return out, nil
		}
		if err != nil {
			return out, err
		}
		body, err := io.ReadAll(tr)
		if err != nil {
			return out, err
		}
		fc := byte('u')
		switch h.Typeflag {
		case '0', '1', '2', '3', '4', '5', '6', '7', 'g', 'S':
			fc = h.Typeflag
		}
		mc := tarModeCode(h.Mode)
		l := lEnt{code: "t" + string(fc) + string(mc), name: h.Name, link: h.Linkname, content: string(body)}
		l.plainRegular = h.Typeflag == '0' && (mc == 'n' || mc == 'r')
		l.linkish = h.Typeflag == '1' || h.Typeflag == '2' || mc == 'l'
		l.special = (h.Typeflag >= '2' && h.Typeflag <= '6') || (mc != 'n' && mc != 'r')
		l.infoDir = h.FileInfo().IsDir()
		out = append(out, l)
	}
}

func listZip(data []byte) ([]lEnt, error) {
	zr, err := zip.NewReader(bytes.NewReader(data), int64(len(data)))
	if err != nil {
		return nil, err
	}
	var out []lEnt
	for _, f := range zr.File {
		rc, err := f.Open()
		if err != nil {
			return out, err
		}
		body, err := io.ReadAll(rc)
		rc.Close()
		if err != nil {
			return out, err
		}
		code := byte('p')
		switch f.CreatorVersion >> 8 {
		case 3, 19: // unix, macOS
			switch (f.ExternalAttrs >> 16) & 0xf000 {
			case 0x4000:
				code = 'd'
			case 0xa000:
				code = 'l'
			case 0x1000:
				code = 'f'
			case 0xc000:
				code = 's'
			case 0x6000:
				code = 'b'
			case 0x2000:
				code = 'c'
			default:
				code = 'r'
			}
		case 0, 11, 14: // FAT, NTFS, VFAT
			if f.ExternalAttrs&0x10 != 0 {
				code = 'D'
			}
		}
		l := lEnt{code: "z" + string(code), name: f.Name, content: string(body)}
		slash := strings.HasSuffix(f.Name, "/")
		l.plainRegular = (code == 'p' || code == 'r') && !slash
		l.linkish = code == 'l'
		l.special = !(code == 'p' || code == 'r') || slash
		if code == 'l' {
			l.link = string(body)
		}
		out = append(out, l)
	}
	return out, nil
}

// ---- one case -------------------------------------------------------------------------------

type aCase struct {
	idx     int
	family  string
	zip     bool
	strip   int
	matcher string // "-" | ext
	maxSize int64
	dest    string // mem | memview | disk
	ents    []aEnt
}

// escapes: does the entry name, read as a '/'-separated relative path, leave the directory it is
// resolved in?  (Go's path.Clean; independent of normalpath and of the model.)
func nameEscapes(name string) bool {
	if name == "" {
		return false
	}
	c := path.Clean(name)
	return c == ".." || strings.HasPrefix(c, "../") || strings.HasPrefix(c, "/")
}

// expectedKey: where the documentation puts a regular entry (clean, strip leading components,
// matcher); ok=false = not extracted.
func expectedKey(name string, strip int, ext string) (string, bool) {
	c := path.Clean(name)
	if c == "." || nameEscapes(name) || name == "" {
		return "", false
	}
	comps := strings.Split(c, "/")
	if strip > 0 {
		if len(comps) <= strip {
			return "", false
		}
		comps = comps[strip:]
	}
	k := strings.Join(comps, "/")
	if ext != "" && path.Ext(k) != ext {
		return "", false
	}
	return k, true
}

func appleName(l lEnt, isZip bool) bool {
	n := l.name
	if !isZip && l.infoDir {
		n = path.Clean(n)
	}
	return strings.HasPrefix(path.Base(n), "._")
}

// scanAll lists every file-system object below dir (Lstat, nothing followed).
func scanAll(dir string, skip string) (files map[string]string, odd []string) {
	files = map[string]string{}
	filepath.Walk(dir, func(p string, info os.FileInfo, err error) error {
		if err != nil {
			odd = append(odd, p+": "+err.Error())
			return nil
		}
		rel, _ := filepath.Rel(dir, p)
		switch {
		case info.Mode().IsRegular():
			if skip != "" && (rel == skip || strings.HasPrefix(rel, skip+"/")) {
				return nil
			}
			data, _ := os.ReadFile(p)
			files[rel] = string(data)
		case info.IsDir():
			if skip != "" && (rel == skip || strings.HasPrefix(rel, skip+"/")) {
				return nil
			}
			files[rel+"/"] = ""
		default:
			odd = append(odd, rel+" ("+info.Mode().String()+")")
		}
		return nil
	})
	return files, odd
}

func diffMaps(before, after map[string]string) (created, changed []string) {
	for k, v := range after {
		if b, ok := before[k]; !ok {
			created = append(created, k)
		} else if b != v {
			changed = append(changed, k)
		}
	}
	for k := range before {
		if _, ok := after[k]; !ok {
			changed = append(changed, k+" (removed)")
		}
	}
	sort.Strings(created)
	sort.Strings(changed)
	return
}

func dumpHexKV(kvs []bk.KV) string {
	sort.SliceStable(kvs, func(i, j int) bool { return hx.Enc(kvs[i].K) < hx.Enc(kvs[j].K) })
	parts := make([]string, len(kvs))
	for i, kv := range kvs {
		parts[i] = hx.Enc(kv.K) + "=" + hx.Enc(kv.V)
	}
	return strings.Join(parts, ",")
}

func runArchCase(run *hx.Run, c aCase, tmpRoot string) {
	replay := fmt.Sprintf("build/c13 --out /tmp/c13-replay --seed %d --tier %s --only %d", run.Seed, run.Tier, archOnlyBase+c.idx)
	var listing []lEnt
	inputOf := func() map[string]any {
		var es []map[string]any
		for _, l := range listing {
			es = append(es, map[string]any{"kind": l.code, "name": l.name, "linkname": l.link, "content": l.content})
		}
		var written []map[string]any
		for _, e := range c.ents {
			written = append(written, map[string]any{"kind": e.kind.label, "carrier": e.carrier, "name": e.name, "link": e.link, "probe": e.probe})
		}
		return map[string]any{"section": "D", "family": c.family, "format": map[bool]string{false: "tar", true: "zip"}[c.zip], "strip": c.strip,
			"matcher": c.matcher, "maxFileSize": c.maxSize, "dest": c.dest, "entries_as_read": es, "entries_as_written": written}
	}
	fail := func(class, what string) {
		run.Fail(hx.OracleFailure{Class: class, What: what, Input: inputOf(), Replay: replay})
	}
	defer func() {
		if p := recover(); p != nil {
			fail("archive-dest-unusable", fmt.Sprintf("archive case %d: %v", c.idx, p))
		}
	}()

	// scratch directory (disk destination, and the target of absolute names / link targets)
	scratch := filepath.Join(tmpRoot, "archD"+strconv.Itoa(c.idx))
	for i := range c.ents {
		c.ents[i].name = strings.ReplaceAll(c.ents[i].name, "@SCRATCH@", scratch)
		c.ents[i].link = strings.ReplaceAll(c.ents[i].link, "@SCRATCH@", scratch)
	}
	if c.dest == "disk" {
		for _, e := range c.ents {
			// names the file system itself refuses are not the property's business
			if strings.ContainsRune(e.name, 0) {
				c.dest = "mem"
			}
		}
	}

	// ---- archive bytes and what a reader sees in them
	var data []byte
	if c.zip {
		var ok bool
		data, ok = buildZip(c.ents)
		if !ok {
			run.Count("archD:unbuildable-zip")
			return
		}
	} else {
		data = buildTar(run, c.ents)
	}
	var lerr error
	if c.zip {
		listing, lerr = listZip(data)
	} else {
		listing, lerr = listTar(data)
	}
	if lerr != nil {
		run.Count("archD:reader-error")
		return
	}
	for _, l := range listing {
		if strings.ContainsAny(l.name+l.link, "\x00") && (!c.zip || c.dest == "disk") {
			run.Count("archD:nul-skipped")
			return
		}
	}

	// ---- destination
	var dest storage.ReadWriteBucket
	var parent storage.ReadWriteBucket // memview: the bucket the view is mapped into
	var before map[string]string
	var parentBefore []bk.KV
	switch c.dest {
	case "disk":
		must(os.MkdirAll(filepath.Join(scratch, "root"), 0o755))
		must(os.MkdirAll(filepath.Join(scratch, "root_sibling"), 0o755))
		must(os.MkdirAll(filepath.Join(scratch, "slip_target"), 0o755))
		must(os.MkdirAll(filepath.Join(scratch, "abs_target"), 0o755))
		must(os.WriteFile(filepath.Join(scratch, "outside.txt"), []byte("OUT1"), 0o644))
		must(os.WriteFile(filepath.Join(scratch, "root_sibling", "s"), []byte("OUT2"), 0o644))
		must(os.WriteFile(filepath.Join(scratch, "sent"), []byte("OUT3"), 0o644))
		must(os.WriteFile(filepath.Join(scratch, "slip_target", "keep"), []byte("OUT4"), 0o644))
		must(os.WriteFile(filepath.Join(scratch, "._outside.txt"), []byte("OUT5"), 0o644))
		defer os.RemoveAll(scratch)
		d, err := storageos.NewProvider().NewReadWriteBucket(filepath.Join(scratch, "root"))
		must(err)
		dest = d
		before, _ = scanAll(scratch, "root")
	case "memview":
		parent = storagemem.NewReadWriteBucket()
		for _, kv := range []bk.KV{{K: "outside.txt", V: "OUT1"}, {K: "root_sibling/s", V: "OUT2"}, {K: "sent", V: "OUT3"}, {K: "rootx", V: "OUT4"}, {K: "x", V: "OUT5"}, {K: "evil", V: "OUT6"}} {
			must(bk.PutString(ctx, parent, kv.K, kv.V))
		}
		dest = storage.MapReadWriteBucket(parent, storage.MapOnPrefix("root"))
		var err error
		parentBefore, err = bk.WalkAll(ctx, parent, "")
		must(err)
	default:
		dest = storagemem.NewReadWriteBucket()
	}

	// ---- run the implementation
	ext := ""
	var err error
	func() {
		defer func() {
			if p := recover(); p != nil {
				err = fmt.Errorf("panic: %v", p)
				fail("archive-extract-panic", fmt.Sprintf("%v", p))
			}
		}()
		if c.zip {
			opts := []storagearchive.UnzipOption{storagearchive.UnzipWithStripComponentCount(uint32(c.strip))}
			if c.matcher != "-" {
				ext = ".proto"
				opts = append(opts, storagearchive.UnzipWithFilePathMatcher(storage.MatchPathExt(ext).MatchPath))
			}
			err = storagearchive.Unzip(ctx, bytes.NewReader(data), int64(len(data)), dest, opts...)
		} else {
			opts := []storagearchive.UntarOption{storagearchive.UntarWithStripComponentCount(uint32(c.strip))}
			if c.matcher != "-" {
				ext = ".proto"
				opts = append(opts, storagearchive.UntarWithFilePathMatcher(storage.MatchPathExt(ext).MatchPath))
			}
			if c.maxSize != 0 {
				opts = append(opts, storagearchive.UntarWithMaxFileSize(c.maxSize))
			}
			err = storagearchive.Untar(ctx, bytes.NewReader(data), dest, opts...)
		}
	}()
	res := bk.ErrClass(err)
	final, werr := bk.WalkAll(ctx, dest, "")
	if werr != nil {
		fail("archive-dest-unusable", fmt.Sprintf("the destination cannot be walked after the extraction: %v", werr))
		return
	}

	// ---- oracle (implementation + listing only) ----------------------------------------------
	// (1) nothing outside the destination root is created / changed; nothing but regular files
	//     and directories exists anywhere in the scratch directory
	switch c.dest {
	case "disk":
		after, odd := scanAll(scratch, "root")
		created, changed := diffMaps(before, after)
		if len(created) > 0 {
			fail("archive-outside-created", fmt.Sprintf("extraction created %q outside the destination root", created))
		}
		if len(changed) > 0 {
			fail("archive-outside-modified", fmt.Sprintf("extraction changed %q outside the destination root", changed))
		}
		if len(odd) > 0 {
			sort.Strings(odd)
			fail("archive-link-materialised", fmt.Sprintf("extraction left non-regular file-system objects behind: %q", odd))
		}
	case "memview":
		parentAfter, perr := bk.WalkAll(ctx, parent, "")
		must(perr)
		bm := map[string]string{}
		for _, kv := range parentBefore {
			bm[kv.K] = kv.V
		}
		am := map[string]string{}
		for _, kv := range parentAfter {
			am[kv.K] = kv.V
			if _, ok := bm[kv.K]; !ok && !strings.HasPrefix(kv.K, "root/") {
				fail("archive-outside-created", fmt.Sprintf("extraction through a view rooted at \"root\" created parent object %q", kv.K))
			}
		}
		for k, v := range bm {
			if a, ok := am[k]; !ok || a != v {
				fail("archive-outside-modified", fmt.Sprintf("extraction through a view rooted at \"root\" changed/removed parent object %q", k))
			}
		}
	}
	// (2) an entry of ANY kind whose name escapes must make the extraction fail
	anyRejectable := false
	for _, l := range listing {
		if l.name == "" {
			anyRejectable = true
		}
		if !nameEscapes(l.name) {
			continue
		}
		anyRejectable = true
		if err == nil {
			if !c.zip && appleName(l, false) {
				fail("archive-escaping-appledouble-tar-skipped", fmt.Sprintf("Untar skipped the %s entry %q (AppleDouble \"._\" name) silently although its name escapes the root; nothing was written for it", l.code, l.name))
			} else {
				fail("archive-escaping-entry-not-rejected", fmt.Sprintf("archive with the escaping %s entry %q (cleaned %q) was extracted without an error", l.code, l.name, path.Clean(l.name)))
			}
		}
	}
	// (3) every object of the destination is a contained path and comes from a plain regular entry
	//     (never from a link / special entry, never from a link NAME)
	type src struct {
		l   lEnt
		key string
	}
	var cands []src
	for _, l := range listing {
		if k, ok := expectedKey(l.name, c.strip, ext); ok {
			cands = append(cands, src{l, k})
		}
	}
	for _, kv := range final {
		if kv.K != path.Clean(kv.K) || kv.K == "." || nameEscapes(kv.K) {
			fail("archive-written-path-not-contained", fmt.Sprintf("extraction wrote object %q: not a clean path inside the root", kv.K))
		}
		okSrc, anySrc := false, false
		for _, s := range cands {
			if s.key == kv.K {
				anySrc = true
				if !s.l.special && s.l.content == kv.V {
					okSrc = true
				}
			}
		}
		if !okSrc {
			what := fmt.Sprintf("extraction wrote object %q = %q which no non-special entry of the archive accounts for", kv.K, kv.V)
			class := "archive-nonregular-written"
			if !anySrc {
				class = "archive-unaccounted-object"
			}
			for _, l := range listing {
				if l.link != "" && (kv.V == l.link || strings.HasSuffix(path.Clean("/"+l.link), "/"+kv.K)) {
					class = "archive-linkname-used"
					what += fmt.Sprintf(" (link name %q of entry %q)", l.link, l.name)
				}
			}
			fail(class, what)
		}
	}
	// (4) a successful extraction wrote every plain regular, non-AppleDouble entry the options select
	//     (last one wins); benign archives are not refused
	if err == nil {
		want := map[string]string{}
		for _, s := range cands {
			if s.l.plainRegular && !appleName(s.l, c.zip) {
				want[s.key] = s.l.content
			}
		}
		got := map[string]string{}
		for _, kv := range final {
			got[kv.K] = kv.V
		}
		for k, v := range want {
			if g, ok := got[k]; !ok {
				fail("archive-benign-entry-not-written", fmt.Sprintf("extraction succeeded but the regular entry for %q was not written", k))
			} else if g != v {
				// a later non-plain "regular" entry (hard link, unknown typeflag …) may legitimately overwrite
				over := false
				for _, s := range cands {
					if s.key == k && !s.l.plainRegular && !s.l.special && s.l.content == g {
						over = true
					}
				}
				if !over {
					fail("archive-benign-entry-wrong-content", fmt.Sprintf("object %q holds %q, the archive's last regular entry for it holds %q", k, g, v))
				}
			}
		}
	} else if !anyRejectable && c.maxSize == 0 {
		fail("archive-benign-archive-rejected", fmt.Sprintf("an archive without any escaping or empty entry name was refused: %v", err))
	}

	// ---- protocol line
	encs := make([]string, len(listing))
	for i, l := range listing {
		encs[i] = l.code + ":" + hx.Enc(l.name) + ":" + hx.Enc(l.link) + ":" + hx.Enc(l.content)
	}
	enc := "-"
	if len(encs) > 0 {
		enc = strings.Join(encs, ",")
	}
	format := "tar"
	if c.zip {
		format = "zip"
	}
	m := "-"
	if c.matcher != "-" {
		m = "ext:" + hx.Enc(".proto")
	}
	run.Case("xt\t"+format+"\t"+strconv.Itoa(c.strip)+"\t"+m+"\t"+strconv.FormatInt(c.maxSize, 10)+"\t"+enc, res+"|"+dumpHexKV(final), len(final) > 0 || err != nil)
	run.Count("archD:" + format + ":" + res)
	run.Count("archD:dest:" + c.dest)
	run.Count("archD:family:" + c.family)
	for _, e := range c.ents {
		if e.probe {
			run.Count("archD:kind:" + e.kind.label)
			run.Count("archD:carrier:" + e.carrier)
		}
	}
	for _, l := range listing {
		if (l.code[1] == '1' || l.code[1] == 'g' || l.code[1] == 'u') && !c.zip {
			if k, ok := expectedKey(l.name, c.strip, ext); ok && err == nil && !appleName(l, false) {
				for _, kv := range final {
					if kv.K == k {
						run.Count("archD:as-coded:" + map[byte]string{'1': "hardlink", 'g': "pax-global-header", 'u': "unknown-typeflag"}[l.code[1]] + "-entry-written-as-object")
					}
				}
			}
		}
	}
	if c.idx%997 == 0 {
		run.Sample(inputOf())
	}
}

// ---- generators ------------------------------------------------------------------------------

var tarCarriers = []string{"raw", "raw-pax", "raw-gnu", "w-ustar", "w-pax", "w-gnu"}

func contextEntry(zipFmt bool, name, content string) aEnt {
	k := tarKinds[0]
	carrier := "raw"
	if zipFmt {
		k = zipKinds[0]
		carrier = "zip"
	}
	return aEnt{kind: k, name: name, content: content, carrier: carrier}
}

// stratified case j: (kind, name, strip) from j alone; everything else from the per-case generator.
func genStratified(j int, cr *hx.Rand, rot int, thorough bool) (aCase, bool) {
	nNames := len(archProbeNames)
	nTar := len(tarKinds) * nNames * 4
	nZip := len(zipKinds) * nNames * 4
	if j >= nTar+nZip {
		return aCase{}, false
	}
	c := aCase{idx: j}
	var kind aKind
	jj := j
	if jj >= nTar {
		jj -= nTar
		c.zip = true
	}
	// kind varies fastest so that a truncated run still sees every kind with many names
	var nk int
	if c.zip {
		nk = len(zipKinds)
	} else {
		nk = len(tarKinds)
	}
	ki := jj % nk
	ni := (jj / nk) % nNames
	c.strip = (jj/(nk*nNames) + ni + ki) % 4
	if c.zip {
		kind = zipKinds[ki]
	} else {
		kind = tarKinds[ki]
	}
	nm := archProbeNames[ni]
	c.family = "probe:" + nm.fam
	probe := aEnt{kind: kind, name: nm.name, content: "PROBE", probe: true}
	if nm.fam == "empty" && kind.zslash {
		probe.name = "" // becomes "/"
	}
	if kind.hasLink {
		probe.link = archLinkTargets[(j+rot)%len(archLinkTargets)]
	}
	if c.zip {
		probe.carrier = "zip"
	} else {
		probe.carrier = tarCarriers[(j/nk+rot)%len(tarCarriers)]
	}
	if strings.HasSuffix(nm.name, ".proto") || cr.Chance(1, 3) {
		probe.content = "PROBE-" + strconv.Itoa(j%7)
	}
	pre := contextEntry(c.zip, "k0/k1/k2/k3/pre.proto", "PRE")
	post := contextEntry(c.zip, "k0/k1/k2/k3/post.proto", "POST")
	switch (j + rot) % 4 {
	case 0:
		c.ents = []aEnt{probe, post}
	case 1:
		c.ents = []aEnt{pre, probe, post}
	case 2:
		c.ents = []aEnt{pre, probe}
	default:
		c.ents = []aEnt{probe}
	}
	// disk destinations are the expensive ones (scratch tree with sentinels, three lstat walks):
	// one case in five in the quick tier, one in three in the thorough tier
	if thorough {
		switch (j/3 + rot) % 3 {
		case 0:
			c.dest = "mem"
		case 1:
			c.dest = "memview"
		default:
			c.dest = "disk"
		}
	} else {
		switch (j/3 + rot) % 5 {
		case 0, 2:
			c.dest = "mem"
		case 1, 3:
			c.dest = "memview"
		default:
			c.dest = "disk"
		}
	}
	if nm.fam == "nul" {
		c.dest = "mem"
		if !c.zip {
			return c, false // a NUL ends a tar header field: no such tar entry exists
		}
	}
	c.matcher = "-"
	if (j+rot)%5 == 0 {
		c.matcher = "ext"
	}
	if !c.zip && (j+rot)%7 == 3 {
		c.maxSize = int64(3 + 3*((j/7)%2)) // 3: PRE fits, POST/PROBE do not; 6: PROBE fits
	}
	return c, true
}

// slip sequences: a link entry, then an entry that would be written through / onto it if the
// link had been materialised.
func genSlip(j int, cr *hx.Rand) aCase {
	c := aCase{idx: j, family: "slip", dest: "disk", matcher: "-"}
	variant := j % 12
	c.zip = variant >= 8
	c.strip = (j / 12) % 3
	if (j/36)%3 == 1 {
		c.dest = "memview"
	}
	up := strings.Repeat("../", 2-minInt(c.strip, 1)) // from root/top/ (strip 0) or root/ (strip>=1 drops "top")
	linkDir := "top"
	if c.strip == 2 {
		linkDir = "top/mid"
		up = "../"
	}
	targets := []string{up + "slip_target", "@SCRATCH@/slip_target", up + "root_sibling", "../../../" + "slip_target"}
	t := targets[(j/12)%len(targets)]
	lname := linkDir + "/lnk"
	switch {
	case c.zip:
		sym := zipKinds[6]
		c.ents = []aEnt{{kind: sym, name: lname, link: t, carrier: "zip", probe: true},
			contextEntry(true, lname+"/evil.txt", "EVIL")}
		if variant%2 == 1 {
			c.ents = append([]aEnt{contextEntry(true, linkDir+"/first.txt", "FIRST")}, c.ents...)
		}
	case variant < 4:
		c.ents = []aEnt{{kind: tarKinds[3], name: lname, link: t, carrier: tarCarriers[variant%len(tarCarriers)], probe: true},
			contextEntry(false, lname+"/evil.txt", "EVIL")}
	case variant < 6:
		// hard link onto an outside file, then a regular entry of the same name
		c.ents = []aEnt{{kind: tarKinds[4], name: linkDir + "/h", link: strings.Repeat("../", 1) + "outside.txt", carrier: tarCarriers[variant%len(tarCarriers)], probe: true},
			contextEntry(false, linkDir+"/h", "OVERWRITE")}
	default:
		// symlink whose NAME is benign and whose target is a file outside; then the same name as a regular file
		c.ents = []aEnt{{kind: tarKinds[3], name: linkDir + "/s", link: up + "outside.txt", carrier: tarCarriers[variant%len(tarCarriers)], probe: true},
			contextEntry(false, linkDir+"/s", "OVERWRITE")}
	}
	_ = cr
	return c
}

func minInt(a, b int) int {
	if a < b {
		return a
	}
	return b
}

var archRandomNames = []string{"a/x", "top/a/x", "top/b", "./top/c", "top//d", "../evil", "top/../../evil", "/abs/e",
	"top/..", "top/./e/../f", "..", "a/../../outside.txt", "t/\u00e9", "t/s p", "top", "x/y/z/w", "top/../sent", "._apple", "top/._res",
	"top/d/", "../d/", "top/l", "top/a/y.proto", "p/q.proto", "../._z", "top/._d/", "a\\b", "", "./", "top/a/"}

func genRandomArch(j int, cr *hx.Rand) aCase {
	c := aCase{idx: j, family: "random", matcher: "-"}
	c.zip = cr.Chance(1, 3)
	c.strip = cr.Intn(4)
	if cr.Chance(1, 5) {
		c.matcher = "ext"
	}
	if !c.zip && cr.Chance(1, 6) {
		c.maxSize = int64(2 + cr.Intn(4))
	}
	n := 1 + cr.Intn(5)
	for i := 0; i < n; i++ {
		var k aKind
		carrier := "zip"
		if c.zip {
			k = hx.Pick(cr, zipKinds)
			if cr.Chance(1, 2) {
				k = zipKinds[0]
			}
		} else {
			k = hx.Pick(cr, tarKinds)
			if cr.Chance(1, 2) {
				k = tarKinds[0]
			}
			carrier = hx.Pick(cr, tarCarriers)
		}
		name := hx.Pick(cr, archRandomNames)
		if cr.Chance(1, 4) {
			name = randomPath(cr)
		}
		if cr.Chance(1, 10) {
			name = hx.Pick(cr, archProbeNames).name
			if strings.ContainsRune(name, 0) {
				name = "nul"
			}
		}
		e := aEnt{kind: k, name: name, content: "R" + strconv.Itoa(i) + strings.Repeat("x", cr.Intn(4)), carrier: carrier, probe: true}
		if k.hasLink {
			e.link = hx.Pick(cr, archLinkTargets)
		}
		c.ents = append(c.ents, e)
	}
	switch cr.Intn(3) {
	case 0:
		c.dest = "mem"
	case 1:
		c.dest = "memview"
	default:
		c.dest = "disk"
	}
	if c.dest == "disk" {
		// a disk destination refuses file/directory name clashes and over-long components: keep
		// those in memory (the property is about names, not about what a file system can store)
		var keys []string
		for _, e := range c.ents {
			n := e.name
			if e.kind.zslash && !strings.HasSuffix(n, "/") {
				n += "/"
			}
			if k, ok := expectedKey(n, c.strip, ""); ok {
				keys = append(keys, k)
			}
			for _, comp := range strings.Split(n, "/") {
				if len(comp) > 200 {
					c.dest = "mem"
				}
			}
		}
		for a := range keys {
			for b := range keys {
				if keys[a] != keys[b] && strings.HasPrefix(keys[b], keys[a]+"/") {
					c.dest = "mem"
				}
			}
		}
	}
	return c
}

func sectionD(run *hx.Run, r *hx.Rand, tmpRoot string) {
	rot := int(run.Seed % 9973)
	nStrat := (len(tarKinds) + len(zipKinds)) * len(archProbeNames) * 4
	nSlip := 12 * 3 * 4 * 3
	nRand := run.N(1500, 40000)
	run.Set("archD_stratified_product", fmt.Sprintf("%d tar kinds + %d zip kinds x %d names x 4 strip counts = %d cases", len(tarKinds), len(zipKinds), len(archProbeNames), nStrat))
	total := nStrat + nSlip + nRand
	for j := 0; j < total; j++ {
		if run.Only >= 0 && run.Only != archOnlyBase+j {
			continue
		}
		cr := r.Fork(uint64(j))
		var c aCase
		switch {
		case j < nStrat:
			var ok bool
			c, ok = genStratified(j, cr, rot, run.Thorough())
			if !ok {
				run.Count("archD:no-such-entry")
				continue
			}
		case j < nStrat+nSlip:
			c = genSlip(j-nStrat, cr)
			c.idx = j
		default:
			c = genRandomArch(j, cr)
		}
		runArchCase(run, c, tmpRoot)
	}
}
