package main

// Section E: a bucket key is a sequence of bytes.  Two spellings that differ only in Unicode
// normalisation form (NFD e + U+0301 vs NFC U+00E9, Hangul jamo vs syllable, ANGSTROM SIGN U+212B
// vs U+00C5 …), by a zero-width joiner or by a right-to-left override are DIFFERENT keys in every
// bucket: memory, disk, and prefix views over both.  Each case is a scripted history (sent to the
// model as an ordinary `hist` line) plus a direct oracle on the implementation.
//
// Invalid UTF-8 byte sequences are NOT part of the family: the model's line protocol decodes hex
// to a Lean String (valid UTF-8 only).

import (
	"fmt"
	"os"
	"path/filepath"
	"strconv"

	"github.com/bufbuild/buf/private/pkg/storage"
	"github.com/bufbuild/buf/private/pkg/storage/storagemem"
	"github.com/bufbuild/buf/private/pkg/storage/storageos"
	"github.com/bufbuild/verifharness/internal/bk"
	"github.com/bufbuild/verifharness/internal/hx"
)

const unicodeOnlyBase = 2000000

var unicodeTwins = [][2]string{
	{"e\u0301", "\u00e9"},             // NFD / NFC
	{"\u1100\u1161", "\uac00"},        // Hangul jamo / syllable
	{"\u212b", "\u00c5"},              // ANGSTROM SIGN / A WITH RING (singleton decomposition)
	{"A\u030a", "\u00c5"},             // NFD / NFC
	{"\u212a", "K"},                   // KELVIN SIGN / K
	{"a\u200db", "ab"},                // zero-width joiner
	{"\u202ex", "x"},                  // right-to-left override
	{"\u200fx", "x"},                  // right-to-left mark
	{"\ufb01", "fi"},                  // ligature (NFKC only)
	{"e\u0301.proto", "\u00e9.proto"}, // with an extension
}

func sectionE(run *hx.Run, tmpRoot string) {
	idx := 0
	for _, tw := range unicodeTwins {
		for place := 0; place < 3; place++ {
			var a, b string
			switch place {
			case 0: // file names at the root
				a, b = tw[0], tw[1]
			case 1: // file names in a directory
				a, b = "u/"+tw[0], "u/"+tw[1]
			default: // directory names
				a, b = tw[0]+"/f", tw[1]+"/f"
			}
			for backend := 0; backend < 4; backend++ {
				i := idx
				idx++
				if run.Only >= 0 && run.Only != unicodeOnlyBase+i {
					continue
				}
				unicodeCase(run, i, a, b, backend, tmpRoot)
			}
		}
	}
}

func unicodeCase(run *hx.Run, i int, a, b string, backend int, tmpRoot string) {
	disk := backend%2 == 1
	view := backend >= 2
	var layers []layer
	if view {
		layers = []layer{{kind: 'p', prefix: "v"}}
	}
	ops := []bk.Op{{Kind: 'p', Path: a, Content: "A"}, {Kind: 'p', Path: b, Content: "B"}, {Kind: 'g', Path: a}, {Kind: 'g', Path: b},
		{Kind: 'w', Path: "."}, {Kind: 'd', Path: a}, {Kind: 'g', Path: b}, {Kind: 'g', Path: a}, {Kind: 's', Path: b}}
	// correspondence with the model + the outside-the-root oracle of section B
	runHistory(run, unicodeOnlyBase+i, history{layers: layers, ops: ops, disk: disk}, tmpRoot)
	// direct oracle
	replay := fmt.Sprintf("build/c13 --out /tmp/c13-replay --seed %d --tier %s --only %d", run.Seed, run.Tier, unicodeOnlyBase+i)
	input := map[string]any{"section": "E", "a": a, "b": b, "a_hex": hx.Enc(a), "b_hex": hx.Enc(b), "disk": disk, "prefix_view": view}
	fail := func(what string) {
		run.Fail(hx.OracleFailure{Class: "unicode-normalisation-conflated", What: what, Input: input, Replay: replay})
	}
	defer func() {
		if p := recover(); p != nil {
			fail(fmt.Sprintf("panic: %v", p))
		}
	}()
	var parent storage.ReadWriteBucket
	if disk {
		tmp := filepath.Join(tmpRoot, "uni"+strconv.Itoa(i))
		must(os.MkdirAll(tmp, 0o755))
		defer os.RemoveAll(tmp)
		p, err := storageos.NewProvider().NewReadWriteBucket(tmp)
		must(err)
		parent = p
	} else {
		parent = storagemem.NewReadWriteBucket()
	}
	var bkt storage.ReadWriteBucket = parent
	if view {
		bkt = storage.MapReadWriteBucket(parent, storage.MapOnPrefix("v"))
	}
	must(bk.PutString(ctx, bkt, a, "A"))
	must(bk.PutString(ctx, bkt, b, "B"))
	ga, erra := bk.ReadAll(ctx, bkt, a)
	gb, errb := bk.ReadAll(ctx, bkt, b)
	if erra != nil || errb != nil || ga != "A" || gb != "B" {
		fail(fmt.Sprintf("after Put(%q)=A, Put(%q)=B: Get gives %q (%v) and %q (%v)", a, b, ga, erra, gb, errb))
	}
	all, err := bk.WalkAll(ctx, bkt, "")
	must(err)
	seen := map[string]string{}
	for _, kv := range all {
		seen[kv.K] = kv.V
	}
	if len(all) != 2 || seen[a] != "A" || seen[b] != "B" {
		fail(fmt.Sprintf("after Put(%q)=A, Put(%q)=B the walk reports %q", a, b, all))
	}
	must(bkt.Delete(ctx, a))
	gb, errb = bk.ReadAll(ctx, bkt, b)
	_, erra = bk.ReadAll(ctx, bkt, a)
	if errb != nil || gb != "B" || erra == nil {
		fail(fmt.Sprintf("after Delete(%q): Get(%q) gives %q (%v), Get(%q) error %v", a, b, gb, errb, a, erra))
	}
	run.Count("unicode:twin-cases")
}
