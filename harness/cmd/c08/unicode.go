package main

// Section U: the UNICODE family of paths.
//
// bufcas / bufmodule treat a path as a BYTE STRING: it is validated (normalpath, bytewise),
// stored, sorted (Go string order = byte order), written into the manifest and hashed LITERALLY.
// No Unicode normalisation form is preferred, no case folding, no repair of invalid UTF-8.
// So:  b5 = the published construction over the literal path bytes;  FileNode.Path() = the
// bytes given;  two spellings of "the same text" are two different files (a module may hold
// both, renaming one into the other changes the digest);  the manifest order is the byte order
// of the literal paths, not the order of any folded form.
//
// The family (stratified: the case plan walks class x position round-robin, so the first
// len(classes) cases of every run hold one member of EVERY variant class, the first
// len(classes)*len(positions) every (class, position) pair):
//
//	combining        e + U+0301 vs U+00E9 ...                       (NFC / NFD spellings)
//	combining-order  several marks in non-canonical order           (in NO normalisation form)
//	hangul           syllables vs conjoining jamo, LV + T
//	singleton        U+212B / U+00C5 / A U+030A, U+2126 / U+03A9, U+212A / K, U+F900
//	compat           U+00B5, U+FB01, U+FF21, superscript two, U+1E9B U+0323 (NFKC / NFKD only)
//	zero-width       ZWJ, ZWNJ, ZWSP, BOM inside / before / after a name
//	bidi             LRM, RLM, RLO
//	casefold         K / KELVIN SIGN, sharp s / capital sharp s / ss, dotless and dotted i
//	astral           code points above U+FFFF (UTF-16 order differs from code point order)
//	invalid-utf8     ED A0 80, lone 0x80, truncated C3, overlong C0 AF, FF FE, > U+10FFFF   (oracle-only: the
//	                 model's strings are code point sequences; everything else also goes to the model)
//	long             4 KiB and 64 KiB paths, 2000 components, components of 240 / 300 / 4096 / 65536 bytes
//	order:<fold>     PAIRS of paths whose byte order is the opposite of the order of their NFC / NFD / NFKC /
//	                 NFKD / lower-cased forms (both in one module / manifest)
//
// in every position the other sections use (module .proto file: stem, directory, deep directory,
// inside a name, under a LICENSE-like directory; non-module file; LICENSE / documentation /
// .proto-extension look-alikes incl. a fixed look-alike table; directories holding a LICENSE /
// doc file; v1 object-data names; a file planted into a module of a module set), through
// NewFileNode / ParseFileNode / NewManifest / String / ParseManifest (also a non-canonically ordered
// text) / NewFileSetForBucket + PutFileSetToBucket / Module.Digest(b5, b4) on memory, shuffled walk,
// disk, tar round trip, other module name, targeting THE path, local module.
//
// The variants are built with golang.org/x/text/unicode/norm HERE (the implementation does not
// import it), the expected values come from the generator's own bookkeeping (`file.Path`), never
// from anything the implementation returned.

import (
	"encoding/hex"
	"fmt"
	"os"
	"sort"
	"strconv"
	"strings"
	"unicode/utf8"

	"github.com/bufbuild/buf/private/bufpkg/bufcas"
	"github.com/bufbuild/buf/private/bufpkg/bufmodule"
	"github.com/bufbuild/buf/private/pkg/storage"
	"github.com/bufbuild/buf/private/pkg/storage/storagemem"
	"github.com/bufbuild/verifharness/internal/hx"
	"github.com/google/uuid"
	"golang.org/x/text/unicode/norm"
)

const uBase = 5_000_000 // first case index of Section U

type uSpelling struct {
	family string
	form   string // which normalisation forms the string is in ("nfc+nfkc", "no-form", "invalid", ...)
	s      string
	group  int  // spellings of one group are "the same text" for some normaliser / folder / sanitiser
	heavy  bool // ~64 KiB: few cases, few protocol lines
	medium bool // ~4 KiB: a bounded number of cases (protocol lines are long)
}

func (u uSpelling) class() string { return u.family + ":" + u.form }

type uSeed struct {
	family string
	texts  []string
}

// Every group is closed under NFC / NFD / NFKC / NFKD below (valid UTF-8 only).
var uSeeds = []uSeed{
	{"combining", []string{"caf\u00e9"}},
	{"combining", []string{"\u00fc\u00f1"}},
	{"combining", []string{"\u1e69"}}, // s + dot below + dot above
	{"combining", []string{"\u00c5ngstr\u00f6m"}},
	{"combining-order", []string{"a\u0323\u0301", "a\u0301\u0323", "\u00e1\u0323"}},
	{"combining-order", []string{"q\u0323\u0307", "q\u0307\u0323"}},
	{"combining-order", []string{"o\u0308\u0328", "o\u0328\u0308", "\u00f6\u0328", "\u01eb\u0308"}},
	{"hangul", []string{"\uac00", "\u1100\u1161"}},
	{"hangul", []string{"\uac01", "\u1100\u1161\u11a8", "\uac00\u11a8"}},
	{"hangul", []string{"\ud55c\uae00"}},
	{"singleton", []string{"\u212b", "\u00c5", "A\u030a"}}, // ANGSTROM SIGN
	{"singleton", []string{"\u2126", "\u03a9"}},            // OHM SIGN
	{"singleton", []string{"\u212a", "K"}},                 // KELVIN SIGN
	{"singleton", []string{"\uf900", "\u8c48"}},            // CJK compatibility ideograph
	{"compat", []string{"\u00b5", "\u03bc"}},               // MICRO SIGN
	{"compat", []string{"\ufb01", "fi"}},                   // ligature fi
	{"compat", []string{"\uff21", "A"}},                    // fullwidth A
	{"compat", []string{"x\u00b2", "x2"}},                  // superscript two
	{"compat", []string{"\u1e9b\u0323"}},                   // long s with dot above + dot below: four different forms
	{"compat", []string{"\u2460\u3392"}},                   // circled one, square MHz
	{"zero-width", []string{"ab", "a\u200db", "a\u200cb", "a\u200bb", "a\ufeffb", "\ufeffab", "ab\u200b", "\u200dab"}},
	{"bidi", []string{"ab", "a\u200eb", "a\u200fb", "a\u202eb", "\u202eab", "a\u202eb\u202c", "ab\u200e"}},
	{"casefold", []string{"K", "k", "\u212a"}},
	{"casefold", []string{"\u00df", "\u1e9e", "ss", "SS"}},
	{"casefold", []string{"i", "I", "\u0131", "\u0130", "i\u0307"}},
	{"astral", []string{"\U00010000", "\uffff", "\ud7ff", "\ue000"}}, // UTF-16 order differs from code point order
	{"astral", []string{"\U0001f600", "\U0001f601", "\uff21"}},
	{"astral", []string{"\U0001d15e", "\U0001d157\U0001d165"}}, // musical half note: excluded from composition
}

// invalid UTF-8 next to what a sanitiser / transcoder would make of it (no normalisation closure)
var uInvalid = [][]string{
	{"\xed\xa0\x80", "\ufffd", "\ufffd\ufffd\ufffd", "\ud7ff"}, // UTF-8 encoded surrogate
	{"a\x80b", "a\ufffdb", "a\u0080b", "ab"},                   // lone continuation byte
	{"a\xc3", "a\ufffd", "a\u00c3", "a"},                       // truncated sequence
	{"a\xc0\xafb", "a\ufffd\ufffdb", "a\ufffdb", "ab"},         // overlong '/'
	{"\xff\xfe", "\ufffd\ufffd", "\ufeff", "\u00ff\u00fe"},     // UTF-16 BOM bytes
	{"\xf4\x90\x80\x80", "\ufffd\ufffd\ufffd\ufffd", "\ufffd"}, // above U+10FFFF
	{"\xe2\x82", "\u20ac", "\ufffd"},                           // truncated 3-byte sequence
	{"caf\xe9", "caf\u00e9", "caf\ufffd"},                      // Latin-1 bytes
	{"\xed\xa0\xbd\xed\xb8\x80", "\U0001f600", "\ufffd\ufffd"}, // CESU-8 surrogate pair
}

func uLong() [][]uSpelling {
	mk := func(form, s string, heavy bool) uSpelling {
		return uSpelling{family: "long", form: form, s: s, heavy: heavy, medium: !heavy && len(s) > 1000}
	}
	nfc, nfd := "caf\u00e9/", "cafe\u0301/"
	return [][]uSpelling{
		{mk("4k-many-components", strings.Repeat(nfc, 680)+"z", false), mk("4k-many-components", strings.Repeat(nfd, 680)+"z", false), mk("4k-many-components", strings.Repeat(nfc, 680)+"y", false)},
		{mk("64k-many-components", strings.Repeat(nfc, 10923)+"z", true), mk("64k-many-components", strings.Repeat(nfd, 10923)+"z", true)},
		{mk("2000-components", strings.Repeat("a/", 1999)+"a", false), mk("2000-components", strings.Repeat("a/", 1998)+"a", false)},
		{mk("component-240", strings.Repeat("\u00e9", 120), false), mk("component-240", strings.Repeat("e\u0301", 120), false), mk("component-240", strings.Repeat("\u00e9", 119)+"e\u0301", false)},
		{mk("component-300", strings.Repeat("k", 300), false), mk("component-300", strings.Repeat("k", 299)+"K", false)},
		{mk("component-4k", strings.Repeat("\u00e9", 2048), false), mk("component-4k", strings.Repeat("\u00e9", 2047)+"e\u0301", false)},
		{mk("component-64k", strings.Repeat("z", 65536), true), mk("component-64k", strings.Repeat("z", 65535)+"y", true)},
	}
}

func isASCII(s string) bool {
	for i := 0; i < len(s); i++ {
		if s[i] >= 0x80 {
			return false
		}
	}
	return true
}

func formOf(s string) string {
	if !utf8.ValidString(s) {
		return "invalid"
	}
	if isASCII(s) {
		return "ascii"
	}
	var fs []string
	for _, f := range []struct {
		n string
		f norm.Form
	}{{"nfc", norm.NFC}, {"nfd", norm.NFD}, {"nfkc", norm.NFKC}, {"nfkd", norm.NFKD}} {
		if f.f.IsNormalString(s) {
			fs = append(fs, f.n)
		}
	}
	switch len(fs) {
	case 0:
		return "no-form"
	case 4:
		return "all-forms"
	}
	return strings.Join(fs, "+")
}

type uFold struct {
	name string
	f    func(string) string
}

var uFolds = []uFold{
	{"nfc", norm.NFC.String}, {"nfd", norm.NFD.String}, {"nfkc", norm.NFKC.String}, {"nfkd", norm.NFKD.String},
	{"lower", strings.ToLower},
}

type uTable struct {
	spellings []uSpelling
	groups    [][]int  // group -> indices into spellings
	classes   []string // in order of first appearance
	byClass   map[string][]int
	flips     map[string][][2]string // fold name -> pairs (a, b) of PATHS: a < b bytewise, fold(a) > fold(b)
}

func buildUTable() *uTable {
	t := &uTable{byClass: map[string][]int{}, flips: map[string][][2]string{}}
	add := func(u uSpelling) {
		t.spellings = append(t.spellings, u)
		i := len(t.spellings) - 1
		for len(t.groups) <= u.group {
			t.groups = append(t.groups, nil)
		}
		t.groups[u.group] = append(t.groups[u.group], i)
		c := u.class()
		if _, ok := t.byClass[c]; !ok {
			t.classes = append(t.classes, c)
		}
		t.byClass[c] = append(t.byClass[c], i)
	}
	g := 0
	for _, sd := range uSeeds {
		seen := map[string]bool{}
		var members []string
		push := func(s string) {
			if !seen[s] {
				seen[s] = true
				members = append(members, s)
			}
		}
		for _, x := range sd.texts {
			push(x)
		}
		for i := 0; i < len(members); i++ { // closure (members grows)
			for _, f := range uFolds[:4] {
				push(f.f(members[i]))
			}
		}
		for _, m := range members {
			add(uSpelling{family: sd.family, form: formOf(m), s: m, group: g})
		}
		g++
	}
	for _, grp := range uInvalid {
		for _, m := range grp {
			fam := "invalid-utf8"
			if utf8.ValidString(m) {
				fam = "replacement" // what a sanitiser / transcoder makes of the invalid bytes (U+FFFD, Latin-1 -> UTF-8, dropped)
			}
			add(uSpelling{family: fam, form: formOf(m), s: m, group: g})
		}
		g++
	}
	for _, grp := range uLong() {
		for _, u := range grp {
			u.group = g
			add(u)
		}
		g++
	}
	// pairs whose byte order is the opposite of the order of their folded forms
	var cands []string
	seen := map[string]bool{}
	pushC := func(p string) {
		if !seen[p] && utf8.ValidString(p) && len(p) < 64 {
			seen[p] = true
			cands = append(cands, p)
		}
	}
	for _, u := range t.spellings {
		pushC(u.s + ".proto")
		pushC(u.s + "x.proto")
		pushC(u.s + "/f.proto")
	}
	for _, a := range []string{"e", "f", "ez", "a", "b", "az", "k", "l", "K", "L", "s", "st", "A", "B", "Z", "i", "j", "o", "p", "q", "r", "x", "y", "z", "\u00e9", "\u00e9x", "\u1ea1", "\u1ea2"} {
		pushC(a + ".proto")
		pushC(a + "x.proto")
	}
	sort.Strings(cands)
	for _, f := range uFolds {
		folded := make([]string, len(cands))
		for i, c := range cands {
			folded[i] = f.f(c)
		}
		for i := range cands {
			for j := i + 1; j < len(cands); j++ { // cands[i] < cands[j] bytewise
				if folded[i] > folded[j] && !conflicts(cands[i], cands[j]) {
					t.flips[f.name] = append(t.flips[f.name], [2]string{cands[i], cands[j]})
				}
			}
		}
	}
	return t
}

// ---------------------------------------------------------------------------------------
// positions
// ---------------------------------------------------------------------------------------

var uPositions = []string{
	"proto-stem", "proto-dir", "proto-deep", "proto-affix", "license-dir-proto",
	"non-module-txt", "license-like", "doc-like", "proto-ext-broken", "dir-license", "dir-doc", "lookalike-table",
}

// look-alikes of LICENSE / the documentation names / the .proto extension: none is a module file
var uLookalikes = []string{
	"LICENSE\u200b", "\ufeffLICENSE", "LICEN\u200dSE", "\uff2c\uff29\uff23\uff25\uff2e\uff33\uff25", "\uff2cICENSE", "L\u0131CENSE", "L\u0130CENSE", "LICENSE\u0301", "LICEN\u017fE", "\u202eLICENSE", "LICENSE\u200e",
	"\uff32\uff25\uff21\uff24\uff2d\uff25.md", "\uff32\uff25\uff21\uff24\uff2d\uff25\uff0e\uff4d\uff44", "README\uff0emd", "README.\uff4dd", "README.md\u200b", "\ufeffREADME.md", "README.md\u0301", "READ\u200cME.md", "README.markdown\u200b", "R\u0395ADME.md",
	"buf.md\ufeff", "\ufeffbuf.md", "\uff42uf.md", "bu\u200bf.md", "buf\uff0emd", "buf.\u217fd",
	"a.\uff50roto", "a\uff0eproto", "a.prot\u03bf", "a.proto\u200b", "a.proto\u0301", "a.\u200bproto", "a.pr\u00f6to", "a.\u1d56roto", "a.proto\ufeff", "a.proto\u202e",
	"LICENSE\x80", "README.md\xc3", "a.proto\xff", "a.pro\xc0\xafto",
}

func uPath(r *hx.Rand, pos, s string, k int) string {
	dir := ""
	if k%2 == 1 {
		dir = hx.Pick(r, dirAtoms[:12]) + "/"
	}
	var cands []string
	switch pos {
	case "proto-stem":
		cands = []string{dir + s + ".proto"}
	case "proto-dir":
		cands = []string{s + "/f.proto", dir + s + "/g.proto"}
	case "proto-deep":
		cands = []string{"a/" + s + "/b/" + s + ".proto", s + "/" + s + "/" + s + ".proto"}
	case "proto-affix":
		cands = []string{dir + "x" + s + "y.proto", dir + s + s + ".proto", dir + "v1" + s + ".proto"}
	case "license-dir-proto":
		cands = []string{"LICENSE" + s + "/z.proto", "README.md" + s + "/z.proto", s + "LICENSE/z.proto"}
	case "non-module-txt":
		cands = []string{dir + s + ".txt", dir + s, dir + s + ".proto.bak"}
	case "license-like":
		cands = []string{"LICENSE" + s, s + "LICENSE", "LICEN" + s + "SE", "LICENSE." + s}
	case "doc-like":
		cands = []string{"README" + s + ".md", "buf.md" + s, s + "buf.md", "README.md" + s, "buf" + s + ".md", "README." + s + "markdown"}
	case "proto-ext-broken":
		cands = []string{dir + "a.proto" + s, dir + "a.pro" + s + "to", dir + "a." + s + "proto", dir + "a" + s + ".PROTO"}
	case "dir-license":
		cands = []string{s + "/LICENSE", "d/" + s + "/LICENSE"}
	case "dir-doc":
		cands = []string{s + "/buf.md", s + "/README.md", "d/" + s + "/README.markdown"}
	case "lookalike-table":
		cands = []string{uLookalikes[k%len(uLookalikes)]}
	}
	return cands[(k/2)%len(cands)]
}

// validNodePath: what bufcas.NewFileNode must accept (bytewise: relative, no empty / "." / ".."
// component, no line feed) - independent of normalpath.
func validNodePath(p string) bool {
	if p == "" || strings.Contains(p, "\n") || strings.HasPrefix(p, "/") {
		return false
	}
	for _, c := range strings.Split(p, "/") {
		if c == "" || c == "." || c == ".." {
			return false
		}
	}
	return true
}

func allValidUTF8(files []file) bool {
	for _, f := range files {
		if !utf8.ValidString(f.Path) {
			return false
		}
	}
	return true
}

func sortedPaths(files []file) []string {
	out := make([]string, len(files))
	for i, f := range files {
		out[i] = f.Path
	}
	sort.Strings(out) // Go string order = byte order
	return out
}

func sameStrings(a, b []string) bool {
	if len(a) != len(b) {
		return false
	}
	for i := range a {
		if a[i] != b[i] {
			return false
		}
	}
	return true
}

// diskFeasible: NAME_MAX / PATH_MAX / NUL (whether the file system keeps the bytes is CHECKED
// on the bucket afterwards, not assumed).
func diskFeasible(files []file) bool {
	for _, f := range files {
		if len(f.Path) > 3000 || strings.ContainsRune(f.Path, 0) {
			return false
		}
		for _, c := range strings.Split(f.Path, "/") {
			if len(c) > 255 {
				return false
			}
		}
	}
	return true
}

// literalBackend builds a backend bucket and reports whether it holds exactly the literal paths.
func literalBackend(files []file, build func() storage.ReadBucket) (storage.ReadBucket, bool) {
	b, err := tryBucket(build)
	if err != nil {
		return nil, false
	}
	paths, err := storage.AllPaths(ctx, b, "")
	if err != nil {
		return nil, false
	}
	sort.Strings(paths)
	return b, sameStrings(paths, sortedPaths(files))
}

type uInfo struct {
	family, form, pos string
	path, twin        string
	both, heavy       bool
	order             string // fold name for order-flip cases
}

func (u uInfo) input(files []file, deps []string) map[string]any {
	in := map[string]any{"files": showFilesShort(files), "deps": deps, "family": u.family, "form": u.form, "position": u.pos,
		"path": quoteShort(u.path), "path_hex": hexShort(u.path), "both_spellings_in_module": u.both}
	if u.twin != "" {
		in["other_spelling"] = quoteShort(u.twin)
		in["other_spelling_hex"] = hexShort(u.twin)
	}
	if u.order != "" {
		in["byte_order_differs_from_order_under"] = u.order
	}
	return in
}

func quoteShort(s string) string {
	if len(s) > 200 {
		return strconv.Quote(s[:80]) + fmt.Sprintf("...(%d bytes)...", len(s)) + strconv.Quote(s[len(s)-40:])
	}
	return strconv.Quote(s)
}

func hexShort(s string) string {
	if len(s) > 200 {
		return hex.EncodeToString([]byte(s[:80])) + fmt.Sprintf("...(%d bytes)", len(s))
	}
	return hx.Enc(s)
}

func showFilesShort(files []file) []string {
	out := make([]string, len(files))
	for i, f := range files {
		out[i] = quoteShort(f.Path) + " = " + encB(f.Content)
	}
	return out
}

// sameUnderNormalisation: the two (different) byte strings are the same text in some Unicode
// normalisation form
func sameUnderNormalisation(a, b string) bool {
	if !utf8.ValidString(a) || !utf8.ValidString(b) {
		return false
	}
	for _, f := range uFolds[:4] {
		if f.f(a) == f.f(b) {
			return true
		}
	}
	return false
}

// ---------------------------------------------------------------------------------------
// the case
// ---------------------------------------------------------------------------------------

func unicodeCase(run *hx.Run, idx int, r *hx.Rand, tmp string, base []file, u uInfo, deps []string, parseable bool) {
	content := func(p string) []byte {
		if parseable {
			return protoText(r, "", nil)
		}
		return genContent(r, p, false)
	}
	files := append(cloneFiles(base), file{u.path, content(u.path)})
	if u.both {
		files = append(files, file{u.twin, content(u.twin)})
	}
	hx.Shuffle(r, files)
	input := u.input(files, deps)
	fail := func(class, what string, extra map[string]any) {
		in := map[string]any{}
		for k, v := range input {
			in[k] = v
		}
		for k, v := range extra {
			in[k] = v
		}
		failure(run, hx.OracleFailure{Class: class, What: what, Input: in, Replay: failReplay(run, idx)})
	}
	defer func() {
		if pn := recover(); pn != nil {
			fail("panic", fmt.Sprintf("unicode case panicked: %v", pn), nil)
		}
	}()
	modelable := allValidUTF8(files)
	light := !u.heavy // a 64 KiB path: only the `man` and `b5` lines go to the model
	run.Count("uni:class=" + u.family + ":" + u.form)
	run.Count("uni:pos=" + u.pos)
	run.Count("uni:class-pos=" + u.family + ":" + u.form + "@" + u.pos)
	if !modelable {
		run.Count("uni:oracle-only-invalid-utf8")
	}
	if u.both {
		run.Count("uni:both-spellings-in-one-module")
	}
	special := []string{u.path}
	if u.both {
		special = append(special, u.twin)
	}

	// ---- (1) file nodes: accepted, literal, parsed back literally ----
	for _, p := range special {
		if !validNodePath(p) {
			panic("generator: invalid node path " + strconv.Quote(p))
		}
		dg := shake([]byte("node " + p))
		run.Eval()
		n, err := bufcas.NewFileNode(p, mustDigest(dg))
		nodeText := "shake256:" + hex.EncodeToString(dg) + "  " + p
		switch {
		case err != nil:
			fail("filenode-path-rejected", fmt.Sprintf("bufcas.NewFileNode refuses the valid path %s: %s", quoteShort(p), classify(err)), map[string]any{"entry_point": "NewFileNode"})
		case n.Path() != p:
			fail("filenode-path-altered", fmt.Sprintf("bufcas.NewFileNode(%s).Path() = %s: not the literal bytes given", quoteShort(p), quoteShort(n.Path())), map[string]any{"entry_point": "NewFileNode", "returned_hex": hexShort(n.Path())})
		case n.String() != nodeText:
			fail("filenode-path-altered", fmt.Sprintf("FileNode.String() = %s, want digest, two spaces, the literal path", quoteShort(n.String())), map[string]any{"entry_point": "FileNode.String"})
		}
		pn, err := bufcas.ParseFileNode(nodeText)
		switch {
		case err != nil:
			fail("filenode-path-rejected", fmt.Sprintf("bufcas.ParseFileNode refuses the text of a valid file node with path %s: %s", quoteShort(p), classify(err)), map[string]any{"entry_point": "ParseFileNode"})
		case pn.Path() != p:
			fail("filenode-path-altered", fmt.Sprintf("bufcas.ParseFileNode(digest + two spaces + %s).Path() = %s: not the literal bytes", quoteShort(p), quoteShort(pn.Path())), map[string]any{"entry_point": "ParseFileNode", "returned_hex": hexShort(pn.Path())})
		}
		if modelable && light {
			nodeCase(run, nodeText)
		}
	}

	// ---- (2) manifests over ALL files (every file of a bucket is a node of its file set) ----
	specs := make([]nodeSpec, len(files))
	for i, f := range files {
		specs[i] = nodeSpec{f.Path, shake(f.Content)}
	}
	manifestCase(run, idx, specs, "unicode") // canonical text / literal FileNodes / round trip (+ `man` line)
	canonical := oracleManifestText(sortedByPath(files))
	// a manifest text in another order (sorted by the NFC / lower-cased form, or reversed) is accepted and
	// re-sorted into the byte order of the literal paths
	{
		alt := append([]file(nil), files...)
		fold := uFolds[idx%len(uFolds)]
		if u.order != "" {
			for _, f := range uFolds {
				if f.name == u.order {
					fold = f
				}
			}
		}
		sort.SliceStable(alt, func(i, j int) bool { return fold.f(alt[i].Path) < fold.f(alt[j].Path) })
		text := oracleManifestText(alt)
		if text == canonical {
			for i, j := 0, len(alt)-1; i < j; i, j = i+1, j-1 {
				alt[i], alt[j] = alt[j], alt[i]
			}
			text = oracleManifestText(alt)
		}
		run.Eval()
		m, err := bufcas.ParseManifest(text)
		switch {
		case err != nil:
			fail("manifest-roundtrip", fmt.Sprintf("ParseManifest fails on a valid manifest text (lines sorted by the %s form of the paths): %s", fold.name, classify(err)), map[string]any{"entry_point": "ParseManifest", "text": quoteShort(text)})
		case m.String() != canonical:
			fail("manifest-not-canonical", fmt.Sprintf("ParseManifest(text sorted by the %s form of the paths).String() is not the text sorted by the bytes of the literal paths", fold.name), map[string]any{"entry_point": "ParseManifest", "text": quoteShort(text), "got": quoteShort(m.String())})
		}
		if modelable && light {
			parseCase(run, text)
		}
	}

	// ---- (3) NewFileSetForBucket / PutFileSetToBucket ----
	run.Eval()
	if fs, err := bufcas.NewFileSetForBucket(ctx, memBucket(files)); err != nil {
		cls := "digest-error"
		if u.both && classify(err) == "err duplicate-path" {
			cls = "distinct-spellings-rejected-as-duplicate"
		}
		fail(cls, fmt.Sprintf("bufcas.NewFileSetForBucket fails on a valid bucket: %s", classify(err)), map[string]any{"entry_point": "NewFileSetForBucket"})
	} else {
		if got := fs.Manifest().String(); got != canonical {
			fail("manifest-not-canonical", "NewFileSetForBucket(bucket).Manifest().String() is not the list of `digest  path` lines over the literal paths of the bucket in byte order", map[string]any{"entry_point": "NewFileSetForBucket", "got": quoteShort(got)})
		}
		for _, p := range special {
			if n := fs.Manifest().GetFileNode(p); n == nil || n.Path() != p {
				fail("filenode-path-altered", fmt.Sprintf("the file set of the bucket has no node under the literal path %s", quoteShort(p)), map[string]any{"entry_point": "NewFileSetForBucket"})
			}
		}
		rw := storagemem.NewReadWriteBucket()
		if err := bufcas.PutFileSetToBucket(ctx, fs, rw); err != nil {
			fail("fileset-roundtrip", fmt.Sprintf("PutFileSetToBucket fails: %v", err), map[string]any{"entry_point": "PutFileSetToBucket"})
		} else if paths, _ := storage.AllPaths(ctx, rw, ""); !sameStrings(sortStrings(paths), sortedPaths(files)) {
			fail("fileset-roundtrip", "the bucket written by PutFileSetToBucket(NewFileSetForBucket(bucket)) does not hold the literal paths of the bucket", map[string]any{"entry_point": "PutFileSetToBucket", "got_paths": quoteAllShort(paths)})
		}
	}

	// ---- (4) Module.Digest(b5): the published construction over the LITERAL paths ----
	want := oracleB5(files, deps)
	mf := oracleModuleFiles(files)
	isModuleFile := inFiles(mf, u.path)
	run.Count(fmt.Sprintf("uni:module-file=%v", isModuleFile))
	line, _ := b5Line(files, deps)
	got, err := remoteB5(memBucket(files), deps, want, modOpts{})
	if err != nil {
		if modelable {
			run.Case(line, classify(err), true)
		}
		cls := "digest-error"
		if u.both && classify(err) == "err duplicate-path" {
			cls = "distinct-spellings-rejected-as-duplicate"
		}
		fail(cls, fmt.Sprintf("Module.Digest(b5) fails on a valid file set: %s (%v)", classify(err), shortErr(err)), map[string]any{"entry_point": "memory"})
		return
	}
	if modelable {
		run.Case(line, "ok "+got, true)
	} else {
		run.Eval()
	}
	if got != want {
		fail("b5-construction", fmt.Sprintf("Module.Digest(b5)=%s but the published construction over the literal paths gives %s", got, want), map[string]any{"entry_point": "memory"})
	}
	if paths, err := modulePaths(memBucket(files)); err == nil {
		wantPaths := make([]string, len(mf))
		for i, f := range mf {
			wantPaths[i] = f.Path
		}
		if modelable && light {
			enc := make([]string, len(paths))
			for i, p := range paths {
				enc[i] = hx.Enc(p)
			}
			run.Case("files\t"+encBucket(files), strings.Join(enc, ","), true)
		}
		if !sameStrings(paths, wantPaths) {
			cls := "module-file-set"
			if !isModuleFile && inStrings(paths, u.path) {
				cls = "lookalike-taken-for-module-file"
			}
			fail(cls, fmt.Sprintf("module files are %s, the published rule (exact bytes `.proto` / `LICENSE` / first doc name) gives %s", strings.Join(quoteAllShort(paths), ", "), strings.Join(quoteAllShort(wantPaths), ", ")), nil)
		}
	} else if parseable && hasProto(mf) {
		fail("digest-error", fmt.Sprintf("building a local module over the file set fails: %v", shortErr(err)), map[string]any{"entry_point": "local-module-paths"})
	}

	// ---- (5) every backend / name / targeting / local module gives the same digest ----
	same := func(label string, d string, err error) {
		run.Eval()
		run.Count("uni:via:" + label)
		if err != nil {
			fail("digest-error", fmt.Sprintf("digest via %s failed: %v", label, shortErr(err)), map[string]any{"variant": label})
		} else if d != got {
			cls := "digest-impure"
			fail(cls, fmt.Sprintf("digest differs via %s: %s vs %s", label, d, got), map[string]any{"variant": label})
		}
	}
	sh := cloneFiles(files)
	hx.Shuffle(r, sh)
	d, err := remoteB5(shuffledBucket{memBucket(sh), r.Fork(7)}, deps, want, modOpts{})
	same("shuffled-walk", d, err)
	if diskFeasible(files) {
		if b, ok := literalBackend(files, func() storage.ReadBucket { return diskBucket(tmp, files) }); ok {
			d, err = remoteB5(b, deps, want, modOpts{})
			same("disk", d, err)
		} else {
			run.Count("uni:backend-unavailable:disk")
		}
	} else {
		run.Count("uni:backend-unavailable:disk-name-or-path-max")
	}
	if b, ok := literalBackend(files, func() storage.ReadBucket { return tarRoundTrip(files) }); ok {
		d, err = remoteB5(b, deps, want, modOpts{})
		same("tar-roundtrip", d, err)
	} else {
		run.Count("uni:backend-unavailable:tar")
	}
	d, err = remoteB5(memBucket(files), deps, want, modOpts{name: "other-name", commit: uuid.New()})
	same("module-name", d, err)
	if isModuleFile {
		d, err = remoteB5(memBucket(files), deps, want, modOpts{targetPaths: []string{u.path}})
		same("targeting-the-path", d, err)
	} else if len(mf) > 0 {
		d, err = remoteB5(memBucket(files), deps, want, modOpts{targetPaths: []string{mf[0].Path}})
		same("targeting", d, err)
	}
	if parseable && len(deps) == 0 && hasProto(mf) {
		d, err = localDigest(memBucket(files), modOpts{}, bufmodule.DigestTypeB5, nil, nil)
		same("local-module", d, err)
		d, err = localDigest(memBucket(files), modOpts{nonTarget: true}, bufmodule.DigestTypeB5, nil, nil)
		same("local-module-non-target", d, err)
		if isModuleFile && oracleExt(u.path) == ".proto" {
			d, err = localDigest(memBucket(files), modOpts{targetPaths: []string{u.path}}, bufmodule.DigestTypeB5, nil, nil)
			same("local-module-targeting-the-path", d, err)
		}
	}

	// ---- (6) sensitivity: another spelling is another path ----
	if u.twin != "" && !u.both {
		renamed := cloneFiles(files)
		renamed[indexOf(files, u.path)].Path = u.twin
		run.Eval()
		wantR := oracleB5(renamed, deps)
		dr, err := remoteB5(memBucket(renamed), deps, wantR, modOpts{})
		twinIsModuleFile := inFiles(oracleModuleFiles(renamed), u.twin)
		extra := map[string]any{"perturbation": "rename-to-other-spelling", "perturbed_files": showFilesShort(renamed)}
		switch {
		case err != nil:
			fail("digest-error", fmt.Sprintf("digest after renaming %s to %s failed: %v", quoteShort(u.path), quoteShort(u.twin), shortErr(err)), extra)
		case isModuleFile && twinIsModuleFile && dr == got:
			// the property's own sensitivity clause, stated before the construction comparison
			cls := "digest-insensitive-to-path-spelling"
			if sameUnderNormalisation(u.path, u.twin) {
				cls = "digest-insensitive-to-normalisation-form"
			}
			fail(cls, fmt.Sprintf("renaming the module file %s to %s (different bytes) leaves the digest unchanged", quoteShort(u.path), quoteShort(u.twin)), extra)
		case dr != wantR:
			fail("b5-construction", fmt.Sprintf("after renaming %s to %s: Module.Digest(b5)=%s, published construction over the literal paths gives %s", quoteShort(u.path), quoteShort(u.twin), dr, wantR), extra)
		case !isModuleFile && !twinIsModuleFile && dr != got:
			fail("digest-impure", fmt.Sprintf("renaming the NON-module file %s to %s changes the digest", quoteShort(u.path), quoteShort(u.twin)), extra)
		}
		if isModuleFile && twinIsModuleFile {
			run.Count("uni:sens:rename-module-file")
		} else {
			run.Count("uni:sens:rename-non-module-file")
		}
		// and a module with BOTH spellings is a valid module with two different files
		if !conflicts(u.path, u.twin) && !inDirPrefix(base, u.twin) {
			two := append(cloneFiles(files), file{u.twin, content(u.twin)})
			run.Eval()
			wantT := oracleB5(two, deps)
			dt, err := remoteB5(memBucket(two), deps, wantT, modOpts{})
			extra := map[string]any{"perturbation": "add-other-spelling", "perturbed_files": showFilesShort(two)}
			switch {
			case err != nil && classify(err) == "err duplicate-path":
				fail("distinct-spellings-rejected-as-duplicate", fmt.Sprintf("a module holding both %s and %s (two different paths) has no digest: duplicate path", quoteShort(u.path), quoteShort(u.twin)), extra)
			case err != nil:
				fail("digest-error", fmt.Sprintf("digest of the module holding both spellings failed: %v", shortErr(err)), extra)
			case dt != wantT:
				fail("b5-construction", fmt.Sprintf("module holding both spellings: Module.Digest(b5)=%s, published construction gives %s", dt, wantT), extra)
			case isModuleFile && twinIsModuleFile && dt == got:
				fail("digest-insensitive", "adding the other spelling as a second module file leaves the digest unchanged", extra)
			}
			run.Count("uni:sens:add-other-spelling")
		}
	}

	// ---- (7) b4: module files + v1 object data, whose NAMES are literal too ----
	if light {
		b4Unicode(run, idx, r, files, u, modelable, fail)
	}
}

func sortStrings(xs []string) []string {
	out := append([]string(nil), xs...)
	sort.Strings(out)
	return out
}

func sortedByPath(files []file) []file {
	out := append([]file(nil), files...)
	sort.Slice(out, func(i, j int) bool { return out[i].Path < out[j].Path })
	return out
}

func quoteAllShort(xs []string) []string {
	out := make([]string, len(xs))
	for i, x := range xs {
		out[i] = quoteShort(x)
	}
	return out
}

func shortErr(err error) string {
	s := strconv.Quote(err.Error())
	if len(s) > 400 {
		s = s[:400] + "..."
	}
	return s
}

func b4Unicode(run *hx.Run, idx int, r *hx.Rand, files []file, u uInfo, modelable bool, fail func(class, what string, extra map[string]any)) {
	var yaml, lock bufmodule.ObjectData
	yEnc, lEnc := "-", "-"
	var extra []file
	frag := u.path
	if i := strings.LastIndexByte(frag, '/'); i >= 0 {
		frag = frag[i+1:]
	}
	if len(frag) > 300 {
		frag = frag[:300]
		for !utf8.ValidString(frag) && utf8.ValidString(u.path) && len(frag) > 0 {
			frag = frag[:len(frag)-1]
		}
	}
	switch r.Intn(4) {
	case 0:
	case 1:
		name := hx.Pick(r, []string{"buf.yaml", "buf" + frag + ".yaml", frag + ".yaml", "buf.yaml" + frag, "\uff42uf.yaml", "buf.y\u00e1ml"})
		data := genContent(r, "x.bin", false)
		o, err := bufmodule.NewObjectData(name, data)
		must(err)
		yaml, yEnc = o, hx.Enc(name)+"="+encB(data)
		extra = append(extra, file{name, data})
	default:
		name := hx.Pick(r, []string{"buf.yaml", "buf" + frag + ".yaml", "buf.yaml" + frag})
		data := genContent(r, "x.bin", false)
		o, err := bufmodule.NewObjectData(name, data)
		must(err)
		yaml, yEnc = o, hx.Enc(name)+"="+encB(data)
		extra = append(extra, file{name, data})
		name = hx.Pick(r, []string{"buf.lock", "buf" + frag + ".lock", frag, "buf.lock\u200b"})
		data = genContent(r, "x.bin", false)
		o, err = bufmodule.NewObjectData(name, data)
		must(err)
		lock, lEnc = o, hx.Enc(name)+"="+encB(data)
		extra = append(extra, file{name, data})
	}
	for _, f := range extra {
		if !utf8.ValidString(f.Path) {
			modelable = false
		}
	}
	t := newTable()
	for _, f := range files {
		t.add(f.Content)
	}
	all := append(append([]file(nil), oracleModuleFiles(files)...), extra...)
	sort.SliceStable(all, func(i, j int) bool { return all[i].Path < all[j].Path })
	dup := false
	for i := 1; i < len(all); i++ {
		if all[i].Path == all[i-1].Path {
			dup = true
		}
	}
	for _, f := range extra {
		t.add(f.Content)
	}
	mt := oracleManifestText(all)
	t.add([]byte(mt))
	line := "b4\t" + t.enc() + "\t" + encBucket(files) + "\t" + yEnc + "\t" + lEnc
	got, err := localDigest(memBucket(files), modOpts{}, bufmodule.DigestTypeB4, yaml, lock)
	run.Count(fmt.Sprintf("uni:b4:objects=%d", len(extra)))
	emit := func(out string) {
		if modelable {
			run.Case(line, out, true)
		} else {
			run.Eval()
		}
	}
	names := map[string]any{"yaml": yEnc, "lock": lEnc, "entry_point": "local-module-b4"}
	if err != nil {
		emit(classify(err))
		if !dup {
			fail("digest-error", fmt.Sprintf("Module.Digest(b4) failed: %v", shortErr(err)), names)
		}
		return
	}
	emit("ok " + got)
	if dup {
		fail("manifest-not-canonical", "Module.Digest(b4) succeeded although an object-data name equals a module file path (duplicate manifest path)", names)
		return
	}
	if want := "shake256:" + hex.EncodeToString(shake([]byte(mt))); got != want {
		fail("b4-construction", fmt.Sprintf("Module.Digest(b4)=%s but SHAKE256 of the manifest over the literal module file paths and object-data names in byte order is %s", got, want), names)
	}
}

// ---------------------------------------------------------------------------------------
// the plan: class x position, round-robin
// ---------------------------------------------------------------------------------------

type uPlanItem struct {
	class string
	k     int // round
	ci    int
}

func sectionU(run *hx.Run, r *hx.Rand, tmp string) {
	t := buildUTable()
	var classes []string
	for _, c := range t.classes {
		if !strings.HasSuffix(c, ":ascii") { // plain ASCII members only serve as the OTHER spelling
			classes = append(classes, c)
		}
	}
	var orderClasses []string
	for _, f := range uFolds {
		if len(t.flips[f.name]) > 0 {
			orderClasses = append(orderClasses, "order:"+f.name)
		}
	}
	classes = append(classes, orderClasses...)
	run.Set("unicode_classes", classes)
	run.Set("unicode_spellings", len(t.spellings))
	for _, f := range uFolds {
		run.Set("unicode_order_flip_pairs_"+f.name, len(t.flips[f.name]))
	}
	heavyClass := func(c string) bool {
		ix := t.byClass[c]
		return len(ix) > 0 && t.spellings[ix[0]].heavy
	}
	mediumClass := func(c string) bool {
		ix := t.byClass[c]
		return len(ix) > 0 && t.spellings[ix[0]].medium
	}
	n := run.N(900, 3000)
	heavyRounds := run.N(3, 12)
	mediumRounds := run.N(len(uPositions), 3*len(uPositions))
	var plan []uPlanItem
	for k := 0; len(plan) < n; k++ {
		for ci, c := range classes {
			if heavyClass(c) && k >= heavyRounds || mediumClass(c) && k >= mediumRounds {
				continue
			}
			plan = append(plan, uPlanItem{c, k, ci})
		}
	}
	plan = plan[:n]
	for i, it := range plan {
		idx := uBase + i
		if run.Only >= 0 && run.Only != idx {
			continue
		}
		cr := r.Fork(uint64(i))
		parseable := cr.Chance(1, 3)
		base := genFileSet(cr, parseable)
		var deps []string
		if !parseable || cr.Bool() {
			for k, c := 0, cr.Intn(3); k < c; k++ {
				deps = append(deps, "b5:"+hex.EncodeToString(randDigestBytes(cr)))
			}
		}
		var u uInfo
		if strings.HasPrefix(it.class, "order:") {
			fold := strings.TrimPrefix(it.class, "order:")
			pairs := t.flips[fold]
			// spread over the whole list of pairs (it is sorted: neighbours are similar)
			pr := pairs[(it.k*7919+it.ci)%len(pairs)]
			u = uInfo{family: "order", form: fold, pos: "order-pair", path: pr[0], twin: pr[1], both: true, order: fold}
		} else {
			ix := t.byClass[it.class]
			sp := t.spellings[ix[it.k%len(ix)]]
			pos := uPositions[(it.k+it.ci)%len(uPositions)]
			sub := it.k / len(uPositions)
			u = uInfo{family: sp.family, form: sp.form, pos: pos, heavy: sp.heavy, path: uPath(cr, pos, sp.s, sub)}
			// the other spelling: another member of the group, in the same position
			var others []uSpelling
			for _, j := range t.groups[sp.group] {
				if t.spellings[j].s != sp.s {
					others = append(others, t.spellings[j])
				}
			}
			if pos != "lookalike-table" && len(others) > 0 {
				o := others[(it.k/len(ix))%len(others)]
				// same sub-choice and same directory: replay the generator stream of uPath
				u.twin = uPath(cr.Fork(0), pos, o.s, sub)
				u.path = uPath(cr.Fork(0), pos, sp.s, sub)
				if u.twin == u.path || !validNodePath(u.twin) {
					u.twin = ""
				}
			}
			u.both = u.twin != "" && (it.k+it.ci)%3 == 1 && !conflicts(u.path, u.twin)
		}
		// the base set must not collide with the special paths
		var keep []file
		for _, f := range base {
			if !conflicts(f.Path, u.path) && (u.twin == "" || !conflicts(f.Path, u.twin)) {
				keep = append(keep, f)
			}
		}
		base = keep
		if u.heavy && len(base) > 2 {
			base = base[:2]
		}
		unicodeCase(run, idx, cr, tmp, base, u, deps, parseable)
		if i%5 == 0 && !u.heavy {
			msetCase(run, idx, cr.Fork(98), &lfPlant{mod: cr.Intn(6), path: u.path, plain: true, noModel: !utf8.ValidString(u.path)})
		}
		if i < 4 {
			run.Sample(map[string]any{"section": "U", "class": it.class, "position": u.pos, "path": quoteShort(u.path), "other_spelling": quoteShort(u.twin), "both": u.both})
		}
		os.RemoveAll(tmp)
		must(os.MkdirAll(tmp, 0o755))
	}
}
