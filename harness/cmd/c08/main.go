// Command c08 is the correspondence + oracle harness for property C08
// ("module digests are a pure, sensitive function of content; manifests canonical").
//
// `c08 gen-consts` is the translator that prints lean/BufGen/ConstsC08.lean from the working
// tree of bufbuild/buf (go/ast over bufmodule/paths.go plus live String() values).
//
// Section M (manifests): generated file-node sets (paths with spaces incl. double spaces,
// unicode, dots, hostile spellings, duplicates) through bufcas.NewFileNode / NewManifest /
// String / ParseManifest, and mutated manifest / file-node texts through the parsers.
// Section D (digests): generated file sets (module files, doc/license variants, extra
// non-module files, arbitrary bytes, empty files) and dependency digest sets through the real
// bufmodule.Module.Digest on several backends (memory, disk, tar round trip, shuffled walk),
// under module name / commit / targeting changes, and under single-byte / single-path /
// single-dependency perturbations.  Section G: module sets (local modules importing each
// other, remote modules with pinned dependency keys).  Section N: paths containing U+000A in
// every position (module file, non-module file, LICENSE / documentation look-alikes, object
// data names, a dependency inside a module set) through every entry point and backend: since
// the fix of bufcas.NewFileNode a module file with such a path has NO digest (an error from
// every entry point), a non-module file with such a path is ignored.
// Section H (history.go): histories — disturbed computations (reads that fail after k bytes,
// panicking readers, cancelled contexts) followed by healthy ones, sequentially on one P,
// unpinned and concurrently; every healthy answer against the independent recomputation and
// against a fresh process.
// Section I (importkinds.go): module sets over the IMPORT-MODIFIER family (plain / public / weak as
// the only link between modules, chains, mixed, well-known types, unprovided, cycles): b5
// construction over the dependencies resolved from the import statements, and sensitivity of the
// importer's digest to one changed byte in every (direct / transitive) dependency.
// Section U (unicode.go): the UNICODE family of paths - every Unicode spelling class (NFC / NFD /
// NFKC / NFKD variants, combining marks in non-canonical order, Hangul syllables vs jamo,
// singleton and compatibility characters, zero-width and bidi characters, case-folding pairs,
// astral characters, INVALID UTF-8, very long paths) in every position: a path is a byte string
// and is hashed, sorted, stored and parsed back LITERALLY.
//
// The Lean model receives the hash as a table computed here with golang.org/x/crypto/sha3.
// The oracle (implementation only) recomputes every b5 digest from the published
// construction and checks the metamorphic statements of the property.
package main

import (
	"bytes"
	"context"
	"encoding/hex"
	"errors"
	"fmt"
	"os"
	"path/filepath"
	"sort"
	"strconv"
	"strings"
	"unicode/utf8"

	"github.com/bufbuild/buf/private/bufpkg/bufcas"
	"github.com/bufbuild/buf/private/bufpkg/bufmodule"
	"github.com/bufbuild/buf/private/bufpkg/bufparse"
	"github.com/bufbuild/buf/private/pkg/slogext"
	"github.com/bufbuild/buf/private/pkg/storage"
	"github.com/bufbuild/buf/private/pkg/storage/storagearchive"
	"github.com/bufbuild/buf/private/pkg/storage/storagemem"
	"github.com/bufbuild/buf/private/pkg/storage/storageos"
	"github.com/bufbuild/verifharness/internal/hx"
	"github.com/google/uuid"
	"golang.org/x/crypto/sha3"
)

var ctx = context.Background()

// ---------------------------------------------------------------------------------------
// independent side: SHAKE256 and the published constructions (never calls into buf)
// ---------------------------------------------------------------------------------------

func shake(b []byte) []byte {
	out := make([]byte, 64)
	sha3.ShakeSum256(out, b)
	return out
}

type file struct {
	Path    string
	Content []byte
}

func oracleExt(p string) string {
	if i := strings.LastIndexByte(p, '/'); i >= 0 {
		p = p[i+1:]
	}
	if i := strings.LastIndexByte(p, '.'); i >= 0 {
		return p[i:]
	}
	return ""
}

// The published rule: .proto files, LICENSE, and the first present of buf.md, README.md,
// README.markdown.  Deliberately hard-coded here (the oracle is the specification, the Lean
// model is regenerated from the code).
func oracleModuleFiles(files []file) []file {
	present := map[string]bool{}
	for _, f := range files {
		present[f.Path] = true
	}
	doc := ""
	for _, d := range []string{"buf.md", "README.md", "README.markdown"} {
		if present[d] {
			doc = d
			break
		}
	}
	var out []file
	for _, f := range files {
		if oracleExt(f.Path) == ".proto" || f.Path == "LICENSE" || (doc != "" && f.Path == doc) {
			out = append(out, f)
		}
	}
	sort.Slice(out, func(i, j int) bool { return out[i].Path < out[j].Path })
	return out
}

func oracleManifestText(moduleFiles []file) string {
	var sb strings.Builder
	for _, f := range moduleFiles { // already sorted by path
		sb.WriteString("shake256:" + hex.EncodeToString(shake(f.Content)) + "  " + f.Path + "\n")
	}
	return sb.String()
}

func oracleB5Preimage(manifestText string, depStrings []string) string {
	deps := append([]string(nil), depStrings...)
	sort.Strings(deps)
	return strings.Join(append([]string{"shake256:" + hex.EncodeToString(shake([]byte(manifestText)))}, deps...), "\n")
}

func oracleB5(files []file, depStrings []string) string {
	return "b5:" + hex.EncodeToString(shake([]byte(oracleB5Preimage(oracleManifestText(oracleModuleFiles(files)), depStrings))))
}

// ---------------------------------------------------------------------------------------
// protocol encodings
// ---------------------------------------------------------------------------------------

func encB(b []byte) string {
	if len(b) == 0 {
		return "-"
	}
	return hex.EncodeToString(b)
}

func encBucket(files []file) string {
	if len(files) == 0 {
		return "-"
	}
	parts := make([]string, len(files))
	for i, f := range files {
		parts[i] = hx.Enc(f.Path) + "=" + encB(f.Content)
	}
	return strings.Join(parts, ",")
}

type table struct {
	seen  map[string]bool
	parts []string
}

func newTable() *table { return &table{seen: map[string]bool{}} }

func (t *table) add(pre []byte) {
	k := string(pre)
	if t.seen[k] {
		return
	}
	t.seen[k] = true
	t.parts = append(t.parts, encB(pre)+"="+hex.EncodeToString(shake(pre)))
}

func (t *table) enc() string {
	if len(t.parts) == 0 {
		return "-"
	}
	return strings.Join(t.parts, ";")
}

func encList(xs []string) string {
	if len(xs) == 0 {
		return "-"
	}
	return strings.Join(xs, ",")
}

// ---------------------------------------------------------------------------------------
// error classes (texts are never compared, only the class)
// ---------------------------------------------------------------------------------------

// errChain lists err and everything it wraps, outermost first (errors.Join trees included:
// storage walks return joined errors).
func errChain(err error) []error {
	var out []error
	var walk func(e error)
	walk = func(e error) {
		if e == nil {
			return
		}
		out = append(out, e)
		switch u := e.(type) {
		case interface{ Unwrap() error }:
			walk(u.Unwrap())
		case interface{ Unwrap() []error }:
			for _, c := range u.Unwrap() {
				walk(c)
			}
		}
	}
	walk(err)
	return out
}

func classify(err error) string {
	if err == nil {
		return "ok"
	}
	for _, e := range errChain(err) {
		var pe *bufparse.ParseError
		if errors.As(e, &pe) && pe == e {
			continue
		}
		msg := e.Error()
		switch {
		case strings.HasPrefix(msg, "line "):
			continue
		case msg == "empty string passed to ParseDigest":
			return "err digest-empty"
		case strings.HasPrefix(msg, "could not parse hex"):
			return "err digest-hex"
		case msg == `must in the form "digest_type:digest_hex_value"`:
			return "err digest-form"
		case strings.HasPrefix(msg, "unknown type"):
			return "err digest-type"
		case strings.HasPrefix(msg, "invalid shake256 digest value"):
			return "err digest-len"
		case msg == `must in the form "digest[SP][SP]path"`:
			return "err node-form"
		case msg == "path was empty":
			return "err path-empty"
		case strings.HasPrefix(msg, "path ") && strings.Contains(msg, " was not valid: "):
			return "err path-invalid"
		case strings.HasPrefix(msg, "path ") && strings.Contains(msg, " was not equal to normalized path "):
			return "err path-not-normal"
		case strings.HasPrefix(msg, "path ") && strings.HasSuffix(msg, " contains a line feed, which a manifest cannot represent"):
			return "err path-line-feed"
		case msg == "did not end with newline":
			return "err no-trailing-newline"
		case strings.HasPrefix(msg, "path ") && strings.Contains(msg, " was duplicated when creating a manifest"):
			return "err duplicate-path"
		case strings.Contains(msg, "trying to compute b5 Digest with dependency digest of type"):
			return "err dep-digest-type"
		}
	}
	return "err other"
}

// ---------------------------------------------------------------------------------------
// generators
// ---------------------------------------------------------------------------------------

var dirAtoms = []string{"a", "b", "c.d", "x y", "x  y", "é", "日本", ".hidden", "...", "a..", " lead", "trail ", "  ", "v1", "a.proto", "buf.md", "LICENSE", "p q  r",
	// spellings that are NOT in Unicode normalisation form C / KC (a path is a byte string: no form is preferred)
	"e\u0301", "\u1100\u1161", "\u212b", "a\u0301\u0323", "\ufb01", "z\u200d"}
var stemAtoms = []string{"a", "b", "foo", "x y", "x  y", "a  b  c", "é", "日本語", ".", "..", "a.b", " ", "  ", "trail  ", "  lead", "Ω ω",
	"e\u0301", "\u00e9", "\u1112\u1161\u11ab", "\u2126", "q\u0307\u0323", "\uff21", "a\u200cb", "\u202ea", "\U00010000"}
var extAtoms = []string{".proto", ".proto", ".proto", ".proto", ".txt", "", ".proto.bak", ".PROTO", ".protoo", ".md", ".yaml", ".proto "}
var specialFiles = []string{"LICENSE", "buf.md", "README.md", "README.markdown", "buf.yaml", "buf.lock", "LICENSE.md", "license", ".proto", "d/.proto", "d/LICENSE", "d/buf.md", "d/README.md", "a.proto/b.txt", "buf.md/x.proto", "README.md/y.proto", "LICENSE/z.proto", "readme.md", "BUF.md",
	// look-alikes of the license / documentation names: NOT module files
	"LICENSE\u200b", "\uff2c\uff29\uff23\uff25\uff2e\uff33\uff25", "\uff32\uff25\uff21\uff24\uff2d\uff25.md", "buf.md\ufeff", "L\u0131CENSE"}

func genPath(r *hx.Rand) string {
	if r.Chance(2, 5) {
		return hx.Pick(r, specialFiles)
	}
	var comps []string
	for i, n := 0, r.Intn(3); i < n; i++ {
		comps = append(comps, hx.Pick(r, dirAtoms))
	}
	name := hx.Pick(r, stemAtoms) + hx.Pick(r, extAtoms)
	if name == "." || name == ".." {
		name = name + "x.proto"
	}
	comps = append(comps, name)
	return strings.Join(comps, "/")
}

// conflicts reports whether a and b cannot both be files of one bucket (equal, or one is a
// directory prefix of the other).
func conflicts(a, b string) bool {
	return a == b || strings.HasPrefix(a, b+"/") || strings.HasPrefix(b, a+"/")
}

func protoText(r *hx.Rand, pkg string, imports []string) []byte {
	var sb strings.Builder
	sb.WriteString("syntax = \"proto3\";\n")
	if pkg != "" {
		sb.WriteString("package " + pkg + ";\n")
	}
	for _, im := range imports {
		sb.WriteString("import \"" + im + "\";\n")
	}
	sb.WriteString("// " + strconv.FormatUint(r.Uint64(), 36) + "\n")
	sb.WriteString("message M" + strconv.Itoa(r.Intn(1000)) + " { string f = 1; }\n")
	return []byte(sb.String())
}

func genContent(r *hx.Rand, path string, parseable bool) []byte {
	if parseable && oracleExt(path) == ".proto" {
		return protoText(r, "", nil)
	}
	switch r.Intn(6) {
	case 0:
		return nil
	case 1:
		return []byte{byte(r.Intn(256))}
	case 2:
		return []byte("hello\nworld  \n")
	default:
		b := make([]byte, 1+r.Intn(24))
		for i := range b {
			b[i] = byte(r.Intn(256))
		}
		return b
	}
}

func genFileSet(r *hx.Rand, parseable bool) []file {
	n := r.Intn(8)
	if r.Chance(1, 12) {
		n = 0
	}
	var files []file
	for tries := 0; len(files) < n && tries < 60; tries++ {
		p := genPath(r)
		ok := true
		for _, f := range files {
			if conflicts(p, f.Path) {
				ok = false
				break
			}
		}
		if ok {
			files = append(files, file{p, genContent(r, p, parseable)})
		}
	}
	if n > 0 && !hasProto(files) && r.Chance(3, 4) {
		p := hx.Pick(r, dirAtoms[:12]) + "/" + hx.Pick(r, stemAtoms[:8]) + ".proto"
		if !inDirPrefix(files, p) {
			files = append(files, file{p, genContent(r, p, parseable)})
		}
	}
	return files
}

func randDigestBytes(r *hx.Rand) []byte {
	b := make([]byte, 64)
	for i := range b {
		b[i] = byte(r.Intn(256))
	}
	return b
}

// ---------------------------------------------------------------------------------------
// implementation side
// ---------------------------------------------------------------------------------------

func must(err error) {
	if err != nil {
		panic(err)
	}
}

func memBucket(files []file) storage.ReadBucket {
	m := map[string][]byte{}
	for _, f := range files {
		m[f.Path] = f.Content
	}
	b, err := storagemem.NewReadBucket(m)
	must(err)
	return b
}

var diskSeq int

func diskBucket(root string, files []file) storage.ReadBucket {
	diskSeq++
	dir := filepath.Join(root, "d"+strconv.Itoa(diskSeq))
	must(os.MkdirAll(dir, 0o755))
	for _, f := range files {
		full := filepath.Join(dir, filepath.FromSlash(f.Path))
		must(os.MkdirAll(filepath.Dir(full), 0o755))
		must(os.WriteFile(full, f.Content, 0o644))
	}
	b, err := storageos.NewProvider().NewReadWriteBucket(dir)
	must(err)
	return b
}

func tarRoundTrip(files []file) storage.ReadBucket {
	var buf bytes.Buffer
	must(storagearchive.Tar(ctx, memBucket(files), &buf))
	rw := storagemem.NewReadWriteBucket()
	must(storagearchive.Untar(ctx, &buf, rw))
	return rw
}

type shuffledBucket struct {
	storage.ReadBucket
	r *hx.Rand
}

func (s shuffledBucket) Walk(ctx context.Context, prefix string, f func(storage.ObjectInfo) error) error {
	var infos []storage.ObjectInfo
	if err := s.ReadBucket.Walk(ctx, prefix, func(i storage.ObjectInfo) error { infos = append(infos, i); return nil }); err != nil {
		return err
	}
	hx.Shuffle(s.r, infos)
	for _, i := range infos {
		if err := f(i); err != nil {
			return err
		}
	}
	return nil
}

func mustFullName(owner, name string) bufparse.FullName {
	fn, err := bufparse.NewFullName("buf.build", owner, name)
	must(err)
	return fn
}

func parseMDigest(s string) bufmodule.Digest {
	d, err := bufmodule.ParseDigest(s)
	must(err)
	return d
}

type provider struct {
	datas map[string]bufmodule.ModuleData
}

func (p *provider) GetModuleDatasForModuleKeys(_ context.Context, keys []bufmodule.ModuleKey) ([]bufmodule.ModuleData, error) {
	out := make([]bufmodule.ModuleData, len(keys))
	for i, k := range keys {
		d, ok := p.datas[k.FullName().String()]
		if !ok {
			return nil, fmt.Errorf("no module data for %s", k.FullName())
		}
		out[i] = d
	}
	return out, nil
}

type modOpts struct {
	name        string
	commit      uuid.UUID
	targetPaths []string
	nonTarget   bool
}

func depKeys(depStrings []string) []bufmodule.ModuleKey {
	keys := make([]bufmodule.ModuleKey, len(depStrings))
	for i, ds := range depStrings {
		d := parseMDigest(ds)
		k, err := bufmodule.NewModuleKey(mustFullName("dep", "d"+strconv.Itoa(i)), uuid.New(), func() (bufmodule.Digest, error) { return d, nil })
		must(err)
		keys[i] = k
	}
	return keys
}

// remoteB5 computes Module.Digest(b5) of a remote module whose ModuleData is (bucket, dep keys
// with the given digests).  expected is the digest pinned in the module key; when it differs
// from what buf computes the DigestMismatchError carries buf's value, which is returned.
func remoteB5(bucket storage.ReadBucket, depStrings []string, expected string, o modOpts) (res string, err error) {
	return remoteB5Ctx(ctx, bucket, depStrings, expected, o)
}

// remoteB5Ctx is remoteB5 with the context the module set is built with (Section H cancels it).
func remoteB5Ctx(ctx context.Context, bucket storage.ReadBucket, depStrings []string, expected string, o modOpts) (res string, err error) {
	defer func() {
		if p := recover(); p != nil {
			err = fmt.Errorf("panic: %v", p)
		}
	}()
	name := o.name
	if name == "" {
		name = "m"
	}
	commit := o.commit
	if commit == uuid.Nil {
		commit = uuid.New()
	}
	exp := parseMDigest(expected)
	key, e := bufmodule.NewModuleKey(mustFullName("o", name), commit, func() (bufmodule.Digest, error) { return exp, nil })
	must(e)
	keys := depKeys(depStrings)
	data := bufmodule.NewModuleData(ctx, key,
		func() (storage.ReadBucket, error) { return bucket, nil },
		func() ([]bufmodule.ModuleKey, error) { return keys, nil },
		func() (bufmodule.ObjectData, error) { return nil, nil },
		func() (bufmodule.ObjectData, error) { return nil, nil })
	b := bufmodule.NewModuleSetBuilder(ctx, slogext.NopLogger, &provider{map[string]bufmodule.ModuleData{key.FullName().String(): data}}, bufmodule.NopCommitProvider)
	var ropts []bufmodule.RemoteModuleOption
	if len(o.targetPaths) > 0 {
		ropts = append(ropts, bufmodule.RemoteModuleWithTargetPaths(o.targetPaths, nil))
	}
	b.AddRemoteModule(key, true, ropts...)
	ms, e := b.Build()
	if e != nil {
		return "", e
	}
	d, e := ms.Modules()[0].Digest(bufmodule.DigestTypeB5)
	if e != nil {
		var mm *bufmodule.DigestMismatchError
		if errors.As(e, &mm) && mm.ActualDigest != nil {
			return mm.ActualDigest.String(), nil
		}
		return "", e
	}
	return d.String(), nil
}

// localDigest computes Module.Digest of a local module over bucket (b5 requires parseable
// .proto files because ModuleDeps scans imports).
func localDigest(bucket storage.ReadBucket, o modOpts, dt bufmodule.DigestType, yaml, lock bufmodule.ObjectData) (res string, err error) {
	return localDigestCtx(ctx, bucket, o, dt, yaml, lock)
}

func localDigestCtx(ctx context.Context, bucket storage.ReadBucket, o modOpts, dt bufmodule.DigestType, yaml, lock bufmodule.ObjectData) (res string, err error) {
	defer func() {
		if p := recover(); p != nil {
			err = fmt.Errorf("panic: %v", p)
		}
	}()
	b := bufmodule.NewModuleSetBuilder(ctx, slogext.NopLogger, bufmodule.NopModuleDataProvider, bufmodule.NopCommitProvider)
	var opts []bufmodule.LocalModuleOption
	if o.name != "" {
		if o.commit != uuid.Nil {
			opts = append(opts, bufmodule.LocalModuleWithFullNameAndCommitID(mustFullName("o", o.name), o.commit))
		} else {
			opts = append(opts, bufmodule.LocalModuleWithFullName(mustFullName("o", o.name)))
		}
	}
	if len(o.targetPaths) > 0 && !o.nonTarget {
		opts = append(opts, bufmodule.LocalModuleWithTargetPaths(o.targetPaths, nil))
	}
	if yaml != nil {
		opts = append(opts, bufmodule.LocalModuleWithV1Beta1OrV1BufYAMLObjectData(yaml))
	}
	if lock != nil {
		opts = append(opts, bufmodule.LocalModuleWithV1Beta1OrV1BufLockObjectData(lock))
	}
	b.AddLocalModule(bucket, "subject", !o.nonTarget, opts...)
	if o.nonTarget {
		b.AddLocalModule(memBucket([]file{{"zz_target_only/t.proto", []byte("syntax = \"proto3\";\n")}}), "other", true)
	}
	ms, e := b.Build()
	if e != nil {
		return "", e
	}
	m := ms.GetModuleForBucketID("subject")
	if m == nil {
		return "", errors.New("module not found in set")
	}
	d, e := m.Digest(dt)
	if e != nil {
		return "", e
	}
	return d.String(), nil
}

func modulePaths(bucket storage.ReadBucket) ([]string, error) {
	b := bufmodule.NewModuleSetBuilder(ctx, slogext.NopLogger, bufmodule.NopModuleDataProvider, bufmodule.NopCommitProvider)
	b.AddLocalModule(bucket, "subject", true)
	ms, err := b.Build()
	if err != nil {
		return nil, err
	}
	paths, err := storage.AllPaths(ctx, bufmodule.ModuleReadBucketToStorageReadBucket(ms.Modules()[0]), "")
	sort.Strings(paths)
	return paths, err
}

// ---------------------------------------------------------------------------------------
// Section M: manifests
// ---------------------------------------------------------------------------------------

type nodeSpec struct {
	Path   string
	Digest []byte
}

var hostilePaths = []string{"", ".", "..", "a//b.proto", "./a.proto", "a/./b", "a/../b.proto", "../x.proto", "/abs.proto", "a/", "a/b/", "x\ny.proto", "nl\n", "a\tb.proto", "a\r.proto"}

// failure records an oracle failure and counts its class (hx caps the stored list at 200).
func failure(run *hx.Run, f hx.OracleFailure) {
	run.Count("fail:" + f.Class)
	run.Fail(f)
}

func failReplay(run *hx.Run, idx int) string {
	return fmt.Sprintf("build/c08 --seed %d --tier %s --out /tmp/c08-replay --only %d   (VERIF_REPO=<tree> bin/check C08 rebuilds build/c08 first)", run.Seed, run.Tier, idx)
}

func manifestRoundTripClass(paths []string) string {
	for _, p := range paths {
		if strings.Contains(p, "\n") {
			return "manifest-roundtrip-newline-in-path"
		}
	}
	for _, p := range paths {
		if strings.Contains(p, "  ") {
			return "manifest-roundtrip-double-space-in-path"
		}
	}
	return "manifest-roundtrip"
}

func manifestCase(run *hx.Run, idx int, specs []nodeSpec, kind string) {
	defer func() {
		if p := recover(); p != nil {
			failure(run, hx.OracleFailure{Class: "panic", What: fmt.Sprintf("manifest case panicked: %v", p), Input: specs, Replay: failReplay(run, idx)})
		}
	}()
	parts := make([]string, len(specs))
	for i, s := range specs {
		parts[i] = hx.Enc(s.Path) + "=" + hex.EncodeToString(s.Digest)
	}
	line := "man\t" + encList(parts)
	// the model's strings are code point sequences: a case with invalid UTF-8 in a path is oracle-only
	modelable := true
	for _, s := range specs {
		if !utf8.ValidString(s.Path) {
			modelable = false
		}
	}
	emit := func(out string, nontrivial bool) {
		if modelable {
			run.Case(line, out, nontrivial)
		} else {
			run.Eval()
			run.Count("man:oracle-only-invalid-utf8")
		}
	}
	var nodes []bufcas.FileNode
	var paths []string
	for _, s := range specs {
		d, err := bufcas.NewDigest(s.Digest)
		must(err)
		n, err := bufcas.NewFileNode(s.Path, d)
		if err != nil {
			emit(classify(err), false)
			run.Count("man:" + classify(err))
			return
		}
		if n.Path() != s.Path {
			failure(run, hx.OracleFailure{Class: "filenode-path-altered", What: fmt.Sprintf("NewFileNode(%q).Path() = %q: the path is not the literal byte string given", s.Path, n.Path()), Input: map[string]any{"path": strconv.Quote(s.Path), "path_hex": hx.Enc(s.Path), "returned": strconv.Quote(n.Path()), "returned_hex": hx.Enc(n.Path())}, Replay: failReplay(run, idx)})
		}
		nodes = append(nodes, n)
		paths = append(paths, s.Path)
	}
	m, err := bufcas.NewManifest(nodes)
	if err != nil {
		emit(classify(err), false)
		run.Count("man:" + classify(err))
		return
	}
	text := m.String()
	emit("ok "+hx.Enc(text), len(specs) >= 2)
	run.Count("man:ok:" + kind)
	run.Count("man:nodes=" + strconv.Itoa(len(specs)))
	input := map[string]any{"paths": quoteAll(paths), "manifest_text": strconv.Quote(text)}
	// oracle 1: canonical text = path-sorted "shake256:<hex>  <path>\n" lines
	sorted := append([]nodeSpec(nil), specs...)
	sort.Slice(sorted, func(i, j int) bool { return sorted[i].Path < sorted[j].Path })
	var want strings.Builder
	for _, s := range sorted {
		want.WriteString("shake256:" + hex.EncodeToString(s.Digest) + "  " + s.Path + "\n")
	}
	if text != want.String() {
		failure(run, hx.OracleFailure{Class: "manifest-not-canonical", What: "Manifest.String() is not the list of `digest  path` lines sorted by the bytes of the literal paths", Input: input, Replay: failReplay(run, idx)})
	}
	// oracle 1b: FileNodes() are the literal paths in byte order; lookup is by the literal path
	if fn := m.FileNodes(); len(fn) == len(sorted) {
		got := make([]string, len(fn))
		for i, n := range fn {
			got[i] = n.Path()
		}
		sort.Strings(got)
		orderOnly := true // the literal paths are all there, in another order
		for i := range got {
			if got[i] != sorted[i].Path {
				orderOnly = false
			}
		}
		for i, n := range fn {
			if n.Path() != sorted[i].Path && orderOnly {
				failure(run, hx.OracleFailure{Class: "manifest-not-canonical", What: fmt.Sprintf("Manifest.FileNodes()[%d].Path() = %q: the nodes are not in the byte order of their literal paths (expected %q there)", i, n.Path(), sorted[i].Path), Input: input, Replay: failReplay(run, idx)})
				break
			}
			if n.Path() != sorted[i].Path {
				failure(run, hx.OracleFailure{Class: "filenode-path-altered", What: fmt.Sprintf("Manifest.FileNodes()[%d].Path() = %q, the literal path in byte order is %q", i, n.Path(), sorted[i].Path), Input: input, Replay: failReplay(run, idx)})
				break
			}
			if g := m.GetFileNode(sorted[i].Path); g == nil || g.Path() != sorted[i].Path {
				failure(run, hx.OracleFailure{Class: "filenode-path-altered", What: fmt.Sprintf("Manifest.GetFileNode(%q) does not find the node stored under that literal path", sorted[i].Path), Input: input, Replay: failReplay(run, idx)})
				break
			}
		}
	}
	// oracle 2: the canonical text parses back to an equal manifest
	cls := manifestRoundTripClass(paths)
	back, err := bufcas.ParseManifest(text)
	if err != nil {
		run.Count("man:roundtrip-fail:" + cls)
		failure(run, hx.OracleFailure{Class: cls, What: fmt.Sprintf("ParseManifest(m.String()) fails for a valid manifest with paths %q: %s", paths, classify(err)), Input: input, Replay: failReplay(run, idx)})
		return
	}
	equal := len(back.FileNodes()) == len(m.FileNodes())
	if equal {
		for i, n := range m.FileNodes() {
			bn := back.FileNodes()[i]
			if bn.Path() != n.Path() || !bufcas.DigestEqual(bn.Digest(), n.Digest()) {
				equal = false
			}
		}
	}
	if !equal || back.String() != text {
		run.Count("man:roundtrip-differs:" + cls)
		failure(run, hx.OracleFailure{Class: cls, What: fmt.Sprintf("ParseManifest(m.String()) yields a different manifest for paths %q", paths), Input: input, Replay: failReplay(run, idx)})
	}
}

func quoteAll(xs []string) []string {
	out := make([]string, len(xs))
	for i, x := range xs {
		out[i] = strconv.Quote(x) // JSON would silently replace invalid UTF-8
	}
	return out
}

func genNodeSpecs(r *hx.Rand) ([]nodeSpec, string) {
	n := r.Intn(7)
	var specs []nodeSpec
	kind := "plain"
	for i := 0; i < n; i++ {
		p := genPath(r)
		specs = append(specs, nodeSpec{p, randDigestBytes(r)})
	}
	// unique unless we want a duplicate
	seen := map[string]bool{}
	var uniq []nodeSpec
	for _, s := range specs {
		if !seen[s.Path] {
			seen[s.Path] = true
			uniq = append(uniq, s)
		}
	}
	specs = uniq
	switch r.Intn(12) {
	case 0:
		if len(specs) > 0 {
			d := specs[r.Intn(len(specs))]
			if r.Bool() {
				d.Digest = randDigestBytes(r)
			}
			specs = append(specs, d)
			kind = "dup"
		}
	case 1:
		specs = append(specs, nodeSpec{hx.Pick(r, hostilePaths), randDigestBytes(r)})
		kind = "hostile"
	}
	for _, s := range specs {
		if strings.Contains(s.Path, "  ") && kind == "plain" {
			kind = "double-space"
		}
	}
	hx.Shuffle(r, specs)
	return specs, kind
}

func parseCase(run *hx.Run, text string) {
	m, err := bufcas.ParseManifest(text)
	if err != nil {
		run.Case("parse\t"+hx.Enc(text), classify(err), true)
		run.Count("parse:" + classify(err))
		return
	}
	run.Case("parse\t"+hx.Enc(text), "ok "+hx.Enc(m.String()), true)
	run.Count("parse:ok")
}

func nodeCase(run *hx.Run, text string) {
	n, err := bufcas.ParseFileNode(text)
	if err != nil {
		run.Case("node\t"+hx.Enc(text), classify(err), true)
		run.Count("node:" + classify(err))
		return
	}
	run.Case("node\t"+hx.Enc(text), "ok "+hx.Enc(n.Path())+" "+hex.EncodeToString(n.Digest().Value()), true)
	run.Count("node:ok")
}

func validManifestText(r *hx.Rand) string {
	specs, _ := genNodeSpecs(r)
	var lines []string
	seen := map[string]bool{}
	for _, s := range specs {
		if _, err := bufcas.NewFileNode(s.Path, mustDigest(s.Digest)); err != nil || seen[s.Path] || strings.Contains(s.Path, "\n") {
			continue
		}
		seen[s.Path] = true
		lines = append(lines, "shake256:"+hex.EncodeToString(s.Digest)+"  "+s.Path)
	}
	sort.Slice(lines, func(i, j int) bool { return lines[i][139:] < lines[j][139:] })
	if len(lines) == 0 {
		return ""
	}
	return strings.Join(lines, "\n") + "\n"
}

func mustDigest(b []byte) bufcas.Digest {
	d, err := bufcas.NewDigest(b)
	must(err)
	return d
}

// mutateText returns a damaged variant of a manifest / file-node text (valid UTF-8 only: the
// model's strings are sequences of code points).
func mutateText(r *hx.Rand, s string) string {
	if m := mutateText0(r, s); utf8.ValidString(m) {
		return m
	}
	return s
}

func mutateText0(r *hx.Rand, s string) string {
	if s == "" {
		return hx.Pick(r, []string{"", "\n", " ", "  ", "shake256:  a", "x"})
	}
	b := []byte(s)
	switch r.Intn(16) {
	case 0:
		return s[:len(s)-1] // no trailing newline
	case 1:
		return s + "\n" // empty last line
	case 2:
		i := r.Intn(len(b))
		return string(append(b[:i:i], b[i+1:]...)) // drop a byte
	case 3:
		return strings.ToUpper(s[:20]) + s[20:]
	case 4:
		return strings.Replace(s, "shake256:", "shake255:", 1)
	case 5:
		return strings.Replace(s, "shake256:", "shake256", 1)
	case 6:
		return strings.Replace(s, "  ", " ", 1)
	case 7:
		return strings.Replace(s, "  ", "   ", 1)
	case 8:
		// upper-case hex digits of the first digest (accepted by hex.DecodeString)
		return "shake256:" + strings.ToUpper(s[9:137]) + s[137:]
	case 9:
		return s + s // duplicates
	case 10:
		lines := strings.Split(strings.TrimSuffix(s, "\n"), "\n")
		hx.Shuffle(r, lines) // non-canonical order is accepted and re-sorted
		return strings.Join(lines, "\n") + "\n"
	case 11:
		return strings.Replace(s, "\n", "\r\n", 1)
	case 12:
		return s[:9] + s[11:] // short digest
	case 13:
		i := 9 + r.Intn(128)
		b[i] = 'g'
		return string(b)
	case 14:
		return strings.Replace(s, "  ", "  ./", 1)
	default:
		return s
	}
}

// ---------------------------------------------------------------------------------------
// Section D: digests
// ---------------------------------------------------------------------------------------

func b5Line(files []file, depStrings []string) (string, *table) {
	t := newTable()
	addB5Preimages(t, files, depStrings)
	return "b5\t" + t.enc() + "\t" + encBucket(files) + "\t" + encList(depStrings), t
}

// addB5Preimages adds to t every byte string the published b5 construction hashes for
// (files, deps).
func addB5Preimages(t *table, files []file, depStrings []string) {
	for _, f := range files {
		t.add(f.Content)
	}
	mt := oracleManifestText(oracleModuleFiles(files))
	t.add([]byte(mt))
	ok := true
	for _, d := range depStrings {
		if !strings.HasPrefix(d, "b5:") {
			ok = false
		}
	}
	if ok {
		t.add([]byte(oracleB5Preimage(mt, depStrings)))
	}
}

func hasNewlinePath(files []file) bool {
	for _, f := range files {
		if strings.Contains(f.Path, "\n") {
			return true
		}
	}
	return false
}

func cloneFiles(files []file) []file {
	out := make([]file, len(files))
	for i, f := range files {
		out[i] = file{f.Path, append([]byte(nil), f.Content...)}
	}
	return out
}

var extraNonModule = []string{"foo.txt", "buf.yaml", "buf.lock", "notes/README.md", "sub/LICENSE", "sub/buf.md", "LICENSE.txt", "x.proto.bak", "y.protoo", "z.PROTO", "Makefile", "a b  c.txt", "日本.txt", "proto", "dir.proto/inner.txt"}

func digestCase(run *hx.Run, idx int, r *hx.Rand, tmp string, files []file, depStrings []string, parseable bool) {
	input := map[string]any{"files": showFiles(files), "deps": depStrings}
	fail := func(class, what string, extra map[string]any) {
		in := map[string]any{}
		for k, v := range input {
			in[k] = v
		}
		for k, v := range extra {
			in[k] = v
		}
		failure(run, hx.OracleFailure{Class: class, What: what, Input: in, Replay: failReplay(run, idx)})
	}
	defer func() {
		if p := recover(); p != nil {
			fail("panic", fmt.Sprintf("digest case panicked: %v", p), nil)
		}
	}()
	want := oracleB5(files, depStrings)
	allB5 := true
	for _, d := range depStrings {
		if !strings.HasPrefix(d, "b5:") {
			allB5 = false
		}
	}
	line, _ := b5Line(files, depStrings)
	got, err := remoteB5(memBucket(files), depStrings, want, modOpts{})
	mf := oracleModuleFiles(files)
	nontrivial := len(mf) > 0 && (len(mf) < len(files) || len(depStrings) > 0)
	if err != nil {
		run.Case(line, classify(err), true)
		run.Count("b5:" + classify(err))
		if allB5 {
			fail("digest-error", fmt.Sprintf("Module.Digest(b5) failed on a valid file set: %v", err), nil)
		}
		return
	}
	run.Case(line, "ok "+got, nontrivial)
	run.Count("b5:ok")
	run.Count(fmt.Sprintf("b5:modulefiles=%d", len(mf)))
	run.Count(fmt.Sprintf("b5:nonmodule=%d", min(len(files)-len(mf), 4)))
	run.Count(fmt.Sprintf("b5:deps=%d", len(depStrings)))
	if !allB5 {
		fail("dep-type-accepted", "a non-b5 dependency digest was accepted into a b5 digest", nil)
		return
	}
	// files line: the module-file matcher as observed through a module
	if paths, err := modulePaths(memBucket(files)); err == nil {
		enc := make([]string, len(paths))
		for i, p := range paths {
			enc[i] = hx.Enc(p)
		}
		run.Case("files\t"+encBucket(files), strings.Join(enc, ","), len(paths) > 0 && len(paths) < len(files))
		wantPaths := make([]string, len(mf))
		for i, f := range mf {
			wantPaths[i] = f.Path
		}
		if strings.Join(paths, "\x00") != strings.Join(wantPaths, "\x00") {
			fail("module-file-set", fmt.Sprintf("module files are %q, the published rule gives %q", paths, wantPaths), nil)
		}
	}
	// ---- oracle: published construction ----
	if got != want {
		fail("b5-construction", fmt.Sprintf("Module.Digest(b5)=%s but the published construction gives %s", got, want), nil)
	}
	if idx%40 == 0 {
		run.Sample(map[string]any{"section": "D", "files": showFiles(files), "deps": depStrings, "b5": got})
	}
	nl := hasNewlinePath(files)
	// ---- oracle: purity (backends, walk order, names, targeting, non-module files) ----
	same := func(label string, d string, err error) {
		run.Eval()
		run.Count("pure:" + label)
		if err != nil {
			fail("digest-error", fmt.Sprintf("digest via %s failed: %v", label, err), map[string]any{"variant": label})
		} else if d != got {
			fail("digest-impure", fmt.Sprintf("digest differs via %s: %s vs %s", label, d, got), map[string]any{"variant": label})
		}
	}
	sh := cloneFiles(files)
	hx.Shuffle(r, sh)
	d, err := remoteB5(shuffledBucket{memBucket(sh), r.Fork(7)}, depStrings, want, modOpts{})
	same("shuffled-walk", d, err)
	if !nl {
		d, err = remoteB5(diskBucket(tmp, files), depStrings, want, modOpts{})
		same("disk", d, err)
		d, err = remoteB5(tarRoundTrip(files), depStrings, want, modOpts{})
		same("tar-roundtrip", d, err)
		if r.Chance(1, 3) {
			d, err = remoteB5(shuffledBucket{diskBucket(tmp, sh), r.Fork(8)}, depStrings, want, modOpts{})
			same("disk-shuffled", d, err)
		}
	}
	d, err = remoteB5(memBucket(files), depStrings, want, modOpts{name: "other-name-" + strconv.Itoa(r.Intn(100)), commit: uuid.New()})
	same("module-name", d, err)
	sd := append([]string(nil), depStrings...)
	hx.Shuffle(r, sd)
	d, err = remoteB5(memBucket(files), sd, want, modOpts{})
	same("dep-order", d, err)
	if len(mf) > 0 {
		tp := mf[r.Intn(len(mf))].Path
		d, err = remoteB5(memBucket(files), depStrings, want, modOpts{targetPaths: []string{tp}})
		same("targeting", d, err)
	}
	// add / remove / change non-module files
	{
		plus := cloneFiles(files)
		for k := 0; k < 1+r.Intn(3); k++ {
			p := hx.Pick(r, extraNonModule)
			if hasDoc(files) {
				p = hx.Pick(r, append(extraNonModule, lowerDocs(files)...))
			}
			ok := true
			for _, f := range plus {
				if conflicts(p, f.Path) {
					ok = false
				}
			}
			if ok {
				plus = append(plus, file{p, genContent(r, "x.bin", false)})
			}
		}
		if len(oracleModuleFiles(plus)) == len(mf) {
			d, err = remoteB5(memBucket(plus), depStrings, want, modOpts{})
			same("extra-non-module-files", d, err)
		}
		var only []file
		for _, f := range mf {
			only = append(only, f)
		}
		d, err = remoteB5(memBucket(only), depStrings, want, modOpts{})
		same("without-non-module-files", d, err)
		// change the content of a non-module file
		for i, f := range files {
			if !inFiles(mf, f.Path) {
				ch := cloneFiles(files)
				ch[i].Content = append(ch[i].Content, 'x')
				d, err = remoteB5(memBucket(ch), depStrings, want, modOpts{})
				same("non-module-content", d, err)
				break
			}
		}
	}
	if parseable && len(depStrings) == 0 && hasProto(mf) {
		d, err = localDigest(memBucket(files), modOpts{}, bufmodule.DigestTypeB5, nil, nil)
		same("local-module", d, err)
		d, err = localDigest(memBucket(files), modOpts{name: "named", commit: uuid.New()}, bufmodule.DigestTypeB5, nil, nil)
		same("local-module-named", d, err)
		d, err = localDigest(memBucket(files), modOpts{nonTarget: true}, bufmodule.DigestTypeB5, nil, nil)
		same("local-module-non-target", d, err)
		if len(mf) > 0 && oracleExt(mf[0].Path) == ".proto" {
			d, err = localDigest(memBucket(files), modOpts{targetPaths: []string{mf[0].Path}}, bufmodule.DigestTypeB5, nil, nil)
			same("local-module-targeted", d, err)
		}
	}
	// ---- oracle: sensitivity (every single perturbation of a module file or dep changes it) ----
	differs := func(label string, pf []file, pd []string) {
		run.Eval()
		run.Count("sens:" + label)
		d, err := remoteB5(memBucket(pf), pd, oracleB5(pf, pd), modOpts{})
		if err != nil {
			fail("digest-error", fmt.Sprintf("digest of perturbed input (%s) failed: %v", label, err), map[string]any{"perturbation": label})
			return
		}
		if d == got {
			cls := "digest-insensitive"
			if hasNewlinePath(pf) || nl {
				cls = "digest-collision-newline-in-path"
			}
			fail(cls, fmt.Sprintf("digest unchanged under perturbation %s", label), map[string]any{"perturbation": label, "perturbed_files": showFiles(pf), "perturbed_deps": pd})
		}
	}
	if len(mf) > 0 {
		k := r.Intn(len(mf))
		target := mf[k].Path
		at := indexOf(files, target)
		// single byte of content
		pf := cloneFiles(files)
		if len(pf[at].Content) > 0 {
			j := r.Intn(len(pf[at].Content))
			pf[at].Content[j] ^= 1 << uint(r.Intn(8))
			differs("flip-bit", pf, depStrings)
		}
		pf = cloneFiles(files)
		pf[at].Content = append(pf[at].Content, 0)
		differs("append-nul", pf, depStrings)
		if len(files[at].Content) > 0 {
			pf = cloneFiles(files)
			pf[at].Content = pf[at].Content[:len(pf[at].Content)-1]
			differs("truncate", pf, depStrings)
		}
		// delete the module file
		pf = append(cloneFiles(files[:at]), cloneFiles(files[at+1:])...)
		if len(oracleModuleFiles(pf)) == len(mf)-1 {
			differs("delete-file", pf, depStrings)
		} else {
			run.Count("sens:skip-delete-promotes-doc")
		}
		// rename (single path perturbation that keeps it a module file)
		if oracleExt(target) == ".proto" {
			np := strings.TrimSuffix(target, ".proto") + "_.proto"
			ok := true
			for _, f := range files {
				if conflicts(np, f.Path) {
					ok = false
				}
			}
			if ok {
				pf = cloneFiles(files)
				pf[at].Path = np
				differs("rename-file", pf, depStrings)
				// a space more or less in the path
				pf = cloneFiles(files)
				pf[at].Path = strings.TrimSuffix(target, ".proto") + " .proto"
				differs("rename-add-space", pf, depStrings)
			}
		}
		// swap contents of two module files
		if len(mf) >= 2 {
			o := indexOf(files, mf[(k+1)%len(mf)].Path)
			if !bytes.Equal(files[o].Content, files[at].Content) {
				pf = cloneFiles(files)
				pf[o].Content, pf[at].Content = pf[at].Content, pf[o].Content
				differs("swap-contents", pf, depStrings)
			}
		}
	}
	// add a module file
	{
		np := "added_" + strconv.Itoa(r.Intn(1000)) + ".proto"
		pf := append(cloneFiles(files), file{np, genContent(r, np, false)})
		differs("add-file", pf, depStrings)
		if !inFiles(files, "LICENSE") && !inDirPrefix(files, "LICENSE") {
			pf = append(cloneFiles(files), file{"LICENSE", nil})
			differs("add-empty-license", pf, depStrings)
		}
	}
	// doc variants: the chosen doc file moved to another doc name is a path change
	if doc := chosenDoc(files); doc != "" {
		for _, other := range []string{"buf.md", "README.md", "README.markdown"} {
			if other != doc && !inFiles(files, other) && !inDirPrefix(files, other) {
				pf := cloneFiles(files)
				pf[indexOf(files, doc)].Path = other
				if chosenDoc(pf) == other {
					differs("doc-renamed", pf, depStrings)
				}
				break
			}
		}
	}
	// dependencies
	if len(depStrings) > 0 {
		j := r.Intn(len(depStrings))
		pd := append([]string(nil), depStrings...)
		raw, _ := hex.DecodeString(strings.TrimPrefix(pd[j], "b5:"))
		raw[r.Intn(64)] ^= 1 << uint(r.Intn(8))
		pd[j] = "b5:" + hex.EncodeToString(raw)
		differs("dep-flip-bit", files, pd)
		pd = append(append([]string(nil), depStrings[:j]...), depStrings[j+1:]...)
		differs("dep-removed", files, pd)
		pd = append(append([]string(nil), depStrings...), depStrings[j])
		differs("dep-duplicated", files, pd)
	}
	differs("dep-added", files, append(append([]string(nil), depStrings...), "b5:"+hex.EncodeToString(randDigestBytes(r))))
}

// a local module must have at least one .proto file (ModuleDeps refuses it otherwise)
func hasProto(files []file) bool {
	for _, f := range files {
		if oracleExt(f.Path) == ".proto" {
			return true
		}
	}
	return false
}

func hasDoc(files []file) bool { return chosenDoc(files) != "" }

func lowerDocs(files []file) []string {
	// doc candidates of LOWER precedence than the chosen one are non-module files
	order := []string{"buf.md", "README.md", "README.markdown"}
	doc := chosenDoc(files)
	var out []string
	seen := false
	for _, d := range order {
		if seen {
			out = append(out, d)
		}
		if d == doc {
			seen = true
		}
	}
	return out
}

func chosenDoc(files []file) string {
	for _, d := range []string{"buf.md", "README.md", "README.markdown"} {
		if inFiles(files, d) {
			return d
		}
	}
	return ""
}

func inFiles(files []file, p string) bool { return indexOf(files, p) >= 0 }

func inDirPrefix(files []file, p string) bool {
	for _, f := range files {
		if conflicts(p, f.Path) {
			return true
		}
	}
	return false
}

func indexOf(files []file, p string) int {
	for i, f := range files {
		if f.Path == p {
			return i
		}
	}
	return -1
}

func showFiles(files []file) []string {
	out := make([]string, len(files))
	for i, f := range files {
		out[i] = strconv.Quote(f.Path) + " = " + encB(f.Content)
	}
	return out
}

// b4Case: b4 digests cover the module files plus the v1 buf.yaml / buf.lock object data.
func b4Case(run *hx.Run, idx int, r *hx.Rand, files []file) {
	defer func() {
		if p := recover(); p != nil {
			failure(run, hx.OracleFailure{Class: "panic", What: fmt.Sprintf("b4 case panicked: %v", p), Input: showFiles(files), Replay: failReplay(run, idx)})
		}
	}()
	var yaml, lock bufmodule.ObjectData
	yEnc, lEnc := "-", "-"
	extra := []file{}
	if r.Chance(2, 3) {
		name := hx.Pick(r, []string{"buf.yaml", "buf.mod", "buf.yaml", "a.proto", "LICENSE"})
		data := genContent(r, "x.bin", false)
		o, err := bufmodule.NewObjectData(name, data)
		must(err)
		yaml = o
		yEnc = hx.Enc(name) + "=" + encB(data)
		extra = append(extra, file{name, data})
	}
	if r.Chance(1, 2) {
		name := hx.Pick(r, []string{"buf.lock", "buf.lock", "buf.yaml"})
		data := genContent(r, "x.bin", false)
		o, err := bufmodule.NewObjectData(name, data)
		must(err)
		lock = o
		lEnc = hx.Enc(name) + "=" + encB(data)
		extra = append(extra, file{name, data})
	}
	t := newTable()
	for _, f := range files {
		t.add(f.Content)
	}
	all := append(append([]file(nil), oracleModuleFiles(files)...), extra...)
	sort.SliceStable(all, func(i, j int) bool { return all[i].Path < all[j].Path })
	dup := false
	for i := 1; i < len(all); i++ {
		if all[i].Path == all[i-1].Path {
			dup = true
		}
	}
	for _, f := range extra {
		t.add(f.Content)
	}
	mt := oracleManifestText(all)
	t.add([]byte(mt))
	line := "b4\t" + t.enc() + "\t" + encBucket(files) + "\t" + yEnc + "\t" + lEnc
	got, err := localDigest(memBucket(files), modOpts{}, bufmodule.DigestTypeB4, yaml, lock)
	if err != nil {
		run.Case(line, classify(err), true)
		run.Count("b4:" + classify(err))
		if !dup {
			failure(run, hx.OracleFailure{Class: "digest-error", What: fmt.Sprintf("Module.Digest(b4) failed: %v", err), Input: showFiles(files), Replay: failReplay(run, idx)})
		}
		return
	}
	run.Case(line, "ok "+got, len(extra) > 0)
	run.Count("b4:ok")
	want := "shake256:" + hex.EncodeToString(shake([]byte(mt)))
	if got != want {
		failure(run, hx.OracleFailure{Class: "b4-construction", What: fmt.Sprintf("Module.Digest(b4)=%s but SHAKE256 of the path-sorted manifest (module files + v1 buf.yaml/buf.lock) is %s", got, want), Input: map[string]any{"files": showFiles(files), "yaml": yEnc, "lock": lEnc}, Replay: failReplay(run, idx)})
	}
}

// ---------------------------------------------------------------------------------------
// Section G: module sets
// ---------------------------------------------------------------------------------------

type gmod struct {
	local  bool
	files  []file
	direct []int    // local: direct deps (indices < own index)
	pinned []string // remote: pinned dependency digests
}

// lfPlant asks msetCase to add one file whose path contains U+000A to one module of the set
// (nil = none: the generator stream is then exactly what it was without this feature).
type lfPlant struct {
	mod  int // taken modulo the number of modules
	path string
	// plain: the planted path has NO line feed (Section U: a Unicode spelling) - the file is just one
	// more file of that module and every module keeps its published digest
	plain bool
	// noModel: no protocol lines (a path with invalid UTF-8 cannot be carried by the model's strings)
	noModel bool
}

func msetCase(run *hx.Run, idx int, r *hx.Rand, lf *lfPlant) {
	defer func() {
		if p := recover(); p != nil {
			failure(run, hx.OracleFailure{Class: "panic", What: fmt.Sprintf("module-set case panicked: %v", p), Input: nil, Replay: failReplay(run, idx)})
		}
	}()
	n := 2 + r.Intn(4)
	mods := make([]gmod, n)
	vendorsWKT := r.Chance(1, 3)
	emit := func(line, out string, nontrivial bool) {
		if lf != nil && lf.noModel {
			run.Eval()
			return
		}
		run.Case(line, out, nontrivial)
	}
	for i := range mods {
		m := &mods[i]
		m.local = i == n-1 || r.Chance(3, 4)
		pkg := "pkg" + strconv.Itoa(i)
		if m.local {
			for j := 0; j < i; j++ {
				if r.Chance(1, 2) {
					m.direct = append(m.direct, j)
				}
			}
			var imports []string
			for _, j := range m.direct {
				// module 0 may vendor a well-known-type file: a dependency reached ONLY through
				// that path is still a dependency (the workspace copy wins over the built-in one)
				if j == 0 && vendorsWKT && r.Chance(1, 2) {
					imports = append(imports, "google/protobuf/timestamp.proto")
					continue
				}
				imports = append(imports, "pkg"+strconv.Itoa(j)+"/f.proto")
			}
			m.files = []file{{pkg + "/f.proto", protoText(r, pkg, imports)}}
			if r.Bool() {
				m.files = append(m.files, file{pkg + "/x y  z.proto", protoText(r, pkg, nil)})
			}
		} else {
			m.files = []file{{pkg + "/f.proto", protoText(r, pkg, nil)}}
			for k, c := 0, r.Intn(3); k < c; k++ {
				m.pinned = append(m.pinned, "b5:"+hex.EncodeToString(randDigestBytes(r)))
			}
		}
		if i == 0 && vendorsWKT {
			m.files = append(m.files, file{"google/protobuf/timestamp.proto", protoText(r, "google.protobuf", nil)})
		}
		if r.Chance(1, 3) {
			m.files = append(m.files, file{"LICENSE", genContent(r, "L", false)})
		}
		if r.Chance(1, 3) {
			m.files = append(m.files, file{hx.Pick(r, []string{"buf.md", "README.md", "README.markdown"}), genContent(r, "D", false)})
		}
		if r.Chance(1, 3) {
			m.files = append(m.files, file{"buf.yaml", []byte("version: v2\n")})
		}
	}
	// transitive closure (what Module.ModuleDeps() resolves to); remote modules contribute
	// themselves only: their own dependency keys are not members of this module set.
	closure := make([][]int, n)
	for i := range mods {
		set := map[int]bool{}
		for _, j := range mods[i].direct {
			set[j] = true
			for _, k := range closure[j] {
				set[k] = true
			}
		}
		for j := range set {
			closure[i] = append(closure[i], j)
		}
		sort.Ints(closure[i])
	}
	// the planted line-feed file: a module whose MODULE files include it has no digest, and
	// neither has any local module that (transitively) depends on it
	noDigest := make([]bool, n)
	lfMod, lfIsModuleFile := -1, false
	if lf != nil && lf.plain {
		k := lf.mod % n
		if !inDirPrefix(mods[k].files, lf.path) {
			mods[k].files = append(mods[k].files, file{lf.path, protoText(r, "uni", nil)})
			run.Count(fmt.Sprintf("uni:mset:module-file=%v:local=%v", inFiles(oracleModuleFiles(mods[k].files), lf.path), mods[k].local))
		}
	}
	if lf != nil && !lf.plain {
		lfMod = lf.mod % n
		lfFile := file{lf.path, protoText(r, "lf", nil)}
		lfIsModuleFile = inFiles(oracleModuleFiles(append(cloneFiles(mods[lfMod].files), lfFile)), lf.path)
		if lfIsModuleFile && !mods[lfMod].local {
			// A REMOTE module whose content has no digest cannot even be read (ModuleData.Bucket()
			// verifies the digest first), which makes import resolution fail for unrelated local
			// modules too — outside what this property states.  Remote modules with such a file are
			// covered one at a time by lineFeedCase; here the file goes into a local module.
			lfMod = n - 1
		}
		mods[lfMod].files = append(mods[lfMod].files, lfFile)
		lfIsModuleFile = inFiles(oracleModuleFiles(mods[lfMod].files), lf.path)
		run.Count(fmt.Sprintf("lf:mset:module-file=%v:local=%v", lfIsModuleFile, mods[lfMod].local))
		if lfIsModuleFile {
			noDigest[lfMod] = true
			for i := range mods {
				for _, j := range closure[i] {
					if j == lfMod {
						noDigest[i] = true
					}
				}
			}
		}
	}
	// oracle digests bottom-up
	want := make([]string, n)
	t := newTable()
	for i, m := range mods {
		if noDigest[i] {
			// the key of a remote module must pin something: any digest will do, it is never compared
			want[i] = "b5:" + hex.EncodeToString(shake([]byte("no digest "+strconv.Itoa(i))))
			// what the model lists as hashed for a module whose walk fails: the contents, and the
			// (empty) manifest text it never gets to
			for _, f := range m.files {
				t.add(f.Content)
			}
			t.add(nil)
			continue
		}
		var deps []string
		if m.local {
			for _, j := range closure[i] {
				deps = append(deps, want[j])
			}
		} else {
			deps = m.pinned
		}
		want[i] = oracleB5(m.files, deps)
		for _, f := range m.files {
			t.add(f.Content)
		}
		mt := oracleManifestText(oracleModuleFiles(m.files))
		t.add([]byte(mt))
		t.add([]byte(oracleB5Preimage(mt, deps)))
	}
	// implementation
	datas := map[string]bufmodule.ModuleData{}
	b := bufmodule.NewModuleSetBuilder(ctx, slogext.NopLogger, &provider{datas}, bufmodule.NopCommitProvider)
	for i, m := range mods {
		if m.local {
			var opts []bufmodule.LocalModuleOption
			if r.Bool() {
				opts = append(opts, bufmodule.LocalModuleWithFullName(mustFullName("o", "l"+strconv.Itoa(i))))
			}
			b.AddLocalModule(memBucket(m.files), "m"+strconv.Itoa(i), i == n-1 || r.Bool(), opts...)
		} else {
			exp := parseMDigest(want[i])
			key, err := bufmodule.NewModuleKey(mustFullName("o", "r"+strconv.Itoa(i)), uuid.New(), func() (bufmodule.Digest, error) { return exp, nil })
			must(err)
			keys := depKeys(m.pinned)
			bucket := memBucket(m.files)
			datas[key.FullName().String()] = bufmodule.NewModuleData(ctx, key,
				func() (storage.ReadBucket, error) { return bucket, nil },
				func() ([]bufmodule.ModuleKey, error) { return keys, nil },
				func() (bufmodule.ObjectData, error) { return nil, nil },
				func() (bufmodule.ObjectData, error) { return nil, nil })
			b.AddRemoteModule(key, false)
		}
	}
	ms, err := b.Build()
	must(err)
	parts := make([]string, n)
	for i, m := range mods {
		if m.local {
			ds := make([]string, len(closure[i]))
			for k, j := range closure[i] {
				ds[k] = strconv.Itoa(j)
			}
			dl := "-"
			if len(ds) > 0 {
				dl = strings.Join(ds, ".")
			}
			parts[i] = "L;" + encBucket(m.files) + ";" + dl
		} else {
			parts[i] = "R;" + encBucket(m.files) + ";" + encList(m.pinned)
		}
	}
	for i, m := range mods {
		var mod bufmodule.Module
		if m.local {
			mod = ms.GetModuleForBucketID("m" + strconv.Itoa(i))
		} else {
			mod = ms.GetModuleForFullName(mustFullName("o", "r"+strconv.Itoa(i)))
		}
		line := "mset\t" + t.enc() + "\t" + strings.Join(parts, "|") + "\t" + strconv.Itoa(i)
		if mod == nil {
			emit(line, "err other", true)
			continue
		}
		d, err := mod.Digest(bufmodule.DigestTypeB5)
		got := ""
		if err != nil {
			var mm *bufmodule.DigestMismatchError
			if errors.As(err, &mm) && mm.ActualDigest != nil {
				got = mm.ActualDigest.String()
			} else {
				emit(line, classify(err), true)
				if noDigest[i] {
					run.Count("lf:mset:" + classify(err))
					if classify(err) != "err path-line-feed" {
						failure(run, hx.OracleFailure{Class: "line-feed-path-error-class", What: fmt.Sprintf("module %d of a module set (its module files, or those of a dependency, contain a path with U+000A) failed with %s instead of the line-feed error: %v", i, classify(err), err), Input: parts, Replay: failReplay(run, idx)})
					}
					continue
				}
				failure(run, hx.OracleFailure{Class: "digest-error", What: fmt.Sprintf("Module.Digest(b5) of module %d in a module set failed: %v", i, err), Input: map[string]any{"modules": parts, "closure": closure}, Replay: failReplay(run, idx)})
				continue
			}
		} else {
			got = d.String()
		}
		if noDigest[i] {
			emit(line, "ok "+got, true)
			failure(run, hx.OracleFailure{Class: "line-feed-path-digested", What: fmt.Sprintf("module %d of a module set has the b5 digest %s although a module file of it or of one of its dependencies (module %d, %q) has U+000A in its path", i, got, lfMod, lf.path), Input: map[string]any{"modules": parts, "closure": closure}, Replay: failReplay(run, idx)})
			continue
		}
		emit(line, "ok "+got, len(closure[i]) > 0 || len(m.pinned) > 0)
		run.Count(fmt.Sprintf("mset:local=%v:deps=%d", m.local, len(closure[i])+len(m.pinned)))
		if got != want[i] {
			failure(run, hx.OracleFailure{Class: "b5-construction-module-set", What: fmt.Sprintf("module %d of a module set: Digest(b5)=%s, published construction over its files and the digests of its resolved dependencies gives %s", i, got, want[i]), Input: map[string]any{"modules": parts, "closure": closure}, Replay: failReplay(run, idx)})
		}
	}
}

// ---------------------------------------------------------------------------------------
// Section N: U+000A in paths
// ---------------------------------------------------------------------------------------

// The positions a line feed is put in.  Whether the resulting path is a module file is decided
// by the published rule (oracleModuleFiles), not by the kind's name.
var lfKinds = []string{
	"proto-stem", "proto-dir", "proto-lead", "proto-imitates-line", "license-dir-proto", "doc-dir-proto",
	"non-module-txt", "license-like", "doc-like", "proto-ext-broken", "dir-license", "dir-doc", "bare",
}

// paths for the module-set plant (module files and non-module files)
var lfSetPaths = []string{"lf/x\ny.proto", "lf\n/z.proto", "\nlf.proto", "lf/notes\n.txt", "LICENSE\n", "lf/a.proto\n", "buf.md\n"}

func genLineFeedPath(r *hx.Rand, kind string, base []file) string {
	dir := ""
	if r.Bool() {
		dir = hx.Pick(r, dirAtoms[:12]) + "/"
	}
	var cands []string
	switch kind {
	case "proto-stem":
		cands = []string{dir + "x\ny.proto", dir + "a\n.proto", dir + "a  b\nc.proto", dir + "é\n日本.proto", dir + "x\n\ny.proto"}
	case "proto-dir":
		cands = []string{"d\ne/f.proto", dir + "d\n/f.proto", "\n/f.proto", dir + "x y\n z/a.proto"}
	case "proto-lead":
		cands = []string{dir + "\nlead.proto", dir + "\n.proto", "\n\n.proto"}
	case "proto-imitates-line":
		// a module file of the base set, followed by what looks like the manifest line of another
		var protos []file
		for _, f := range oracleModuleFiles(base) {
			if oracleExt(f.Path) == ".proto" {
				protos = append(protos, f)
			}
		}
		if len(protos) == 0 {
			protos = []file{{"x.proto", []byte("c1")}}
		}
		a := protos[r.Intn(len(protos))]
		other := hx.Pick(r, []string{"y.proto", "zz/other.proto", "LICENSE.proto"})
		cands = []string{a.Path + "\nshake256:" + hex.EncodeToString(shake(genContent(r, "x.bin", false))) + "  " + other}
	case "license-dir-proto":
		cands = []string{"LICENSE\n/z.proto", "LICENSE\nx.proto"}
	case "doc-dir-proto":
		cands = []string{"buf.md\n/z.proto", "README.md\nz.proto"}
	case "non-module-txt":
		cands = []string{dir + "notes\n.txt", dir + "a\nb", dir + "x.proto\n.bak", dir + "data\n\n.bin"}
	case "license-like":
		cands = []string{"LICENSE\n", "\nLICENSE", "LICEN\nSE", "LICENSE\n.md"}
	case "doc-like":
		cands = []string{"buf.md\n", "buf\n.md", "README\n.md", "README.md\nREADME.markdown", "\nREADME.markdown"}
	case "proto-ext-broken":
		cands = []string{dir + "a.proto\n", dir + "a.pro\nto", dir + "a.\nproto", dir + "a.proto\nx"}
	case "dir-license":
		cands = []string{"d\n/LICENSE", "\n/LICENSE"}
	case "dir-doc":
		cands = []string{"d\n/buf.md", "\n/README.md"}
	case "bare":
		cands = []string{"\n", dir + "\n", "\n/\n"}
	}
	hx.Shuffle(r, cands)
	for _, c := range cands {
		if !inDirPrefix(base, c) {
			return c
		}
	}
	return ""
}

// tryBucket builds a backend bucket; a backend that cannot hold the path at all (reported, not
// assumed) is skipped.
func tryBucket(build func() storage.ReadBucket) (b storage.ReadBucket, err error) {
	defer func() {
		if p := recover(); p != nil {
			err = fmt.Errorf("%v", p)
		}
	}()
	return build(), nil
}

// lineFeedCase: base (no line feed anywhere) plus one file at path p (contains U+000A).
//   - p is a module file  => NO entry point may return a digest; every one fails with the line-feed error;
//   - p is no module file => every digest is the digest of base's module files (p is ignored);
//   - bufcas.NewFileNode / ParseFileNode / NewFileSetForBucket refuse p in either case.
func lineFeedCase(run *hx.Run, idx int, r *hx.Rand, tmp string, base []file, p, kind string, deps []string, parseable bool) {
	content := genContent(r, p, parseable)
	if parseable {
		content = protoText(r, "", nil) // harmless for a non-.proto path, needed for a .proto one
	}
	files := append(cloneFiles(base), file{p, content})
	hx.Shuffle(r, files)
	input := map[string]any{"files": showFiles(files), "deps": deps, "line_feed_path": p, "kind": kind}
	fail := func(class, what string, extra map[string]any) {
		in := map[string]any{}
		for k, v := range input {
			in[k] = v
		}
		for k, v := range extra {
			in[k] = v
		}
		failure(run, hx.OracleFailure{Class: class, What: what, Input: in, Replay: failReplay(run, idx)})
	}
	defer func() {
		if pn := recover(); pn != nil {
			fail("panic", fmt.Sprintf("line-feed case panicked: %v", pn), nil)
		}
	}()
	isModuleFile := inFiles(oracleModuleFiles(files), p)
	allB5 := true
	for _, d := range deps {
		if !strings.HasPrefix(d, "b5:") {
			allB5 = false
		}
	}
	run.Count(fmt.Sprintf("lf:kind=%s:module-file=%v", kind, isModuleFile))
	run.Count(fmt.Sprintf("lf:deps=%d", len(deps)))

	// ---- bufcas entry points (correspondence lines + oracle) ----
	dg := shake(content)
	if _, err := bufcas.NewFileNode(p, mustDigest(dg)); err == nil {
		fail("line-feed-path-accepted", fmt.Sprintf("bufcas.NewFileNode accepted the path %q", p), map[string]any{"entry_point": "NewFileNode"})
	} else if classify(err) != "err path-line-feed" {
		fail("line-feed-path-error-class", fmt.Sprintf("bufcas.NewFileNode(%q) failed with %s: %v", p, classify(err), err), map[string]any{"entry_point": "NewFileNode"})
	}
	run.Eval()
	nodeText := "shake256:" + hex.EncodeToString(dg) + "  " + p
	if _, err := bufcas.ParseFileNode(nodeText); err == nil {
		fail("line-feed-path-accepted", fmt.Sprintf("bufcas.ParseFileNode accepted the path %q", p), map[string]any{"entry_point": "ParseFileNode"})
	}
	nodeCase(run, nodeText)
	specs := []nodeSpec{{p, dg}}
	for _, f := range base {
		if len(specs) < 4 {
			specs = append(specs, nodeSpec{f.Path, shake(f.Content)})
		}
	}
	hx.Shuffle(r, specs)
	manifestCase(run, idx, specs, "line-feed")
	// a manifest TEXT in which the path is spread over two lines is not a representation of it
	if _, err := bufcas.NewFileSetForBucket(ctx, memBucket(files)); err == nil {
		fail("line-feed-path-accepted", fmt.Sprintf("bufcas.NewFileSetForBucket built a manifest over the path %q", p), map[string]any{"entry_point": "NewFileSetForBucket"})
	} else if classify(err) != "err path-line-feed" {
		fail("line-feed-path-error-class", fmt.Sprintf("bufcas.NewFileSetForBucket failed with %s: %v", classify(err), err), map[string]any{"entry_point": "NewFileSetForBucket"})
	}
	run.Eval()

	// ---- Module.Digest through every backend ----
	want := oracleB5(files, deps) // over the module files by the published rule
	wantBase := oracleB5(base, deps)
	check := func(label string, d string, err error) {
		run.Eval()
		run.Count("lf:via:" + label)
		switch {
		case isModuleFile && err == nil:
			fail("line-feed-path-digested", fmt.Sprintf("digest %s via %s although the module file %q has U+000A in its path", d, label, p), map[string]any{"entry_point": label})
		case isModuleFile && classify(err) != "err path-line-feed":
			fail("line-feed-path-error-class", fmt.Sprintf("digest via %s failed with %s instead of the line-feed error: %v", label, classify(err), err), map[string]any{"entry_point": label})
		case !isModuleFile && err != nil:
			if allB5 {
				fail("digest-error", fmt.Sprintf("digest via %s failed although the only path with U+000A (%q) is not a module file: %v", label, p, err), map[string]any{"entry_point": label})
			}
		case !isModuleFile && d != want:
			fail("b5-construction", fmt.Sprintf("digest via %s is %s, the published construction gives %s", label, d, want), map[string]any{"entry_point": label})
		case !isModuleFile && allB5 && want != wantBase && len(oracleModuleFiles(files)) == len(oracleModuleFiles(base)):
			fail("digest-impure", "the oracle itself: a non-module file changed the published digest", nil)
		}
	}
	line, _ := b5Line(files, deps)
	got, err := remoteB5(memBucket(files), deps, want, modOpts{})
	if err != nil {
		run.Case(line, classify(err), true)
		run.Count("lf:b5:" + classify(err))
	} else {
		run.Case(line, "ok "+got, true)
		run.Count("lf:b5:ok")
		if !allB5 {
			fail("dep-type-accepted", "a non-b5 dependency digest was accepted into a b5 digest", nil)
		}
	}
	if allB5 || isModuleFile {
		check("memory", got, err)
	}
	if !allB5 && !isModuleFile {
		return
	}
	sh := cloneFiles(files)
	hx.Shuffle(r, sh)
	d, err := remoteB5(shuffledBucket{memBucket(sh), r.Fork(7)}, deps, want, modOpts{})
	check("shuffled-walk", d, err)
	if b, berr := tryBucket(func() storage.ReadBucket { return diskBucket(tmp, files) }); berr == nil {
		d, err = remoteB5(b, deps, want, modOpts{})
		check("disk", d, err)
	} else {
		run.Count("lf:backend-unavailable:disk")
	}
	if b, berr := tryBucket(func() storage.ReadBucket { return tarRoundTrip(files) }); berr == nil {
		if paths, perr := storage.AllPaths(ctx, b, ""); perr == nil && inStrings(paths, p) {
			d, err = remoteB5(b, deps, want, modOpts{})
			check("tar-roundtrip", d, err)
		} else {
			run.Count("lf:backend-unavailable:tar-drops-path")
		}
	} else {
		run.Count("lf:backend-unavailable:tar")
	}
	d, err = remoteB5(memBucket(files), deps, want, modOpts{name: "other-name", commit: uuid.New()})
	check("module-name", d, err)
	if mf := oracleModuleFiles(base); len(mf) > 0 {
		d, err = remoteB5(memBucket(files), deps, want, modOpts{targetPaths: []string{mf[0].Path}})
		check("targeting", d, err)
	}
	if parseable && len(deps) == 0 && hasProto(oracleModuleFiles(files)) {
		d, err = localDigest(memBucket(files), modOpts{}, bufmodule.DigestTypeB5, nil, nil)
		check("local-module", d, err)
		d, err = localDigest(memBucket(files), modOpts{nonTarget: true}, bufmodule.DigestTypeB5, nil, nil)
		check("local-module-non-target", d, err)
	}
	// ---- b4: module files + object data; an object-data NAME with a line feed is refused too ----
	b4LineFeed(run, idx, r, files, p, isModuleFile, fail)
}

func inStrings(xs []string, x string) bool {
	for _, y := range xs {
		if y == x {
			return true
		}
	}
	return false
}

func b4LineFeed(run *hx.Run, idx int, r *hx.Rand, files []file, p string, isModuleFile bool, fail func(class, what string, extra map[string]any)) {
	var yaml bufmodule.ObjectData
	yEnc := "-"
	var extra []file
	lfName := false
	if r.Chance(1, 2) {
		name := hx.Pick(r, []string{"buf.yaml", "buf\n.yaml", "buf.yaml\n", "\nbuf.lock"})
		lfName = strings.Contains(name, "\n")
		data := genContent(r, "x.bin", false)
		o, err := bufmodule.NewObjectData(name, data)
		must(err)
		yaml = o
		yEnc = hx.Enc(name) + "=" + encB(data)
		extra = append(extra, file{name, data})
	}
	t := newTable()
	for _, f := range files {
		t.add(f.Content)
	}
	all := append(append([]file(nil), oracleModuleFiles(files)...), extra...)
	sort.SliceStable(all, func(i, j int) bool { return all[i].Path < all[j].Path })
	dup := false
	for i := 1; i < len(all); i++ {
		if all[i].Path == all[i-1].Path {
			dup = true
		}
	}
	for _, f := range extra {
		t.add(f.Content)
	}
	mt := oracleManifestText(all)
	t.add([]byte(mt))
	line := "b4\t" + t.enc() + "\t" + encBucket(files) + "\t" + yEnc + "\t-"
	got, err := localDigest(memBucket(files), modOpts{}, bufmodule.DigestTypeB4, yaml, nil)
	run.Eval()
	run.Count(fmt.Sprintf("lf:b4:module-file=%v:name-lf=%v", isModuleFile, lfName))
	if err != nil {
		run.Case(line, classify(err), true)
		switch {
		case isModuleFile || lfName:
			if classify(err) != "err path-line-feed" {
				fail("line-feed-path-error-class", fmt.Sprintf("Module.Digest(b4) failed with %s instead of the line-feed error: %v", classify(err), err), map[string]any{"entry_point": "local-module-b4", "yaml": yEnc})
			}
		case !dup:
			fail("digest-error", fmt.Sprintf("Module.Digest(b4) failed although no covered path has U+000A: %v", err), map[string]any{"entry_point": "local-module-b4", "yaml": yEnc})
		}
		return
	}
	run.Case(line, "ok "+got, true)
	if isModuleFile || lfName {
		fail("line-feed-path-digested", fmt.Sprintf("Module.Digest(b4) = %s although a covered path has U+000A (module file %q / object data %s)", got, p, yEnc), map[string]any{"entry_point": "local-module-b4", "yaml": yEnc})
		return
	}
	if want := "shake256:" + hex.EncodeToString(shake([]byte(mt))); got != want {
		fail("b4-construction", fmt.Sprintf("Module.Digest(b4)=%s but SHAKE256 of the path-sorted manifest is %s", got, want), map[string]any{"yaml": yEnc})
	}
}

// ---------------------------------------------------------------------------------------
// fixed witnesses (run first)
// ---------------------------------------------------------------------------------------

func witnessCases(run *hx.Run, tmp string) {
	d1, d2 := shake([]byte("c1")), shake([]byte("c2"))
	// W0: the recorded ParseFileNode defect: a path with two consecutive spaces
	manifestCase(run, 0, []nodeSpec{{"a  b.proto", d1}}, "double-space")
	manifestCase(run, 0, []nodeSpec{{"dir  x/a.proto", d1}, {"b  c  d.proto", d2}, {"plain.proto", d2}}, "double-space")
	// W1: a path with a newline cannot be represented by the line format
	manifestCase(run, 0, []nodeSpec{{"x\ny.proto", d1}}, "newline")
	// W2: and it makes two different file sets share a manifest text, hence a digest
	c1, c2 := []byte("c1"), []byte("c2")
	two := []file{{"x.proto", c1}, {"y.proto", c2}}
	one := []file{{"x.proto\nshake256:" + hex.EncodeToString(d2) + "  y.proto", c1}}
	dTwo, err1 := remoteB5(memBucket(two), nil, oracleB5(two, nil), modOpts{})
	dOne, err2 := remoteB5(memBucket(one), nil, oracleB5(one, nil), modOpts{})
	run.Eval()
	if err1 == nil && err2 == nil && dTwo == dOne {
		run.Count("witness:newline-collision-reproduced")
		failure(run, hx.OracleFailure{Class: "digest-collision-newline-in-path",
			What:   "two different module file sets have the same b5 digest because a path containing U+000A imitates a second manifest line",
			Input:  map[string]any{"files_a": showFiles(two), "files_b": showFiles(one), "digest": dTwo},
			Replay: failReplay(run, 0)})
	}
	if err1 != nil {
		failure(run, hx.OracleFailure{Class: "digest-error", What: fmt.Sprintf("Module.Digest(b5) failed on {x.proto, y.proto}: %v", err1), Input: showFiles(two), Replay: failReplay(run, 0)})
	}
	lineOne, _ := b5Line(one, nil)
	if err2 == nil {
		run.Case(lineOne, "ok "+dOne, true)
		failure(run, hx.OracleFailure{Class: "line-feed-path-digested",
			What:   "Module.Digest(b5) returned a digest for a module file whose path contains U+000A (the manifest text is ambiguous)",
			Input:  map[string]any{"files": showFiles(one), "digest": dOne},
			Replay: failReplay(run, 0)})
	} else {
		run.Case(lineOne, classify(err2), true)
		run.Count("witness:newline-path-" + classify(err2))
	}
	// W3: the same through every other entry point
	lineFeedCase(run, 0, hx.NewRand(run.Seed).Fork(77), tmp, two, one[0].Path, "proto-imitates-line", nil, true)
	for _, s := range []string{"shake256:" + hex.EncodeToString(d1) + "  a  b.proto", "shake256:" + hex.EncodeToString(d1) + "   a", "shake256:" + hex.EncodeToString(d1) + "  ", "shake256:" + hex.EncodeToString(d1) + " x"} {
		nodeCase(run, s)
	}
}

func smallScope(run *hx.Run, r *hx.Rand, tmp string, base int) {
	alphabet := []file{{"a.proto", []byte("A")}, {"LICENSE", []byte("L")}, {"buf.md", []byte("D")}, {"README.md", []byte("D")}, {"x.txt", []byte("A")}, {"d/b.proto", nil}}
	k := 0
	for mask := 0; mask < 1<<len(alphabet); mask++ {
		var fs []file
		for i, f := range alphabet {
			if mask&(1<<i) != 0 {
				fs = append(fs, f)
			}
		}
		if len(fs) > run.N(3, 6) {
			continue
		}
		if run.Only < 0 || run.Only == base+k {
			digestCase(run, base+k, r.Fork(uint64(k)), tmp, fs, nil, false)
		}
		k++
	}
}

func main() {
	if len(os.Args) > 1 && os.Args[1] == "gen-consts" {
		genConsts()
		return
	}
	if len(os.Args) > 1 && os.Args[1] == "digest-only" {
		// Section H: this binary re-executed as a fresh process that only computes digests
		digestOnlyMain(os.Args[2:])
		return
	}
	run := hx.Start("C08")
	r := hx.NewRand(run.Seed)
	// C08_SECTIONS=H (any subset of WMDGNHUKI) runs only those sections; case indices do not change
	secs := os.Getenv("C08_SECTIONS")
	on := func(c byte) bool { return secs == "" || strings.IndexByte(secs, c) >= 0 }
	tmp := filepath.Join(run.OutDir, "disk")
	must(os.MkdirAll(tmp, 0o755))
	defer os.RemoveAll(tmp)
	if on('W') && (run.Only < 0 || run.Only == 0) {
		witnessCases(run, tmp)
	}
	idx := 1
	// Section M
	nM := run.N(6000, 60000)
	mr := r.Fork(1)
	for i := 0; i < nM; i++ {
		cr := mr.Fork(uint64(i))
		if on('M') && (run.Only < 0 || run.Only == idx) {
			specs, kind := genNodeSpecs(cr)
			manifestCase(run, idx, specs, kind)
			text := validManifestText(cr)
			if i%2 == 0 {
				parseCase(run, text)
			}
			parseCase(run, mutateText(cr, text))
			if text != "" {
				first := strings.SplitN(text, "\n", 2)[0]
				nodeCase(run, first)
				nodeCase(run, mutateText(cr, first))
			}
		}
		idx++
	}
	// Section D
	if on('D') {
		smallScope(run, r.Fork(5), tmp, idx)
	}
	idx += 64
	nD := run.N(2000, 25000)
	dr := r.Fork(2)
	for i := 0; i < nD; i++ {
		cr := dr.Fork(uint64(i))
		if on('D') && (run.Only < 0 || run.Only == idx) {
			parseable := cr.Chance(1, 3)
			files := genFileSet(cr, parseable)
			var deps []string
			if !parseable || cr.Bool() {
				for k, c := 0, cr.Intn(4); k < c; k++ {
					deps = append(deps, "b5:"+hex.EncodeToString(randDigestBytes(cr)))
				}
				if len(deps) > 0 && cr.Chance(1, 8) {
					deps = append(deps, deps[0]) // a repeated dependency digest
				}
				if cr.Chance(1, 25) {
					deps = append(deps, "shake256:"+hex.EncodeToString(randDigestBytes(cr)))
				}
			}
			digestCase(run, idx, cr, tmp, files, deps, parseable)
			if i%4 == 0 {
				b4Case(run, idx, cr.Fork(99), files)
			}
			os.RemoveAll(tmp)
			must(os.MkdirAll(tmp, 0o755))
		}
		idx++
	}
	// Section G
	nG := run.N(800, 8000)
	gr := r.Fork(3)
	for i := 0; i < nG; i++ {
		if on('G') && (run.Only < 0 || run.Only == idx) {
			msetCase(run, idx, gr.Fork(uint64(i)), nil)
		}
		idx++
	}
	// Section N (after every other section, own generator streams: the inputs of sections M, D, G
	// for a given seed are what they were before this section existed)
	nN := run.N(700, 7000)
	nr := r.Fork(4)
	for i := 0; i < nN; i++ {
		cr := nr.Fork(uint64(i))
		if on('N') && (run.Only < 0 || run.Only == idx) {
			parseable := cr.Chance(1, 3)
			base := genFileSet(cr, parseable)
			kind := lfKinds[i%len(lfKinds)]
			p := genLineFeedPath(cr, kind, base)
			var deps []string
			if !parseable || cr.Bool() {
				for k, c := 0, cr.Intn(3); k < c; k++ {
					deps = append(deps, "b5:"+hex.EncodeToString(randDigestBytes(cr)))
				}
				if cr.Chance(1, 20) {
					deps = append(deps, "shake256:"+hex.EncodeToString(randDigestBytes(cr)))
				}
			}
			if p != "" {
				lineFeedCase(run, idx, cr, tmp, base, p, kind, deps, parseable)
			}
			if i%5 == 0 {
				msetCase(run, idx, cr.Fork(98), &lfPlant{mod: cr.Intn(6), path: hx.Pick(cr, lfSetPaths)})
			}
			os.RemoveAll(tmp)
			must(os.MkdirAll(tmp, 0o755))
		}
		idx++
	}
	// Section H (history independence; own generator stream r.Fork(6), after every other section)
	if on('H') {
		idx = sectionH(run, r.Fork(6), idx)
	}
	// Section U (the Unicode family of paths; own generator stream r.Fork(8); case indices start at
	// uBase whatever the other sections did, so that `--only` works with any C08_SECTIONS)
	if on('U') {
		sectionU(run, r.Fork(8), tmp)
	}
	sectionK(run, r.Fork(11), tmp, on('K')) // Section K (diskhist.go): digest histories on the disk backend, own stream, `--only 6000000+i`
	// Section I (module sets over the import-modifier family, importkinds.go; own generator stream
	// r.Fork(12); case indices start at iBase)
	if on('I') {
		sectionI(run, r.Fork(12))
	}
	run.Finish()
}
