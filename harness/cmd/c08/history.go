// Section H of the C08 harness: digests are HISTORY-INDEPENDENT.
//
// "A digest is a function of (path, content) pairs and dependency digests only" also means: of
// nothing else — in particular not of what the process did before.  The other sections compute
// digests on healthy inputs only, so a hasher that is reused between calls and left dirty by a
// failed read (seed C08-m6: sync.Pool + Reset on the success path only) is invisible to them.
//
// Here every entry point that hashes (shake256.NewDigestForContent, bufcas.NewDigestForContent /
// NewBlobForContent (+ BlobWithKnownDigest) / NewFileSetForBucket + ManifestToDigest,
// Module.Digest b5 of remote and local modules, b4, a two-module set) is driven through
// HISTORIES: a computation that is made to fail (reader / bucket object that errors after k
// bytes for k around 0, the sponge rate 136 and the io.Copy buffer of 32 KiB; (n>0, err)
// returned together; io.ErrUnexpectedEOF; a panicking reader, recovered here; a context that is
// cancelled mid-read; a bucket whose Get fails) immediately followed by a healthy computation on
// the same goroutine, and healthy-after-healthy with different sizes.  Phase A runs with
// GOMAXPROCS(1) on a locked OS thread (sync.Pool is per-P: the very next Get returns what the
// failed call Put), phase B unpinned, phase C concurrently (many goroutines hashing different
// contents with yielding readers while others fail).  Every healthy answer must equal
//
//	(i)  the independent SHAKE256 recomputation of the published construction (this file never
//	     asks buf what the answer should be), and
//	(ii) the answer of a FRESH PROCESS (this binary re-executed as `c08 digest-only`, once in
//	     the order of the run and once reversed).
//
// Small histories are also sent to the Lean model as one stateless `hist` line (the model
// answers every healthy step from the step alone).
package main

import (
	"bytes"
	"context"
	"encoding/binary"
	"encoding/hex"
	"encoding/json"
	"errors"
	"fmt"
	"io"
	"os"
	"os/exec"
	"path/filepath"
	"runtime"
	"sort"
	"strconv"
	"strings"
	"sync"
	"sync/atomic"
	"time"

	"github.com/bufbuild/buf/private/bufpkg/bufcas"
	"github.com/bufbuild/buf/private/bufpkg/bufmodule"
	"github.com/bufbuild/buf/private/pkg/shake256"
	"github.com/bufbuild/buf/private/pkg/slogext"
	"github.com/bufbuild/buf/private/pkg/storage"
	"github.com/bufbuild/verifharness/internal/hx"
)

// ---------------------------------------------------------------------------------------
// deterministic contents: a file is (path, seed, length); parent and child regenerate it
// ---------------------------------------------------------------------------------------

type hFile struct {
	Path string `json:"p"`
	Seed uint64 `json:"s"`
	Len  int    `json:"n"`
}

func genBytes(seed uint64, n int) []byte {
	r := hx.NewRand(seed ^ 0x68697374)
	b := make([]byte, n+8)
	for i := 0; i < n; i += 8 {
		binary.LittleEndian.PutUint64(b[i:], r.Uint64())
	}
	return b[:n]
}

// hProto is a parseable proto3 file of (about) n bytes: local modules scan imports.
func hProto(f hFile) []byte {
	head := "syntax = \"proto3\";\n"
	if strings.HasPrefix(f.Path, "pa/") {
		head += "package pa;\n"
	}
	head += "// "
	tail := "\nmessage M" + strconv.FormatUint(f.Seed%1000, 10) + " { string f = 1; }\n"
	fill := f.Len - len(head) - len(tail)
	if fill < 0 {
		fill = 0
	}
	raw := genBytes(f.Seed, fill)
	for i := range raw {
		raw[i] = 'a' + raw[i]%26
	}
	return []byte(head + string(raw) + tail)
}

func hContent(f hFile) []byte {
	if oracleExt(f.Path) == ".proto" {
		return hProto(f)
	}
	return genBytes(f.Seed, f.Len)
}

// hItem is one healthy (or to-be-disturbed) computation: a level and its input.
type hItem struct {
	ID    int      `json:"id"`
	Level string   `json:"level"`
	Files []hFile  `json:"files"` // content levels: exactly one file with an empty path
	Deps  []string `json:"deps,omitempty"`
	Yaml  *hFile   `json:"yaml,omitempty"` // b4-local: v1 buf.yaml object data
}

func (it hItem) files() []file {
	out := make([]file, len(it.Files))
	for i, f := range it.Files {
		out[i] = file{f.Path, hContent(f)}
	}
	return out
}

func (it hItem) describe() map[string]any {
	fs := make([]string, len(it.Files))
	for i, f := range it.Files {
		fs[i] = fmt.Sprintf("%q seed=%d len=%d", f.Path, f.Seed, f.Len) // (.proto files are at least ~70 bytes)
	}
	m := map[string]any{"level": it.Level, "files(path seed len)": fs}
	if len(it.Deps) > 0 {
		m["deps"] = it.Deps
	}
	if it.Yaml != nil {
		m["buf.yaml object data (seed len)"] = fmt.Sprintf("seed=%d len=%d", it.Yaml.Seed, it.Yaml.Len)
	}
	return m
}

var hContentLevels = []string{"shake256", "cas-digest", "cas-blob", "cas-blob-known"}
var hBucketLevels = []string{"fileset", "b5-remote", "b5-local", "b4-local", "b5-set2"}
var hLevels = append(append([]string(nil), hContentLevels...), hBucketLevels...)

func isContentLevel(l string) bool { return inStrings(hContentLevels, l) }

// the second module of the two-module set: imports pa/f.proto of the first
var set2B = []file{{"pb/g.proto", []byte("syntax = \"proto3\";\npackage pb;\nimport \"pa/f.proto\";\nmessage G { string f = 1; }\n")}}

// ---------------------------------------------------------------------------------------
// independent side: what the published construction gives (never calls into buf)
// ---------------------------------------------------------------------------------------

func expectItem(it hItem) string {
	fs := it.files()
	switch it.Level {
	case "shake256":
		return hex.EncodeToString(shake(fs[0].Content))
	case "cas-digest":
		return "shake256:" + hex.EncodeToString(shake(fs[0].Content))
	case "cas-blob", "cas-blob-known":
		return "shake256:" + hex.EncodeToString(shake(fs[0].Content)) + " len=" + strconv.Itoa(len(fs[0].Content))
	case "fileset":
		all := append([]file(nil), fs...)
		sort.Slice(all, func(i, j int) bool { return all[i].Path < all[j].Path })
		distinct := map[string]bool{}
		for _, f := range all {
			distinct[string(shake(f.Content))] = true
		}
		return "manifest=shake256:" + hex.EncodeToString(shake([]byte(oracleManifestText(all)))) + " blobs=" + strconv.Itoa(len(distinct))
	case "b5-remote":
		return oracleB5(fs, it.Deps)
	case "b5-local":
		return oracleB5(fs, nil)
	case "b4-local":
		all := append([]file(nil), oracleModuleFiles(fs)...)
		if it.Yaml != nil {
			all = append(all, file{"buf.yaml", genBytes(it.Yaml.Seed, it.Yaml.Len)})
		}
		sort.SliceStable(all, func(i, j int) bool { return all[i].Path < all[j].Path })
		return "shake256:" + hex.EncodeToString(shake([]byte(oracleManifestText(all))))
	case "b5-set2":
		return oracleB5(set2B, []string{oracleB5(fs, nil)})
	}
	panic("unknown level " + it.Level)
}

// ---------------------------------------------------------------------------------------
// disturbed readers and buckets
// ---------------------------------------------------------------------------------------

var errInjected = errors.New("c08 section H: injected read failure")

// faultSpec says how a read is disturbed.  Mode "none" (or K < 0) = healthy.
type faultSpec struct {
	Mode  string `json:"mode"`  // err-after | err-with-data | unexpected-eof | panic | ctx-cancel | get-error | none
	K     int    `json:"k"`     // bytes delivered before the failure (clamped to the content length)
	Chunk int    `json:"chunk"` // max bytes per Read call (0 = as many as fit)
	GetN  int    `json:"get_n"` // bucket levels: which Get of the file is disturbed (0 = every)
	Path  string `json:"path"`  // bucket levels: the disturbed file
}

func (s faultSpec) failing() bool { return s.Mode != "none" && s.Mode != "" }

type faultReader struct {
	data    []byte
	off     int
	spec    faultSpec
	cancel  context.CancelFunc
	fired   *int32
	yield   bool // runtime.Gosched() before every chunk (forces interleaving on one P)
	eofData bool // healthy: the last chunk is returned together with io.EOF
}

func (f *faultReader) Read(p []byte) (int, error) {
	if f.yield {
		runtime.Gosched()
	}
	limit := len(f.data)
	failing := f.spec.failing()
	if failing && f.spec.K < limit {
		limit = f.spec.K
	}
	if f.off >= limit {
		if failing {
			return f.fail(0)
		}
		return 0, io.EOF
	}
	n := limit - f.off
	if len(p) < n {
		n = len(p)
	}
	if f.spec.Chunk > 0 && f.spec.Chunk < n {
		n = f.spec.Chunk
	}
	copy(p, f.data[f.off:f.off+n])
	f.off += n
	if f.off == limit {
		if failing && f.spec.Mode == "err-with-data" {
			return f.fail(n)
		}
		if !failing && f.eofData {
			return n, io.EOF
		}
	}
	return n, nil
}

func (f *faultReader) fail(n int) (int, error) {
	if f.fired != nil {
		atomic.AddInt32(f.fired, 1)
	}
	switch f.spec.Mode {
	case "panic":
		panic("c08 section H: injected reader panic")
	case "unexpected-eof":
		return n, io.ErrUnexpectedEOF
	case "ctx-cancel":
		if f.cancel != nil {
			f.cancel()
		}
		return n, context.Canceled
	}
	return n, errInjected
}

// faultBucket disturbs the read of one file (spec.Path) of the bucket it wraps; with chunkAll > 0
// every other file is presented in chunks of that size too (so io.Copy goes through its buffer).
type faultBucket struct {
	storage.ReadBucket
	spec     faultSpec
	cancel   context.CancelFunc
	gets     *int32
	fired    *int32
	chunkAll int
	yield    bool
}

type faultObject struct {
	storage.ReadObjectCloser
	r io.Reader
}

func (o *faultObject) Read(p []byte) (int, error) { return o.r.Read(p) }

func (b *faultBucket) Get(c context.Context, p string) (storage.ReadObjectCloser, error) {
	obj, err := b.ReadBucket.Get(c, p)
	if err != nil {
		return nil, err
	}
	if b.spec.failing() && p == b.spec.Path {
		n := int(atomic.AddInt32(b.gets, 1))
		if b.spec.GetN == 0 || n == b.spec.GetN {
			if b.spec.Mode == "get-error" {
				atomic.AddInt32(b.fired, 1)
				return nil, errors.Join(errInjected, obj.Close())
			}
			data, err := io.ReadAll(obj)
			if err != nil {
				return nil, err
			}
			return &faultObject{obj, &faultReader{data: data, spec: b.spec, cancel: b.cancel, fired: b.fired, yield: b.yield}}, nil
		}
	}
	if b.chunkAll > 0 || b.yield {
		data, err := io.ReadAll(obj)
		if err != nil {
			return nil, err
		}
		return &faultObject{obj, &faultReader{data: data, spec: faultSpec{Mode: "none", Chunk: b.chunkAll}, yield: b.yield}}, nil
	}
	return obj, nil
}

// ---------------------------------------------------------------------------------------
// implementation side: one computation at one level
// ---------------------------------------------------------------------------------------

type hEnv struct {
	c      context.Context
	reader func(data []byte) io.Reader           // how a content is presented (content levels)
	bucket func(files []file) storage.ReadBucket // how a bucket is presented (bucket levels)
}

func plainEnv() hEnv {
	return hEnv{c: ctx,
		reader: func(d []byte) io.Reader { return bytes.NewReader(d) },
		bucket: func(fs []file) storage.ReadBucket { return memBucket(fs) }}
}

var errBlobContent = errors.New("blob content differs from what the reader delivered")

func computeItem(it hItem, env hEnv) (res string, err error) {
	defer func() {
		if p := recover(); p != nil {
			res, err = "", fmt.Errorf("panic: %v", p)
		}
	}()
	fs := it.files()
	switch it.Level {
	case "shake256":
		d, err := shake256.NewDigestForContent(env.reader(fs[0].Content))
		if err != nil {
			return "", err
		}
		return hex.EncodeToString(d.Value()), nil
	case "cas-digest":
		d, err := bufcas.NewDigestForContent(env.reader(fs[0].Content))
		if err != nil {
			return "", err
		}
		return d.String(), nil
	case "cas-blob", "cas-blob-known":
		var opts []bufcas.BlobOption
		if it.Level == "cas-blob-known" {
			known, err := bufcas.NewDigest(shake(fs[0].Content))
			if err != nil {
				return "", err
			}
			opts = append(opts, bufcas.BlobWithKnownDigest(known))
		}
		b, err := bufcas.NewBlobForContent(env.reader(fs[0].Content), opts...)
		if err != nil {
			return "", err
		}
		if !bytes.Equal(b.Content(), fs[0].Content) {
			return "", errBlobContent
		}
		return b.Digest().String() + " len=" + strconv.Itoa(len(b.Content())), nil
	case "fileset":
		fset, err := bufcas.NewFileSetForBucket(env.c, env.bucket(fs))
		if err != nil {
			return "", err
		}
		for _, f := range fs {
			d := fset.Manifest().GetDigest(f.Path)
			if d == nil {
				return "", fmt.Errorf("manifest has no node for %q", f.Path)
			}
			if b := fset.BlobSet().GetBlob(d); b == nil || !bytes.Equal(b.Content(), f.Content) {
				return "", errBlobContent
			}
		}
		md, err := bufcas.ManifestToDigest(fset.Manifest())
		if err != nil {
			return "", err
		}
		return "manifest=" + md.String() + " blobs=" + strconv.Itoa(len(fset.BlobSet().Blobs())), nil
	case "b5-remote":
		return remoteB5Ctx(env.c, env.bucket(fs), it.Deps, oracleB5(fs, it.Deps), modOpts{})
	case "b5-local":
		return localDigestCtx(env.c, env.bucket(fs), modOpts{}, bufmodule.DigestTypeB5, nil, nil)
	case "b4-local":
		var yaml bufmodule.ObjectData
		if it.Yaml != nil {
			o, err := bufmodule.NewObjectData("buf.yaml", genBytes(it.Yaml.Seed, it.Yaml.Len))
			if err != nil {
				return "", err
			}
			yaml = o
		}
		return localDigestCtx(env.c, env.bucket(fs), modOpts{}, bufmodule.DigestTypeB4, yaml, nil)
	case "b5-set2":
		b := bufmodule.NewModuleSetBuilder(env.c, slogext.NopLogger, bufmodule.NopModuleDataProvider, bufmodule.NopCommitProvider)
		b.AddLocalModule(env.bucket(fs), "ma", false)
		b.AddLocalModule(memBucket(set2B), "mb", true)
		ms, err := b.Build()
		if err != nil {
			return "", err
		}
		m := ms.GetModuleForBucketID("mb")
		if m == nil {
			return "", errors.New("module mb not in set")
		}
		d, err := m.Digest(bufmodule.DigestTypeB5)
		if err != nil {
			return "", err
		}
		return d.String(), nil
	}
	return "", fmt.Errorf("unknown level %q", it.Level)
}

// faultEnv presents the item's input with the disturbance spec (healthy variants when the spec
// is not failing: the chunk size still applies).
func faultEnv(spec faultSpec, fired, gets *int32, eofData, yield bool) (hEnv, context.CancelFunc) {
	c, cancel := context.WithCancel(ctx)
	if spec.Mode == "ctx-cancel" && spec.K == 0 {
		cancel() // a context that is already cancelled when the computation starts
	}
	env := hEnv{c: c}
	env.reader = func(d []byte) io.Reader {
		if !spec.failing() && spec.Chunk == 0 && !eofData && !yield {
			return bytes.NewReader(d) // io.Copy takes the WriterTo path
		}
		if spec.Mode == "get-error" {
			// no bucket at a content level: the same failure with another chunking
			s := spec
			s.Mode, s.Chunk = "err-after", 7
			if s.K <= 1000 {
				s.Chunk = 1
			}
			return &faultReader{data: d, spec: s, cancel: cancel, fired: fired, yield: yield}
		}
		return &faultReader{data: d, spec: spec, cancel: cancel, fired: fired, yield: yield, eofData: eofData}
	}
	env.bucket = func(fs []file) storage.ReadBucket {
		if !spec.failing() && spec.Chunk == 0 && !yield {
			return memBucket(fs)
		}
		return &faultBucket{ReadBucket: memBucket(fs), spec: spec, cancel: cancel, gets: gets, fired: fired, chunkAll: spec.Chunk, yield: yield}
	}
	return env, cancel
}

// ---------------------------------------------------------------------------------------
// generation
// ---------------------------------------------------------------------------------------

const spongeRate = 136       // SHAKE256 rate in bytes
const copyBuffer = 32 * 1024 // io.Copy's buffer

var hKs = []int{0, 1, 17, spongeRate - 1, spongeRate, spongeRate + 1, 2 * spongeRate, 4096, copyBuffer - 1, copyBuffer, copyBuffer + 1, 2 * copyBuffer, 2*copyBuffer + 1, 100003}
var hModes = []string{"err-after", "err-with-data", "unexpected-eof", "panic", "ctx-cancel", "get-error", "none"}
var hSizes = []int{0, 1, spongeRate - 1, spongeRate, spongeRate + 1, 2 * spongeRate, 1000, copyBuffer - 1, copyBuffer, copyBuffer + 1, 70001}
var hChunks = []int{0, 0, 7, spongeRate, 4096, 1}

// mkItem builds the input of one computation; mainLen is the length of the file that may be
// disturbed (its path is returned).
func mkItem(level string, r *hx.Rand, mainLen int) (hItem, string) {
	it := hItem{Level: level}
	if isContentLevel(level) {
		it.Files = []hFile{{"", r.Uint64(), mainLen}}
		return it, ""
	}
	var main string
	switch level {
	case "b5-set2":
		main = hx.Pick(r, []string{"pa/f.proto", "pa/f.proto", "LICENSE", "pa/x y  z.proto"})
	case "fileset":
		main = hx.Pick(r, []string{"a.proto", "d/b c.proto", "LICENSE", "README.md", "notes.txt", "zz/last.bin"})
	default:
		main = hx.Pick(r, []string{"a.proto", "d/b c.proto", "LICENSE", "README.md", "m/second.proto"})
	}
	it.Files = []hFile{{main, r.Uint64(), mainLen}}
	add := func(p string, n int) {
		for _, f := range it.Files {
			if f.Path == p {
				return
			}
		}
		it.Files = append(it.Files, hFile{p, r.Uint64(), n})
	}
	if level == "b5-set2" {
		add("pa/f.proto", 80+r.Intn(200))
	} else {
		add("z/base.proto", 80+r.Intn(200))
	}
	if r.Chance(1, 2) {
		add("m/second.proto", hx.Pick(r, hSizes[:8]))
	}
	if r.Chance(1, 3) {
		add("LICENSE", hx.Pick(r, hSizes[:7]))
	}
	if r.Chance(1, 3) {
		add("README.md", hx.Pick(r, hSizes[:7]))
	}
	if r.Chance(1, 3) {
		add("notes.txt", hx.Pick(r, hSizes[:7])) // not a module file
	}
	hx.Shuffle(r, it.Files)
	switch level {
	case "b5-remote":
		for k, c := 0, r.Intn(3); k < c; k++ {
			it.Deps = append(it.Deps, "b5:"+hex.EncodeToString(randDigestBytes(r)))
		}
	case "b4-local":
		if r.Bool() {
			it.Yaml = &hFile{"buf.yaml", r.Uint64(), hx.Pick(r, hSizes[:7])}
		}
	}
	return it, main
}

// ---------------------------------------------------------------------------------------
// the section
// ---------------------------------------------------------------------------------------

type hPending struct {
	Item   hItem
	Parent string // what this process answered
	Idx    int
	Where  map[string]any
}

type hSection struct {
	run     *hx.Run
	r       *hx.Rand
	pending []hPending
	nextID  int
	tier    string
}

func (h *hSection) replay(idx int) string {
	return fmt.Sprintf("build/c08 --seed %d --tier %s --out /tmp/c08-replay --only %d   (re-runs this history alone, incl. the fresh-process comparison; VERIF_REPO=<tree> bin/check C08 rebuilds build/c08 first)", h.run.Seed, h.run.Tier, idx)
}

func (h *hSection) fail(class, what string, idx int, input map[string]any) {
	failure(h.run, hx.OracleFailure{Class: class, What: what, Input: input, Replay: h.replay(idx)})
}

func errText(err error) string {
	if err == nil {
		return "<nil>"
	}
	s := err.Error()
	if len(s) > 300 {
		s = s[:300] + "…"
	}
	return s
}

// healthy runs one healthy computation and judges it against the independent recomputation.
// after = what preceded it ("failed-read" / "healthy" / "start").
func (h *hSection) healthy(idx, step int, it hItem, chunk int, eofData bool, after string, prev any, hist map[string]any) (string, error) {
	it.ID = h.nextID
	h.nextID++
	var fired, gets int32
	env, cancel := faultEnv(faultSpec{Mode: "none", Chunk: chunk}, &fired, &gets, eofData, false)
	res, err := computeItem(it, env)
	cancel()
	h.run.Eval()
	h.run.Count("h:healthy:" + it.Level)
	h.run.Count("h:healthy-after:" + after)
	want := expectItem(it)
	in := map[string]any{"history": hist, "step_index": step, "healthy_step": it.describe(), "read_chunk": chunk, "last_chunk_with_eof": eofData, "preceded_by": after, "previous_step": prev}
	class := "c08-history-digest-after-failed-read"
	if after != "failed-read" {
		class = "c08-history-digest-after-healthy"
	}
	switch {
	case errors.Is(err, errBlobContent):
		h.fail("c08-history-blob-content", fmt.Sprintf("a healthy %s computation (step %d of the history, after a %s step): the digest is computed, but the Blob does not hold the bytes the reader delivered", it.Level, step, after), idx, in)
	case err != nil:
		h.fail("c08-history-healthy-error", fmt.Sprintf("a healthy %s computation (step %d of the history, after a %s step) failed: %s", it.Level, step, after, errText(err)), idx, in)
	case res != want:
		in["got"], in["want"] = res, want
		h.fail(class, fmt.Sprintf("the %s digest of a healthy input computed right after a %s step (step %d of the history) is %s; the independent SHAKE256 recomputation of the same input gives %s — the answer depends on what the process did before", it.Level, after, step, res, want), idx, in)
	}
	if err == nil {
		// compared with a fresh process later, whatever the verdict above
		h.pending = append(h.pending, hPending{Item: it, Parent: res, Idx: idx, Where: in})
	}
	return res, err
}

// disturbed runs one computation whose read fails as spec says; the outcome may be an error (the
// normal case) — or a digest, which must then be the digest of the WHOLE input.
func (h *hSection) disturbed(idx, step int, it hItem, spec faultSpec, hist map[string]any) (fired bool, res string, err error) {
	var nf, gets int32
	env, cancel := faultEnv(spec, &nf, &gets, false, false)
	res, err = computeItem(it, env)
	cancel()
	h.run.Eval()
	h.run.Count("h:disturbed:" + it.Level)
	h.run.Count("h:disturbed-mode:" + spec.Mode)
	fired = nf > 0
	switch {
	case err != nil && fired:
		h.run.Count("h:disturbed-outcome:error")
	case err != nil:
		h.run.Count("h:disturbed-outcome:error-before-the-disturbed-read")
	case res == expectItem(it) && fired:
		h.run.Count("h:disturbed-outcome:digest-of-whole-input(failure hit another read of the file)")
	case res == expectItem(it):
		h.run.Count("h:disturbed-outcome:not-reached")
	default:
		in := map[string]any{"history": hist, "step_index": step, "disturbed_step": it.describe(), "fault": spec, "got": res, "want_if_any": expectItem(it)}
		h.fail("c08-history-failed-read-gave-digest", fmt.Sprintf("a %s computation whose read failed (%s after %d bytes) returned the digest %s, which is not the digest of its input", it.Level, spec.Mode, spec.K, res), idx, in)
	}
	return fired, res, err
}

// history number i of a phase: [disturbed(levelF, mode, k); healthy(levelH); disturbed again;
// healthy(levelF)].  Everything derives from (seed, i).
func (h *hSection) history(idx, i int, phase string) {
	defer func() {
		if p := recover(); p != nil {
			h.fail("panic", fmt.Sprintf("history %d of phase %s panicked outside a computation: %v", i, phase, p), idx, nil)
		}
	}()
	nmk := len(hModes) * len(hKs)
	lf := hLevels[i%len(hLevels)]
	mk := (i / len(hLevels)) % nmk
	mode, k := hModes[mk%len(hModes)], hKs[mk/len(hModes)]
	lh := hLevels[(i+i/len(hLevels)+i/(len(hLevels)*nmk))%len(hLevels)]
	cr := h.r.Fork(uint64(i))
	chunk := hx.Pick(cr, hChunks)
	if chunk == 1 && k > 1000 {
		chunk = 0
	}
	extra := hx.Pick(cr, []int{0, 1, spongeRate + 1})
	hsize := hx.Pick(cr, hSizes)
	hsize2 := hx.Pick(cr, hSizes)
	hist := map[string]any{"phase": phase, "history": i, "disturbed_level": lf, "mode": mode, "k": k, "disturbed_content_len": k + extra, "read_chunk": chunk, "healthy_level": lh, "healthy_content_len": hsize}
	h.run.Count("h:phase:" + phase)
	h.run.Distinct(fmt.Sprintf("h|%s|%s|%s|%d|%s", phase, lf, mode, k, lh))
	var ops []histOp
	after := "start"
	var prev any
	for rep := 0; rep < 2; rep++ {
		itF, main := mkItem(lf, cr, k+extra)
		spec := faultSpec{Mode: mode, K: k, Chunk: chunk, GetN: cr.Intn(3), Path: main}
		if mode == "none" {
			// healthy-after-healthy with different sizes
			res, err := h.healthy(idx, 2*rep, itF, chunk, cr.Bool(), after, prev, hist)
			prev = map[string]any{"healthy": itF.describe()}
			ops = append(ops, histOp{item: itF, res: res, err: err})
			after = "healthy"
		} else {
			fired, _, err := h.disturbed(idx, 2*rep, itF, spec, hist)
			prev = map[string]any{"disturbed": itF.describe(), "fault": spec, "fault_reached": fired, "error": errText(err)}
			kk := k
			switch {
			case fired && err != nil:
				after = "failed-read"
			case err != nil:
				after = "failed-before-the-disturbed-read"
			default:
				after = "healthy"
			}
			ops = append(ops, histOp{item: itF, failed: true, spec: spec, k: kk})
		}
		level, size := lh, hsize
		if rep == 1 {
			level, size = lf, hsize2
		}
		itH, _ := mkItem(level, cr, size)
		res, err := h.healthy(idx, 2*rep+1, itH, hx.Pick(cr, hChunks[:5]), cr.Bool(), after, prev, hist)
		ops = append(ops, histOp{item: itH, res: res, err: err})
		prev = map[string]any{"healthy": itH.describe()}
		after = "healthy"
	}
	h.histLine(ops)
}

// ---------------------------------------------------------------------------------------
// `hist` protocol line: the whole history on one stateless line (small histories only)
// ---------------------------------------------------------------------------------------

type histOp struct {
	item   hItem
	failed bool
	spec   faultSpec
	k      int
	res    string
	err    error
}

func histLevelOK(l string) bool { return isContentLevel(l) || l == "b5-remote" || l == "b5-local" }

func (h *hSection) histLine(ops []histOp) {
	total := 0
	for _, o := range ops {
		for _, f := range o.item.Files {
			total += len(hContent(f))
		}
		if !o.failed && !histLevelOK(o.item.Level) {
			return
		}
	}
	if total > 6000 {
		return
	}
	t := newTable()
	var enc, ans []string
	disturbed := false
	for _, o := range ops {
		fs := o.item.files()
		deps := o.item.Deps
		switch {
		case o.failed && o.item.Level == "b5-remote":
			enc = append(enc, "F;"+encBucket(fs)+";"+encList(deps)+";"+hx.Enc(o.spec.Path)+";"+strconv.Itoa(o.k))
			disturbed = disturbed || o.k > 0
		case o.failed:
			// every other disturbed computation is, for the model, a read that absorbed a prefix
			var data []byte
			for _, f := range fs {
				if f.Path == o.spec.Path {
					data = f.Content
				}
			}
			if o.k < len(data) {
				data = data[:o.k]
			}
			enc = append(enc, "P;"+encB(data))
			disturbed = disturbed || len(data) > 0
		case isContentLevel(o.item.Level):
			enc = append(enc, "C;"+encB(fs[0].Content))
			t.add(fs[0].Content)
			a := "err"
			if o.err == nil {
				a = strings.TrimPrefix(strings.SplitN(o.res, " ", 2)[0], "shake256:")
			}
			ans = append(ans, a)
		default: // b5-remote / b5-local
			enc = append(enc, "D;"+encBucket(fs)+";"+encList(deps))
			addB5Preimages(t, fs, deps)
			if o.err != nil {
				ans = append(ans, classify(o.err))
			} else {
				ans = append(ans, "ok "+o.res)
			}
		}
	}
	h.run.Case("hist\t"+t.enc()+"\t"+strings.Join(enc, "|"), strings.Join(ans, "|"), disturbed)
	h.run.Count("h:hist-lines")
}

// ---------------------------------------------------------------------------------------
// phase C: concurrent
// ---------------------------------------------------------------------------------------

type cResult struct {
	g, step int
	item    hItem
	res     string
	err     error
	spec    faultSpec
	fired   bool
	failing bool
}

func (h *hSection) concurrentRound(idx, round int) {
	defer func() {
		if p := recover(); p != nil {
			h.fail("panic", fmt.Sprintf("concurrent round %d panicked outside a computation: %v", round, p), idx, nil)
		}
	}()
	procs := []int{0, 1, 4}[round%3]
	old := runtime.GOMAXPROCS(0)
	if procs > 0 {
		runtime.GOMAXPROCS(procs)
		defer runtime.GOMAXPROCS(old)
	}
	G := h.run.N(24, 40)
	steps := h.run.N(5, 8)
	rr := h.r.Fork(uint64(1000000 + round))
	// plan everything on this goroutine (the generator is not thread-safe)
	plans := make([][]cResult, G)
	for g := 0; g < G; g++ {
		failer := g%3 == 2
		n := steps
		if failer {
			n = 3 * steps
		}
		for s := 0; s < n; s++ {
			level := hLevels[(g+s+round)%len(hLevels)]
			if failer {
				mk := rr.Intn(len(hModes) * len(hKs))
				mode, k := hModes[mk%len(hModes)], hKs[mk/len(hModes)]
				if mode == "none" {
					mode = "err-after"
				}
				if k == 0 {
					k = 1 + rr.Intn(300)
				}
				it, main := mkItem(level, rr, k+rr.Intn(200))
				it.ID = h.nextID
				h.nextID++
				plans[g] = append(plans[g], cResult{g: g, step: s, item: it, failing: true, spec: faultSpec{Mode: mode, K: k, Chunk: hx.Pick(rr, hChunks[:5]), GetN: rr.Intn(3), Path: main}})
				continue
			}
			size := hx.Pick(rr, hSizes)
			if g%2 == 0 {
				size = 64*1024 + rr.Intn(h.run.N(256, 768)*1024) // long computations: they overlap
			}
			it, _ := mkItem(level, rr, size)
			it.ID = h.nextID
			h.nextID++
			plans[g] = append(plans[g], cResult{g: g, step: s, item: it, spec: faultSpec{Mode: "none", Chunk: hx.Pick(rr, []int{4096, 4096, copyBuffer, 1000})}})
		}
	}
	var wg sync.WaitGroup
	start := make(chan struct{})
	for g := 0; g < G; g++ {
		wg.Add(1)
		go func(plan []cResult) {
			defer wg.Done()
			<-start
			for i := range plan {
				p := &plan[i]
				var fired, gets int32
				// healthy readers yield between chunks so that computations interleave even on one P
				env, cancel := faultEnv(p.spec, &fired, &gets, false, true)
				p.res, p.err = computeItem(p.item, env)
				cancel()
				p.fired = fired > 0
			}
		}(plans[g])
	}
	close(start)
	wg.Wait()
	h.run.Count("h:phase:concurrent-round")
	h.run.Distinct(fmt.Sprintf("h|concurrent|%d|%d", round, procs))
	for g := range plans {
		for _, p := range plans[g] {
			h.run.Eval()
			in := map[string]any{"phase": "concurrent", "round": round, "gomaxprocs(0=default)": procs, "goroutines": G, "goroutine": p.g, "step_index": p.step, "computation": p.item.describe(), "read": p.spec}
			want := expectItem(p.item)
			if p.failing && (p.fired || p.err != nil) {
				h.run.Count("h:concurrent:disturbed")
				if p.err == nil && p.res != want {
					in["got"], in["want_if_any"] = p.res, want
					h.fail("c08-history-failed-read-gave-digest", fmt.Sprintf("concurrent phase: a %s computation whose read failed (%s after %d bytes) returned the digest %s, which is not the digest of its input", p.item.Level, p.spec.Mode, p.spec.K, p.res), idx, in)
				}
				continue
			}
			h.run.Count("h:concurrent:healthy:" + p.item.Level)
			switch {
			case p.err != nil:
				h.fail("c08-history-concurrent", fmt.Sprintf("concurrent phase (round %d, goroutine %d, step %d): a healthy %s computation failed while other goroutines were hashing / failing: %s", round, p.g, p.step, p.item.Level, errText(p.err)), idx, in)
			case p.res != want:
				in["got"], in["want"] = p.res, want
				h.fail("c08-history-concurrent", fmt.Sprintf("concurrent phase (round %d, goroutine %d, step %d): the %s digest of a healthy input is %s, the independent SHAKE256 recomputation gives %s — the answer depends on what other goroutines of the process were doing", round, p.g, p.step, p.item.Level, p.res, want), idx, in)
			}
			if p.err == nil {
				h.pending = append(h.pending, hPending{Item: p.item, Parent: p.res, Idx: idx, Where: in})
			}
		}
	}
}

// ---------------------------------------------------------------------------------------
// fresh process
// ---------------------------------------------------------------------------------------

// digestOnlyMain is `c08 digest-only <items.json> <results.json>`: every item computed from
// scratch in this (new) process, plain readers and memory buckets, nothing ever fails.
func digestOnlyMain(args []string) {
	if len(args) != 2 {
		fmt.Fprintln(os.Stderr, "usage: c08 digest-only <items.json> <results.json>")
		os.Exit(2)
	}
	raw, err := os.ReadFile(args[0])
	must(err)
	var items []hItem
	must(json.Unmarshal(raw, &items))
	out := make(map[string]string, len(items))
	for _, it := range items {
		res, err := computeItem(it, plainEnv())
		if err != nil {
			res = "error: " + errText(err)
		}
		out[strconv.Itoa(it.ID)] = res
	}
	b, err := json.Marshal(out)
	must(err)
	must(os.WriteFile(args[1], b, 0o644))
}

func (h *hSection) child(items []hItem, tag string) map[string]string {
	exe, err := os.Executable()
	must(err)
	in := filepath.Join(h.run.OutDir, "h-items-"+tag+".json")
	out := filepath.Join(h.run.OutDir, "h-results-"+tag+".json")
	b, err := json.Marshal(items)
	must(err)
	must(os.WriteFile(in, b, 0o644))
	cctx, cancel := context.WithTimeout(context.Background(), 10*time.Minute)
	defer cancel()
	cmd := exec.CommandContext(cctx, exe, "digest-only", in, out)
	cmd.Stderr = os.Stderr
	if err := cmd.Run(); err != nil {
		panic(fmt.Sprintf("section H: fresh process %s failed: %v", tag, err))
	}
	raw, err := os.ReadFile(out)
	must(err)
	res := map[string]string{}
	must(json.Unmarshal(raw, &res))
	os.Remove(in)
	os.Remove(out)
	h.run.Count("h:fresh-processes")
	return res
}

// freshProcess compares every healthy answer of this process with what a fresh process says
// about the same input: once in the order of the run, once reversed (so that every item also
// has another predecessor in the child), and a few items alone in a process of their own.
func (h *hSection) freshProcess(tag string) {
	if len(h.pending) == 0 {
		return
	}
	items := make([]hItem, len(h.pending))
	for i, p := range h.pending {
		items[i] = p.Item
	}
	fwd := h.child(items, tag+"-fwd")
	rev := make([]hItem, len(items))
	for i := range items {
		rev[i] = items[len(items)-1-i]
	}
	bwd := h.child(rev, tag+"-rev")
	single := map[string]string{}
	for i := 0; i < len(items) && i < h.run.N(3, 12); i++ {
		j := (i * 7919) % len(items)
		for k, v := range h.child(items[j:j+1], tag+"-one") {
			single[k] = v
		}
	}
	for _, p := range h.pending {
		id := strconv.Itoa(p.Item.ID)
		h.run.Eval()
		h.run.Count("h:fresh-process-compared")
		in := map[string]any{"where": p.Where, "computation": p.Item.describe(), "this_process": p.Parent, "fresh_process": fwd[id], "fresh_process_reversed_order": bwd[id]}
		switch {
		case fwd[id] != p.Parent:
			h.fail("c08-history-fresh-process", fmt.Sprintf("the %s digest of one input is %s in this process (after its history) but %s in a fresh process", p.Item.Level, p.Parent, fwd[id]), p.Idx, in)
		case bwd[id] != fwd[id]:
			h.fail("c08-history-fresh-process", fmt.Sprintf("the %s digest of one input is %s in one fresh process and %s in another that computed the same inputs in reverse order", p.Item.Level, fwd[id], bwd[id]), p.Idx, in)
		}
		if s, ok := single[id]; ok && s != p.Parent {
			in["fresh_process_single_item"] = s
			h.fail("c08-history-fresh-process", fmt.Sprintf("the %s digest of one input is %s in this process but %s in a process that computed nothing else", p.Item.Level, p.Parent, s), p.Idx, in)
		}
	}
	h.pending = nil
}

// pinned runs f with GOMAXPROCS(1) on a locked OS thread: one P, one sync.Pool shard.
func pinned(f func()) {
	runtime.LockOSThread()
	old := runtime.GOMAXPROCS(1)
	defer func() {
		runtime.GOMAXPROCS(old)
		runtime.UnlockOSThread()
	}()
	f()
}

// sectionH runs the section; idx is the first case index of the section, the next free index is
// returned.  Own generator stream: the inputs of the other sections are unchanged.
func sectionH(run *hx.Run, r *hx.Rand, idx int) int {
	h := &hSection{run: run, r: r, tier: run.Tier}
	nA := run.N(900, 9000)
	nB := run.N(300, 3000)
	nC := run.N(3, 12)
	want := func(i int) bool { return run.Only < 0 || run.Only == i }
	// phase A: one P, locked thread
	pinned(func() {
		for i := 0; i < nA; i++ {
			if want(idx + i) {
				h.history(idx+i, i, "A:gomaxprocs1-locked-thread")
			}
		}
	})
	idx += nA
	// phase B: as the process normally runs
	for i := 0; i < nB; i++ {
		if want(idx + i) {
			h.history(idx+i, nA+i*7, "B:unpinned")
		}
	}
	idx += nB
	// phase C: concurrent
	for i := 0; i < nC; i++ {
		if want(idx + i) {
			h.concurrentRound(idx+i, i)
		}
	}
	idx += nC
	h.freshProcess("all")
	return idx
}
