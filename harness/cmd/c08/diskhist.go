// Section K of the C08 harness: DIGEST HISTORIES ON THE DISK BACKEND.
//
// "A digest is a function of (path, content) pairs and dependency digests only" also means: not
// of what the FILE SYSTEM says about a file besides its bytes (size, modification time, inode,
// the directory it was reached through) and not of what this process computed for the same
// path earlier.  Every other section writes a module to a fresh directory, digests it once and
// throws the directory away, so a process-wide cache of file digests keyed by
// (LocalPath, size, mtime) — seed C08-m10 — is never asked twice about one path.
//
// Here a generated module (file sets of genFileSet plus a planted pair of same-size .proto
// "twins", LICENSE / doc variants, non-module files, v1 side files) lives in ONE directory that
// is EDITED 3-8 times, the way tools that preserve or pin modification times do it (cp -p,
// rsync -t, reproducible tarballs, git-restore-mtime, editors that write in place): same-size
// rewrites with the old mtime put back (os.WriteFile, WriteAt without O_TRUNC, one byte),
// rewrites that change only the mtime, only the size, both; rename-over (new inode), delete +
// recreate, swapping the contents of two same-size files, touch, rewriting identical bytes, a
// copy of the whole directory with the same names / sizes / mtimes but other bytes, replacing
// the directory under the same name, adding / removing a file (directory mtime restored), and
// reverting to the original bytes.  After EVERY step, in this same process and with fresh
// bucket / module-set objects, the module is digested from disk (storageos bucket on the
// directory; rotating second view: provider with symlinks, parent bucket + MapOnPrefix, a
// symlink to the directory, a relative root), from memory (the bytes the harness itself reads
// back with os.ReadFile) and through a tar round trip; b5 of a remote-style and of a local
// module, b4 with the v1 side files.
//
// Oracle (implementation only; the expected value comes from the harness's own record of the
// current bytes and the independent SHAKE256 construction of main.go):
//
//	disk-digest-stale                       disk digest != published construction over the CURRENT bytes
//	disk-digest-differs-from-memory         disk digest != memory / tar digest of the same files
//	digest-insensitive-to-content-change    bytes of a module file changed, the disk digest did not
//	digest-changed-without-content-change   touch / same bytes / non-module edit changed the disk digest
//	digest-not-restored-after-revert        module files are the original ones again, the digest is not
//	digest-error, panic                     a digest computation failed / panicked
//
// Every step is also sent to the Lean model as an ordinary `b5` (and `b4`) line whose
// implementation column is the DISK digest after that step: the model computes the digest of
// the current bytes (it has no state to be stale).
package main

import (
	"bytes"
	"encoding/hex"
	"fmt"
	"io/fs"
	"os"
	"path/filepath"
	"sort"
	"strconv"
	"strings"
	"syscall"
	"time"

	"github.com/bufbuild/buf/private/bufpkg/bufmodule"
	"github.com/bufbuild/buf/private/pkg/storage"
	"github.com/bufbuild/buf/private/pkg/storage/storageos"
	"github.com/bufbuild/verifharness/internal/hx"
)

const kBase = 6_000_000 // first case index of Section K

// the operations of a history; the first step of case i is kFirstOps[i % len(kFirstOps)]
var kFirstOps = []string{
	"inplace-same-size-keep-mtime",     // (a) os.WriteFile (O_TRUNC), then Chtimes back to the old atime / mtime
	"writeat-same-size-keep-mtime",     // (a) OpenFile(O_WRONLY) + WriteAt of the whole content, no O_TRUNC
	"flip-one-byte-keep-mtime",         // (a) WriteAt of ONE byte
	"same-size-new-mtime",              // (b)
	"resize-keep-mtime",                // (c)
	"resize-new-mtime",                 // (d)
	"rename-over",                      // (e) temp file + os.Rename: new inode, new mtime
	"rename-over-keep-mtime",           // (e) same size, old mtime put back on the new inode
	"delete-recreate-same-size-mtime",  // (f)
	"swap-twins-keep-mtimes",           // (g)
	"touch-only",                       // (h) bytes untouched, mtime changes
	"rewrite-same-bytes",               // (h) identical bytes written again (new mtime / old mtime)
	"copy-dir-same-sizes-mtimes",       // (k) cp -p style copy with other bytes becomes the subject
	"replace-dir-same-sizes-mtimes",    // (f) for the whole directory: same LocalPaths, new inodes
	"add-file",                         // a new module / non-module file (directory mtime restored half of the time)
	"remove-file",                      // a file disappears
	"inplace-same-size-keep-mtime-all", // (a) for EVERY non-empty file at once (a release re-extracted in place)
}

var kLaterOps = append(append([]string(nil), kFirstOps...), "revert-keep-mtimes", "revert-original-mtimes")

var kPolicies = []string{"natural", "pinned-2020", "pinned-epoch", "pinned-with-nanoseconds", "per-file-whole-seconds"}

var kViews = []string{"provider-with-symlinks", "parent-bucket-map-on-prefix", "symlink-to-directory", "relative-root"}

var kTwinPaths = [][2]string{
	{"tw/a.proto", "tw/b.proto"},
	{"d1/t.proto", "d2/t.proto"},              // same base name in two directories
	{"x y/\u00e9.proto", "x y/e\u0301.proto"}, // NFC and NFD spellings of one name
	{"日本/a  b.proto", "日本/ω.proto"},
	{"t1.proto", "sub/dir/t1.proto"},
	{"p.proto", "q.proto"},
}

type kDigests struct {
	remote, second, b4 string // "" = not computed
}

type kCase struct {
	run       *hx.Run
	idx       int
	r         *hx.Rand
	root      string // directory of this case
	rel       string // the subject directory is root/rel
	gen       int    // counter for names of copies
	files     []file // the harness's own record of the CURRENT bytes
	orig      []file
	origTimes map[string][2]time.Time
	deps      []string
	parseable bool
	b4        bool
	policy    string
	twins     [2]string
	steps     []map[string]any
	first     kDigests
	prev      kDigests
	prevFiles []file
	failed    map[string]bool
	big       bool
	lines     bool // this case also goes to the model (thorough: every 4th case, in.txt is already large)
}

func (c *kCase) dir() string          { return filepath.Join(c.root, c.rel) }
func (c *kCase) full(p string) string { return filepath.Join(c.dir(), filepath.FromSlash(p)) }

func (c *kCase) input() map[string]any {
	return map[string]any{"mtime_policy": c.policy, "original_files": kShowFiles(c.orig), "deps": c.deps, "parseable": c.parseable, "b4": c.b4, "steps": c.steps}
}

func (c *kCase) fail(class, what string) {
	// one report per class and case (a stale digest usually stays stale for the rest of the history)
	if c.failed[class] {
		c.run.Count("fail-again:" + class)
		return
	}
	c.failed[class] = true
	failure(c.run, hx.OracleFailure{Class: class, What: what, Input: c.input(), Replay: failReplay(c.run, c.idx)})
}

// kShort is encB with long contents (the 32 KiB+ twins) abbreviated; the replay regenerates them.
func kShort(b []byte) string {
	if len(b) <= 160 {
		return encB(b)
	}
	return encB(b[:32]) + fmt.Sprintf("...(%d bytes, shake256 %s)", len(b), hex.EncodeToString(shake(b)[:8]))
}

func kShowFiles(files []file) []string {
	out := make([]string, len(files))
	for i, f := range files {
		out[i] = strconv.Quote(f.Path) + " = " + kShort(f.Content)
	}
	return out
}

// ---- file system helpers (the harness's own view: os.* only) ----

func kTimes(full string) (at, mt time.Time) {
	fi, err := os.Stat(full)
	must(err)
	mt = fi.ModTime()
	at = mt
	if st, ok := fi.Sys().(*syscall.Stat_t); ok {
		at = time.Unix(int64(st.Atim.Sec), int64(st.Atim.Nsec))
	}
	return at, mt
}

// kSetTimes puts (at, mt) on the file and reports whether the file system kept mt exactly.
func (c *kCase) kSetTimes(full string, at, mt time.Time) bool {
	must(os.Chtimes(full, at, mt))
	_, now := kTimes(full)
	if !now.Equal(mt) {
		c.run.Count("K:file-system-did-not-keep-mtime")
		return false
	}
	return true
}

func kWrite(full string, data []byte) {
	must(os.MkdirAll(filepath.Dir(full), 0o755))
	must(os.WriteFile(full, data, 0o644))
}

func (c *kCase) at(p string) int {
	i := indexOf(c.files, p)
	if i < 0 {
		panic("section K: no record of " + strconv.Quote(p))
	}
	return i
}

// category of a recorded path: proto | license | doc | v1side | nonmodule
func (c *kCase) category(p string) string {
	if c.b4 && (p == "buf.yaml" || p == "buf.lock") {
		return "v1side"
	}
	if !inFiles(oracleModuleFiles(c.files), p) {
		return "nonmodule"
	}
	switch {
	case oracleExt(p) == ".proto":
		return "proto"
	case p == "LICENSE":
		return "license"
	}
	return "doc"
}

func (c *kCase) protoParse(p string) bool { return c.parseable && oracleExt(p) == ".proto" }

const kProtoHead = "syntax = \"proto3\";\n// "

// kProto is a parseable .proto text of exactly n bytes (n >= 24).
func kProto(r *hx.Rand, n int) []byte {
	const letters = "abcdefghijklmnopqrstuvwxyz0123456789 "
	tail := "\n"
	if n >= 60 && r.Bool() {
		tail = "\nmessage M { string f = 1; }\n"
	}
	body := n - len(kProtoHead) - len(tail)
	if body < 1 {
		panic("section K: proto text too short")
	}
	b := []byte(kProtoHead)
	for i := 0; i < body; i++ {
		b = append(b, letters[r.Intn(len(letters))])
	}
	return append(b, tail...)
}

// kSameSize returns content of the same length as old but different bytes; nil if impossible.
func kSameSize(r *hx.Rand, old []byte, protoParse bool) []byte {
	if len(old) == 0 {
		return nil
	}
	nw := append([]byte(nil), old...)
	if protoParse {
		// change characters inside the first comment only: the file stays parseable
		i := bytes.Index(nw, []byte("// "))
		if i < 0 {
			return nil
		}
		i += 3
		j := i
		for j < len(nw) && nw[j] != '\n' {
			j++
		}
		if j == i {
			return nil
		}
		one := r.Bool()
		for k := i; k < j; k++ {
			if one {
				k = i + r.Intn(j-i)
			}
			ch := byte('a' + r.Intn(26))
			if ch == nw[k] {
				ch = 'a' + (ch-'a'+1)%26
			}
			nw[k] = ch
			if one {
				break
			}
		}
		return nw
	}
	switch r.Intn(3) {
	case 0: // one bit
		nw[r.Intn(len(nw))] ^= 1 << uint(r.Intn(8))
	case 1: // everything
		for i := range nw {
			nw[i] = byte(r.Intn(256))
		}
	default: // a rotation (same multiset of bytes)
		k := 1 + r.Intn(len(nw))
		nw = append(append([]byte(nil), old[k%len(old):]...), old[:k%len(old)]...)
	}
	if bytes.Equal(nw, old) {
		nw[0] ^= 0x20
	}
	return nw
}

// kCanSameSize reports whether kSameSize has an answer.
func kCanSameSize(old []byte, protoParse bool) bool {
	if len(old) == 0 {
		return false
	}
	if protoParse {
		i := bytes.Index(old, []byte("// "))
		return i >= 0 && i+3 < len(old) && old[i+3] != '\n'
	}
	return true
}

// kOtherSize returns content of a different length.
func kOtherSize(r *hx.Rand, old []byte, protoParse bool) []byte {
	if protoParse {
		for {
			n := 24 + r.Intn(100)
			if n != len(old) {
				return kProto(r, n)
			}
		}
	}
	switch k := r.Intn(4); {
	case k == 0 && len(old) > 0:
		return append([]byte(nil), old[:r.Intn(len(old))]...) // truncated (possibly to nothing)
	case k == 1 && len(old) > 0:
		return nil
	default:
		nw := append([]byte(nil), old...)
		for i, n := 0, 1+r.Intn(20); i < n; i++ {
			nw = append(nw, byte(r.Intn(256)))
		}
		return nw
	}
}

// pick chooses a recorded file for an edit: the wanted category if it has a candidate, else any
// candidate (twins last for edits that change a size: the swap step wants them equal).
func (c *kCase) pick(needNonEmpty, sparesTwins bool) (string, bool) {
	want := hx.Pick(c.r, []string{"proto", "proto", "proto", "license", "doc", "nonmodule", "nonmodule", "v1side"})
	var inCat, any, twins []string
	for _, f := range c.files {
		if needNonEmpty && (len(f.Content) == 0 || !kCanSameSize(f.Content, c.protoParse(f.Path))) {
			continue
		}
		if sparesTwins && (f.Path == c.twins[0] || f.Path == c.twins[1]) {
			twins = append(twins, f.Path)
			continue
		}
		any = append(any, f.Path)
		if c.category(f.Path) == want {
			inCat = append(inCat, f.Path)
		}
	}
	switch {
	case len(inCat) > 0:
		return hx.Pick(c.r, inCat), true
	case len(any) > 0:
		return hx.Pick(c.r, any), true
	case len(twins) > 0:
		return hx.Pick(c.r, twins), true
	}
	return "", false
}

func (c *kCase) newMtime(full string, old time.Time) time.Time {
	// an explicit new time: two writes inside one kernel timestamp tick would otherwise leave it unchanged
	delta := hx.Pick(c.r, []time.Duration{time.Nanosecond, -time.Nanosecond, time.Second, -time.Second, time.Hour, 1234567 * time.Microsecond})
	nt := old.Add(delta)
	c.kSetTimes(full, nt, nt)
	return nt
}

// ---- one step ----

// step applies op to the directory and to the record; it returns false when op has no candidate.
func (c *kCase) step(op string) bool {
	r := c.r
	st := map[string]any{"op": op}
	rec := func(p string, old, nw []byte, keptMtime bool) {
		st["path"] = strconv.Quote(p)
		st["category"] = c.category(p)
		st["old_content"] = kShort(old)
		st["new_content"] = kShort(nw)
		st["mtime_kept"] = keptMtime
		c.run.Count("K:target=" + c.category(p))
	}
	switch op {
	case "inplace-same-size-keep-mtime", "writeat-same-size-keep-mtime", "flip-one-byte-keep-mtime", "same-size-new-mtime",
		"rename-over-keep-mtime", "delete-recreate-same-size-mtime":
		p, ok := c.pick(true, false)
		if !ok {
			return false
		}
		i := c.at(p)
		old := c.files[i].Content
		nw := kSameSize(r, old, c.protoParse(p))
		full := c.full(p)
		at, mt := kTimes(full)
		kept := true
		switch op {
		case "inplace-same-size-keep-mtime":
			must(os.WriteFile(full, nw, 0o644))
			kept = c.kSetTimes(full, at, mt)
		case "writeat-same-size-keep-mtime":
			f, err := os.OpenFile(full, os.O_WRONLY, 0)
			must(err)
			_, err = f.WriteAt(nw, 0)
			must(err)
			must(f.Close())
			kept = c.kSetTimes(full, at, mt)
		case "flip-one-byte-keep-mtime":
			// only ONE byte differs from the old content
			nw = append([]byte(nil), old...)
			k := r.Intn(len(nw))
			if c.protoParse(p) {
				cm := bytes.Index(nw, []byte("// ")) + 3
				end := cm
				for end < len(nw) && nw[end] != '\n' {
					end++
				}
				k = cm + r.Intn(end-cm)
				nw[k] = 'a' + byte(r.Intn(26))
				if nw[k] == old[k] {
					nw[k] = 'a' + (nw[k]-'a'+1)%26
				}
			} else {
				nw[k] ^= 1 << uint(r.Intn(8))
			}
			f, err := os.OpenFile(full, os.O_WRONLY, 0)
			must(err)
			_, err = f.WriteAt(nw[k:k+1], int64(k))
			must(err)
			must(f.Close())
			kept = c.kSetTimes(full, at, mt)
			st["offset"] = k
		case "same-size-new-mtime":
			must(os.WriteFile(full, nw, 0o644))
			c.newMtime(full, mt)
			kept = false
		case "rename-over-keep-mtime":
			tmp := full + ".tmp~"
			must(os.WriteFile(tmp, nw, 0o644))
			must(os.Rename(tmp, full))
			kept = c.kSetTimes(full, at, mt)
		case "delete-recreate-same-size-mtime":
			must(os.Remove(full))
			must(os.WriteFile(full, nw, 0o644))
			kept = c.kSetTimes(full, at, mt)
		}
		rec(p, old, nw, kept)
		c.files[i].Content = nw
	case "resize-keep-mtime", "resize-new-mtime", "rename-over":
		p, ok := c.pick(false, true)
		if !ok {
			return false
		}
		i := c.at(p)
		old := c.files[i].Content
		var nw []byte
		if op == "rename-over" && r.Bool() {
			nw = kSameSize(r, old, c.protoParse(p))
		}
		if nw == nil {
			nw = kOtherSize(r, old, c.protoParse(p))
		}
		full := c.full(p)
		at, mt := kTimes(full)
		kept := false
		switch op {
		case "resize-keep-mtime":
			must(os.WriteFile(full, nw, 0o644))
			kept = c.kSetTimes(full, at, mt)
		case "resize-new-mtime":
			must(os.WriteFile(full, nw, 0o644))
			c.newMtime(full, mt)
		case "rename-over":
			tmp := full + ".tmp~"
			must(os.WriteFile(tmp, nw, 0o644))
			must(os.Rename(tmp, full))
			if r.Bool() {
				c.newMtime(full, mt)
			}
		}
		rec(p, old, nw, kept)
		c.files[i].Content = nw
	case "swap-twins-keep-mtimes":
		a, b := c.at(c.twins[0]), c.at(c.twins[1])
		if len(c.files[a].Content) != len(c.files[b].Content) || bytes.Equal(c.files[a].Content, c.files[b].Content) {
			return false
		}
		kept := true
		for _, pr := range [][2]int{{a, b}, {b, a}} {
			full := c.full(c.files[pr[0]].Path)
			at, mt := kTimes(full)
			must(os.WriteFile(full, c.files[pr[1]].Content, 0o644))
			kept = c.kSetTimes(full, at, mt) && kept
		}
		st["paths"] = []string{strconv.Quote(c.twins[0]), strconv.Quote(c.twins[1])}
		st["mtime_kept"] = kept
		c.files[a].Content, c.files[b].Content = c.files[b].Content, c.files[a].Content
	case "touch-only", "rewrite-same-bytes":
		p, ok := c.pick(false, false)
		if !ok {
			return false
		}
		i := c.at(p)
		full := c.full(p)
		at, mt := kTimes(full)
		kept := false
		if op == "rewrite-same-bytes" {
			must(os.WriteFile(full, c.files[i].Content, 0o644))
			if r.Bool() {
				kept = c.kSetTimes(full, at, mt)
			} else {
				c.newMtime(full, mt)
			}
		} else {
			c.newMtime(full, mt)
		}
		rec(p, c.files[i].Content, c.files[i].Content, kept)
	case "inplace-same-size-keep-mtime-all":
		n := 0
		for i, f := range c.files {
			nw := kSameSize(r, f.Content, c.protoParse(f.Path))
			if nw == nil {
				continue
			}
			full := c.full(f.Path)
			at, mt := kTimes(full)
			must(os.WriteFile(full, nw, 0o644))
			c.kSetTimes(full, at, mt)
			c.files[i].Content = nw
			n++
		}
		if n == 0 {
			return false
		}
		st["files_rewritten"] = n
	case "copy-dir-same-sizes-mtimes", "replace-dir-same-sizes-mtimes":
		// a second directory with the same relative paths, sizes and mtimes; at least one module file has other bytes
		c.gen++
		oldDir := c.dir()
		if op == "replace-dir-same-sizes-mtimes" {
			// the subject keeps its NAME (same LocalPaths); the old tree moves aside
			moved := filepath.Join(c.root, "old"+strconv.Itoa(c.gen))
			must(os.Rename(oldDir, moved))
			oldDir = moved
		} else {
			c.rel = "copy" + strconv.Itoa(c.gen)
		}
		changed := 0
		keepAll := true
		for i, f := range c.files {
			nw := f.Content
			if s := kSameSize(r, f.Content, c.protoParse(f.Path)); s != nil && (changed == 0 && c.category(f.Path) != "nonmodule" && c.category(f.Path) != "v1side" || r.Chance(2, 3)) {
				nw = s
				if cat := c.category(f.Path); cat != "nonmodule" && cat != "v1side" {
					changed++
				}
			}
			at, mt := kTimes(filepath.Join(oldDir, filepath.FromSlash(f.Path)))
			kWrite(c.full(f.Path), nw)
			keepAll = c.kSetTimes(c.full(f.Path), at, mt) && keepAll
			c.files[i].Content = nw
		}
		st["directory"] = c.rel
		st["module_files_with_other_bytes"] = changed
		st["mtime_kept"] = keepAll
		st["new_files"] = kShowFiles(c.files)
	case "add-file":
		var p string
		for tries := 0; ; tries++ {
			p = hx.Pick(r, []string{"added.proto", "tw/added.proto", "new dir/añadido.proto", "LICENSE", "buf.md", "README.md", "added.txt", "notes/added  file.txt"})
			if tries > 20 {
				p = "added_" + strconv.Itoa(len(c.files)) + "_" + strconv.Itoa(tries) + ".proto"
			}
			clash := false
			for _, f := range c.files {
				clash = clash || conflicts(p, f.Path)
			}
			if !clash {
				break
			}
		}
		var data []byte
		if c.protoParse(p) {
			data = kProto(r, 24+r.Intn(60))
		} else {
			data = genContent(r, "x.bin", false)
		}
		parent := filepath.Dir(c.full(p))
		_, perr := os.Stat(parent)
		var pat, pmt time.Time
		if perr == nil {
			pat, pmt = kTimes(parent)
		}
		kWrite(c.full(p), data)
		if perr == nil && r.Bool() {
			c.kSetTimes(parent, pat, pmt)
			st["directory_mtime_kept"] = true
		}
		c.files = append(c.files, file{p, data})
		rec(p, nil, data, false)
	case "remove-file":
		var cands []string
		for _, f := range c.files {
			// the twins stay (a local module needs a .proto file)
			if f.Path != c.twins[0] && f.Path != c.twins[1] {
				cands = append(cands, f.Path)
			}
		}
		if len(cands) == 0 {
			return false
		}
		p := hx.Pick(r, cands)
		i := c.at(p)
		st["path"] = strconv.Quote(p)
		st["category"] = c.category(p)
		c.run.Count("K:target=" + c.category(p))
		parent := filepath.Dir(c.full(p))
		pat, pmt := kTimes(parent)
		must(os.Remove(c.full(p)))
		if r.Bool() {
			c.kSetTimes(parent, pat, pmt)
			st["directory_mtime_kept"] = true
		}
		c.files = append(c.files[:i:i], c.files[i+1:]...)
	case "revert-keep-mtimes", "revert-original-mtimes":
		if kSameFiles(c.files, c.orig) {
			return false
		}
		for _, f := range c.files {
			if !inFiles(c.orig, f.Path) {
				must(os.Remove(c.full(f.Path)))
			}
		}
		for _, f := range c.orig {
			full := c.full(f.Path)
			i := indexOf(c.files, f.Path)
			switch {
			case i < 0:
				kWrite(full, f.Content)
				t := c.origTimes[f.Path]
				c.kSetTimes(full, t[0], t[1])
			case !bytes.Equal(c.files[i].Content, f.Content) || op == "revert-original-mtimes":
				at, mt := kTimes(full)
				must(os.WriteFile(full, f.Content, 0o644))
				if op == "revert-original-mtimes" {
					t := c.origTimes[f.Path]
					at, mt = t[0], t[1]
				}
				c.kSetTimes(full, at, mt)
			}
		}
		c.files = cloneFiles(c.orig)
	default:
		panic("section K: unknown op " + op)
	}
	c.steps = append(c.steps, st)
	c.run.Count("K:op=" + op)
	return true
}

func kSorted(files []file) []file {
	out := append([]file(nil), files...)
	sort.Slice(out, func(i, j int) bool { return out[i].Path < out[j].Path })
	return out
}

func kSameFiles(a, b []file) bool {
	a, b = kSorted(a), kSorted(b)
	if len(a) != len(b) {
		return false
	}
	for i := range a {
		if a[i].Path != b[i].Path || !bytes.Equal(a[i].Content, b[i].Content) {
			return false
		}
	}
	return true
}

// kReadBack is the harness's own reading of the directory (os.ReadFile; no buf code).
func kReadBack(dir string) []file {
	var out []file
	must(filepath.WalkDir(dir, func(p string, d fs.DirEntry, err error) error {
		if err != nil {
			return err
		}
		if d.Type().IsRegular() {
			rel, err := filepath.Rel(dir, p)
			if err != nil {
				return err
			}
			data, err := os.ReadFile(p)
			if err != nil {
				return err
			}
			out = append(out, file{filepath.ToSlash(rel), data})
		}
		return nil
	}))
	return out
}

func (c *kCase) v1Side(name string) (string, []byte, bool) {
	if !c.b4 {
		return "", nil, false
	}
	if i := indexOf(c.files, name); i >= 0 {
		return name, c.files[i].Content, true
	}
	return "", nil, false
}

// oracleB4 is the published b4 construction over the harness's record: SHAKE256 of the manifest
// of the module files plus the v1 buf.yaml / buf.lock side files.
func (c *kCase) oracleB4() (want string, manifestText string, extra []file) {
	for _, n := range []string{"buf.yaml", "buf.lock"} {
		if name, data, ok := c.v1Side(n); ok {
			extra = append(extra, file{name, data})
		}
	}
	all := append(append([]file(nil), oracleModuleFiles(c.files)...), extra...)
	sort.SliceStable(all, func(i, j int) bool { return all[i].Path < all[j].Path })
	mt := oracleManifestText(all)
	return "shake256:" + hex.EncodeToString(shake([]byte(mt))), mt, extra
}

func kOSBucket(root string, symlinks bool) storage.ReadWriteBucket {
	var opts []storageos.ProviderOption
	var bopts []storageos.ReadWriteBucketOption
	if symlinks { // both options are needed for symlinks to be followed
		opts = append(opts, storageos.ProviderWithSymlinks())
		bopts = append(bopts, storageos.ReadWriteBucketWithSymlinksIfSupported())
	}
	b, err := storageos.NewProvider(opts...).NewReadWriteBucket(root, bopts...)
	must(err)
	return b
}

func (c *kCase) viewBucket(view string) storage.ReadBucket {
	switch view {
	case "provider-with-symlinks":
		return kOSBucket(c.dir(), true)
	case "parent-bucket-map-on-prefix":
		return storage.MapReadBucket(kOSBucket(c.root, false), storage.MapOnPrefix(c.rel))
	case "symlink-to-directory":
		link := filepath.Join(c.root, "lnk")
		os.Remove(link)
		must(os.Symlink(c.rel, link))
		return kOSBucket(link, true)
	case "relative-root":
		wd, err := os.Getwd()
		must(err)
		rel, err := filepath.Rel(wd, c.dir())
		if err != nil {
			return kOSBucket(c.dir(), false)
		}
		return kOSBucket(filepath.ToSlash(rel), false)
	}
	panic("section K: unknown view " + view)
}

// observe digests the subject through every backend and checks the oracle for this step.
func (c *kCase) observe(stepNo int, label string) {
	run := c.run
	wantB5 := oracleB5(c.files, c.deps)
	var now kDigests
	desc := map[string]any{}
	if len(c.steps) > 0 {
		desc = c.steps[len(c.steps)-1]
	}
	check := func(kind, backend, got string, err error, want string) bool {
		run.Eval()
		if err != nil {
			c.fail("digest-error", fmt.Sprintf("step %d (%s): %s via %s failed: %v", stepNo, label, kind, backend, err))
			return false
		}
		if got != want {
			if strings.HasPrefix(backend, "disk") {
				c.fail("disk-digest-stale", fmt.Sprintf("step %d (%s): %s of the directory via %s is %s, the published construction over the bytes that are in the files NOW gives %s", stepNo, label, kind, backend, got, want))
			} else {
				c.fail("b5-construction", fmt.Sprintf("step %d (%s): %s via %s is %s, the published construction gives %s", stepNo, label, kind, backend, got, want))
			}
		}
		return true
	}
	// (1) disk, plain bucket on the directory, remote-style module
	remote, err := remoteB5(kOSBucket(c.dir(), false), c.deps, wantB5, modOpts{})
	okRemote := check("Module.Digest(b5) of a remote-style module", "disk", remote, err, wantB5)
	if okRemote {
		now.remote = remote
		desc["disk_b5"] = remote
	}
	// (2) disk, second view; a local module when the files are parseable
	view := kViews[(stepNo+c.idx)%len(kViews)]
	run.Count("K:view=" + view)
	if c.parseable {
		want := oracleB5(c.files, nil)
		d, err := localDigest(c.viewBucket(view), modOpts{}, bufmodule.DigestTypeB5, nil, nil)
		if check("Module.Digest(b5) of a local module", "disk:"+view, d, err, want) {
			now.second = d
		}
	} else {
		d, err := remoteB5(c.viewBucket(view), c.deps, wantB5, modOpts{})
		if check("Module.Digest(b5) of a remote-style module", "disk:"+view, d, err, wantB5) {
			now.second = d
		}
	}
	// (3) b4 with the v1 side files read through the disk bucket
	var b4Line string
	if c.b4 {
		want, mt, extra := c.oracleB4()
		bucket := kOSBucket(c.dir(), false)
		var objs [2]bufmodule.ObjectData
		encs := [2]string{"-", "-"}
		for k, n := range []string{"buf.yaml", "buf.lock"} {
			if _, _, ok := c.v1Side(n); ok {
				data, err := storage.ReadPath(ctx, bucket, n)
				must(err)
				o, err := bufmodule.NewObjectData(n, data)
				must(err)
				objs[k] = o
				encs[k] = hx.Enc(n) + "=" + encB(data)
			}
		}
		d, err := localDigest(bucket, modOpts{}, bufmodule.DigestTypeB4, objs[0], objs[1])
		if check("Module.Digest(b4)", "disk", d, err, want) {
			now.b4 = d
			desc["disk_b4"] = d
			t := newTable()
			for _, f := range c.files {
				t.add(f.Content)
			}
			for _, f := range extra {
				t.add(f.Content)
			}
			t.add([]byte(mt))
			b4Line = "b4\t" + t.enc() + "\t" + encBucket(c.files) + "\t" + encs[0] + "\t" + encs[1]
		}
	}
	// (4) memory and tar: the bytes the harness reads back itself
	back := kReadBack(c.dir())
	if !kSameFiles(back, c.files) {
		c.fail("section-k-harness-bookkeeping", fmt.Sprintf("step %d (%s): the directory holds %q, the harness recorded %q", stepNo, label, showFiles(kSorted(back)), showFiles(kSorted(c.files))))
		return
	}
	mem, err := remoteB5(memBucket(back), c.deps, wantB5, modOpts{})
	okMem := check("Module.Digest(b5) of a remote-style module", "memory", mem, err, wantB5)
	if okMem && okRemote && mem != remote {
		c.fail("disk-digest-differs-from-memory", fmt.Sprintf("step %d (%s): the same files give %s from disk and %s from memory", stepNo, label, remote, mem))
	}
	if stepNo%2 == 0 {
		tar, err := remoteB5(tarRoundTrip(back), c.deps, wantB5, modOpts{})
		if check("Module.Digest(b5) of a remote-style module", "tar-roundtrip", tar, err, wantB5) && okRemote && tar != remote {
			c.fail("disk-digest-differs-from-memory", fmt.Sprintf("step %d (%s): the same files give %s from disk and %s through a tar round trip", stepNo, label, remote, tar))
		}
	}
	// (5) the implementation against ITSELF along the history
	if stepNo == 0 {
		c.first = now
	} else {
		modNow, modPrev, modOrig := oracleModuleFiles(c.files), oracleModuleFiles(c.prevFiles), oracleModuleFiles(c.orig)
		changed := !kSameFiles(modNow, modPrev)
		side := func(fs []file) string {
			var sb strings.Builder
			for _, n := range []string{"buf.yaml", "buf.lock"} {
				if i := indexOf(fs, n); i >= 0 {
					sb.WriteString(n + "\x00" + string(fs[i].Content) + "\x00")
				}
			}
			return sb.String()
		}
		cmp := func(kind, got, prev, first string, changed, reverted bool) {
			if got == "" {
				return
			}
			if prev != "" {
				if changed && got == prev {
					c.fail("digest-insensitive-to-content-change", fmt.Sprintf("step %d (%s): the bytes of what %s covers changed, its value from disk is still %s", stepNo, label, kind, got))
				}
				if !changed && got != prev {
					c.fail("digest-changed-without-content-change", fmt.Sprintf("step %d (%s): nothing that %s covers changed, its value from disk went from %s to %s", stepNo, label, kind, prev, got))
				}
			}
			if reverted && first != "" && got != first {
				c.fail("digest-not-restored-after-revert", fmt.Sprintf("step %d (%s): the files %s covers are the original ones again, its value from disk is %s, at the start it was %s", stepNo, label, kind, got, first))
			}
		}
		reverted := kSameFiles(modNow, modOrig)
		if changed {
			run.Count("K:step-changes-module-files")
		} else {
			run.Count("K:step-leaves-module-files")
		}
		if reverted {
			run.Count("K:step-back-at-original-module-files")
		}
		cmp("b5 (remote-style module)", now.remote, c.prev.remote, c.first.remote, changed, reverted)
		cmp("b5 (second view)", now.second, c.prev.second, c.first.second, changed, reverted)
		sideChanged := side(c.files) != side(c.prevFiles)
		cmp("b4", now.b4, c.prev.b4, c.first.b4, changed || sideChanged, reverted && side(c.files) == side(c.orig))
	}
	c.prev = now
	c.prevFiles = cloneFiles(c.files)
	// (6) the model: digest of the CURRENT bytes, against what the disk backend answered
	if c.lines && !c.big && okRemote {
		line, _ := b5Line(c.files, c.deps)
		run.Case(line, "ok "+remote, true)
		if b4Line != "" && now.b4 != "" && stepNo%2 == 0 {
			run.Case(b4Line, "ok "+now.b4, true)
		}
	}
}

func kPinned(policy string, k int) (time.Time, bool) {
	switch policy {
	case "pinned-2020":
		return time.Date(2020, time.January, 1, 0, 0, 0, 0, time.UTC), true
	case "pinned-epoch":
		return time.Unix(0, 0), true
	case "pinned-with-nanoseconds":
		return time.Date(2021, time.March, 4, 5, 6, 7, 123456789, time.UTC), true
	case "per-file-whole-seconds":
		return time.Date(2019, time.June, 1, 12, 0, k, 0, time.UTC), true
	}
	return time.Time{}, false
}

func kHistoryCase(run *hx.Run, idx, i int, r *hx.Rand, tmp string) {
	c := &kCase{run: run, idx: idx, r: r, root: filepath.Join(tmp, "k"+strconv.Itoa(i)), rel: "mod", failed: map[string]bool{}, origTimes: map[string][2]time.Time{}}
	defer os.RemoveAll(c.root)
	defer func() {
		if p := recover(); p != nil {
			c.fail("panic", fmt.Sprintf("disk history case panicked: %v", p))
		}
	}()
	c.parseable = r.Chance(1, 2)
	c.b4 = i%3 == 0
	c.policy = kPolicies[(i/len(kFirstOps)+i)%len(kPolicies)]
	c.big = i%23 == 11
	c.lines = !run.Thorough() || i%4 == 0
	// ---- the module ----
	base := genFileSet(r, c.parseable)
	tw := kTwinPaths[(i/3)%len(kTwinPaths)]
	c.twins = tw
	n := 24 + r.Intn(80)
	if !c.parseable && r.Chance(1, 3) {
		n = 1 + r.Intn(8)
	}
	if c.big {
		n = hx.Pick(r, []int{32768, 32769, 40000, 70001})
	}
	var planted []file
	if c.parseable {
		planted = append(planted, file{tw[0], kProto(r, n)}, file{tw[1], kProto(r, n)})
	} else {
		a := make([]byte, n)
		b := make([]byte, n)
		for k := range a {
			a[k], b[k] = byte(r.Intn(256)), byte(r.Intn(256))
		}
		if bytes.Equal(a, b) {
			b[0] ^= 1
		}
		planted = append(planted, file{tw[0], a}, file{tw[1], b})
	}
	text := func() []byte { return []byte("text " + strconv.FormatUint(r.Uint64(), 36) + "\n") }
	if r.Bool() {
		planted = append(planted, file{"LICENSE", text()})
	}
	switch r.Intn(4) {
	case 0:
		planted = append(planted, file{"buf.md", text()})
	case 1:
		planted = append(planted, file{"README.md", text()})
	case 2: // README.md is shadowed by buf.md: not a module file
		planted = append(planted, file{"buf.md", text()}, file{"README.md", text()})
	}
	planted = append(planted, file{hx.Pick(r, []string{"notes.txt", "docs/x y.txt", "tw/b.proto.bak", "日本.txt", "sub/LICENSE"}), text()})
	if c.b4 {
		planted = append(planted, file{"buf.yaml", text()})
		if r.Bool() {
			planted = append(planted, file{"buf.lock", text()})
		}
	}
	var files []file
	for _, p := range planted {
		clash := false
		for _, f := range files {
			clash = clash || conflicts(p.Path, f.Path)
		}
		if !clash {
			files = append(files, p)
		}
	}
	for _, f := range base {
		clash := false
		for _, g := range files {
			clash = clash || conflicts(f.Path, g.Path)
		}
		if !clash && !strings.Contains(f.Path, "\n") {
			files = append(files, f)
		}
	}
	hx.Shuffle(r, files)
	c.files = files
	if !c.parseable || r.Bool() {
		for k, m := 0, r.Intn(3); k < m; k++ {
			c.deps = append(c.deps, "b5:"+hex.EncodeToString(randDigestBytes(r)))
		}
	}
	// ---- on disk ----
	must(os.MkdirAll(c.dir(), 0o755))
	for _, f := range c.files {
		kWrite(c.full(f.Path), f.Content)
	}
	for k, f := range c.files {
		if t, ok := kPinned(c.policy, k); ok {
			c.kSetTimes(c.full(f.Path), t, t)
		}
		at, mt := kTimes(c.full(f.Path))
		c.origTimes[f.Path] = [2]time.Time{at, mt}
	}
	c.orig = cloneFiles(c.files)
	run.Count("K:policy=" + c.policy)
	run.Count(fmt.Sprintf("K:parseable=%v,b4=%v", c.parseable, c.b4))
	// ---- the history ----
	c.observe(0, "start")
	nSteps := 3 + r.Intn(6)
	run.Count("K:steps=" + strconv.Itoa(nSteps))
	for s := 1; s <= nSteps; s++ {
		op := hx.Pick(r, kLaterOps)
		if s == 1 {
			op = kFirstOps[i%len(kFirstOps)]
		} else if s == nSteps && r.Bool() {
			op = hx.Pick(r, []string{"revert-keep-mtimes", "revert-original-mtimes"})
		}
		for tries := 0; !c.step(op); tries++ {
			run.Count("K:op-not-applicable=" + op)
			op = hx.Pick(r, []string{"inplace-same-size-keep-mtime", "writeat-same-size-keep-mtime", "same-size-new-mtime"})
			if tries > 5 {
				panic("section K: no applicable step")
			}
		}
		c.observe(s, op)
	}
	if i < 2 {
		run.Sample(map[string]any{"section": "K", "history": c.input()})
	}
}

// sectionK runs the section; case i has index kBase+i whatever the other sections did.
// on is the C08_SECTIONS switch of main (letter K).
func sectionK(run *hx.Run, r *hx.Rand, tmp string, on bool) {
	if !on {
		return
	}
	n := run.N(150, 2000)
	for i := 0; i < n; i++ {
		idx := kBase + i
		if run.Only >= 0 && run.Only != idx {
			continue
		}
		kHistoryCase(run, idx, i, r.Fork(uint64(i)), tmp)
	}
}
