package main

// Section I: module-set digests over the IMPORT-MODIFIER family (strengthening round 6-E; seed
// C08-m9 made getModuleDepsRec skip `import weak` statements: the b5 digest of a local module
// that reaches a dependency only through weak imports silently stopped covering it, and nothing
// noticed because Section G writes every import as a plain `import "…";`).
//
// The members come from the shared generator (internal/wsgen/modifiers.go, also used by C10):
// plain / public / weak as the ONLY link between two modules, chains with every pair of
// modifiers, the same dependency imported with different modifiers from two files, several
// modifiers in one import list, a well-known type (built-in / vendored by a module of the set),
// an import inside one module, diamonds, direct-and-transitive; dependencies are local or
// remote modules (remote ones with random pinned dependency digests); plus LICENSE / doc /
// non-module files.  For every member
//
//	(1) construction: Module.Digest(b5) of every module equals the INDEPENDENT SHAKE256
//	    construction over its files digest and the sorted digests of its resolved dependencies,
//	    where "resolved dependencies" is computed HERE from the import statements of the rendered
//	    sources (every modifier counts; a built-in well-known type is no dependency) - and
//	    cross-checked against the hand-written expectation of the member's shape;
//	(2) sensitivity: for every module d of the set one byte of one of its module files is changed
//	    and the whole set rebuilt - the digest of a local module i changes iff d is i or one of
//	    its resolved dependencies (weak-only, public-only, plain-only, transitive through a chain);
//	    rebuilding the unchanged set gives the same digests;
//	(3) members with an import nobody provides / a module cycle (closed by any modifier): no
//	    digest for the modules that reach it.
//
// Protocol: the ordinary `mset` lines (the dependency closure travels on the line, numbered
// topologically), for every module of the base set and for the importer of every perturbed set.
// Own generator stream r.Fork(12); case indices iBase + 16*member + round.

import (
	"errors"
	"fmt"
	"sort"
	"strconv"
	"strings"

	"github.com/bufbuild/buf/private/bufpkg/bufmodule"
	"github.com/bufbuild/buf/private/bufpkg/bufparse"
	"github.com/bufbuild/buf/private/pkg/slogext"
	"github.com/bufbuild/buf/private/pkg/storage"
	"github.com/bufbuild/verifharness/internal/hx"
	"github.com/bufbuild/verifharness/internal/wsgen"
	"github.com/google/uuid"
)

const iBase = 7_000_000 // first case index of Section I

type kMod struct {
	a      *wsgen.Added
	oid    string
	letter string
	files  []file   // every file of the bucket (rendered sources + LICENSE / doc / other files)
	pinned []string // remote: pinned dependency digests
}

// kResolve computes, from the import statements alone, the direct dependencies of every module
// (indices), whether it has an import nobody provides, and the transitive closure.
func kResolve(mods []kMod) (direct [][]int, unresolved []bool, closure [][]int) {
	provider := map[string]int{}
	for i, m := range mods {
		for _, f := range m.a.Files {
			provider[f.Path] = i
		}
	}
	n := len(mods)
	direct = make([][]int, n)
	unresolved = make([]bool, n)
	for i, m := range mods {
		set := map[int]bool{}
		for _, f := range m.a.Files {
			for _, imp := range f.Imports { // plain, public and weak alike
				j, ok := provider[imp.Path]
				switch {
				case ok && j != i:
					set[j] = true
				case !ok && !strings.HasPrefix(imp.Path, "google/protobuf/"):
					unresolved[i] = true
				}
			}
		}
		for j := range set {
			direct[i] = append(direct[i], j)
		}
		sort.Ints(direct[i])
	}
	closure = make([][]int, n)
	for i := range mods {
		seen := map[int]bool{}
		stack := append([]int(nil), direct[i]...)
		for len(stack) > 0 {
			j := stack[len(stack)-1]
			stack = stack[:len(stack)-1]
			if seen[j] {
				continue
			}
			seen[j] = true
			stack = append(stack, direct[j]...)
		}
		for j := range seen {
			closure[i] = append(closure[i], j)
		}
		sort.Ints(closure[i])
	}
	return
}

func kHas(xs []int, x int) bool {
	for _, y := range xs {
		if y == x {
			return true
		}
	}
	return false
}

// kWant computes the published digests bottom-up (mods are numbered topologically); a module
// that cannot have a digest gets "".
func kWant(mods []kMod, closure [][]int, noDigest []bool, t *table) []string {
	want := make([]string, len(mods))
	for i, m := range mods {
		for _, f := range m.files {
			t.add(f.Content)
		}
		if noDigest[i] {
			continue
		}
		var deps []string
		if m.a.Local {
			for _, j := range closure[i] {
				deps = append(deps, want[j])
			}
		} else {
			deps = m.pinned
		}
		want[i] = oracleB5(m.files, deps)
		mt := oracleManifestText(oracleModuleFiles(m.files))
		t.add([]byte(mt))
		t.add([]byte(oracleB5Preimage(mt, deps)))
	}
	return want
}

// kBuild builds the real module set and returns Module.Digest(b5) of every module ("" + error
// when there is none).
func kBuild(mods []kMod, want []string) (got []string, errs []error) {
	datas := map[string]bufmodule.ModuleData{}
	b := bufmodule.NewModuleSetBuilder(ctx, slogext.NopLogger, &provider{datas}, bufmodule.NopCommitProvider)
	names := make([]bufparse.FullName, len(mods))
	for i, m := range mods {
		if m.a.Name != "" {
			fn, err := bufparse.ParseFullName(m.a.Name)
			must(err)
			names[i] = fn
		}
		if m.a.Local {
			var opts []bufmodule.LocalModuleOption
			if names[i] != nil {
				opts = append(opts, bufmodule.LocalModuleWithFullName(names[i]))
			}
			b.AddLocalModule(memBucket(m.files), m.a.Dir, m.a.Target, opts...)
			continue
		}
		pin := want[i]
		if pin == "" {
			pin = "b5:" + strings.Repeat("00", 64)
		}
		exp := parseMDigest(pin)
		key, err := bufmodule.NewModuleKey(names[i], uuid.New(), func() (bufmodule.Digest, error) { return exp, nil })
		must(err)
		keys := depKeys(m.pinned)
		bucket := memBucket(m.files)
		datas[key.FullName().String()] = bufmodule.NewModuleData(ctx, key,
			func() (storage.ReadBucket, error) { return bucket, nil },
			func() ([]bufmodule.ModuleKey, error) { return keys, nil },
			func() (bufmodule.ObjectData, error) { return nil, nil },
			func() (bufmodule.ObjectData, error) { return nil, nil })
		b.AddRemoteModule(key, false)
	}
	ms, err := b.Build()
	must(err)
	got = make([]string, len(mods))
	errs = make([]error, len(mods))
	for i, m := range mods {
		var mod bufmodule.Module
		if m.a.Local {
			mod = ms.GetModuleForBucketID(m.a.Dir)
		} else {
			mod = ms.GetModuleForFullName(names[i])
		}
		if mod == nil {
			errs[i] = errors.New("module not in the module set")
			continue
		}
		d, err := mod.Digest(bufmodule.DigestTypeB5)
		if err != nil {
			var mm *bufmodule.DigestMismatchError
			if errors.As(err, &mm) && mm.ActualDigest != nil {
				got[i] = mm.ActualDigest.String()
			} else {
				errs[i] = err
			}
			continue
		}
		got[i] = d.String()
	}
	return
}

func kParts(mods []kMod, closure [][]int) []string {
	parts := make([]string, len(mods))
	for i, m := range mods {
		if m.a.Local {
			ds := make([]string, len(closure[i]))
			for k, j := range closure[i] {
				ds[k] = strconv.Itoa(j)
			}
			dl := "-"
			if len(ds) > 0 {
				dl = strings.Join(ds, ".")
			}
			parts[i] = "L;" + encBucket(m.files) + ";" + dl
		} else {
			parts[i] = "R;" + encBucket(m.files) + ";" + encList(m.pinned)
		}
	}
	return parts
}

// kFlip returns a copy of mods in which one byte of one MODULE file of module d is changed (a
// letter of a comment in a .proto file, any byte of a LICENSE / doc file).
func kFlip(r *hx.Rand, mods []kMod, d int) ([]kMod, string) {
	out := make([]kMod, len(mods))
	copy(out, mods)
	out[d].files = cloneFiles(mods[d].files)
	mf := oracleModuleFiles(out[d].files)
	f := hx.Pick(r, mf)
	k := indexOf(out[d].files, f.Path)
	c := out[d].files[k].Content
	if oracleExt(f.Path) == ".proto" {
		at := strings.Index(string(c), "the message of this file")
		c[at+r.Intn(len("the message of this file"))] = 'X'
	} else {
		if len(c) == 0 {
			out[d].files[k].Content = []byte{'x'}
		} else {
			c[r.Intn(len(c))] ^= 0x20
		}
	}
	return out, f.Path
}

// kLinks lists the import statements of module i that lead to module j.
func kLinks(mods []kMod, i, j int) string {
	provides := map[string]bool{}
	for _, f := range mods[j].a.Files {
		provides[f.Path] = true
	}
	var out []string
	for _, f := range mods[i].a.Files {
		for _, imp := range f.Imports {
			if provides[imp.Path] {
				out = append(out, fmt.Sprintf("%s: import %s %q", f.Path, wsgen.ModName(imp.Mod()), imp.Path))
			}
		}
	}
	return strings.Join(out, "; ")
}

func kDescribe(mods []kMod) map[string]any {
	out := map[string]any{}
	for i, m := range mods {
		fs := map[string]string{}
		for _, f := range m.files {
			fs[f.Path] = string(f.Content)
		}
		out[fmt.Sprintf("module %d (%s, %s, local=%v)", i, m.letter, m.oid, m.a.Local)] = fs
	}
	return out
}

func kindCase(run *hx.Run, idx int, r *hx.Rand, k int) {
	defer func() {
		if p := recover(); p != nil {
			failure(run, hx.OracleFailure{Class: "panic", What: fmt.Sprintf("import-kind module-set case panicked: %v", p), Input: nil, Replay: failReplay(run, idx)})
		}
	}()
	m := wsgen.GenModifierFamily(r, k, "mem")
	letterOf := map[string]string{}
	for l, oid := range m.Letters {
		letterOf[oid] = l
	}
	pre := make([]kMod, len(m.WS.Added))
	for i := range m.WS.Added {
		a := &m.WS.Added[i]
		km := kMod{a: a, oid: a.OID(), letter: letterOf[a.OID()]}
		for j := range a.Files {
			src, _, _ := a.Files[j].Source()
			km.files = append(km.files, file{a.Files[j].Path, []byte(src)})
		}
		if r.Chance(1, 3) {
			km.files = append(km.files, file{"LICENSE", genContent(r, "L", false)})
		}
		if r.Chance(1, 3) {
			km.files = append(km.files, file{hx.Pick(r, []string{"buf.md", "README.md", "README.markdown"}), genContent(r, "D", false)})
		}
		if r.Chance(1, 4) {
			km.files = append(km.files, file{"buf.yaml", []byte("version: v2\n")})
		}
		if !a.Local {
			for q, c := 0, r.Intn(3); q < c; q++ {
				km.pinned = append(km.pinned, "b5:"+hexString(randDigestBytes(r)))
			}
		}
		pre[i] = km
	}
	// number the modules topologically (resolved dependencies first): in an acyclic set the
	// closure of a dependency is strictly smaller than the closure of its importer
	_, _, preClosure := kResolve(pre)
	order := make([]int, len(pre))
	for i := range order {
		order[i] = i
	}
	// (remote modules first: their digests are pinned, nothing is resolved for them)
	sort.SliceStable(order, func(x, y int) bool {
		lx, ly := pre[order[x]].a.Local, pre[order[y]].a.Local
		if lx != ly {
			return !lx
		}
		return len(preClosure[order[x]]) < len(preClosure[order[y]])
	})
	mods := make([]kMod, len(pre))
	for i, o := range order {
		mods[i] = pre[o]
	}
	direct, unresolved, closure := kResolve(mods)
	n := len(mods)
	noDigest := make([]bool, n)
	anyNoDigest := false
	// Module.Digest(b5) of a LOCAL module needs its own ModuleDeps() - which fails when the module
	// lies on a cycle or when it or anything it reaches has an import nobody provides (a module
	// that merely reaches a cycle is fine) - and the digest of every resolved dependency; a remote
	// module's digest is its key's and never depends on what it imports.
	depsFail := make([]bool, n)
	for i := range mods {
		depsFail[i] = kHas(closure[i], i)
		for _, x := range append([]int{i}, closure[i]...) {
			depsFail[i] = depsFail[i] || unresolved[x]
		}
	}
	for i := range mods {
		if !mods[i].a.Local {
			continue
		}
		noDigest[i] = depsFail[i]
		for _, x := range closure[i] {
			if mods[x].a.Local && depsFail[x] {
				noDigest[i] = true
			}
		}
		anyNoDigest = anyNoDigest || noDigest[i]
	}
	input := func(extra map[string]any) map[string]any {
		in := map[string]any{"member": m.Label, "modules": kDescribe(mods), "resolved_dependencies": closure}
		for k, v := range extra {
			in[k] = v
		}
		return in
	}
	fail := func(class, what string, extra map[string]any) {
		failure(run, hx.OracleFailure{Class: class, What: fmt.Sprintf("member %s: %s", m.Label, what), Input: input(extra), Replay: failReplay(run, idx)})
	}
	run.Count("ik:shape:" + m.Shape)
	for _, t := range m.Tags {
		run.Count("ik:" + t)
	}
	// the closure computed from the import statements must be the hand-written one of the shape
	for i := range mods {
		exp, ok := m.ExpDeps[mods[i].oid]
		if !ok {
			continue
		}
		gotSet := map[string]bool{}
		for _, j := range closure[i] {
			gotSet[mods[j].oid] = kHas(direct[i], j)
		}
		if fmt.Sprint(gotSet) != fmt.Sprint(exp) {
			fail("ik-harness-closure-disagrees", fmt.Sprintf("module %s: closure from the import statements %v, expectation of the shape %v (harness bug)", mods[i].oid, gotSet, exp), nil)
			return
		}
	}
	t := newTable()
	want := kWant(mods, closure, noDigest, t)
	got, errs := kBuild(mods, want)
	parts := kParts(mods, closure)
	lineFor := func(t *table, parts []string, i int) string {
		return "mset\t" + t.enc() + "\t" + strings.Join(parts, "|") + "\t" + strconv.Itoa(i)
	}
	ok := true
	for i := range mods {
		if noDigest[i] {
			run.Eval()
			run.Count("ik:no-digest-expected")
			if errs[i] == nil {
				ok = false
				fail("b5-import-kind-unresolved-digested", fmt.Sprintf("module %d (%s) reaches an import nobody provides or lies on / reaches a module cycle, but Module.Digest(b5) = %s", i, mods[i].oid, got[i]), nil)
			}
			continue
		}
		if anyNoDigest {
			// no protocol lines for a set with an unresolvable module (the model's set digest walks all of it)
			run.Eval()
		}
		if errs[i] != nil {
			ok = false
			if !anyNoDigest {
				run.Case(lineFor(t, parts, i), classify(errs[i]), true)
			}
			fail("b5-import-kind-digest-error", fmt.Sprintf("Module.Digest(b5) of module %d (%s) failed: %v", i, mods[i].oid, errs[i]), nil)
			continue
		}
		if !anyNoDigest {
			run.Case(lineFor(t, parts, i), "ok "+got[i], len(closure[i]) > 0 || len(mods[i].pinned) > 0)
		}
		run.Count(fmt.Sprintf("ik:mset:local=%v:deps=%d", mods[i].a.Local, len(closure[i])))
		if got[i] == want[i] {
			continue
		}
		ok = false
		// which resolved dependencies does the digest NOT cover?
		dropped := ""
		if mods[i].a.Local {
			c := closure[i]
			for mask := 0; mask < 1<<len(c)-1 && dropped == ""; mask++ {
				var deps []string
				var missing []string
				for b, j := range c {
					if mask&(1<<b) != 0 {
						deps = append(deps, want[j])
					} else {
						missing = append(missing, fmt.Sprintf("module %d (%s; %s)", j, mods[j].oid, kLinks(mods, i, j)))
					}
				}
				if oracleB5(mods[i].files, deps) == got[i] {
					dropped = strings.Join(missing, ", ")
				}
			}
		}
		if dropped != "" {
			fail("b5-import-kind-dependency-not-covered", fmt.Sprintf("module %d (%s): Digest(b5)=%s is the construction WITHOUT the digest(s) of the resolved dependencies %s; the published construction over all of them gives %s", i, mods[i].oid, got[i], dropped, want[i]), nil)
		} else {
			fail("b5-import-kind-construction", fmt.Sprintf("module %d (%s): Digest(b5)=%s, published construction over its files and the digests of its resolved dependencies gives %s", i, mods[i].oid, got[i], want[i]), nil)
		}
	}
	if anyNoDigest {
		return
	}
	// (2) sensitivity
	got2, _ := kBuild(mods, want)
	for i := range mods {
		run.Eval()
		if got2[i] != got[i] {
			ok = false
			fail("b5-import-kind-unstable", fmt.Sprintf("module %d (%s): the unchanged module set built twice gives %s and %s", i, mods[i].oid, got[i], got2[i]), nil)
		}
	}
	for i := range mods {
		if errs[i] != nil {
			return // no digest to perturb
		}
	}
	_ = ok // the sensitivity pass runs even when a construction already disagreed: it shows the consequence
	for d := range mods {
		flipped, path := kFlip(r, mods, d)
		t2 := newTable()
		want2 := kWant(flipped, closure, noDigest, t2)
		got3, errs3 := kBuild(flipped, want2)
		parts2 := kParts(flipped, closure)
		for i := range mods {
			if !mods[i].a.Local {
				continue
			}
			run.Eval()
			extra := map[string]any{"changed_module": d, "changed_file": path}
			if errs3[i] != nil {
				fail("b5-import-kind-digest-error", fmt.Sprintf("after changing one byte of %s in module %d: Module.Digest(b5) of module %d failed: %v", path, d, i, errs3[i]), extra)
				continue
			}
			covers := d == i || kHas(closure[i], d)
			how := "is the module itself"
			if d != i {
				how = "transitively, through " + kPathKinds(mods, direct, i, d)
				if kHas(direct[i], d) {
					how = kLinks(mods, i, d)
				}
			}
			switch {
			case covers && got3[i] == got[i]:
				fail("b5-import-kind-insensitive", fmt.Sprintf("one byte of %s in module %d (%s) changed, module %d (%s) depends on it (%s), but its b5 digest is still %s", path, d, mods[d].oid, i, mods[i].oid, how, got[i]), extra)
			case !covers && got3[i] != got[i]:
				fail("b5-import-kind-oversensitive", fmt.Sprintf("one byte of %s in module %d (%s) changed, module %d (%s) does not depend on it, but its b5 digest changed from %s to %s", path, d, mods[d].oid, i, mods[i].oid, got[i], got3[i]), extra)
			case got3[i] != want2[i]:
				fail("b5-import-kind-construction", fmt.Sprintf("after changing one byte of %s in module %d: module %d (%s) has Digest(b5)=%s, published construction gives %s", path, d, i, mods[i].oid, got3[i], want2[i]), extra)
			}
			if covers {
				run.Count("ik:sensitivity:must-change")
				if d != i {
					run.Count("ik:sensitivity:dependency-changed:" + tfs(kHas(direct[i], d), "direct", "transitive"))
				}
			} else {
				run.Count("ik:sensitivity:must-not-change")
			}
			if mods[i].letter == "A" {
				run.Case(lineFor(t2, parts2, i), "ok "+got3[i], len(closure[i]) > 0)
			}
		}
	}
}

func tfs(b bool, t, f string) string {
	if b {
		return t
	}
	return f
}

// kPathKinds describes one import path i -> ... -> d by the modifiers of its hops.
func kPathKinds(mods []kMod, direct [][]int, i, d int) string {
	var path []int
	var dfs func(x int, seen map[int]bool) bool
	dfs = func(x int, seen map[int]bool) bool {
		if x == d {
			return true
		}
		seen[x] = true
		for _, y := range direct[x] {
			if !seen[y] {
				path = append(path, y)
				if dfs(y, seen) {
					return true
				}
				path = path[:len(path)-1]
			}
		}
		return false
	}
	dfs(i, map[int]bool{})
	var hops []string
	prev := i
	for _, y := range path {
		hops = append(hops, "["+kLinks(mods, prev, y)+"]")
		prev = y
	}
	return strings.Join(hops, " then ")
}

func hexString(b []byte) string {
	const digits = "0123456789abcdef"
	out := make([]byte, 2*len(b))
	for i, c := range b {
		out[2*i], out[2*i+1] = digits[c>>4], digits[c&15]
	}
	return string(out)
}

func sectionI(run *hx.Run, r *hx.Rand) {
	n := wsgen.ModifierFamilySize()
	rounds := run.N(2, 6)
	for k := 0; k < n; k++ {
		for round := 0; round < rounds; round++ {
			idx := iBase + 16*k + round
			if run.Only >= 0 && run.Only != idx {
				continue
			}
			kindCase(run, idx, r.Fork(uint64(16*k+round)), k)
		}
	}
}
