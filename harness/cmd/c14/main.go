// Command c14 is the correspondence + oracle harness for property C14
// ("all bucket implementations and combinators behave as one path→bytes map").
//
// A case is an operation history over 1–3 base buckets (memory or disk) and ONE composite read
// bucket built from them with MapReadBucket / FilterReadBucket / MultiReadBucket /
// OverlayReadBucket (random nesting, depth ≤ 3).  Writes go to the bases, reads go through the
// composite, and "copy" ops move everything readable through the composite into a base using
// storage.Copy, Tar→Untar or Zip→Unzip.  Every per-op result and the final contents of every
// base are compared with the Lean model.  The oracle (implementation only) keeps a reference
// Go map per base and checks the map laws directly.
package main

import (
	"bytes"
	"context"
	"fmt"
	"os"
	"path/filepath"
	"sort"
	"strconv"
	"strings"

	"github.com/bufbuild/buf/private/pkg/normalpath"
	"github.com/bufbuild/buf/private/pkg/storage"
	"github.com/bufbuild/buf/private/pkg/storage/storagearchive"
	"github.com/bufbuild/buf/private/pkg/storage/storagemem"
	"github.com/bufbuild/buf/private/pkg/storage/storageos"
	"github.com/bufbuild/verifharness/internal/bk"
	"github.com/bufbuild/verifharness/internal/hx"
)

var ctx = context.Background()

// prefix-free pool (needed for disk bases): no element is an ancestor of another.
var pool = []string{"a/x", "a/y.proto", "a/sub/z", "b", "c/d/e", "a.b", "s t/u", "c/d/f g", "é/n", "ab", "a/x.proto"}
var dirs = []string{"a", "a/sub", "c", "c/d", "s t", "é", ".", "", "a.", "c/d/e", "b", "zz"}
var prefixes = []string{"a", "c/d", "c", ".", "a/sub", "s t"}

func spell(r *hx.Rand, p string) string {
	if p == "" || !r.Chance(1, 4) {
		return p
	}
	parts := strings.Split(p, "/")
	var sb strings.Builder
	if r.Chance(1, 3) {
		sb.WriteString("./")
	}
	for i, part := range parts {
		if i > 0 {
			sb.WriteString(hx.Pick(r, []string{"/", "//", "/./", "/q/../"}))
		}
		sb.WriteString(part)
	}
	if r.Chance(1, 5) {
		sb.WriteString("/")
	}
	return sb.String()
}

type expr struct {
	kind   string // b pre filt multi ovl
	base   int
	prefix string
	menc   string
	m      storage.Matcher
	a, b   *expr
}

func (e *expr) enc() string {
	switch e.kind {
	case "b":
		return "b:" + strconv.Itoa(e.base)
	case "pre":
		return "pre:" + hx.Enc(e.prefix) + ":" + e.a.enc()
	case "filt":
		return "filt:" + e.menc + ":" + e.a.enc()
	case "multi":
		return "multi:" + e.a.enc() + ":" + e.b.enc()
	default:
		return "ovl:" + e.a.enc() + ":" + e.b.enc()
	}
}

func (e *expr) uses(i int) bool {
	switch e.kind {
	case "b":
		return e.base == i
	case "pre", "filt":
		return e.a.uses(i)
	default:
		return e.a.uses(i) || e.b.uses(i)
	}
}

func (e *expr) String() string {
	switch e.kind {
	case "b":
		return "base" + strconv.Itoa(e.base)
	case "pre":
		return "map(" + e.prefix + ", " + e.a.String() + ")"
	case "filt":
		return "filter(" + e.menc + ", " + e.a.String() + ")"
	case "multi":
		return "multi(" + e.a.String() + ", " + e.b.String() + ")"
	default:
		return "overlay(" + e.a.String() + ", " + e.b.String() + ")"
	}
}

func (e *expr) build(bases []storage.ReadWriteBucket) storage.ReadBucket {
	switch e.kind {
	case "b":
		return bases[e.base]
	case "pre":
		return storage.MapReadBucket(e.a.build(bases), storage.MapOnPrefix(e.prefix))
	case "filt":
		return storage.FilterReadBucket(e.a.build(bases), e.m)
	case "multi":
		return storage.MultiReadBucket(e.a.build(bases), e.b.build(bases))
	default:
		return storage.OverlayReadBucket(e.a.build(bases), e.b.build(bases))
	}
}

func genMatcher(r *hx.Rand) (string, storage.Matcher) {
	switch r.Intn(6) {
	case 0:
		return "ext:" + hx.Enc(".proto"), storage.MatchPathExt(".proto")
	case 1:
		d := hx.Pick(r, prefixes)
		return "eoc:" + hx.Enc(d), storage.MatchPathEqualOrContained(d)
	case 2:
		d := hx.Pick(r, prefixes)
		return "cont:" + hx.Enc(d), storage.MatchPathContained(d)
	case 3:
		p := hx.Pick(r, pool)
		return "not:eq:" + hx.Enc(p), storage.MatchNot(storage.MatchPathEqual(p))
	case 4:
		return "or:base:" + hx.Enc("x") + ":ext:" + hx.Enc(".proto"), storage.MatchOr(storage.MatchPathBase("x"), storage.MatchPathExt(".proto"))
	default:
		d := hx.Pick(r, prefixes)
		return "and:eoc:" + hx.Enc(d) + ":not:ext:" + hx.Enc(".proto"), storage.MatchAnd(storage.MatchPathEqualOrContained(d), storage.MatchNot(storage.MatchPathExt(".proto")))
	}
}

func genExpr(r *hx.Rand, nb, depth int) *expr {
	if depth == 0 || r.Chance(1, 4) {
		return &expr{kind: "b", base: r.Intn(nb)}
	}
	switch r.Intn(6) {
	case 0, 1:
		return &expr{kind: "pre", prefix: hx.Pick(r, prefixes), a: genExpr(r, nb, depth-1)}
	case 2:
		enc, m := genMatcher(r)
		return &expr{kind: "filt", menc: enc, m: m, a: genExpr(r, nb, depth-1)}
	case 3, 4:
		return &expr{kind: "multi", a: genExpr(r, nb, depth-1), b: genExpr(r, nb, depth-1)}
	default:
		return &expr{kind: "ovl", a: genExpr(r, nb, depth-1), b: genExpr(r, nb, depth-1)}
	}
}

// contents: short tokens, the empty content "-", and large contents L<k> (k KiB of a
// deterministic pattern) which are mapped back to their token when read.
func materialize(tok string) string {
	if tok == "-" {
		return ""
	}
	if strings.HasPrefix(tok, "L") {
		k, _ := strconv.Atoi(tok[1:])
		var sb strings.Builder
		for sb.Len() < k*1024 {
			sb.WriteString("0123456789abcdef" + tok)
		}
		return sb.String()[:k*1024]
	}
	return tok
}

var largeToks = []string{"L64", "L1024"}

func canonContent(c string) string {
	if len(c) >= 1024 {
		for _, t := range largeToks {
			if c == materialize(t) {
				return t
			}
		}
		return "LARGE-UNKNOWN-" + strconv.Itoa(len(c))
	}
	return c
}

type op struct {
	kind    byte
	base    int
	path    string
	content string // token
	how     string // for C: copy|tar|zip ; for p: atomic?
}

func (o op) enc() string {
	switch o.kind {
	case 'g', 's', 'w':
		return string(o.kind) + ":" + hx.Enc(o.path)
	case 'p':
		return "p:" + strconv.Itoa(o.base) + ":" + hx.Enc(o.path) + ":" + o.content
	case 'd', 'D':
		return string(o.kind) + ":" + strconv.Itoa(o.base) + ":" + hx.Enc(o.path)
	default:
		return "C:" + strconv.Itoa(o.base)
	}
}

func (o op) String() string {
	switch o.kind {
	case 'p':
		return fmt.Sprintf("put[%s] base%d %q %s", o.how, o.base, o.path, o.content)
	case 'd':
		return fmt.Sprintf("delete base%d %q", o.base, o.path)
	case 'D':
		return fmt.Sprintf("deleteAll base%d %q", o.base, o.path)
	case 'C':
		return fmt.Sprintf("%s composite->base%d", o.how, o.base)
	default:
		return fmt.Sprintf("%c %q", o.kind, o.path)
	}
}

func under(prefix, key string) bool {
	return normalpath.EqualsOrContainsPath(prefix, key, normalpath.Relative)
}

func canonKVs(kvs []bk.KV) []bk.KV {
	out := make([]bk.KV, len(kvs))
	for i, kv := range kvs {
		out[i] = bk.KV{K: kv.K, V: canonContent(kv.V)}
	}
	return out
}

func must(err error) {
	if err != nil {
		panic(err)
	}
}

func runCase(run *hx.Run, idx int, r *hx.Rand, tmpRoot string) {
	nb := 1 + r.Intn(3)
	disk := make([]bool, nb)
	bases := make([]storage.ReadWriteBucket, nb)
	ref := make([]map[string]string, nb)
	diskRoots := make([]string, nb)
	var tmp string
	anyDisk := false
	for i := range bases {
		disk[i] = r.Chance(1, 3)
		ref[i] = map[string]string{}
		if disk[i] {
			if tmp == "" {
				tmp = filepath.Join(tmpRoot, "c"+strconv.Itoa(idx))
			}
			d := filepath.Join(tmp, "b"+strconv.Itoa(i))
			must(os.MkdirAll(d, 0o755))
			diskRoots[i] = d
			b, err := storageos.NewProvider().NewReadWriteBucket(d)
			must(err)
			bases[i] = b
			anyDisk = true
		} else {
			bases[i] = storagemem.NewReadWriteBucket()
		}
	}
	if tmp != "" {
		defer os.RemoveAll(tmp)
	}
	e := genExpr(r, nb, 3)
	comp := e.build(bases)
	var ops []op
	var results []string
	input := func() map[string]any {
		ss := make([]string, len(ops))
		for i, o := range ops {
			ss[i] = o.String()
		}
		return map[string]any{"expr": e.String(), "disk_bases": disk, "ops": ss}
	}
	fail := func(class, what string) {
		run.Fail(hx.OracleFailure{Class: class, What: what, Input: input(),
			Replay: fmt.Sprintf("build/c14 --out /tmp/c14-replay --seed %d --tier %s --only %d", run.Seed, run.Tier, idx)})
	}
	defer func() {
		if p := recover(); p != nil {
			fail("harness-panic", fmt.Sprint(p))
		}
	}()
	// a few initial puts so reads see something
	nOps := 6 + r.Intn(14)
	for i := 0; i < nOps; i++ {
		var o op
		k := r.Intn(20)
		switch {
		case k < 7 || i < 3:
			o = op{kind: 'p', base: r.Intn(nb), path: spell(r, hx.Pick(r, pool)), content: "C" + strconv.Itoa(i), how: "plain"}
			if r.Chance(1, 8) {
				o.content = "-"
			}
			if r.Chance(1, 25) {
				o.content = hx.Pick(r, largeToks)
			}
			if r.Chance(1, 3) {
				o.how = "atomic"
			}
			if r.Chance(1, 12) {
				o.path = hx.Pick(r, []string{".", "", "../x", "/abs", "a/..", "a/../.."})
			}
			if r.Chance(1, 10) {
				// a name that is a directory of the pool, or lies below a pool file
				o.path = hx.Pick(r, []string{"a", "c/d", "a/sub", "b/child", "a/x/deep", "ab/t", "c", "s t"})
			}
		case k < 9:
			o = op{kind: 'd', base: r.Intn(nb), path: spell(r, hx.Pick(r, pool))}
			if r.Chance(1, 6) {
				o.path = hx.Pick(r, []string{"a", "c/d", "a/sub", "b/child", "a/x/deep", "c", "s t", "é"})
			}
		case k < 11:
			o = op{kind: 'D', base: r.Intn(nb), path: spell(r, hx.Pick(r, append(append([]string{}, dirs...), pool...)))}
		case k < 14:
			o = op{kind: 'g', path: spell(r, pickView(r))}
			if r.Chance(2, 3) {
				// aim at something that is really visible through the composite
				if kvs, err := bk.WalkAll(ctx, comp, ""); err == nil && len(kvs) > 0 {
					o.path = spell(r, kvs[r.Intn(len(kvs))].K)
				}
			}
			if r.Chance(1, 3) {
				o.kind = 's'
			}
		case k < 18:
			o = op{kind: 'w', path: spell(r, hx.Pick(r, append(append([]string{}, dirs...), pool...)))}
		default:
			o = op{kind: 'C', base: r.Intn(nb), how: hx.Pick(r, []string{"copy", "copy-atomic", "tar", "zip"})}
			// copying a bucket onto itself is not a meaningful use (the destination is truncated
			// while it is being read): the target must not occur in the composite
			if e.uses(o.base) {
				run.Count("skip:copy-onto-source")
				continue
			}
		}
		// disk bases obey the file TREE (BufModel.Disk): a put below a file or onto a directory
		// fails, a delete of a non-empty directory fails, a delete of an empty leftover
		// directory succeeds. These are compared with the model; the reference-MAP oracle only
		// judges ops that do not address a directory.
		addressesDir := false
		if disk[o.base] && (o.kind == 'd' || o.kind == 'p') {
			if n, err := normalpath.NormalizeAndValidate(o.path); err == nil && n != "." {
				if fi, serr := os.Stat(filepath.Join(diskRoots[o.base], filepath.FromSlash(n))); serr == nil && fi.IsDir() {
					addressesDir = true
					run.Count("disk:op-addresses-directory")
				}
			}
		}
		var res string
		switch o.kind {
		case 'p':
			var opts []storage.PutOption
			if o.how == "atomic" {
				opts = append(opts, storage.PutWithAtomic())
			}
			err := bk.PutString(ctx, bases[o.base], o.path, materialize(o.content), opts...)
			res = bk.ErrClass(err)
			if err == nil {
				n, _ := normalpath.NormalizeAndValidate(o.path)
				ref[o.base][n] = canonContent(materialize(o.content))
			}
		case 'd':
			err := bases[o.base].Delete(ctx, o.path)
			res = bk.ErrClass(err)
			if n, verr := normalpath.NormalizeAndValidate(o.path); verr == nil {
				_, had := ref[o.base][n]
				if had != (err == nil) && n != "." && !addressesDir {
					fail("delete-vs-reference", fmt.Sprintf("delete %q on base%d: object existed=%v but result %s", o.path, o.base, had, res))
				}
				delete(ref[o.base], n)
			}
		case 'D':
			err := bases[o.base].DeleteAll(ctx, o.path)
			res = bk.ErrClass(err)
			if n, verr := normalpath.NormalizeAndValidate(o.path); verr == nil && err == nil {
				for p := range ref[o.base] {
					if under(n, p) {
						delete(ref[o.base], p)
					}
				}
			}
		case 'g':
			c, err := bk.ReadAll(ctx, comp, o.path)
			if err != nil {
				res = bk.ErrClass(err)
			} else {
				res = "ok:" + canonContent(c)
			}
		case 's':
			_, err := comp.Stat(ctx, o.path)
			res = bk.ErrClass(err)
		case 'w':
			kvs, err := bk.WalkAll(ctx, comp, o.path)
			if err == bk.ErrRootObject {
				run.Count("skip:walk-root-object")
				continue
			}
			if err != nil {
				res = bk.ErrClass(err)
			} else {
				res = "ok:" + bk.Dump(canonKVs(kvs))
				seen := map[string]bool{}
				for _, kv := range kvs {
					if seen[kv.K] {
						fail("walk-duplicate", fmt.Sprintf("walk %q through %s visited %q twice", o.path, e.String(), kv.K))
					}
					seen[kv.K] = true
				}
				// walk(prefix) must be exactly the path-wise restriction of walk("")
				if all, err2 := bk.WalkAll(ctx, comp, ""); err2 == nil {
					if np, verr := normalpath.NormalizeAndValidate(o.path); verr == nil {
						want := map[string]string{}
						for _, kv := range all {
							if under(np, kv.K) {
								want[kv.K] = kv.V
							}
						}
						got := map[string]string{}
						for _, kv := range kvs {
							got[kv.K] = kv.V
						}
						if !sameMap(want, got) {
							fail("walk-not-pathwise-restriction", fmt.Sprintf("walk %q through %s = %v but restriction of walk(\"\") = %v", o.path, e.String(), keys(got), keys(want)))
						}
					}
				}
			}
		case 'C':
			cnt, err := doCopy(comp, bases[o.base], o.how, disk[o.base], ref[o.base])
			if err == errSkip {
				run.Count("skip:copy-disk-conflict")
				continue
			}
			if err != nil {
				res = "err" // the three mechanisms meet the first error at different moments
				// a failed copy may have copied some objects before the error: the reference of
				// the target is re-read (an error WAS reported, which is all the property asks)
				if kvs, werr := bk.WalkAll(ctx, bases[o.base], ""); werr == nil {
					ref[o.base] = map[string]string{}
					for _, kv := range kvs {
						ref[o.base][kv.K] = canonContent(kv.V)
					}
				}
			} else {
				res = "ok:" + strconv.Itoa(cnt)
			}
			// refresh the reference of the target from the implementation itself is NOT done:
			// recompute it from the composite's own walk taken before the copy (in doCopy).
		}
		ops = append(ops, o)
		results = append(results, res)
		run.Count("op:" + string(o.kind) + ":" + strings.SplitN(res, ":", 2)[0] + errTag(res))
		// oracle: every base equals its reference map
		for i := range bases {
			kvs, err := bk.WalkAll(ctx, bases[i], "")
			must(err)
			got := map[string]string{}
			for _, kv := range kvs {
				if _, dup := got[kv.K]; dup {
					fail("walk-duplicate", fmt.Sprintf("base%d walk visited %q twice", i, kv.K))
				}
				got[kv.K] = canonContent(kv.V)
			}
			if !sameMap(ref[i], got) {
				fail("base-vs-reference-map", fmt.Sprintf("after %s base%d (disk=%v) holds %v but the reference map holds %v", o.String(), i, disk[i], got, ref[i]))
				// resync so one divergence is reported once
				ref[i] = got
			}
			// spot-check get/stat against the reference
			for _, p := range pool[:4] {
				c, err := bk.ReadAll(ctx, bases[i], p)
				want, ok := ref[i][p]
				if ok != (err == nil) || (ok && canonContent(c) != want) {
					fail("get-vs-reference-map", fmt.Sprintf("base%d get %q: impl (%q,%v) reference (%q,%v)", i, p, canonContent(c), err, want, ok))
				}
			}
		}
		// oracle: union must report a path present in two members
		if o.kind == 'g' && e.kind == "multi" && strings.HasPrefix(res, "ok") {
			ra := e.a.build(bases)
			rb := e.b.build(bases)
			_, ea := ra.Stat(ctx, o.path)
			_, eb := rb.Stat(ctx, o.path)
			if ea == nil && eb == nil {
				fail("union-hides-duplicate", fmt.Sprintf("get %q succeeded on %s although both members have it", o.path, e.String()))
			}
		}
	}
	var sb strings.Builder
	sb.WriteString(strings.Join(results, ";"))
	for i := range bases {
		kvs, err := bk.WalkAll(ctx, bases[i], "")
		must(err)
		sb.WriteString("|" + bk.Dump(canonKVs(kvs)))
	}
	encs := make([]string, len(ops))
	for i, o := range ops {
		encs[i] = o.enc()
	}
	opsEnc := "-"
	if len(encs) > 0 {
		opsEnc = strings.Join(encs, ";")
	}
	nontrivial := false
	for i, o := range ops {
		if (o.kind == 'g' || o.kind == 'w' || o.kind == 'C') && strings.HasPrefix(results[i], "ok:") && len(results[i]) > 3 {
			nontrivial = true
		}
	}
	run.Count("expr:" + e.kind)
	if anyDisk {
		run.Count("case:has-disk-base")
	}
	kinds := ""
	for i := range disk {
		if disk[i] {
			kinds += "d"
		} else {
			kinds += "m"
		}
	}
	run.Case("hist2\t"+e.enc()+"\t"+kinds+"\t"+opsEnc, sb.String(), nontrivial)
	if idx < 4 {
		in := input()
		in["results"] = results
		run.Sample(in)
	}
}

func errTag(res string) string {
	if strings.HasPrefix(res, "err:") {
		return ":" + strings.TrimPrefix(res, "err:")
	}
	return ""
}

func pickView(r *hx.Rand) string {
	p := hx.Pick(r, pool)
	if r.Chance(1, 2) {
		// make it relative to one of the prefixes so mapped views hit something
		for _, pre := range prefixes {
			if strings.HasPrefix(p, pre+"/") && r.Chance(1, 2) {
				return strings.TrimPrefix(p, pre+"/")
			}
		}
	}
	if r.Chance(1, 10) {
		return hx.Pick(r, []string{".", "", "../x", "/abs", "a"})
	}
	return p
}

func sameMap(a, b map[string]string) bool {
	if len(a) != len(b) {
		return false
	}
	for k, v := range a {
		if w, ok := b[k]; !ok || w != v {
			return false
		}
	}
	return true
}

func keys(m map[string]string) []string {
	out := make([]string, 0, len(m))
	for k := range m {
		out = append(out, k)
	}
	sort.Strings(out)
	return out
}

var errSkip = fmt.Errorf("skip")

// doCopy copies everything readable through comp into target by the chosen mechanism and
// updates the reference map of the target from a walk of comp taken BEFORE the copy.
func doCopy(comp storage.ReadBucket, target storage.ReadWriteBucket, how string, targetDisk bool, ref map[string]string) (int, error) {
	src, werr := bk.WalkAll(ctx, comp, "")
	if werr == bk.ErrRootObject {
		return 0, errSkip
	}
	if werr == nil && targetDisk {
		for _, kv := range src {
			for p := range ref {
				if p != kv.K && (under(p, kv.K) || under(kv.K, p)) {
					return 0, errSkip
				}
			}
		}
		for i := range src {
			for j := range src {
				if i != j && under(src[i].K, src[j].K) {
					return 0, errSkip
				}
			}
		}
	}
	var cnt int
	var err error
	switch how {
	case "copy":
		cnt, err = storage.Copy(ctx, comp, target)
	case "copy-atomic":
		cnt, err = storage.Copy(ctx, comp, target, storage.CopyWithAtomic())
	case "tar":
		var buf bytes.Buffer
		if err = storagearchive.Tar(ctx, comp, &buf); err == nil {
			err = storagearchive.Untar(ctx, &buf, target)
		}
		cnt = len(src)
	default:
		var buf bytes.Buffer
		if err = storagearchive.Zip(ctx, comp, &buf, true); err == nil {
			err = storagearchive.Unzip(ctx, bytes.NewReader(buf.Bytes()), int64(buf.Len()), target)
		}
		cnt = len(src)
	}
	if err == nil && werr == nil {
		for _, kv := range src {
			ref[kv.K] = canonContent(kv.V)
		}
	}
	if err == nil && werr != nil {
		return cnt, fmt.Errorf("copy succeeded although walking the source fails: %v", werr)
	}
	return cnt, err
}

func main() {
	run := hx.Start("C14")
	r := hx.NewRand(run.Seed)
	tmpRoot, err := os.MkdirTemp("", "verif-c14-")
	must(err)
	defer os.RemoveAll(tmpRoot)
	n := run.N(1500, 40000)
	for i := 0; i < n; i++ {
		if run.Only >= 0 && run.Only != i {
			continue
		}
		runCase(run, i, r.Fork(uint64(i)), tmpRoot)
	}
	run.Finish()
}
