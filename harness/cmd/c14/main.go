// Command c14 is the correspondence + oracle harness for property C14
// ("all bucket implementations and combinators behave as one path→bytes map").
//
// A case is an operation history over 1–3 base buckets (memory or disk) and ONE composite read
// bucket built from them with MapReadBucket / FilterReadBucket / MultiReadBucket /
// OverlayReadBucket / StripReadBucketExternalPaths (random nesting, depth ≤ 3).  Writes go to the bases, reads go through the
// composite, and "copy" ops move everything readable through the composite into a base using
// storage.Copy, Tar→Untar or Zip→Unzip.  Every per-op result and the final contents of every
// base are compared with the Lean model.  The oracle (implementation only) keeps a reference
// Go map per base and checks the map laws directly.
//
// Round 6 (accepts.go, anc.go, readers.go, dupmembers.go): the oracle also judges the ERROR of every
// write ("an operation the reference map accepts must not fail on any backend"), the ancestor
// family (DeleteAll at every ancestor level, then Put again), reader handles (ops O / F: what a
// ReadObjectCloser yields after later writes) and archives with repeated / colliding members.
//
// Archive cases (model: lean/BufModel/Archive.lean):
//   arc: memory bases + composite, real Tar/Zip → the entries of the produced bytes are listed with
//        the archive/tar / archive/zip readers and compared with the model's tarOf; the bytes are
//        extracted with the real Untar/Unzip (strip-components, path matcher, max file size)
//        into an empty bucket and compared with extractInto.
//   xtr: hand-written archives with hostile names, directory and symlink entries, "._" files;
//        the entries the readers yield are given to the model, the real Untar/Unzip runs on the
//        bytes.
package main

import (
	"archive/tar"
	"archive/zip"
	"bytes"
	"context"
	"io"
	"fmt"
	"os"
	"path/filepath"
	"sort"
	"strconv"
	"strings"
	"time"

	"github.com/bufbuild/buf/private/pkg/normalpath"
	"github.com/bufbuild/buf/private/pkg/storage"
	"github.com/bufbuild/buf/private/pkg/storage/storagearchive"
	"github.com/bufbuild/buf/private/pkg/storage/storagemem"
	"github.com/bufbuild/buf/private/pkg/storage/storageos"
	"github.com/bufbuild/verifharness/internal/bk"
	"github.com/bufbuild/verifharness/internal/hx"
)

var ctx = context.Background()

// prefix-free pool (needed for disk bases): no element is an ancestor of another.
var pool = []string{"a/x", "a/y.proto", "a/sub/z", "b", "c/d/e", "a.b", "s t/u", "c/d/f g", "é/n", "ab", "a/x.proto"}
var dirs = []string{"a", "a/sub", "c", "c/d", "s t", "é", ".", "", "a.", "c/d/e", "b", "zz"}
var prefixes = []string{"a", "c/d", "c", ".", "a/sub", "s t"}

func spell(r *hx.Rand, p string) string {
	if p == "" || !r.Chance(1, 4) {
		return p
	}
	parts := strings.Split(p, "/")
	var sb strings.Builder
	if r.Chance(1, 3) {
		sb.WriteString("./")
	}
	for i, part := range parts {
		if i > 0 {
			sb.WriteString(hx.Pick(r, []string{"/", "//", "/./", "/q/../"}))
		}
		sb.WriteString(part)
	}
	if r.Chance(1, 5) {
		sb.WriteString("/")
	}
	return sb.String()
}

type expr struct {
	kind   string // b pre filt multi ovl
	base   int
	prefix string
	menc   string
	m      storage.Matcher
	a, b   *expr
}

func (e *expr) enc() string {
	switch e.kind {
	case "b":
		return "b:" + strconv.Itoa(e.base)
	case "pre":
		return "pre:" + hx.Enc(e.prefix) + ":" + e.a.enc()
	case "filt":
		return "filt:" + e.menc + ":" + e.a.enc()
	case "multi":
		return "multi:" + e.a.enc() + ":" + e.b.enc()
	case "strip":
		return "strip:" + e.a.enc()
	default:
		return "ovl:" + e.a.enc() + ":" + e.b.enc()
	}
}

func (e *expr) uses(i int) bool {
	switch e.kind {
	case "b":
		return e.base == i
	case "pre", "filt", "strip":
		return e.a.uses(i)
	default:
		return e.a.uses(i) || e.b.uses(i)
	}
}

func (e *expr) String() string {
	switch e.kind {
	case "b":
		return "base" + strconv.Itoa(e.base)
	case "pre":
		return "map(" + e.prefix + ", " + e.a.String() + ")"
	case "filt":
		return "filter(" + e.menc + ", " + e.a.String() + ")"
	case "multi":
		return "multi(" + e.a.String() + ", " + e.b.String() + ")"
	case "strip":
		return "stripExternalPaths(" + e.a.String() + ")"
	default:
		return "overlay(" + e.a.String() + ", " + e.b.String() + ")"
	}
}

func (e *expr) build(bases []storage.ReadWriteBucket) storage.ReadBucket {
	return e.buildR(toRead(bases), false)
}

func genMatcher(r *hx.Rand) (string, storage.Matcher) {
	switch r.Intn(6) {
	case 0:
		return "ext:" + hx.Enc(".proto"), storage.MatchPathExt(".proto")
	case 1:
		d := hx.Pick(r, prefixes)
		return "eoc:" + hx.Enc(d), storage.MatchPathEqualOrContained(d)
	case 2:
		d := hx.Pick(r, prefixes)
		return "cont:" + hx.Enc(d), storage.MatchPathContained(d)
	case 3:
		p := hx.Pick(r, pool)
		return "not:eq:" + hx.Enc(p), storage.MatchNot(storage.MatchPathEqual(p))
	case 4:
		return "or:base:" + hx.Enc("x") + ":ext:" + hx.Enc(".proto"), storage.MatchOr(storage.MatchPathBase("x"), storage.MatchPathExt(".proto"))
	default:
		d := hx.Pick(r, prefixes)
		return "and:eoc:" + hx.Enc(d) + ":not:ext:" + hx.Enc(".proto"), storage.MatchAnd(storage.MatchPathEqualOrContained(d), storage.MatchNot(storage.MatchPathExt(".proto")))
	}
}

func genExpr(r *hx.Rand, nb, depth int) *expr {
	if depth == 0 || r.Chance(1, 4) {
		return &expr{kind: "b", base: r.Intn(nb)}
	}
	if r.Chance(1, 8) {
		return &expr{kind: "strip", a: genExpr(r, nb, depth-1)}
	}
	switch r.Intn(6) {
	case 0, 1:
		return &expr{kind: "pre", prefix: hx.Pick(r, prefixes), a: genExpr(r, nb, depth-1)}
	case 2:
		enc, m := genMatcher(r)
		return &expr{kind: "filt", menc: enc, m: m, a: genExpr(r, nb, depth-1)}
	case 3, 4:
		return &expr{kind: "multi", a: genExpr(r, nb, depth-1), b: genExpr(r, nb, depth-1)}
	default:
		return &expr{kind: "ovl", a: genExpr(r, nb, depth-1), b: genExpr(r, nb, depth-1)}
	}
}

// contents: short tokens, the empty content "-", and large contents L<k> (k KiB of a
// deterministic pattern) which are mapped back to their token when read.
func materialize(tok string) string {
	if tok == "-" {
		return ""
	}
	if strings.HasPrefix(tok, "L") {
		k, _ := strconv.Atoi(tok[1:])
		var sb strings.Builder
		for sb.Len() < k*1024 {
			sb.WriteString("0123456789abcdef" + tok)
		}
		return sb.String()[:k*1024]
	}
	return tok
}

var largeToks = []string{"L64", "L1024"}

func canonContent(c string) string {
	if len(c) >= 1024 {
		for _, t := range largeToks {
			if c == materialize(t) {
				return t
			}
		}
		return "LARGE-UNKNOWN-" + strconv.Itoa(len(c))
	}
	return c
}

type op struct {
	kind    byte
	base    int
	path    string
	content string // token
	how     string // for C: copy|tar|zip ; for p: atomic?
	tmp     string // T / R: base name of the temp file the in-flight atomic put shows on disk
	n       int    // O: bytes read right after the open; F: index of the reader handle
	encP    bool   // reader family: an atomic put is encoded as "P" (the model detaches open disk readers)
}

func (o op) enc() string {
	switch o.kind {
	case 'g', 's', 'w':
		return string(o.kind) + ":" + hx.Enc(o.path)
	case 'p':
		if o.encP && o.how == "atomic" {
			return "P:" + strconv.Itoa(o.base) + ":" + hx.Enc(o.path) + ":" + o.content
		}
		return "p:" + strconv.Itoa(o.base) + ":" + hx.Enc(o.path) + ":" + o.content
	case 'O':
		return "O:" + strconv.Itoa(o.base) + ":" + hx.Enc(o.path) + ":" + strconv.Itoa(o.n)
	case 'F':
		return "F:" + strconv.Itoa(o.n)
	case 'd', 'D':
		return string(o.kind) + ":" + strconv.Itoa(o.base) + ":" + hx.Enc(o.path)
	case 'T', 'R':
		return string(o.kind) + ":" + strconv.Itoa(o.base) + ":" + hx.Enc(o.path) + ":" + hx.Enc(o.tmp) + ":" + o.content
	default:
		return "C:" + strconv.Itoa(o.base)
	}
}

func (o op) String() string {
	switch o.kind {
	case 'p':
		return fmt.Sprintf("put[%s] base%d %q %s", o.how, o.base, o.path, o.content)
	case 'd':
		return fmt.Sprintf("delete base%d %q", o.base, o.path)
	case 'D':
		return fmt.Sprintf("deleteAll base%d %q", o.base, o.path)
	case 'C':
		return fmt.Sprintf("%s composite->base%d", o.how, o.base)
	case 'T':
		return fmt.Sprintf("put[atomic, writer left open] base%d %q %s (temp file %q)", o.base, o.path, o.content, o.tmp)
	case 'R':
		return fmt.Sprintf("close the open writer of base%d %q", o.base, o.path)
	case 'O':
		return fmt.Sprintf("open reader #? on base%d %q and read %d bytes", o.base, o.path, o.n)
	case 'F':
		return fmt.Sprintf("read reader #%d to the end", o.n)
	default:
		return fmt.Sprintf("%c %q", o.kind, o.path)
	}
}

func under(prefix, key string) bool {
	return normalpath.EqualsOrContainsPath(prefix, key, normalpath.Relative)
}

func canonKVs(kvs []bk.KV) []bk.KV {
	out := make([]bk.KV, len(kvs))
	for i, kv := range kvs {
		out[i] = bk.KV{K: kv.K, V: canonContent(kv.V)}
	}
	return out
}

func must(err error) {
	if err != nil {
		panic(err)
	}
}

// caseCfg parametrises a history case: the path vocabulary (nil = the default pool), the chance
// of a disk base, and — for the scripted name sweep of names.go — a fixed expression, fixed base
// kinds and a fixed op list instead of the random ones.
type caseCfg struct {
	vocab     *vocab
	diskNum   int // a base is a disk bucket with chance diskNum/diskDen
	diskDen   int
	forceDisk []bool
	forceExpr *expr
	script    []op
	onlyIdx   int // the --only index that regenerates this case
	tag       string
	mix       string // "" = the default op mix; "anc" = ancestor family (anc.go); "rd" = reader family (readers.go)
	writeView string // scripts: writes to paths below this directory go through MapReadWriteBucket(base, MapOnPrefix(writeView))
}

func runCase(run *hx.Run, idx int, r *hx.Rand, tmpRoot string) {
	runCaseCfg(run, idx, r, tmpRoot, caseCfg{diskNum: 1, diskDen: 3, onlyIdx: idx, tag: "h"})
}

// inflight is an atomic Put whose writer is still open (op T done, op R pending).
type inflight struct {
	base    int
	path    string
	content string
	w       storage.WriteObjectCloser
	tmpName string // base name of the temp file found on disk ("" = none visible)
	tmpKey  string // its bucket path
	reads   int    // reads left before the writer is closed
}

func runCaseCfg(run *hx.Run, idx int, r *hx.Rand, tmpRoot string, cfg caseCfg) {
	restore := useVocab(cfg.vocab)
	defer restore()
	nb := 1 + r.Intn(3)
	if cfg.forceDisk != nil {
		nb = len(cfg.forceDisk)
	}
	disk := make([]bool, nb)
	bases := make([]storage.ReadWriteBucket, nb)
	ref := make([]map[string]string, nb)
	diskRoots := make([]string, nb)
	var tmp string
	anyDisk := false
	for i := range bases {
		disk[i] = r.Chance(cfg.diskNum, cfg.diskDen)
		if cfg.forceDisk != nil {
			disk[i] = cfg.forceDisk[i]
		}
		ref[i] = map[string]string{}
		if disk[i] {
			if tmp == "" {
				tmp = filepath.Join(tmpRoot, cfg.tag+strconv.Itoa(idx))
			}
			d := filepath.Join(tmp, "b"+strconv.Itoa(i))
			must(os.MkdirAll(d, 0o755))
			diskRoots[i] = d
			b, err := storageos.NewProvider().NewReadWriteBucket(d)
			must(err)
			bases[i] = b
			anyDisk = true
		} else {
			bases[i] = storagemem.NewReadWriteBucket()
		}
	}
	if tmp != "" {
		defer os.RemoveAll(tmp)
	}
	e := genExpr(r, nb, 3)
	if cfg.forceExpr != nil {
		e = cfg.forceExpr
	}
	comp := e.build(bases)
	var ops []op
	var results []string
	input := func() map[string]any {
		ss := make([]string, len(ops))
		for i, o := range ops {
			ss[i] = o.String()
		}
		return map[string]any{"expr": e.String(), "disk_bases": disk, "ops": ss}
	}
	fail := func(class, what string) {
		run.Fail(hx.OracleFailure{Class: class, What: what, Input: input(),
			Replay: fmt.Sprintf("build/c14 --out /tmp/c14-replay --seed %d --tier %s --only %d", run.Seed, run.Tier, cfg.onlyIdx)})
	}
	var pend *inflight
	defer func() {
		if pend != nil && pend.w != nil {
			pend.w.Close()
		}
	}()
	// The reference TREE of a disk base (oracle only): the directories that exist according to
	// the history (ancestors of every accepted put; removed by DeleteAll / Delete of an empty
	// directory).  With the reference map it decides which writes a backend MUST accept: see
	// accepts.go.
	tr := newRefTree(nb, disk, ref)
	// writeTarget: the bucket and path a write is issued on.  With cfg.writeView = v a write below v
	// goes through storage.MapReadWriteBucket(base, MapOnPrefix(v)) with the path relative to v —
	// by the mapper laws the SAME base operation, so the protocol line (and the model) is unchanged.
	writeTarget := func(base int, path string, prefixOp bool) (storage.ReadWriteBucket, string) {
		if cfg.writeView != "" {
			if n, err := normalpath.NormalizeAndValidate(path); err == nil && under(cfg.writeView, n) && (n != cfg.writeView || prefixOp) {
				rel, rerr := normalpath.Rel(cfg.writeView, n)
				if rerr == nil {
					run.Count("write-through-mapped-view")
					return storage.MapReadWriteBucket(bases[base], storage.MapOnPrefix(cfg.writeView)), rel
				}
			}
		}
		return bases[base], path
	}
	// open reader handles (ops O / F, readers.go)
	var handles []*rhandle
	defer func() {
		for _, h := range handles {
			h.close()
		}
	}()
	defer func() {
		if p := recover(); p != nil {
			fail("harness-panic", fmt.Sprint(p))
		}
	}()
	// a few initial puts so reads see something
	nOps := 6 + r.Intn(14)
	switch cfg.mix {
	case "anc":
		nOps = 10 + r.Intn(31) // long histories over few paths: ancestors repeat
	case "rd":
		nOps = 10 + r.Intn(21)
	}
	if cfg.script != nil {
		nOps = len(cfg.script)
	}
	for i := 0; i < nOps || pend != nil || (cfg.script == nil && firstOpen(handles) >= 0); i++ {
		var o op
		k := r.Intn(20)
		if pend == nil && cfg.script == nil && i >= 3 && i+3 < nOps && r.Chance(1, 9) {
			k = 100 // start an atomic put and keep its writer open over the next reads
		}
		if pend != nil && cfg.script == nil {
			// while the writer is open only reads are generated; then it is closed
			if pend.reads == 0 {
				k = 101
			} else {
				pend.reads--
				k = 11 + r.Intn(7)
				if r.Chance(1, 3) {
					k = 102
				}
			}
		}
		switch {
		case cfg.script != nil:
			if i < len(cfg.script) {
				o = cfg.script[i]
			} else {
				o = op{kind: 'R'}
			}
		case k == 100:
			o = op{kind: 'T', base: r.Intn(nb), path: spell(r, hx.Pick(r, pool)), content: "T" + strconv.Itoa(i), how: "atomic-open"}
			if r.Chance(1, 10) {
				o.path = hx.Pick(r, append([]string{".", "../x", "b/child", "a/x/deep"}, dirs...))
			}
		case k == 101:
			o = op{kind: 'R', base: pend.base, path: pend.path, content: pend.content, tmp: pend.tmpName, how: "atomic-close"}
		case k == 102:
			// aim at the temp file and its directory
			o = op{kind: hx.Pick(r, []byte{'g', 's', 'w'}), path: pend.tmpKey}
			if pend.tmpKey == "" {
				o.path = pend.path
			}
			if o.kind == 'w' && r.Bool() {
				o.path = normalpath.Dir(o.path)
			}
		case cfg.mix == "anc":
			o = genAncOp(r, nb, i, pend != nil)
			if o.kind == 'C' && e.uses(o.base) {
				run.Count("skip:copy-onto-source")
				continue
			}
		case cfg.mix == "rd" && i >= nOps:
			// the history is over: every reader still open is read to the end
			o = op{kind: 'F', n: firstOpen(handles)}
		case cfg.mix == "rd":
			o = genReaderOp(r, nb, i, pend != nil, handles, ref)
		case k < 7 || i < 3:
			o = op{kind: 'p', base: r.Intn(nb), path: spell(r, hx.Pick(r, pool)), content: "C" + strconv.Itoa(i), how: "plain"}
			if r.Chance(1, 8) {
				o.content = "-"
			}
			if r.Chance(1, 25) {
				o.content = hx.Pick(r, largeToks)
			}
			if r.Chance(1, 3) {
				o.how = "atomic"
			}
			if r.Chance(1, 12) {
				o.path = hx.Pick(r, []string{".", "", "../x", "/abs", "a/..", "a/../.."})
			}
			if r.Chance(1, 10) {
				// a name that is a directory of the pool, or lies below a pool file
				o.path = hx.Pick(r, []string{"a", "c/d", "a/sub", "b/child", "a/x/deep", "ab/t", "c", "s t"})
			}
		case k < 9:
			o = op{kind: 'd', base: r.Intn(nb), path: spell(r, hx.Pick(r, pool))}
			if r.Chance(1, 6) {
				o.path = hx.Pick(r, []string{"a", "c/d", "a/sub", "b/child", "a/x/deep", "c", "s t", "é"})
			}
		case k < 11:
			o = op{kind: 'D', base: r.Intn(nb), path: spell(r, hx.Pick(r, append(append([]string{}, dirs...), pool...)))}
		case k < 14:
			o = op{kind: 'g', path: spell(r, pickView(r))}
			if r.Chance(2, 3) {
				// aim at something that is really visible through the composite
				if kvs, err := bk.WalkAll(ctx, comp, ""); err == nil && len(kvs) > 0 {
					o.path = spell(r, kvs[r.Intn(len(kvs))].K)
				}
			}
			if r.Chance(1, 3) {
				o.kind = 's'
			}
		case k < 18:
			o = op{kind: 'w', path: spell(r, hx.Pick(r, append(append([]string{}, dirs...), pool...)))}
		default:
			o = op{kind: 'C', base: r.Intn(nb), how: hx.Pick(r, []string{"copy", "copy-atomic", "tar", "zip"})}
			// copying a bucket onto itself is not a meaningful use (the destination is truncated
			// while it is being read): the target must not occur in the composite
			if e.uses(o.base) {
				run.Count("skip:copy-onto-source")
				continue
			}
		}
		// disk bases obey the file TREE (BufModel.Disk): a put below a file or onto a directory
		// fails, a delete of a non-empty directory fails, a delete of an empty leftover
		// directory succeeds. These are compared with the model; the reference-MAP oracle only
		// judges ops that do not address a directory.
		addressesDir := false
		if disk[o.base] && (o.kind == 'd' || o.kind == 'p') {
			if n, err := normalpath.NormalizeAndValidate(o.path); err == nil && n != "." {
				if fi, serr := os.Stat(filepath.Join(diskRoots[o.base], filepath.FromSlash(n))); serr == nil && fi.IsDir() {
					addressesDir = true
					run.Count("disk:op-addresses-directory")
				}
			}
		}
		var res string
		switch o.kind {
		case 'T':
			if pend != nil {
				continue
			}
			res, pend = beginInflight(run, bases[o.base], disk[o.base], diskRoots[o.base], o, 1+r.Intn(3))
			if pend != nil {
				o.tmp = pend.tmpName
				if cfg.script != nil {
					pend.reads = 0
				}
			}
			if n, verr := normalpath.NormalizeAndValidate(o.path); verr == nil && n != "." {
				run.Eval()
				if pend != nil {
					tr.addAncestors(o.base, n)
				} else if tr.acceptsBegin(o.base, n) {
					fail(tr.rejectClass(o.base, n), fmt.Sprintf("%s is rejected (%s) although the reference map accepts it: no ancestor of %q is an object of base%d (disk=%v, objects %v)", o.String(), res, n, o.base, disk[o.base], keys(ref[o.base])))
				}
			}
		case 'R':
			if pend == nil {
				continue
			}
			o.base, o.path, o.content, o.tmp = pend.base, pend.path, pend.content, pend.tmpName
			err := pend.w.Close()
			res = bk.ErrClass(err)
			n, _ := normalpath.NormalizeAndValidate(o.path)
			detachReaders(handles, disk, ref, o.base, func(k string) bool { return k == n || (pend.tmpKey != "" && k == pend.tmpKey) })
			if err == nil {
				ref[o.base][n] = canonContent(materialize(o.content))
			} else if tr.acceptsClose(o.base, n) {
				run.Eval()
				fail(tr.rejectClass(o.base, n), fmt.Sprintf("%s fails (%s) although the reference map accepts the put: %q is not a directory of base%d (disk=%v)", o.String(), res, n, o.base, disk[o.base]))
			}
			pend = nil
		case 'p':
			var opts []storage.PutOption
			if o.how == "atomic" {
				opts = append(opts, storage.PutWithAtomic())
			}
			n, verr := normalpath.NormalizeAndValidate(o.path)
			expect := verr == nil && n != "." && tr.acceptsPut(o.base, n)
			wb, wp := writeTarget(o.base, o.path, false)
			err := bk.PutString(ctx, wb, wp, materialize(o.content), opts...)
			res = bk.ErrClass(err)
			run.Eval()
			if err == nil {
				if o.how == "atomic" {
					detachReaders(handles, disk, ref, o.base, func(k string) bool { return k == n })
				}
				ref[o.base][n] = canonContent(materialize(o.content))
				tr.addAncestors(o.base, n)
			} else if expect {
				// the property's own statement: every backend is the SAME map; a write the map accepts
				// (a valid path that neither lies below an object nor names a directory) is accepted
				fail(tr.rejectClass(o.base, n), fmt.Sprintf("%s is rejected (%s: %v) although the reference map accepts it: base%d (disk=%v) holds %v and %q is neither below one of them nor a directory", o.String(), res, err, o.base, disk[o.base], keys(ref[o.base]), n))
			}
		case 'd':
			wb, wp := writeTarget(o.base, o.path, false)
			err := wb.Delete(ctx, wp)
			res = bk.ErrClass(err)
			if n, verr := normalpath.NormalizeAndValidate(o.path); verr == nil {
				_, had := ref[o.base][n]
				if had != (err == nil) && n != "." && !addressesDir {
					fail("delete-vs-reference", fmt.Sprintf("delete %q on base%d: object existed=%v but result %s", o.path, o.base, had, res))
				}
				if err == nil {
					detachReaders(handles, disk, ref, o.base, func(k string) bool { return k == n })
					tr.removeDir(o.base, n)
				}
				delete(ref[o.base], n)
			}
		case 'D':
			wb, wp := writeTarget(o.base, o.path, true)
			err := wb.DeleteAll(ctx, wp)
			res = bk.ErrClass(err)
			if n, verr := normalpath.NormalizeAndValidate(o.path); verr == nil && err == nil {
				detachReaders(handles, disk, ref, o.base, func(k string) bool { return under(n, k) })
				for p := range ref[o.base] {
					if under(n, p) {
						delete(ref[o.base], p)
					}
				}
				tr.deleteAll(o.base, n)
			} else if verr == nil && tr.acceptsDeleteAll(o.base, n) {
				run.Eval()
				fail("backend-op-error-differs", fmt.Sprintf("%s fails (%s: %v) although the reference map accepts it: no ancestor of %q is an object of base%d (disk=%v, objects %v)", o.String(), res, err, n, o.base, disk[o.base], keys(ref[o.base])))
			}
		case 'O':
			var h *rhandle
			res, h = openReader(run, bases[o.base], disk[o.base], o, ref[o.base])
			if h != nil {
				h.id = len(handles)
				h.shadow = openShadow(r, comp, anyDisk, o.n)
				handles = append(handles, h)
			}
		case 'F':
			if o.n < 0 || o.n >= len(handles) || handles[o.n].done {
				continue
			}
			res = finishReader(run, handles[o.n], ref, fail)
		case 'g':
			c, err := bk.ReadAll(ctx, comp, o.path)
			if err != nil {
				res = bk.ErrClass(err)
			} else {
				res = "ok:" + canonContent(c)
			}
			// oracle (Walk/Get coherence, the property's own statement): a get finds an object
			// exactly when a walk of the whole composite lists that path, with that content
			if np, verr := normalpath.NormalizeAndValidate(o.path); verr == nil && np != "." {
				if all, werr := bk.WalkAll(ctx, comp, ""); werr == nil {
					listed, lc := false, ""
					for _, kv := range all {
						if kv.K == np {
							listed, lc = true, kv.V
						}
					}
					run.Eval()
					switch {
					case err == nil && !listed:
						fail("get-finds-unlisted-object", fmt.Sprintf("get %q through %s succeeds but a walk of the composite does not list %q", o.path, e.String(), np))
					case err == nil && lc != c:
						fail("get-and-walk-disagree-on-content", fmt.Sprintf("get %q through %s returns other content than the walk reports", o.path, e.String()))
					case err != nil && listed:
						fail("walk-lists-ungettable-object", fmt.Sprintf("walk of %s lists %q but get fails: %v", e.String(), np, err))
					}
				}
			}
		case 's':
			_, err := comp.Stat(ctx, o.path)
			res = bk.ErrClass(err)
		case 'w':
			kvs, err := bk.WalkAll(ctx, comp, o.path)
			if err == bk.ErrRootObject {
				run.Count("skip:walk-root-object")
				continue
			}
			if err != nil {
				res = bk.ErrClass(err)
			} else {
				res = "ok:" + bk.Dump(canonKVs(kvs))
				seen := map[string]bool{}
				for _, kv := range kvs {
					if seen[kv.K] {
						fail("walk-duplicate", fmt.Sprintf("walk %q through %s visited %q twice", o.path, e.String(), kv.K))
					}
					seen[kv.K] = true
				}
				// walk(prefix) must be exactly the path-wise restriction of walk("")
				if all, err2 := bk.WalkAll(ctx, comp, ""); err2 == nil {
					if np, verr := normalpath.NormalizeAndValidate(o.path); verr == nil {
						want := map[string]string{}
						for _, kv := range all {
							if under(np, kv.K) {
								want[kv.K] = kv.V
							}
						}
						got := map[string]string{}
						for _, kv := range kvs {
							got[kv.K] = kv.V
						}
						if !sameMap(want, got) {
							fail("walk-not-pathwise-restriction", fmt.Sprintf("walk %q through %s = %v but restriction of walk(\"\") = %v", o.path, e.String(), keys(got), keys(want)))
						}
					}
				}
			}
		case 'C':
			cnt, srcBefore, srcErr, err := doCopy(comp, bases[o.base], o.how, disk[o.base], ref[o.base])
			if err == errSkip {
				run.Count("skip:copy-disk-conflict")
				continue
			}
			if err != nil && srcErr == nil && tr.acceptsAll(o.base, srcBefore) {
				run.Eval()
				fail("copy-fails-although-map-accepts", fmt.Sprintf("%s fails (%v) although walking the source succeeds and base%d (disk=%v, objects %v) accepts every one of its paths %v", o.String(), err, o.base, disk[o.base], keys(ref[o.base]), kvKeys(srcBefore)))
			}
			if err == nil {
				for k := range ref[o.base] {
					tr.addAncestors(o.base, k)
				}
			} else if disk[o.base] {
				tr.rescan(o.base, diskRoots[o.base])
			}
			if err != nil {
				res = "err" // the three mechanisms meet the first error at different moments
				// a failed copy may have copied some objects before the error: the reference of
				// the target is re-read (an error WAS reported, which is all the property asks)
				if kvs, werr := bk.WalkAll(ctx, bases[o.base], ""); werr == nil {
					ref[o.base] = map[string]string{}
					for _, kv := range kvs {
						ref[o.base][kv.K] = canonContent(kv.V)
					}
				}
			} else {
				res = "ok:" + strconv.Itoa(cnt)
			}
			// refresh the reference of the target from the implementation itself is NOT done:
			// recompute it from the composite's own walk taken before the copy (in doCopy).
		}
		ops = append(ops, o)
		results = append(results, res)
		run.Count("op:" + string(o.kind) + ":" + strings.SplitN(res, ":", 2)[0] + errTag(res))
		// oracle: every base equals its reference map.  The comparison is on STATE, so a divergence
		// persists until the next comparison: after a pure read (g / s / w / O / F) it is made only
		// every third op (and always while an atomic put is in flight) — a read that corrupted a base
		// is still caught, at the latest after the next write or by the final dump; this re-walk of
		// every base (1 MiB objects, disk) is what a history case costs (round 6: budget).
		pureRead := o.kind == 'g' || o.kind == 's' || o.kind == 'w' || o.kind == 'O' || o.kind == 'F'
		for i := range bases {
			if pureRead && pend == nil && len(ops)%3 != 0 {
				break
			}
			kvs, err := bk.WalkAll(ctx, bases[i], "")
			must(err)
			got := map[string]string{}
			for _, kv := range kvs {
				if _, dup := got[kv.K]; dup {
					fail("walk-duplicate", fmt.Sprintf("base%d walk visited %q twice", i, kv.K))
				}
				got[kv.K] = canonContent(kv.V)
			}
			if pend != nil && pend.base == i && pend.tmpKey != "" {
				// The temp file of the in-flight atomic put: the property does not say whether it
				// is shown (as coded it IS a regular file of the directory, so Walk lists it and
				// Get serves it — the model says so and the correspondence compares it).  The
				// oracle only asks that Walk and Get agree about it, and otherwise ignores it.
				_, listed := got[pend.tmpKey]
				_, gerr := bk.ReadAll(ctx, bases[i], pend.tmpKey)
				run.Eval()
				if listed {
					run.Count("inflight:walk-lists-temp-file")
				} else {
					run.Count("inflight:walk-hides-temp-file")
				}
				if listed != (gerr == nil) {
					fail("inflight-temp-walk-get-incoherent", fmt.Sprintf("while an atomic put of %q on base%d is in flight its temp file %q: listed by walk=%v, get error=%v", pend.path, i, pend.tmpKey, listed, gerr))
				}
				delete(got, pend.tmpKey)
			}
			if !sameMap(ref[i], got) {
				fail("base-vs-reference-map", fmt.Sprintf("after %s base%d (disk=%v) holds %v but the reference map holds %v", o.String(), i, disk[i], got, ref[i]))
				// resync so one divergence is reported once
				ref[i] = got
			}
			// spot-check get/stat against the reference
			for _, p := range pool[:4] {
				c, err := bk.ReadAll(ctx, bases[i], p)
				want, ok := ref[i][p]
				if ok != (err == nil) || (ok && canonContent(c) != want) {
					fail("get-vs-reference-map", fmt.Sprintf("base%d get %q: impl (%q,%v) reference (%q,%v)", i, p, canonContent(c), err, want, ok))
				}
			}
		}
		// oracle: union must report a path present in two members
		if o.kind == 'g' && e.kind == "multi" && strings.HasPrefix(res, "ok") {
			ra := e.a.buildR(toRead(bases), false)
			rb := e.b.buildR(toRead(bases), false)
			_, ea := ra.Stat(ctx, o.path)
			_, eb := rb.Stat(ctx, o.path)
			if ea == nil && eb == nil {
				fail("union-hides-duplicate", fmt.Sprintf("get %q succeeded on %s although both members have it", o.path, e.String()))
			}
		}
	}
	checkStrip(run, e, toRead(bases), fail)
	checkUnionNodes(run, e, toRead(bases), fail)
	var sb strings.Builder
	sb.WriteString(strings.Join(results, ";"))
	for i := range bases {
		kvs, err := bk.WalkAll(ctx, bases[i], "")
		must(err)
		sb.WriteString("|" + bk.Dump(canonKVs(kvs)))
	}
	encs := make([]string, len(ops))
	for i, o := range ops {
		encs[i] = o.enc()
	}
	opsEnc := "-"
	if len(encs) > 0 {
		opsEnc = strings.Join(encs, ";")
	}
	nontrivial := false
	for i, o := range ops {
		if (o.kind == 'g' || o.kind == 'w' || o.kind == 'C') && strings.HasPrefix(results[i], "ok:") && len(results[i]) > 3 {
			nontrivial = true
		}
	}
	run.Count("expr:" + e.kind)
	if anyDisk {
		run.Count("case:has-disk-base")
	}
	kinds := ""
	for i := range disk {
		if disk[i] {
			kinds += "d"
		} else {
			kinds += "m"
		}
	}
	run.Case("hist2\t"+e.enc()+"\t"+kinds+"\t"+opsEnc, sb.String(), nontrivial)
	if idx < 4 {
		in := input()
		in["results"] = results
		run.Sample(in)
	}
}

// beginInflight starts an atomic Put, writes the content and leaves the writer open.  On a disk
// base the temp file the implementation created is found by listing the object's directory
// before and after.
func beginInflight(run *hx.Run, b storage.ReadWriteBucket, isDisk bool, root string, o op, reads int) (string, *inflight) {
	n, verr := normalpath.NormalizeAndValidate(o.path)
	var dir string
	before := map[string]bool{}
	if isDisk && verr == nil {
		dir = filepath.Join(root, filepath.FromSlash(normalpath.Dir(n)))
		if es, err := os.ReadDir(dir); err == nil {
			for _, e := range es {
				before[e.Name()] = true
			}
		}
	}
	w, err := b.Put(ctx, o.path, storage.PutWithAtomic())
	if err != nil {
		return bk.ErrClass(err), nil
	}
	if _, err := w.Write([]byte(materialize(o.content))); err != nil {
		w.Close()
		return "err:write", nil
	}
	p := &inflight{base: o.base, path: o.path, content: o.content, w: w, reads: reads}
	if isDisk && verr == nil {
		es, err := os.ReadDir(dir)
		must(err)
		for _, e := range es {
			if !before[e.Name()] && e.Type().IsRegular() {
				if p.tmpName != "" {
					panic("two new files in " + dir)
				}
				p.tmpName = e.Name()
			}
		}
		if p.tmpName != "" {
			p.tmpKey = normalpath.Join(normalpath.Dir(n), p.tmpName)
			run.Count("inflight:disk-temp-file-found")
		} else {
			run.Count("inflight:disk-no-temp-file")
		}
	} else {
		run.Count("inflight:memory")
	}
	return "ok", p
}

func errTag(res string) string {
	if strings.HasPrefix(res, "err:") {
		return ":" + strings.TrimPrefix(res, "err:")
	}
	return ""
}

func pickView(r *hx.Rand) string {
	p := hx.Pick(r, pool)
	if r.Chance(1, 2) {
		// make it relative to one of the prefixes so mapped views hit something
		for _, pre := range prefixes {
			if strings.HasPrefix(p, pre+"/") && r.Chance(1, 2) {
				return strings.TrimPrefix(p, pre+"/")
			}
		}
	}
	if r.Chance(1, 10) {
		return hx.Pick(r, []string{".", "", "../x", "/abs", "a"})
	}
	return p
}

func sameMap(a, b map[string]string) bool {
	if len(a) != len(b) {
		return false
	}
	for k, v := range a {
		if w, ok := b[k]; !ok || w != v {
			return false
		}
	}
	return true
}

func keys(m map[string]string) []string {
	out := make([]string, 0, len(m))
	for k := range m {
		out = append(out, k)
	}
	sort.Strings(out)
	return out
}

var errSkip = fmt.Errorf("skip")

// doCopy copies everything readable through comp into target by the chosen mechanism and
// updates the reference map of the target from a walk of comp taken BEFORE the copy.
func doCopy(comp storage.ReadBucket, target storage.ReadWriteBucket, how string, targetDisk bool, ref map[string]string) (cnt int, src []bk.KV, werr error, err error) {
	src, werr = bk.WalkAll(ctx, comp, "")
	if werr == bk.ErrRootObject {
		return 0, src, werr, errSkip
	}
	if werr == nil && targetDisk {
		for _, kv := range src {
			for p := range ref {
				if p != kv.K && (under(p, kv.K) || under(kv.K, p)) {
					return 0, src, werr, errSkip
				}
			}
		}
		for i := range src {
			for j := range src {
				if i != j && under(src[i].K, src[j].K) {
					return 0, src, werr, errSkip
				}
			}
		}
	}
	switch how {
	case "copy":
		cnt, err = storage.Copy(ctx, comp, target)
	case "copy-atomic":
		cnt, err = storage.Copy(ctx, comp, target, storage.CopyWithAtomic())
	case "tar":
		var buf bytes.Buffer
		if err = storagearchive.Tar(ctx, comp, &buf); err == nil {
			err = storagearchive.Untar(ctx, &buf, target)
		}
		cnt = len(src)
	default:
		var buf bytes.Buffer
		if err = storagearchive.Zip(ctx, comp, &buf, true); err == nil {
			err = storagearchive.Unzip(ctx, bytes.NewReader(buf.Bytes()), int64(buf.Len()), target)
		}
		cnt = len(src)
	}
	if err == nil && werr == nil {
		for _, kv := range src {
			ref[kv.K] = canonContent(kv.V)
		}
	}
	if err == nil && werr != nil {
		return cnt, src, werr, fmt.Errorf("copy succeeded although walking the source fails: %v", werr)
	}
	return cnt, src, werr, err
}

// stripNodes collects every StripReadBucketExternalPaths node of the expression.
func (e *expr) stripNodes(out *[]*expr) {
	switch e.kind {
	case "b":
	case "pre", "filt":
		e.a.stripNodes(out)
	case "strip":
		*out = append(*out, e)
		e.a.stripNodes(out)
	default:
		e.a.stripNodes(out)
		e.b.stripNodes(out)
	}
}

// checkStrip is the oracle for storage.StripReadBucketExternalPaths: for every strip node, Walk,
// Stat and Get give the same paths/contents/errors as the wrapped bucket, and every object
// reports ExternalPath == Path.
func checkStrip(run *hx.Run, e *expr, bases []storage.ReadBucket, fail func(class, what string)) {
	var nodes []*expr
	e.stripNodes(&nodes)
	for _, n := range nodes {
		inner := n.a.buildR(bases, false)
		outer := storage.StripReadBucketExternalPaths(inner)
		type seen struct{ path, ext string }
		var ip, op []seen
		ierr := inner.Walk(ctx, "", func(oi storage.ObjectInfo) error { ip = append(ip, seen{oi.Path(), oi.ExternalPath()}); return nil })
		oerr := outer.Walk(ctx, "", func(oi storage.ObjectInfo) error { op = append(op, seen{oi.Path(), oi.ExternalPath()}); return nil })
		run.Count("strip:node-checked")
		if bk.ErrClass(ierr) != bk.ErrClass(oerr) {
			fail("strip-changes-result", fmt.Sprintf("walk through %s: wrapped %v, stripped %v", n.String(), ierr, oerr))
			continue
		}
		if ierr != nil {
			continue
		}
		if len(ip) != len(op) {
			fail("strip-changes-result", fmt.Sprintf("walk through %s lists %d objects, wrapped bucket %d", n.String(), len(op), len(ip)))
			continue
		}
		for i := range ip {
			if ip[i].path != op[i].path {
				fail("strip-changes-result", fmt.Sprintf("walk through %s: object %d is %q, wrapped bucket %q", n.String(), i, op[i].path, ip[i].path))
			}
			if op[i].ext != op[i].path {
				fail("strip-external-path-kept", fmt.Sprintf("walk through %s: %q has ExternalPath %q", n.String(), op[i].path, op[i].ext))
			}
			if ip[i].ext != ip[i].path {
				run.Count("strip:external-path-differed")
			}
			if op[i].path == "." {
				continue
			}
			oi, serr := outer.Stat(ctx, op[i].path)
			_, sierr := inner.Stat(ctx, op[i].path)
			if bk.ErrClass(serr) != bk.ErrClass(sierr) {
				fail("strip-changes-result", fmt.Sprintf("stat %q through %s: %v, wrapped %v", op[i].path, n.String(), serr, sierr))
			} else if serr == nil && (oi.ExternalPath() != oi.Path() || oi.Path() != op[i].path) {
				fail("strip-external-path-kept", fmt.Sprintf("stat %q through %s: Path %q ExternalPath %q", op[i].path, n.String(), oi.Path(), oi.ExternalPath()))
			}
			ro, gerr := outer.Get(ctx, op[i].path)
			ci, gierr := bk.ReadAll(ctx, inner, op[i].path)
			if bk.ErrClass(gerr) != bk.ErrClass(gierr) {
				fail("strip-changes-result", fmt.Sprintf("get %q through %s: %v, wrapped %v", op[i].path, n.String(), gerr, gierr))
			} else if gerr == nil {
				data, _ := io.ReadAll(ro)
				if ro.ExternalPath() != ro.Path() || ro.Path() != op[i].path {
					fail("strip-external-path-kept", fmt.Sprintf("get %q through %s: Path %q ExternalPath %q", op[i].path, n.String(), ro.Path(), ro.ExternalPath()))
				}
				ro.Close()
				if string(data) != ci {
					fail("strip-changes-result", fmt.Sprintf("get %q through %s returns different content than the wrapped bucket", op[i].path, n.String()))
				}
			}
		}
		// a path that is not there
		_, e1 := outer.Stat(ctx, "no/such/object")
		_, e2 := inner.Stat(ctx, "no/such/object")
		if bk.ErrClass(e1) != bk.ErrClass(e2) {
			fail("strip-changes-result", fmt.Sprintf("stat of a missing path through %s: %v, wrapped %v", n.String(), e1, e2))
		}
	}
}

// ---------------------------------------------------------------------------------------
// archives

type aent struct {
	name, kind, content string // kind: r d o
}

func kindOf(m os.FileMode) string {
	switch {
	case m.IsRegular():
		return "r"
	case m.IsDir():
		return "d"
	default:
		return "o"
	}
}

// listTar / listZip: the entries the archive READERS yield for the bytes (independent of buf).
func listTar(b []byte) ([]aent, error) {
	var out []aent
	tr := tar.NewReader(bytes.NewReader(b))
	for {
		h, err := tr.Next()
		if err == io.EOF {
			return out, nil
		}
		if err != nil {
			return nil, err
		}
		data, err := io.ReadAll(tr)
		if err != nil {
			return nil, err
		}
		out = append(out, aent{h.Name, kindOf(h.FileInfo().Mode()), string(data)})
	}
}

func listZip(b []byte) ([]aent, error) {
	if len(b) == 0 {
		return nil, nil
	}
	zr, err := zip.NewReader(bytes.NewReader(b), int64(len(b)))
	if err != nil {
		return nil, err
	}
	var out []aent
	for _, f := range zr.File {
		content := ""
		if f.FileInfo().Mode().IsRegular() {
			rc, err := f.Open()
			if err != nil {
				return nil, err
			}
			data, err := io.ReadAll(rc)
			rc.Close()
			if err != nil {
				return nil, err
			}
			content = string(data)
		}
		out = append(out, aent{f.Name, kindOf(f.FileInfo().Mode()), content})
	}
	return out, nil
}

func encContent(c string) string {
	if c == "" {
		return "-"
	}
	return c
}

func dumpEntries(es []aent) string {
	type kv struct{ k, v string }
	kvs := make([]kv, len(es))
	for i, e := range es {
		kvs[i] = kv{hx.Enc(e.name) + ":" + e.kind, e.content}
	}
	sort.SliceStable(kvs, func(i, j int) bool { return kvs[i].k < kvs[j].k })
	parts := make([]string, len(kvs))
	for i, x := range kvs {
		parts[i] = x.k + "=" + x.v
	}
	return strings.Join(parts, ",")
}

type xopts struct {
	zip     bool
	strip   int
	menc    string
	matcher storage.Matcher
	maxSize int
}

func genXopts(r *hx.Rand) xopts {
	o := xopts{zip: r.Chance(1, 2), menc: "-"}
	switch r.Intn(6) {
	case 0, 1, 2:
		o.strip = 0
	case 3, 4:
		o.strip = 1
	default:
		o.strip = 2
	}
	if r.Chance(1, 4) {
		if r.Bool() {
			o.menc, o.matcher = "ext:"+hx.Enc(".proto"), storage.MatchPathExt(".proto")
		} else {
			o.menc, o.matcher = "not:ext:"+hx.Enc(".proto"), storage.MatchNot(storage.MatchPathExt(".proto"))
		}
	}
	if !o.zip && r.Chance(1, 5) {
		o.maxSize = 3
	}
	return o
}

func (o xopts) fmtName() string {
	if o.zip {
		return "zip"
	}
	return "tar"
}

func (o xopts) fields() string {
	return o.fmtName() + "\t" + strconv.Itoa(o.strip) + "\t" + o.menc + "\t" + strconv.Itoa(o.maxSize)
}

// extract runs the real Untar / Unzip on the bytes into a fresh memory bucket.
func (o xopts) extract(b []byte) (string, []bk.KV) {
	dest := storagemem.NewReadWriteBucket()
	var err error
	if o.zip {
		opts := []storagearchive.UnzipOption{storagearchive.UnzipWithStripComponentCount(uint32(o.strip))}
		if o.matcher != nil {
			opts = append(opts, storagearchive.UnzipWithFilePathMatcher(o.matcher.MatchPath))
		}
		err = storagearchive.Unzip(ctx, bytes.NewReader(b), int64(len(b)), dest, opts...)
	} else {
		opts := []storagearchive.UntarOption{storagearchive.UntarWithStripComponentCount(uint32(o.strip))}
		if o.matcher != nil {
			opts = append(opts, storagearchive.UntarWithFilePathMatcher(o.matcher.MatchPath))
		}
		if o.maxSize != 0 {
			opts = append(opts, storagearchive.UntarWithMaxFileSize(int64(o.maxSize)))
		}
		err = storagearchive.Untar(ctx, bytes.NewReader(b), dest, opts...)
	}
	final, werr := bk.WalkAll(ctx, dest, "")
	must(werr)
	return bk.ErrClass(err), final
}

func isAppleName(p string) bool {
	return strings.HasPrefix(p[strings.LastIndex(p, "/")+1:], "._")
}

var arcPool = []string{"a/x", "a/y.proto", "a/sub/z", "b", "c/d/e", "a.b", "s t/u", "é/n", "ab", "a/x.proto",
	"top/p.proto", "top/q", "top/in/r", "a/._res", "._top", "c/d/._e", "a", "c/d"}
var arcContents = []string{"C0", "C1", "xy", "-", "0123456789", "pp"}

// runArc: real Tar/Zip of a composite over memory bases, entries listed from the bytes, then the
// real Untar/Unzip of those bytes.
func runArc(run *hx.Run, idx int, r *hx.Rand) {
	nb := 1 + r.Intn(3)
	bases := make([]storage.ReadWriteBucket, nb)
	for i := range bases {
		bases[i] = storagemem.NewReadWriteBucket()
	}
	e := genExpr(r, nb, r.Intn(4))
	comp := e.build(bases)
	var puts []string
	var putDescr []string
	nPuts := 2 + r.Intn(9)
	for i := 0; i < nPuts; i++ {
		o := op{kind: 'p', base: r.Intn(nb), path: spell(r, hx.Pick(r, arcPool)), content: hx.Pick(r, arcContents), how: "plain"}
		if err := bk.PutString(ctx, bases[o.base], o.path, materialize(o.content)); err != nil {
			continue
		}
		puts = append(puts, o.enc())
		putDescr = append(putDescr, o.String())
	}
	xo := genXopts(r)
	input := map[string]any{"expr": e.String(), "puts": putDescr, "format": xo.fmtName(), "strip": xo.strip, "matcher": xo.menc, "max_size": xo.maxSize}
	fail := func(class, what string) {
		run.Fail(hx.OracleFailure{Class: class, What: what, Input: input,
			Replay: fmt.Sprintf("build/c14 --out /tmp/c14-replay --seed %d --tier %s (archive case %d)", run.Seed, run.Tier, idx)})
	}
	defer func() {
		if p := recover(); p != nil {
			fail("harness-panic", fmt.Sprint(p))
		}
	}()
	putsEnc := "-"
	if len(puts) > 0 {
		putsEnc = strings.Join(puts, ";")
	}
	line := "arc\t" + xo.fields() + "\t" + e.enc() + "\t" + strconv.Itoa(nb) + "\t" + putsEnc
	var buf bytes.Buffer
	var err error
	if xo.zip {
		err = storagearchive.Zip(ctx, comp, &buf, r.Bool())
	} else {
		err = storagearchive.Tar(ctx, comp, &buf)
	}
	if err != nil {
		run.Count("arc:" + xo.fmtName() + ":write-error")
		run.Case(line, "err", false)
		return
	}
	var ents []aent
	if xo.zip {
		ents, err = listZip(buf.Bytes())
	} else {
		ents, err = listTar(buf.Bytes())
	}
	must(err)
	res, final := xo.extract(buf.Bytes())
	run.Count("arc:" + xo.fmtName() + ":" + res)
	run.Count("arc:strip=" + strconv.Itoa(xo.strip))
	if len(ents) == 0 {
		run.Count("arc:empty-archive")
	} else if len(final) > 0 {
		run.Count("arc:objects-extracted")
	}
	// oracle (implementation only): the archive lists exactly the walked objects with the
	// contents Get returns; a plain round trip reproduces the composite (minus "._" names)
	src, werr := bk.WalkAll(ctx, comp, "")
	if werr != nil {
		fail("tar-succeeds-although-walk-fails", fmt.Sprintf("%s of %s succeeded but walking it fails: %v", xo.fmtName(), e.String(), werr))
	} else {
		want := map[string]string{}
		for _, kv := range src {
			want[kv.K] = kv.V
		}
		got := map[string]string{}
		for _, en := range ents {
			if _, dup := got[en.name]; dup {
				fail("tar-entry-twice", fmt.Sprintf("%s of %s holds entry %q twice", xo.fmtName(), e.String(), en.name))
			}
			if en.kind != "r" {
				fail("tar-entry-not-regular", fmt.Sprintf("%s of %s holds non-regular entry %q", xo.fmtName(), e.String(), en.name))
			}
			got[en.name] = en.content
		}
		if !sameMap(want, got) {
			fail("tar-entries-differ-from-walk", fmt.Sprintf("%s of %s holds %v but the bucket holds %v", xo.fmtName(), e.String(), keys(got), keys(want)))
		}
		if xo.strip == 0 && xo.matcher == nil && xo.maxSize == 0 {
			exp := map[string]string{}
			for k, v := range want {
				if !isAppleName(k) {
					exp[k] = v
				}
			}
			back := map[string]string{}
			for _, kv := range final {
				back[kv.K] = kv.V
			}
			if res != "ok" || !sameMap(exp, back) {
				fail("archive-roundtrip-differs", fmt.Sprintf("%s round trip of %s: result %s, extracted %v, source %v", xo.fmtName(), e.String(), res, keys(back), keys(exp)))
			}
			run.Eval()
		}
	}
	run.Case(line, dumpEntries(ents)+"|"+res+"|"+bk.Dump(final), len(final) > 0)
	if idx < 2 {
		input["entries"] = len(ents)
		input["result"] = res
		run.Sample(input)
	}
}

var hostileNames = []string{"a/x", "top/a/x", "top/b", "./top/c", "top//d", "../evil", "top/../../evil", "/abs/e",
	"top/..", "top/./e/../f", "..", "a/../../outside.txt", "t/é", "t/s p", "top", "x/y/z/w.proto", "top/../sent", "._apple",
	"top/._res", "../._x", "top/._d/.", "../._d/.", "top/p.proto", "top/sub/q.proto", ".", "./", "top/", "a/b/", "._dir/", "x/._y/z"}

// runXtr: a hand-written archive (hostile names, directories, symlinks, "._" files).
func runXtr(run *hx.Run, idx int, r *hx.Rand) {
	xo := genXopts(r)
	ne := 1 + r.Intn(5)
	type went struct {
		name, kind, content string
	}
	var ws []went
	for j := 0; j < ne; j++ {
		w := went{name: hx.Pick(r, hostileNames), kind: "r", content: hx.Pick(r, arcContents)}
		if r.Chance(1, 6) {
			w.kind = "d"
		} else if r.Chance(1, 10) {
			w.kind = "o"
		}
		if w.content == "-" {
			w.content = ""
		}
		ws = append(ws, w)
	}
	var buf bytes.Buffer
	okBuild := true
	if xo.zip {
		zw := zip.NewWriter(&buf)
		for _, w := range ws {
			fh := &zip.FileHeader{Name: w.name, Method: zip.Store}
			switch w.kind {
			case "d":
				if !strings.HasSuffix(fh.Name, "/") {
					fh.Name += "/"
				}
			case "o":
				fh.SetMode(os.ModeSymlink | 0o777)
			}
			fw, err := zw.CreateHeader(fh)
			if err != nil {
				okBuild = false
				break
			}
			if w.kind != "d" && !strings.HasSuffix(fh.Name, "/") {
				if _, err := fw.Write([]byte(w.content)); err != nil {
					okBuild = false
					break
				}
			}
		}
		if zw.Close() != nil {
			okBuild = false
		}
	} else {
		tw := tar.NewWriter(&buf)
		for _, w := range ws {
			h := &tar.Header{Typeflag: tar.TypeReg, Name: w.name, Size: int64(len(w.content)), Mode: 0o644}
			if w.kind == "r" && strings.HasSuffix(w.name, "/") {
				w.kind = "d" // the tar writer refuses a regular file whose name ends in '/'
			}
			switch w.kind {
			case "d":
				h.Typeflag, h.Size, h.Mode = tar.TypeDir, 0, 0o755
			case "o":
				h.Typeflag, h.Size, h.Linkname = tar.TypeSymlink, 0, "target"
			}
			if err := tw.WriteHeader(h); err != nil {
				okBuild = false
				break
			}
			if h.Size > 0 {
				if _, err := tw.Write([]byte(w.content)); err != nil {
					okBuild = false
					break
				}
			}
		}
		if tw.Close() != nil {
			okBuild = false
		}
	}
	if !okBuild {
		run.Count("xtr:unbuildable:" + xo.fmtName())
		return
	}
	var ents []aent
	var err error
	if xo.zip {
		ents, err = listZip(buf.Bytes())
	} else {
		ents, err = listTar(buf.Bytes())
	}
	if err != nil {
		run.Count("xtr:unreadable")
		return
	}
	names := make([]string, len(ents))
	encs := make([]string, len(ents))
	for i, en := range ents {
		names[i] = en.kind + " " + strconv.Quote(en.name)
		encs[i] = hx.Enc(en.name) + ":" + en.kind + ":" + encContent(en.content)
	}
	input := map[string]any{"format": xo.fmtName(), "strip": xo.strip, "matcher": xo.menc, "max_size": xo.maxSize, "entries": names}
	fail := func(class, what string) {
		run.Fail(hx.OracleFailure{Class: class, What: what, Input: input,
			Replay: fmt.Sprintf("build/c14 --out /tmp/c14-replay --seed %d --tier %s (extract case %d)", run.Seed, run.Tier, idx)})
	}
	defer func() {
		if p := recover(); p != nil {
			fail("harness-panic", fmt.Sprint(p))
		}
	}()
	res, final := xo.extract(buf.Bytes())
	run.Count("xtr:" + xo.fmtName() + ":" + res)
	// oracle (implementation only): everything extracted is a normalised path obtained from a
	// regular entry by strip-components, with that entry's content
	for _, kv := range final {
		ok := false
		for _, en := range ents {
			if en.kind != "r" || en.content != kv.V {
				continue
			}
			if n, nerr := normalpath.NormalizeAndValidate(en.name); nerr == nil && n != "." {
				if sp, sok := normalpath.StripComponents(n, uint32(xo.strip)); sok && sp == kv.K {
					ok = true
				}
			}
		}
		if !ok {
			fail("extracted-object-from-nowhere", fmt.Sprintf("extraction produced %q=%q which no regular entry maps to", kv.K, kv.V))
		}
	}
	entsEnc := "-"
	if len(encs) > 0 {
		entsEnc = strings.Join(encs, ",")
	}
	run.Case("xtr\t"+xo.fields()+"\t"+entsEnc, res+"|"+bk.Dump(final), len(final) > 0 || res != "ok")
	if idx < 2 {
		input["result"] = res
		run.Sample(input)
	}
}

// guarded runs one case with a watchdog: an implementation that does not return (e.g. the
// EqualsOrContainsPath loop on a path that never reaches ".") is an oracle failure, not a hang of
// the whole check.
func guarded(run *hx.Run, what string, cleanup func(), f func()) {
	done := make(chan struct{})
	go func() {
		defer close(done)
		f()
	}()
	select {
	case <-done:
	case <-time.After(120 * time.Second):
		run.Fail(hx.OracleFailure{Class: "implementation-hang", What: what + " did not return within 120 s",
			Input: map[string]any{"case": what}, Replay: fmt.Sprintf("build/c14 --out /tmp/c14-replay --seed %d --tier %s", run.Seed, run.Tier)})
		run.Finish()
		cleanup()
		os.Exit(0)
	}
}

func main() {
	run := hx.Start("C14")
	r := hx.NewRand(run.Seed)
	tmpRoot, err := os.MkdirTemp("", "verif-c14-")
	must(err)
	defer os.RemoveAll(tmpRoot)
	secs := map[string]float64{}
	t0 := time.Now()
	lap := func(name string) {
		secs[name] = float64(time.Since(t0).Milliseconds()) / 1000
		t0 = time.Now()
		run.Set("section_seconds", secs)
	}
	n := run.N(1500, 19000) // thorough: 16 ms per history case (1 MiB objects, disk bases, full re-walk after every write op); 40000 took 26 min; 20000 -> 19000 in round 6 pays for the new sections (budget 15 min)
	for i := 0; i < n; i++ {
		if run.Only >= 0 && run.Only != i {
			continue
		}
		guarded(run, fmt.Sprintf("history case %d", i), func() { os.RemoveAll(tmpRoot) }, func() { runCase(run, i, r.Fork(uint64(i)), tmpRoot) })
	}
	lap("history")
	// union / overlay cases; --only 1000000+i regenerates union case i alone
	ru := r.Fork(1 << 42)
	nu := run.N(700, 20000)
	for i := 0; i < nu; i++ {
		if run.Only >= 0 && run.Only != unionBase+i {
			continue
		}
		guarded(run, fmt.Sprintf("union case %d", i), func() { os.RemoveAll(tmpRoot) }, func() { runUnion(run, i, ru.Fork(uint64(i)), tmpRoot) })
	}
	lap("union")
	// name family (names.go): scripted sweep, then random histories over family pools
	rn := r.Fork(1 << 43)
	nsAll := nameSweepCount()
	ns := run.N(nsAll, nsAll)
	for i := 0; i < ns; i++ {
		if run.Only >= 0 && run.Only != nameSweepBase+i {
			continue
		}
		guarded(run, fmt.Sprintf("name sweep case %d", i), func() { os.RemoveAll(tmpRoot) }, func() { runNameSweep(run, i, rn.Fork(uint64(i)), tmpRoot) })
	}
	rm := r.Fork(1 << 44)
	nm := run.N(300, 3000)
	for i := 0; i < nm; i++ {
		if run.Only >= 0 && run.Only != nameRandBase+i {
			continue
		}
		guarded(run, fmt.Sprintf("name case %d", i), func() { os.RemoveAll(tmpRoot) }, func() { runNames(run, i, rm.Fork(uint64(i)), tmpRoot) })
	}
	lap("names")
	// ancestor family (anc.go): scripted sweep, then random long histories over few nested paths
	rs := r.Fork(1 << 45)
	nas := ancSweepCount()
	for i := 0; i < nas; i++ {
		if run.Only >= 0 && run.Only != ancSweepBase+i {
			continue
		}
		guarded(run, fmt.Sprintf("ancestor sweep case %d", i), func() { os.RemoveAll(tmpRoot) }, func() { runAncSweep(run, i, rs.Fork(uint64(i)), tmpRoot) })
	}
	rr := r.Fork(1 << 46)
	nar := run.N(350, 900)
	for i := 0; i < nar; i++ {
		if run.Only >= 0 && run.Only != ancRandBase+i {
			continue
		}
		guarded(run, fmt.Sprintf("ancestor case %d", i), func() { os.RemoveAll(tmpRoot) }, func() { runAnc(run, i, rr.Fork(uint64(i)), tmpRoot) })
	}
	lap("ancestors")
	// reader isolation (readers.go): scripted sweep, random histories, concurrent rounds
	rq := r.Fork(1 << 47)
	nrs := readerSweepCount()
	for i := 0; i < nrs; i++ {
		if run.Only >= 0 && run.Only != readerSweepBase+i {
			continue
		}
		guarded(run, fmt.Sprintf("reader sweep case %d", i), func() { os.RemoveAll(tmpRoot) }, func() { runReaderSweep(run, i, rq.Fork(uint64(i)), tmpRoot) })
	}
	ro := r.Fork(1 << 48)
	nro := run.N(300, 900)
	for i := 0; i < nro; i++ {
		if run.Only >= 0 && run.Only != readerRandBase+i {
			continue
		}
		guarded(run, fmt.Sprintf("reader case %d", i), func() { os.RemoveAll(tmpRoot) }, func() { runReaders(run, i, ro.Fork(uint64(i)), tmpRoot) })
	}
	lap("readers")
	// duplicate archive members (dupmembers.go)
	rd := r.Fork(1 << 49)
	nd := run.N(400, 2000)
	for i := 0; i < nd; i++ {
		if run.Only >= 0 && run.Only != dupBase+i {
			continue
		}
		guarded(run, fmt.Sprintf("duplicate member case %d", i), func() { os.RemoveAll(tmpRoot) }, func() { runDup(run, i, rd.Fork(uint64(i)), tmpRoot) })
	}
	lap("duplicate-members")
	if run.Only < 0 {
		rc := r.Fork(1 << 50)
		nc := run.N(12, 30)
		for i := 0; i < nc; i++ {
			guarded(run, fmt.Sprintf("concurrent reader round %d", i), func() { os.RemoveAll(tmpRoot) }, func() { runReaderConcurrent(run, i, rc.Fork(uint64(i)), tmpRoot) })
		}
		lap("readers-concurrent")
		ra := r.Fork(1 << 40)
		na := run.N(500, 10000)
		for i := 0; i < na; i++ {
			guarded(run, fmt.Sprintf("archive case %d", i), func() { os.RemoveAll(tmpRoot) }, func() { runArc(run, i, ra.Fork(uint64(i))) })
		}
		rx := r.Fork(1 << 41)
		nx := run.N(500, 10000)
		for i := 0; i < nx; i++ {
			guarded(run, fmt.Sprintf("extract case %d", i), func() { os.RemoveAll(tmpRoot) }, func() { runXtr(run, i, rx.Fork(uint64(i))) })
		}
	}
	lap("archives")
	run.Finish()
}
