// The NAME family of C14: "one path→bytes map" must not depend on what a path component looks
// like.  Seed C14-m5 (disk Walk skipping regular files whose base name starts with ".tmp" — the
// pattern of the implementation's own atomic-put temp files) went unnoticed because the path
// pool had no dot-file and nothing resembling a temp/backup/reserved name.
//
// nameFamily lists base names by what code might special-case: leading dot (hidden files,
// ".tmp*" = the implementation's temp-file pattern, ".git"), dots only ("...", "..x" — valid
// components, unlike ".."), backup / swap / temp suffixes, reserved-looking words (CON, NUL,
// tmp, lost+found), spaces, shell/glob metacharacters, backslash, control characters, Unicode
// (composed / decomposed / compatibility spellings, Hangul jamo, joiners, bidi marks, CJK, emoji), very long components.  Names starting with "._" are
// left to the archive cases (Untar/Unzip drop them on purpose).
//
// Two generators use the family through the ordinary history machinery (runCaseCfg), so every
// oracle of main.go/union.go (base = reference map after every op, walk/get coherence, walk =
// path-wise restriction, union/overlay/strip nodes) and the Lean correspondence judge them:
//   - runNameSweep: a scripted history per (name × placement × backend): the name as a file at
//     the root, in an ordinary directory, in a directory of the same name, and as a DIRECTORY
//     name; backends memory, disk, disk behind a prefix view, union memory+disk, overlay
//     disk+memory; plain put, walks of "", the directory and the object itself, get, stat, an
//     atomic put with the writer left open over a walk (temp file present), storage.Copy / Tar /
//     Zip into a spare base, delete.
//   - runNames: random histories over a per-case pool drawn from the family (2/3 disk bases).
package main

import (
	"strconv"
	"strings"

	"github.com/bufbuild/buf/private/pkg/storage"
	"github.com/bufbuild/verifharness/internal/hx"
)

type vocab struct {
	pool, dirs, prefixes []string
}

var defaultVocab = vocab{pool: pool, dirs: dirs, prefixes: prefixes}

// useVocab swaps the package-level path vocabulary (cases run one at a time).
func useVocab(v *vocab) func() {
	if v == nil {
		v = &defaultVocab
	}
	op, od, opr := pool, dirs, prefixes
	pool, dirs, prefixes = v.pool, v.dirs, v.prefixes
	return func() { pool, dirs, prefixes = op, od, opr }
}

var long200 = strings.Repeat("n", 196) + ".tmp"

var nameFamily = []string{
	// leading dot; the implementation's own temp-file pattern is ".tmp" + base + digits
	".x", ".tmp", ".tmpfoo", ".tmp123", ".tmpl.proto", ".tmpfiles.d", ".tmpx1234567890", ".proto", ".git", ".gitignore", ".DS_Store", ".hidden.proto",
	// dots only / dot-dot look-alikes (valid components)
	"...", "..x", "..x.proto", "x..", "x.",
	// backup, swap, temp, lock suffixes and prefixes
	"x~", "~", "x.proto~", "x.tmp", "x.swp", ".x.swp", "x.bak", "x.orig", "#x#", ".#x", "~$x.proto", "x.lock", "4913",
	// reserved-looking words
	"CON", "con.proto", "NUL", "tmp", "temp", "lost+found", "node_modules", "vendor", "buf.yaml", "buf.lock",
	// spaces and metacharacters
	"a b", " x", "x ", " ", "-x", "--", "*", "?", "[x]", "{x}", "%41", "x:y", "x\\y", "$x", "x;y", "x&y", "x'y", "x\"y", "x\ty", "x\ny",
	// unicode (composed and decomposed u-umlaut, CJK, emoji, no-break space, zero-width space)
	"\u00fc", "u\u0308", "\u65e5\u672c.proto", "\u540d", "\U0001F642", "\u00a0", "x\u200by",
	// normalisation-form twins (NFC / NFD / compatibility spellings of the same text are DIFFERENT names):
	// A-ring U+00C5 / A + U+030A / ANGSTROM SIGN U+212B, Hangul syllable U+AC01 / its jamo, fi ligature,
	// two combining marks in both orders; zero-width joiner, right-to-left mark, byte-order mark
	"\u00c5.proto", "A\u030a.proto", "\u212b.proto", "\uac01", "\u1100\u1161\u11a8", "\ufb01le", "q\u0323\u0307", "q\u0307\u0323",
	"x\u200dy", "x\u200fy", "\ufeffx",
	// long
	long200,
}

// nameTwins: spellings that Unicode normalisation (NFC/NFD/NFKC) would identify.
var nameTwins = map[string][]string{
	"\u00fc":             {"u\u0308"},
	"u\u0308":            {"\u00fc"},
	"\u00c5.proto":       {"A\u030a.proto", "\u212b.proto"},
	"A\u030a.proto":      {"\u00c5.proto", "\u212b.proto"},
	"\u212b.proto":       {"\u00c5.proto", "A\u030a.proto"},
	"\uac01":             {"\u1100\u1161\u11a8"},
	"\u1100\u1161\u11a8": {"\uac01"},
	"\ufb01le":           {"file"},
	"q\u0323\u0307":      {"q\u0307\u0323"},
	"q\u0307\u0323":      {"q\u0323\u0307"},
	"x\u200dy":           {"xy", "x\u200by"},
	"\ufeffx":            {"x"},
}

const (
	nameSweepBase = 2000000
	nameRandBase  = 3000000
)

var namePlacements = []string{"root", "in-dir", "in-same-name-dir", "as-dir"}
var nameBackends = []string{"mem", "disk", "disk-view", "union-mem-disk", "overlay-disk-mem"}

func nameSweepCount() int { return len(nameFamily) * len(namePlacements) * len(nameBackends) }

// runNameSweep runs scripted case i.
func runNameSweep(run *hx.Run, i int, r *hx.Rand, tmpRoot string) {
	name := nameFamily[i%len(nameFamily)]
	placement := namePlacements[(i/len(nameFamily))%len(namePlacements)]
	backend := nameBackends[(i/(len(nameFamily)*len(namePlacements)))%len(nameBackends)]
	var dir, path string
	switch placement {
	case "root":
		dir, path = "", name
	case "in-dir":
		dir, path = "d", "d/"+name
	case "in-same-name-dir":
		dir, path = name, name+"/"+name
	default:
		dir, path = name, name+"/f.proto"
	}
	other := "d/other.proto"
	// the base that holds the object, and the spare base copies go to (not part of the composite)
	var e *expr
	var kinds []bool
	holder := 0
	readPath, readDir := path, dir
	switch backend {
	case "mem":
		e, kinds = &expr{kind: "b", base: 0}, []bool{false, true}
	case "disk":
		e, kinds = &expr{kind: "b", base: 0}, []bool{true, false}
	case "disk-view":
		// a view rooted at the object's directory ("." for a root object)
		pre := dir
		if pre == "" {
			pre = "."
		}
		e, kinds = &expr{kind: "pre", prefix: pre, a: &expr{kind: "b", base: 0}}, []bool{true, false}
		readPath, readDir = strings.TrimPrefix(path, dir+"/"), ""
		other = "zz/other.proto" // not visible through the view unless pre is "."
	case "union-mem-disk":
		e, kinds = &expr{kind: "multi", a: &expr{kind: "b", base: 0}, b: &expr{kind: "b", base: 1}}, []bool{false, true, false}
		holder = 1
	default:
		e, kinds = &expr{kind: "ovl", a: &expr{kind: "b", base: 0}, b: &expr{kind: "b", base: 1}}, []bool{true, false, i%2 == 0}
	}
	spare := len(kinds) - 1
	otherBase := 0
	script := []op{
		{kind: 'p', base: holder, path: path, content: "N1", how: "plain"},
		{kind: 'p', base: otherBase, path: other, content: "O1", how: "plain"},
		{kind: 'w', path: ""},
		{kind: 'w', path: readDir},
		{kind: 'w', path: readPath},
		{kind: 'g', path: readPath},
		{kind: 's', path: readPath},
		{kind: 'C', base: spare, how: []string{"copy", "tar", "zip", "copy-atomic"}[i%4]},
		{kind: 'T', base: holder, path: path, content: "N2", how: "atomic-open"},
		{kind: 'w', path: readDir},
		{kind: 'g', path: readPath},
		{kind: 'R'},
		{kind: 'g', path: readPath},
		{kind: 'w', path: ""},
		{kind: 'p', base: holder, path: path, content: "N3", how: "atomic"},
		{kind: 'w', path: readDir},
		{kind: 'd', base: holder, path: path},
		{kind: 'w', path: ""},
		{kind: 'g', path: readPath},
	}
	v := &vocab{pool: []string{path, other, "d/x", "q"}, dirs: []string{dir, "d", ".", ""}, prefixes: []string{"d"}}
	run.Count("names:sweep:" + placement + ":" + backend)
	runCaseCfg(run, i, r, tmpRoot, caseCfg{vocab: v, forceDisk: kinds, forceExpr: e, script: script, onlyIdx: nameSweepBase + i, tag: "n"})
}

// nameVocab draws a prefix-free pool from the family for one random case; the case's primary
// name (stratified by case index) is always in it, as a file and as a directory.
func nameVocab(r *hx.Rand, i int) *vocab {
	var pl []string
	dirSet := map[string]bool{}
	conflict := func(p string) bool {
		for _, q := range pl {
			if p == q || under(p, q) || under(q, p) {
				return true
			}
		}
		return false
	}
	add := func(p string) {
		if !conflict(p) {
			pl = append(pl, p)
			for _, a := range ancestors(p) {
				dirSet[a] = true
			}
		}
	}
	primary := nameFamily[i%len(nameFamily)]
	add("d/" + primary)
	add(primary + "/f.proto")
	// the other spellings of the same text live NEXT to it: names that differ only in
	// normalisation form are different objects in every bucket
	for _, tw := range nameTwins[primary] {
		add("d/" + tw)
		add(tw + "/f.proto")
	}
	ordinaryDirs := []string{"d", "a/sub", "c"}
	for len(pl) < 9 {
		n := hx.Pick(r, nameFamily)
		switch r.Intn(6) {
		case 0:
			add(n)
		case 1, 2:
			add(hx.Pick(r, ordinaryDirs) + "/" + n)
		case 3:
			add(n + "/" + hx.Pick(r, []string{"x", "y.proto", n}))
		case 4:
			add(hx.Pick(r, nameFamily) + "/" + n)
		default:
			add(hx.Pick(r, ordinaryDirs) + "/" + n + "/" + hx.Pick(r, []string{"x", "z.proto"}))
		}
	}
	add("plain/x.proto")
	var ds []string
	for d := range dirSet {
		ds = append(ds, d)
	}
	sortStrings(ds)
	hx.Shuffle(r, ds)
	pre := append([]string{}, ds...)
	if len(pre) > 5 {
		pre = pre[:5]
	}
	pre = append(pre, ".")
	return &vocab{pool: pl, dirs: append(append([]string{".", "", "zz"}, ds...), pl[0], pl[1]), prefixes: pre}
}

func runNames(run *hx.Run, i int, r *hx.Rand, tmpRoot string) {
	v := nameVocab(r, i)
	run.Count("names:random-case")
	runCaseCfg(run, i, r, tmpRoot, caseCfg{vocab: v, diskNum: 2, diskDen: 3, onlyIdx: nameRandBase + i, tag: "r"})
}

func sortStrings(xs []string) {
	for i := 1; i < len(xs); i++ {
		for j := i; j > 0 && xs[j] < xs[j-1]; j-- {
			xs[j], xs[j-1] = xs[j-1], xs[j]
		}
	}
}

var _ = strconv.Itoa
var _ storage.ReadBucket
