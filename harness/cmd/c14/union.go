// Union / overlay clauses of C14, stated from the property text on the implementation only:
//
//   - a union (MultiReadBucket) REPORTS a path present in two members: when both members have an
//     object at p (by Stat on the members), Get(p), Stat(p) and every Walk whose prefix covers p
//     fail; a path present in exactly one member is served with that member's bytes;
//   - an overlay (OverlayReadBucket) serves the FIRST member that has p, consistently in Get,
//     Stat and Walk;
//   - Walk lists each path at most once and is exactly the merge of the members' walks;
//   - none of this depends on what ExternalPath() the members report: every composite is
//     evaluated twice, with its members as built and with every member of every union/overlay
//     wrapped in StripReadBucketExternalPaths, and the two must agree.
//
// checkUnionNodes applies the clauses to EVERY union/overlay node of an expression (not only the
// root) in the current state of the bases.  runUnion generates cases whose root is a union or an
// overlay over members built in every way buf builds buckets (read-write memory bucket + Put,
// storage.PutPath, storagemem.NewReadBucket(map), Untar / Unzip into memory, storage.Copy with
// external paths from one shared or from separate disk directories, disk buckets), with objects
// placed deliberately in one, two or all members (equal or different bytes), and reads every
// visible path and every covering prefix; the same history goes to the Lean model as a hist2
// line.
package main

import (
	"bytes"
	"fmt"
	"os"
	"path/filepath"
	"sort"
	"strconv"
	"strings"

	"github.com/bufbuild/buf/private/pkg/storage"
	"github.com/bufbuild/buf/private/pkg/storage/storagearchive"
	"github.com/bufbuild/buf/private/pkg/storage/storagemem"
	"github.com/bufbuild/buf/private/pkg/storage/storageos"
	"github.com/bufbuild/verifharness/internal/bk"
	"github.com/bufbuild/verifharness/internal/hx"
)

func toRead(bases []storage.ReadWriteBucket) []storage.ReadBucket {
	out := make([]storage.ReadBucket, len(bases))
	for i, b := range bases {
		out[i] = b
	}
	return out
}

// buildR builds the composite over read buckets; with stripMembers every member of every
// union/overlay node is wrapped in StripReadBucketExternalPaths.
func (e *expr) buildR(bases []storage.ReadBucket, stripMembers bool) storage.ReadBucket {
	switch e.kind {
	case "b":
		return bases[e.base]
	case "pre":
		return storage.MapReadBucket(e.a.buildR(bases, stripMembers), storage.MapOnPrefix(e.prefix))
	case "filt":
		return storage.FilterReadBucket(e.a.buildR(bases, stripMembers), e.m)
	case "strip":
		return storage.StripReadBucketExternalPaths(e.a.buildR(bases, stripMembers))
	}
	a, b := e.a.buildR(bases, stripMembers), e.b.buildR(bases, stripMembers)
	if stripMembers {
		a, b = storage.StripReadBucketExternalPaths(a), storage.StripReadBucketExternalPaths(b)
	}
	if e.kind == "multi" {
		return storage.MultiReadBucket(a, b)
	}
	return storage.OverlayReadBucket(a, b)
}

func (e *expr) unionNodes(out *[]*expr) {
	switch e.kind {
	case "b":
	case "pre", "filt", "strip":
		e.a.unionNodes(out)
	default:
		// children first: a failure is reported at the innermost composite showing it
		e.a.unionNodes(out)
		e.b.unionNodes(out)
		*out = append(*out, e)
	}
}

// rawWalk: the paths and external paths a Walk visits, in order, and its error.
func rawWalk(b storage.ReadBucket, prefix string) (paths, exts []string, err error) {
	err = b.Walk(ctx, prefix, func(oi storage.ObjectInfo) error {
		paths = append(paths, oi.Path())
		exts = append(exts, oi.ExternalPath())
		return nil
	})
	return
}

// walkObs is what one Walk shows: error class, and (when it succeeded without listing the view
// root) every listed path with what Get returns for it, in visiting order.
type walkObs struct {
	cls  string
	root bool
	kvs  []bk.KV
	exts []string
}

func readOrErr(b storage.ReadBucket, p string) string {
	c, err := bk.ReadAll(ctx, b, p)
	if err != nil {
		return "!" + bk.ErrClass(err)
	}
	return "=" + c
}

func observeWalk(b storage.ReadBucket, prefix string) walkObs {
	paths, exts, err := rawWalk(b, prefix)
	o := walkObs{cls: bk.ErrClass(err), exts: exts}
	for _, p := range paths {
		if p == "." {
			o.root = true
		}
	}
	if err == nil && !o.root {
		for _, p := range paths {
			o.kvs = append(o.kvs, bk.KV{K: p, V: readOrErr(b, p)})
		}
	}
	return o
}

func (o walkObs) asMap() (map[string]string, string) {
	m := map[string]string{}
	for _, kv := range o.kvs {
		if _, dup := m[kv.K]; dup {
			return m, kv.K
		}
		m[kv.K] = kv.V
	}
	return m, ""
}

func showVal(v string) string {
	if len(v) > 0 && (v[0] == '=' || v[0] == '!') {
		return v[:1] + canonContent(v[1:])
	}
	return canonContent(v)
}

func showMap(m map[string]string) string {
	ks := keys(m)
	parts := make([]string, len(ks))
	for i, k := range ks {
		parts[i] = k + showVal(m[k])
	}
	return "[" + strings.Join(parts, " ") + "]"
}

// ancestors of a normalised relative path: "a/b/c" -> a, a/b
func ancestors(p string) []string {
	var out []string
	for i := 0; i < len(p); i++ {
		if p[i] == '/' {
			out = append(out, p[:i])
		}
	}
	return out
}

type statObs struct {
	cls, ext string
}

func observeStat(b storage.ReadBucket, p string) statObs {
	oi, err := b.Stat(ctx, p)
	if err != nil {
		return statObs{cls: bk.ErrClass(err)}
	}
	if oi.Path() != p {
		return statObs{cls: "ok-wrong-path:" + oi.Path()}
	}
	return statObs{cls: "ok", ext: oi.ExternalPath()}
}

// checkUnionNodes is the oracle described at the top of this file.
func checkUnionNodes(run *hx.Run, e *expr, bases []storage.ReadBucket, fail func(class, what string)) {
	var nodes []*expr
	e.unionNodes(&nodes)
	reported := map[string]bool{}
	failOnce := func(class, what string) {
		if !reported[class] {
			reported[class] = true
			fail(class, what)
		}
	}
	for _, n := range nodes {
		a, b := n.a.buildR(bases, false), n.b.buildR(bases, false)
		u := n.buildR(bases, false)
		us := n.buildR(bases, true)
		overlay := n.kind == "ovl"
		name := n.String()
		// candidate paths: whatever either member lists (even by a walk that fails later)
		cand := map[string]bool{"no/such/object": true}
		pa, ea, _ := rawWalk(a, "")
		pb, eb, _ := rawWalk(b, "")
		extOf := map[string][2]string{}
		for i, p := range pa {
			cand[p] = true
			x := extOf[p]
			x[0] = ea[i]
			extOf[p] = x
		}
		for i, p := range pb {
			cand[p] = true
			x := extOf[p]
			x[1] = eb[i]
			extOf[p] = x
		}
		delete(cand, ".")
		var cs []string
		for p := range cand {
			cs = append(cs, p)
		}
		sort.Strings(cs)
		if len(cs) > 14 {
			cs = cs[:14]
		}
		prefixSet := map[string]bool{"": true}
		var dups []string
		run.Count("union-oracle:node:" + n.kind)
		for _, p := range cs {
			sa, sb := observeStat(a, p), observeStat(b, p)
			ga, gb := readOrErr(a, p), readOrErr(b, p)
			gu, su := readOrErr(u, p), observeStat(u, p)
			run.Eval()
			inA, inB := sa.cls == "ok", sb.cls == "ok"
			noA, noB := sa.cls == "err:not-exist", sb.cls == "err:not-exist"
			switch {
			case !overlay && inA && inB:
				dups = append(dups, p)
				if sa.ext == sb.ext {
					run.Count("union-oracle:duplicate:equal-external-paths")
				} else {
					run.Count("union-oracle:duplicate:different-external-paths")
				}
				if gu[0] == '=' {
					failOnce("union-hides-duplicate", fmt.Sprintf("get %q succeeded on %s although both members have it (external paths %q, %q)", p, name, sa.ext, sb.ext))
				}
				if su.cls == "ok" {
					failOnce("union-hides-duplicate", fmt.Sprintf("stat %q succeeded on %s although both members have it (external paths %q, %q)", p, name, sa.ext, sb.ext))
				}
				if gu[0] != '=' && gu != "!err:multiple" || su.cls != "ok" && su.cls != "err:multiple" {
					run.Count("union-oracle:duplicate-reported-as-other-error")
				}
			case !overlay && (inA && noB || noA && inB):
				want := ga
				if inB {
					want = gb
				}
				if gu != want || su.cls != "ok" {
					failOnce("union-loses-object", fmt.Sprintf("%q is in exactly one member of %s (get %s) but the union gives get %s, stat %s", p, name, showVal(want), showVal(gu), su.cls))
				}
			case !overlay && noA && noB:
				if gu != "!err:not-exist" || su.cls != "err:not-exist" {
					failOnce("union-invents-object", fmt.Sprintf("%q is in no member of %s but the union gives get %s, stat %s", p, name, showVal(gu), su.cls))
				}
			case overlay && inA:
				if inB {
					run.Count("union-oracle:overlay-shadowed-path")
				}
				if gu != ga || su.cls != "ok" {
					failOnce("overlay-first-member-not-preferred", fmt.Sprintf("%q is in the first member of %s (get %s) but the overlay gives get %s, stat %s", p, name, showVal(ga), showVal(gu), su.cls))
				}
				if su.cls == "ok" && su.ext != sa.ext {
					failOnce("overlay-first-member-not-preferred", fmt.Sprintf("stat %q on %s reports external path %q, the first member's is %q", p, name, su.ext, sa.ext))
				}
			case overlay && noA && ga == "!err:not-exist":
				if gu != gb || su.cls != sb.cls {
					failOnce("overlay-does-not-fall-through", fmt.Sprintf("%q is not in the first member of %s, the second gives get %s stat %s, the overlay get %s stat %s", p, name, showVal(gb), sb.cls, showVal(gu), su.cls))
				}
			default:
				// a member itself fails on p (nested duplicate, ...): the composite must not
				// turn that into a successful read
				if !overlay && (gu[0] == '=' || su.cls == "ok") {
					failOnce("union-swallows-member-error", fmt.Sprintf("%q: members of %s give stat %s / %s but the union succeeds", p, name, sa.cls, sb.cls))
				}
				run.Count("union-oracle:member-error")
			}
			// independence of external paths
			gs, ss := readOrErr(us, p), observeStat(us, p)
			if gs != gu || ss.cls != su.cls {
				failOnce("external-paths-change-result", fmt.Sprintf("%q through %s: get %s stat %s, with every member wrapped in StripReadBucketExternalPaths: get %s stat %s", p, name, showVal(gu), su.cls, showVal(gs), ss.cls))
			}
			if (inA || inB) && len(prefixSet) < 9 {
				prefixSet[p] = true
				for _, q := range ancestors(p) {
					prefixSet[q] = true
				}
			}
		}
		for _, p := range dups {
			// every prefix that covers a duplicate is walked
			prefixSet[p] = true
			for _, q := range ancestors(p) {
				prefixSet[q] = true
			}
		}
		var qs []string
		for q := range prefixSet {
			qs = append(qs, q)
		}
		sort.Strings(qs)
		if len(qs) > 12 {
			qs = qs[:12]
		}
		for _, q := range qs {
			wa, wb, wu, ws := observeWalk(a, q), observeWalk(b, q), observeWalk(u, q), observeWalk(us, q)
			run.Eval()
			if wa.root || wb.root || wu.root || ws.root {
				run.Count("union-oracle:skip-walk-root-object")
				continue
			}
			// independence of external paths
			mu, dupU := wu.asMap()
			ms, _ := ws.asMap()
			if wu.cls != ws.cls || !sameMap(mu, ms) {
				failOnce("external-paths-change-result", fmt.Sprintf("walk %q through %s: %s %s, with every member wrapped in StripReadBucketExternalPaths: %s %s", q, name, wu.cls, showMap(mu), ws.cls, showMap(ms)))
			}
			if dupU != "" {
				failOnce("walk-duplicate", fmt.Sprintf("walk %q through %s visited %q twice", q, name, dupU))
				continue
			}
			// a duplicate under q must make the walk fail
			if !overlay {
				for _, p := range dups {
					if under(q, p) && wu.cls == "ok" {
						x := extOf[p]
						failOnce("union-walk-hides-duplicate", fmt.Sprintf("walk %q through %s succeeds and lists %s although both members have %q (external paths %q, %q)", q, name, showMap(mu), p, x[0], x[1]))
					}
				}
			}
			if wa.cls != "ok" || wb.cls != "ok" {
				if wu.cls == "ok" {
					failOnce("composite-walk-swallows-member-error", fmt.Sprintf("walk %q: members of %s give %s / %s but the composite walk succeeds", q, name, wa.cls, wb.cls))
				}
				continue
			}
			ma, _ := wa.asMap()
			mb, _ := wb.asMap()
			overlap := ""
			for k := range mb {
				if _, ok := ma[k]; ok && (overlap == "" || k < overlap) {
					overlap = k
				}
			}
			if !overlay && overlap != "" {
				if wu.cls == "ok" {
					failOnce("union-walk-hides-duplicate", fmt.Sprintf("walk %q through %s succeeds and lists %s although both members list %q", q, name, showMap(mu), overlap))
				} else if wu.cls != "err:multiple" {
					run.Count("union-oracle:duplicate-reported-as-other-error")
				}
				continue
			}
			want := map[string]string{}
			for k, v := range mb {
				want[k] = v
			}
			for k, v := range ma {
				want[k] = v // first member wins (overlay); disjoint for a union
			}
			if wu.cls != "ok" || !sameMap(want, mu) {
				cl := "union-walk-differs-from-members"
				if overlay {
					cl = "overlay-walk-differs-from-members"
				}
				failOnce(cl, fmt.Sprintf("walk %q through %s gives %s %s but its members list %s and %s", q, name, wu.cls, showMap(mu), showMap(ma), showMap(mb)))
			}
		}
	}
}

// ---------------------------------------------------------------------------------------
// union cases

// unionBase is the --only index of the first union case.
const unionBase = 1000000

var memberKinds = []string{"rw", "putpath", "map", "untar", "unzip", "copyext-shared", "copyext-own", "disk"}

// buildMember builds a bucket holding exactly content (path -> bytes) in the given way.
func buildMember(kind string, content map[string]string, dir, sharedDir string) storage.ReadBucket {
	ps := keys(content)
	switch kind {
	case "rw":
		b := storagemem.NewReadWriteBucket()
		for _, p := range ps {
			must(bk.PutString(ctx, b, p, content[p]))
		}
		return b
	case "putpath":
		b := storagemem.NewReadWriteBucket()
		for _, p := range ps {
			must(storage.PutPath(ctx, b, p, []byte(content[p])))
		}
		return b
	case "map":
		m := map[string][]byte{}
		for _, p := range ps {
			m[p] = []byte(content[p])
		}
		b, err := storagemem.NewReadBucket(m)
		must(err)
		return b
	case "untar", "unzip":
		src := storagemem.NewReadWriteBucket()
		for _, p := range ps {
			must(bk.PutString(ctx, src, p, content[p]))
		}
		dst := storagemem.NewReadWriteBucket()
		var buf bytes.Buffer
		if kind == "untar" {
			must(storagearchive.Tar(ctx, src, &buf))
			must(storagearchive.Untar(ctx, &buf, dst))
		} else {
			must(storagearchive.Zip(ctx, src, &buf, true))
			must(storagearchive.Unzip(ctx, bytes.NewReader(buf.Bytes()), int64(buf.Len()), dst))
		}
		return dst
	case "copyext-shared", "copyext-own", "disk":
		d := dir
		if kind == "copyext-shared" {
			d = sharedDir
		}
		must(os.MkdirAll(d, 0o755))
		db, err := storageos.NewProvider().NewReadWriteBucket(d)
		must(err)
		for _, p := range ps {
			must(bk.PutString(ctx, db, p, content[p]))
		}
		if kind == "disk" {
			return db
		}
		// copy exactly this member's paths, keeping the disk files' external paths
		dst := storagemem.NewReadWriteBucket()
		for _, p := range ps {
			_, err := storage.Copy(ctx, storage.FilterReadBucket(db, storage.MatchPathEqual(p)), dst, storage.CopyWithExternalAndLocalPaths())
			must(err)
		}
		return dst
	}
	panic("member kind " + kind)
}

func genUnary(r *hx.Rand, leaf *expr) *expr {
	switch r.Intn(8) {
	case 0:
		return &expr{kind: "strip", a: leaf}
	case 1:
		enc, m := genMatcher(r)
		return &expr{kind: "filt", menc: enc, m: m, a: leaf}
	case 2:
		return &expr{kind: "pre", prefix: hx.Pick(r, prefixes), a: leaf}
	default:
		return leaf
	}
}

func runUnion(run *hx.Run, idx int, r *hx.Rand, tmpRoot string) {
	nb := 2 + r.Intn(2)
	kinds := make([]string, nb)
	content := make([]map[string]string, nb) // path -> token
	for i := range kinds {
		kinds[i] = hx.Pick(r, memberKinds)
		content[i] = map[string]string{}
	}
	if r.Chance(1, 3) {
		// the family the external-path comparison cannot tell apart: all members in memory
		for i := range kinds {
			kinds[i] = hx.Pick(r, memberKinds[:5])
		}
	}
	tmp := filepath.Join(tmpRoot, "u"+strconv.Itoa(idx))
	defer os.RemoveAll(tmp)
	// objects: each path in one, two or all members, equal or different bytes
	np := 2 + r.Intn(6)
	perm := append([]string{}, pool...)
	hx.Shuffle(r, perm)
	for j, p := range perm[:np] {
		var members []int
		switch k := r.Intn(10); {
		case k < 4:
			members = []int{r.Intn(nb)}
		case k < 8:
			i := r.Intn(nb)
			members = []int{i, (i + 1 + r.Intn(nb-1)) % nb}
		default:
			for i := 0; i < nb; i++ {
				members = append(members, i)
			}
		}
		same := r.Chance(1, 4)
		for _, i := range members {
			tok := "U" + strconv.Itoa(j) + "b" + strconv.Itoa(i)
			if same || kinds[i] == "copyext-shared" {
				tok = "S" + strconv.Itoa(j) // one shared disk file: one content
			}
			if r.Chance(1, 12) && kinds[i] != "copyext-shared" {
				tok = "-"
			}
			content[i][p] = tok
		}
	}
	bases := make([]storage.ReadBucket, nb)
	modelKinds := ""
	for i := range bases {
		mat := map[string]string{}
		for p, t := range content[i] {
			mat[p] = materialize(t)
		}
		bases[i] = buildMember(kinds[i], mat, filepath.Join(tmp, "b"+strconv.Itoa(i)), filepath.Join(tmp, "shared"))
		if kinds[i] == "disk" {
			modelKinds += "d"
		} else {
			modelKinds += "m"
		}
		run.Count("union:member-kind:" + kinds[i])
	}
	// expression: the root is a union (2/3) or an overlay
	root := &expr{kind: "multi"}
	if r.Chance(1, 3) {
		root.kind = "ovl"
	}
	if r.Chance(1, 2) {
		i := r.Intn(nb)
		j := (i + 1 + r.Intn(nb-1)) % nb
		if r.Chance(1, 10) {
			j = i
		}
		root.a = genUnary(r, &expr{kind: "b", base: i})
		root.b = genUnary(r, &expr{kind: "b", base: j})
	} else {
		root.a, root.b = genExpr(r, nb, 2), genExpr(r, nb, 2)
	}
	e := root
	if r.Chance(1, 6) {
		e = genUnary(r, root)
	}
	comp := e.buildR(bases, false)
	var ops []op
	var results []string
	for i := range bases {
		for _, p := range keys(content[i]) {
			ops = append(ops, op{kind: 'p', base: i, path: p, content: content[i][p], how: kinds[i]})
			results = append(results, "ok")
		}
	}
	input := func() map[string]any {
		ss := make([]string, len(ops))
		for i, o := range ops {
			ss[i] = o.String()
		}
		return map[string]any{"expr": e.String(), "member_kinds": kinds, "ops": ss}
	}
	fail := func(class, what string) {
		run.Fail(hx.OracleFailure{Class: class, What: what, Input: input(),
			Replay: fmt.Sprintf("build/c14 --out /tmp/c14-replay --seed %d --tier %s --only %d", run.Seed, run.Tier, unionBase+idx)})
	}
	defer func() {
		if p := recover(); p != nil {
			fail("harness-panic", fmt.Sprint(p))
		}
	}()
	// reads: every path a member shows, every path put, one absent; every covering prefix
	targets := map[string]bool{"no/such": true}
	for i := range content {
		for p := range content[i] {
			targets[p] = true
		}
	}
	for _, m := range []*expr{root.a, root.b, e} {
		ps, _, _ := rawWalk(m.buildR(bases, false), "")
		for _, p := range ps {
			if p != "." {
				targets[p] = true
			}
		}
	}
	pre := map[string]bool{"": true, ".": true}
	for p := range targets {
		pre[p] = true
		for _, q := range ancestors(p) {
			pre[q] = true
		}
	}
	var ts, qs []string
	for p := range targets {
		ts = append(ts, p)
	}
	for q := range pre {
		qs = append(qs, q)
	}
	sort.Strings(ts)
	sort.Strings(qs)
	nontrivial := false
	for _, p := range ts {
		sp := spell(r, p)
		c, err := bk.ReadAll(ctx, comp, sp)
		res := bk.ErrClass(err)
		if err == nil {
			res = "ok:" + canonContent(c)
			nontrivial = true
		}
		ops, results = append(ops, op{kind: 'g', path: sp}), append(results, res)
		run.Count("union:get:" + strings.SplitN(res, ":", 2)[0] + errTag(res))
		_, err = comp.Stat(ctx, sp)
		ops, results = append(ops, op{kind: 's', path: sp}), append(results, bk.ErrClass(err))
	}
	for _, q := range qs {
		sq := spell(r, q)
		kvs, err := bk.WalkAll(ctx, comp, sq)
		if err == bk.ErrRootObject {
			run.Count("skip:walk-root-object")
			continue
		}
		res := bk.ErrClass(err)
		if err == nil {
			res = "ok:" + bk.Dump(canonKVs(kvs))
			if len(kvs) > 0 {
				nontrivial = true
			}
		}
		ops, results = append(ops, op{kind: 'w', path: sq}), append(results, res)
		run.Count("union:walk:" + strings.SplitN(res, ":", 2)[0] + errTag(res))
		// helpers built on Walk must fail with it
		_, aerr := storage.AllPaths(ctx, comp, sq)
		if _, _, rerr := rawWalk(comp, sq); (rerr == nil) != (aerr == nil) {
			fail("allpaths-disagrees-with-walk", fmt.Sprintf("AllPaths(%q) on %s: %v, Walk: %v", sq, e.String(), aerr, rerr))
		}
	}
	checkUnionNodes(run, e, bases, fail)
	checkStrip(run, e, bases, fail)
	var sb strings.Builder
	sb.WriteString(strings.Join(results, ";"))
	for i := range bases {
		kvs, err := bk.WalkAll(ctx, bases[i], "")
		must(err)
		sb.WriteString("|" + bk.Dump(canonKVs(kvs)))
		// the member really holds what was asked for
		got := map[string]string{}
		for _, kv := range kvs {
			got[kv.K] = canonContent(kv.V)
		}
		want := map[string]string{}
		for p, t := range content[i] {
			want[p] = canonContent(materialize(t))
		}
		if !sameMap(want, got) {
			fail("base-vs-reference-map", fmt.Sprintf("member %d built by %s holds %v, asked for %v", i, kinds[i], got, want))
		}
	}
	encs := make([]string, len(ops))
	for i, o := range ops {
		encs[i] = o.enc()
	}
	run.Count("union:root:" + root.kind)
	run.Case("hist2\t"+e.enc()+"\t"+modelKinds+"\t"+strings.Join(encs, ";"), sb.String(), nontrivial)
	if idx < 2 {
		in := input()
		in["results"] = results
		run.Sample(in)
	}
}
