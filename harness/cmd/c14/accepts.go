// "An operation the reference map accepts must not fail on any backend."
//
// Until round 6 the history oracle judged only what a backend HOLDS after an op; the error an op
// returned went to the Lean correspondence alone.  Seed C14-m9 (the disk bucket caches "known
// directories" and DeleteAll forgets only the exact prefix, so a Put into a directory below a
// removed ancestor fails with ENOENT) changed 9 protocol lines and no oracle clause: a REJECTED
// put leaves the backend equal to a reference map that was not updated either.
//
// refTree is the oracle's own (Go, implementation-independent) account of which writes a backend
// must accept.  A memory bucket accepts every valid path.  A disk bucket is a file TREE: it may
// refuse a put below an object (ENOTDIR) or onto a directory (EISDIR), and nothing else — so the
// tree keeps, next to the reference map, the directories that exist according to the history
// (ancestors of every accepted put and of every atomic put that was begun; DeleteAll removes a
// subtree, Delete removes an empty directory; leftover empty directories stay, as coded).
package main

import (
	"os"
	"path/filepath"

	"github.com/bufbuild/buf/private/pkg/normalpath"
	"github.com/bufbuild/verifharness/internal/bk"
)

type refTree struct {
	disk []bool
	ref  []map[string]string // shared with the case: the reference maps
	dirs []map[string]bool
	// prefixes of the DeleteAll calls that succeeded on the base (for the failure class)
	deletedAll [][]string
}

func newRefTree(nb int, disk []bool, ref []map[string]string) *refTree {
	t := &refTree{disk: disk, ref: ref, dirs: make([]map[string]bool, nb), deletedAll: make([][]string, nb)}
	for i := range t.dirs {
		t.dirs[i] = map[string]bool{}
	}
	return t
}

func (t *refTree) belowObject(i int, n string) bool {
	for _, a := range ancestors(n) {
		if _, ok := t.ref[i][a]; ok {
			return true
		}
	}
	return false
}

// acceptsPut: must Put(n) + Write + Close succeed on base i?
func (t *refTree) acceptsPut(i int, n string) bool {
	if !t.disk[i] {
		return true
	}
	return !t.belowObject(i, n) && !t.dirs[i][n]
}

// acceptsBegin: must Put(n, Atomic) + Write (no Close yet) succeed?  (the final name is only
// looked at by the rename)
func (t *refTree) acceptsBegin(i int, n string) bool {
	return !t.disk[i] || !t.belowObject(i, n)
}

// acceptsClose: must the Close of an atomic put of n succeed?
func (t *refTree) acceptsClose(i int, n string) bool {
	return !t.disk[i] || !t.dirs[i][n]
}

func (t *refTree) acceptsDeleteAll(i int, n string) bool {
	return !t.disk[i] || n == "." || !t.belowObject(i, n)
}

// acceptsAll: must a copy of these objects into base i succeed?
func (t *refTree) acceptsAll(i int, kvs []bk.KV) bool {
	if !t.disk[i] {
		return true
	}
	for _, kv := range kvs {
		if !t.acceptsPut(i, kv.K) {
			return false
		}
		for _, other := range kvs {
			if other.K != kv.K && under(kv.K, other.K) {
				return false
			}
		}
	}
	return true
}

func (t *refTree) addAncestors(i int, n string) {
	if !t.disk[i] {
		return
	}
	for _, a := range ancestors(n) {
		t.dirs[i][a] = true
	}
}

func (t *refTree) removeDir(i int, n string) { delete(t.dirs[i], n) }

func (t *refTree) deleteAll(i int, n string) {
	t.deletedAll[i] = append(t.deletedAll[i], n)
	for d := range t.dirs[i] {
		if under(n, d) {
			delete(t.dirs[i], d)
		}
	}
}

// rejectClass names the failure of a put the map accepts: the history shape of seed C14-m9 (a
// DeleteAll of a strict ancestor of the put's directory succeeded earlier) has its own class.
func (t *refTree) rejectClass(i int, n string) string {
	dir := normalpath.Dir(n)
	for _, p := range t.deletedAll[i] {
		if dir != "." && p != dir && under(p, dir) {
			return "put-fails-after-deleteall-of-ancestor"
		}
	}
	return "backend-op-error-differs"
}

// rescan re-reads the directories from the real disk (after a FAILED copy, whose partial effect
// the property does not describe; the reference map is re-read there as well).
func (t *refTree) rescan(i int, root string) {
	t.dirs[i] = map[string]bool{}
	filepath.Walk(root, func(p string, fi os.FileInfo, err error) error {
		if err == nil && fi.IsDir() && p != root {
			if rel, rerr := filepath.Rel(root, p); rerr == nil {
				t.dirs[i][filepath.ToSlash(rel)] = true
			}
		}
		return nil
	})
}

func kvKeys(kvs []bk.KV) []string {
	out := make([]string, len(kvs))
	for i, kv := range kvs {
		out[i] = kv.K
	}
	return out
}
