// DUPLICATE MEMBERS (C14, archives): an archive may hold the same member path more than once
// (`tar -r` / `tar -u` append the new version of an edited file, `tar -A` concatenates; zip
// writers do not check names either), and two different members can land on one path after
// strip-components or after normalisation ("./a/x", "a//x", "q/../a/x").  Extraction is a sequence
// of puts into ONE path→bytes map, so the LATER member wins — what tar(1) does, and what Untar /
// Unzip do as coded (each member is a Put; the model's extractInto is a fold of memPut).
// Seed C11-m10 made Untar keep the FIRST copy ("only materialize a given path one time"): 6 lines
// of the old xtr cases differed, and the only oracle clause ("every extracted object comes from
// SOME regular entry with that content") was satisfied by the first copy.
//
// runDup (`dup` protocol lines, --only 8000000+i): tar and zip archives written with the stdlib
// writers, 1-2 target paths each present 1-3 times with DIFFERENT contents (later copy shorter /
// longer / empty), the copies spelled identically or colliding only after strip-components (0-2)
// or normalisation, shuffled with unique fillers, directory entries, a symlink entry of the same
// name AFTER the regular copies (must not replace them), "._" twins; optional path matcher and
// max file size; extracted with the real Untar / Unzip into an empty memory bucket, a memory
// bucket that already holds the target (the archive wins), or a disk bucket.
// Oracle (implementation only): after a successful extraction every path holds the content of
// the LAST regular member that maps to it (normalise, strip, match; "._" skipped), else what the
// destination held before: class `untar-duplicate-member-not-last` / `unzip-duplicate-member-not-last`
// when several members map to the path, `extracted-object-differs` otherwise.
package main

import (
	"archive/tar"
	"archive/zip"
	"bytes"
	"fmt"
	"os"
	"path"
	"path/filepath"
	"strconv"
	"strings"

	"github.com/bufbuild/buf/private/pkg/normalpath"
	"github.com/bufbuild/buf/private/pkg/storage"
	"github.com/bufbuild/buf/private/pkg/storage/storagearchive"
	"github.com/bufbuild/buf/private/pkg/storage/storagemem"
	"github.com/bufbuild/buf/private/pkg/storage/storageos"
	"github.com/bufbuild/verifharness/internal/bk"
	"github.com/bufbuild/verifharness/internal/hx"
)

const dupBase = 8000000

var dupTargets = []string{"a/x", "p.proto", "d/e/f.proto", "m/n", "q"}
var dupFillers = []string{"fill/one", "two.proto", "fill/three.proto", "z"}
var dupStripPrefixes = [][]string{{""}, {"top/", "other/", "t2/"}, {"x/y/", "u/v/", "x/w/"}}

func dupSpell(r *hx.Rand, p string) string {
	switch r.Intn(6) {
	case 0:
		return "./" + p
	case 1:
		return strings.Replace(p, "/", "//", 1)
	case 2:
		return strings.Replace(p, "/", "/./", 1)
	case 3:
		return "qq/../" + p
	default:
		return p
	}
}

type dupEnt struct {
	name, kind, content string
}

func runDup(run *hx.Run, idx int, r *hx.Rand, tmpRoot string) {
	xo := xopts{zip: idx%2 == 1, menc: "-", strip: (idx / 2) % 3}
	if r.Chance(1, 4) {
		if r.Bool() {
			xo.menc, xo.matcher = "ext:"+hx.Enc(".proto"), storage.MatchPathExt(".proto")
		} else {
			xo.menc, xo.matcher = "not:ext:"+hx.Enc(".proto"), storage.MatchNot(storage.MatchPathExt(".proto"))
		}
	}
	if !xo.zip && r.Chance(1, 8) {
		xo.maxSize = 4
	}
	prefixes := dupStripPrefixes[xo.strip]
	var ws []dupEnt
	nt := 1 + r.Intn(2)
	targets := append([]string{}, dupTargets...)
	hx.Shuffle(r, targets)
	targets = targets[:nt]
	samePrefix := r.Chance(1, 3) // all copies spelled with one prefix: the SAME member name repeated
	for ti, t := range targets {
		copies := 2 + r.Intn(2)
		if r.Chance(1, 6) {
			copies = 1
		}
		pre0 := hx.Pick(r, prefixes)
		for c := 0; c < copies; c++ {
			pre := pre0
			name := pre + t
			if !samePrefix {
				pre = hx.Pick(r, prefixes)
				name = dupSpell(r, pre+t)
			}
			content := "D" + strconv.Itoa(ti) + strconv.Itoa(c) + strings.Repeat("y", r.Intn(3)*r.Intn(6))
			switch r.Intn(8) {
			case 0:
				content = ""
			case 1:
				content = "d" + strconv.Itoa(c)
			}
			ws = append(ws, dupEnt{name, "r", content})
		}
		if r.Chance(1, 5) {
			// a non-regular member of the same name (skipped by Untar/Unzip: must not replace anything)
			ws = append(ws, dupEnt{hx.Pick(r, prefixes) + t, hx.Pick(r, []string{"o", "d"}), ""})
		}
		if r.Chance(1, 8) {
			ws = append(ws, dupEnt{hx.Pick(r, prefixes) + path.Dir(t) + "/._" + path.Base(t), "r", "apple"})
		}
	}
	for j, nf := 0, r.Intn(4); j < nf; j++ {
		ws = append(ws, dupEnt{hx.Pick(r, prefixes) + dupFillers[j], "r", "F" + strconv.Itoa(j)})
	}
	if r.Chance(1, 4) && xo.strip > 0 {
		ws = append(ws, dupEnt{strings.TrimSuffix(prefixes[0], "/"), "d", ""})
	}
	if !r.Chance(1, 5) {
		hx.Shuffle(r, ws)
	}
	var buf bytes.Buffer
	okBuild := true
	if xo.zip {
		zw := zip.NewWriter(&buf)
		for _, w := range ws {
			fh := &zip.FileHeader{Name: w.name, Method: zip.Store}
			switch w.kind {
			case "d":
				fh.Name += "/"
			case "o":
				fh.SetMode(os.ModeSymlink | 0o777)
			}
			fw, err := zw.CreateHeader(fh)
			if err != nil {
				okBuild = false
				break
			}
			if w.kind == "r" {
				if _, err := fw.Write([]byte(w.content)); err != nil {
					okBuild = false
					break
				}
			}
		}
		if zw.Close() != nil {
			okBuild = false
		}
	} else {
		tw := tar.NewWriter(&buf)
		for _, w := range ws {
			h := &tar.Header{Typeflag: tar.TypeReg, Name: w.name, Size: int64(len(w.content)), Mode: 0o644}
			switch w.kind {
			case "d":
				h.Typeflag, h.Size, h.Mode, h.Name = tar.TypeDir, 0, 0o755, w.name+"/"
			case "o":
				h.Typeflag, h.Size, h.Linkname = tar.TypeSymlink, 0, "target"
			}
			if err := tw.WriteHeader(h); err != nil {
				okBuild = false
				break
			}
			if h.Size > 0 {
				if _, err := tw.Write([]byte(w.content)); err != nil {
					okBuild = false
					break
				}
			}
		}
		if tw.Close() != nil {
			okBuild = false
		}
	}
	if !okBuild {
		run.Count("dup:unbuildable:" + xo.fmtName())
		return
	}
	var ents []aent
	var err error
	if xo.zip {
		ents, err = listZip(buf.Bytes())
	} else {
		ents, err = listTar(buf.Bytes())
	}
	if err != nil {
		run.Count("dup:unreadable")
		return
	}
	// destination: empty memory / memory already holding the first target / disk
	pre := map[string]string{}
	destKind := []string{"mem", "mem", "mem-preloaded", "disk"}[r.Intn(4)]
	var dest storage.ReadWriteBucket = storagemem.NewReadWriteBucket()
	if destKind == "disk" {
		d := filepath.Join(tmpRoot, "dup"+strconv.Itoa(idx))
		must(os.MkdirAll(d, 0o755))
		defer os.RemoveAll(d)
		b, berr := storageos.NewProvider().NewReadWriteBucket(d)
		must(berr)
		dest = b
	}
	if destKind == "mem-preloaded" || (destKind == "disk" && r.Bool()) {
		pre[targets[0]] = "OLD-CONTENT-in-the-destination"
		pre["kept/untouched"] = "K"
		for k, v := range pre {
			must(bk.PutString(ctx, dest, k, v))
		}
	}
	names := make([]string, len(ents))
	encs := make([]string, len(ents))
	for i, en := range ents {
		names[i] = en.kind + " " + strconv.Quote(en.name) + " = " + strconv.Quote(en.content)
		encs[i] = hx.Enc(en.name) + ":" + en.kind + ":" + encContent(en.content)
	}
	input := map[string]any{"format": xo.fmtName(), "strip": xo.strip, "matcher": xo.menc, "max_size": xo.maxSize, "members_in_archive_order": names, "destination": destKind, "destination_before": pre}
	fail := func(class, what string) {
		run.Fail(hx.OracleFailure{Class: class, What: what, Input: input,
			Replay: fmt.Sprintf("build/c14 --out /tmp/c14-replay --seed %d --tier %s --only %d", run.Seed, run.Tier, dupBase+idx)})
	}
	defer func() {
		if p := recover(); p != nil {
			fail("harness-panic", fmt.Sprint(p))
		}
	}()
	if xo.zip {
		opts := []storagearchive.UnzipOption{storagearchive.UnzipWithStripComponentCount(uint32(xo.strip))}
		if xo.matcher != nil {
			opts = append(opts, storagearchive.UnzipWithFilePathMatcher(xo.matcher.MatchPath))
		}
		err = storagearchive.Unzip(ctx, bytes.NewReader(buf.Bytes()), int64(buf.Len()), dest, opts...)
	} else {
		opts := []storagearchive.UntarOption{storagearchive.UntarWithStripComponentCount(uint32(xo.strip))}
		if xo.matcher != nil {
			opts = append(opts, storagearchive.UntarWithFilePathMatcher(xo.matcher.MatchPath))
		}
		if xo.maxSize != 0 {
			opts = append(opts, storagearchive.UntarWithMaxFileSize(int64(xo.maxSize)))
		}
		err = storagearchive.Untar(ctx, bytes.NewReader(buf.Bytes()), dest, opts...)
	}
	res := bk.ErrClass(err)
	final, werr := bk.WalkAll(ctx, dest, "")
	must(werr)
	run.Count("dup:" + xo.fmtName() + ":" + destKind + ":" + res)
	run.Count("dup:strip=" + strconv.Itoa(xo.strip))
	// oracle
	if res == "ok" {
		want := map[string]string{}
		for k, v := range pre {
			want[k] = v
		}
		mapped := map[string][]string{}
		for _, en := range ents {
			if en.kind != "r" || strings.HasPrefix(path.Base(en.name), "._") {
				continue
			}
			n, nerr := normalpath.NormalizeAndValidate(en.name)
			if nerr != nil || n == "." {
				continue
			}
			k, sok := normalpath.StripComponents(n, uint32(xo.strip))
			if !sok || (xo.matcher != nil && !xo.matcher.MatchPath(k)) {
				continue
			}
			want[k] = en.content
			mapped[k] = append(mapped[k], strconv.Quote(en.name)+"="+strconv.Quote(en.content))
		}
		got := map[string]string{}
		for _, kv := range final {
			got[kv.K] = kv.V
		}
		run.Eval()
		dupSeen := false
		for k, w := range want {
			if len(mapped[k]) > 1 {
				dupSeen = true
			}
			g, ok := got[k]
			if ok && g == w {
				continue
			}
			switch {
			case len(mapped[k]) > 1:
				fail(map[bool]string{false: "untar", true: "unzip"}[xo.zip]+"-duplicate-member-not-last", fmt.Sprintf("%s extraction (strip %d) into a %s bucket: members %v all map to %q, in this order; the bucket holds (%q, present=%v) but the LAST member's content is %q (a later member replaces an earlier one, as each member is a put into one map and as tar(1) extracts)", xo.fmtName(), xo.strip, destKind, mapped[k], k, g, ok, w))
			default:
				fail("extracted-object-differs", fmt.Sprintf("%s extraction (strip %d) into a %s bucket: %q holds (%q, present=%v), expected %q (members mapping to it: %v; before the extraction: %q)", xo.fmtName(), xo.strip, destKind, k, g, ok, w, mapped[k], pre[k]))
			}
		}
		for k, g := range got {
			if _, ok := want[k]; !ok {
				fail("extracted-object-from-nowhere", fmt.Sprintf("extraction produced %q=%q which no regular member maps to", k, g))
			}
		}
		if dupSeen {
			run.Count("dup:case-with-several-members-for-one-path")
		}
	}
	entsEnc, preEnc := "-", "-"
	if len(encs) > 0 {
		entsEnc = strings.Join(encs, ",")
	}
	if len(pre) > 0 {
		var ps []string
		for _, k := range keys(pre) {
			ps = append(ps, hx.Enc(k)+"="+pre[k])
		}
		preEnc = strings.Join(ps, ",")
	}
	run.Case("dup\t"+xo.fields()+"\t"+entsEnc+"\t"+preEnc, res+"|"+bk.Dump(final), len(final) > 0 || res != "ok")
	if idx < 2 {
		input["result"] = res
		run.Sample(input)
	}
}
