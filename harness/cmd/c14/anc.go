// The ANCESTOR family of C14: histories that mix Put / Delete / DeleteAll(prefix at EVERY ancestor
// level, "" and ".") / Put again over very few, deeply nested paths, so that the same directories
// are created, removed and re-created many times, plus directory <-> file transitions (Put a/b,
// DeleteAll a, Put a as a FILE, Put a/b again).  A backend that remembers anything about the
// directory tree beyond the tree itself (seed C14-m9: a cache of "known directories" that
// DeleteAll invalidates only for the exact prefix) stops being the path→bytes map exactly here:
// the map accepts the second put, the backend answers ENOENT.
//
//   - runAncSweep (--only 4000000+i): scripted, deterministic.  directory D of depth 1-3 x prefix P
//     = every strict ancestor of D, "", ".", and D itself x (plain|atomic) first/second put x
//     backend (memory, disk, disk behind a prefix view, overlay disk+memory, union memory+disk, disk
//     WRITTEN through MapReadWriteBucket(MapOnPrefix("g")): Put / Delete / DeleteAll below "g" are
//     issued on the mapped bucket with relative paths)
//     x variant (plain | the removed ancestor comes back as a FILE, is deleted again | the object and
//     then its now EMPTY directories are removed one by one with Delete before the DeleteAll).
//   - runAnc (--only 5000000+i): random histories of 10-40 ops over the 6-path pool below (2/3
//     disk bases, random composite incl. prefix views rooted at the ancestors and overlays).
//
// Both go through the ordinary history machinery (runCaseCfg): every oracle of main.go / union.go
// and the Lean correspondence (hist2 lines, BufModel.Disk tree) judge them; the clause that names
// the violation is accepts.go ("an operation the reference map accepts must not fail").
package main

import (
	"strconv"
	"strings"

	"github.com/bufbuild/buf/private/pkg/normalpath"
	"github.com/bufbuild/verifharness/internal/hx"
)

const (
	ancSweepBase = 4000000
	ancRandBase  = 5000000
)

var ancVocab = vocab{
	pool:     []string{"g/go/pkg/a.go", "g/go/pkg/b.go", "g/go/c.go", "g/d", "h/i/j/k", "t"},
	dirs:     []string{"", ".", "g", "g/go", "g/go/pkg", "h", "h/i", "h/i/j", "zz"},
	prefixes: []string{"g", "g/go", "h/i", "."},
}

// names that are directories of the pool (free for a FILE once a DeleteAll removed them) and
// names below pool files
var ancTransitions = []string{"g", "g/go", "g/go/pkg", "h", "h/i/j", "t/u", "g/d/e", "h/i/j/k/l"}

func genAncOp(r *hx.Rand, nb, i int, readsOnly bool) op {
	k := r.Intn(20)
	if readsOnly {
		k = 13 + r.Intn(6)
	}
	switch {
	case !readsOnly && i < 2, k < 7:
		o := op{kind: 'p', base: r.Intn(nb), path: spell(r, hx.Pick(r, pool)), content: "A" + strconv.Itoa(i), how: "plain"}
		if r.Chance(1, 3) {
			o.how = "atomic"
		}
		if r.Chance(1, 10) {
			o.content = "-"
		}
		if r.Chance(1, 8) {
			o.path = hx.Pick(r, ancTransitions)
		}
		return o
	case k < 11:
		return op{kind: 'D', base: r.Intn(nb), path: spell(r, hx.Pick(r, append(append([]string{}, dirs...), "g", "g/go", "", ".")))}
	case k < 13:
		o := op{kind: 'd', base: r.Intn(nb), path: spell(r, hx.Pick(r, pool))}
		if r.Chance(1, 3) {
			o.path = hx.Pick(r, ancTransitions)
		}
		return o
	case k < 16:
		o := op{kind: 'g', path: spell(r, pickView(r))}
		if r.Chance(1, 3) {
			o.kind = 's'
		}
		return o
	case k < 19:
		return op{kind: 'w', path: spell(r, hx.Pick(r, append(append([]string{}, dirs...), pool...)))}
	default:
		return op{kind: 'C', base: r.Intn(nb), how: hx.Pick(r, []string{"copy", "copy-atomic", "tar", "zip"})}
	}
}

func runAnc(run *hx.Run, i int, r *hx.Rand, tmpRoot string) {
	v := ancVocab
	run.Count("anc:random-case")
	runCaseCfg(run, i, r, tmpRoot, caseCfg{vocab: &v, diskNum: 2, diskDen: 3, onlyIdx: ancRandBase + i, tag: "a", mix: "anc"})
}

var ancDirs = []string{"g/go/pkg", "g/go", "g"}
var ancBackends = []string{"mem", "disk", "disk-view", "overlay-disk-mem", "union-mem-disk", "disk-write-view"}
var ancHows = [][2]string{{"plain", "plain"}, {"plain", "atomic"}, {"atomic", "plain"}}
var ancVariants = []string{"plain", "file-transition", "delete-empty-dirs"}

// prefixes to DeleteAll for directory d: every strict ancestor, "", ".", and d itself (control)
func ancPrefixes(d string) []string {
	return append(append([]string{}, ancestors(d+"/x")...), "", ".")
}

type ancCase struct {
	dir, prefix, backend, variant string
	hows                          [2]string
}

func ancSweepCases() []ancCase {
	var out []ancCase
	for _, d := range ancDirs {
		for _, p := range ancPrefixes(d) {
			for _, h := range ancHows {
				for _, b := range ancBackends {
					for _, v := range ancVariants {
						out = append(out, ancCase{d, p, b, v, h})
					}
				}
			}
		}
	}
	return out
}

func ancSweepCount() int { return len(ancSweepCases()) }

func runAncSweep(run *hx.Run, i int, r *hx.Rand, tmpRoot string) {
	c := ancSweepCases()[i]
	var e *expr
	var kinds []bool
	holder := 0
	writeView := ""
	view := func(p string) string { return p }
	switch c.backend {
	case "disk-write-view":
		e, kinds, writeView = &expr{kind: "b", base: 0}, []bool{true}, "g"
	case "mem":
		e, kinds = &expr{kind: "b", base: 0}, []bool{false}
	case "disk":
		e, kinds = &expr{kind: "b", base: 0}, []bool{true}
	case "disk-view":
		e, kinds = &expr{kind: "pre", prefix: "g", a: &expr{kind: "b", base: 0}}, []bool{true}
		view = func(p string) string {
			if p == "g" {
				return "."
			}
			return strings.TrimPrefix(p, "g/")
		}
	case "overlay-disk-mem":
		e, kinds = &expr{kind: "ovl", a: &expr{kind: "b", base: 0}, b: &expr{kind: "b", base: 1}}, []bool{true, false}
	default:
		e, kinds = &expr{kind: "multi", a: &expr{kind: "b", base: 0}, b: &expr{kind: "b", base: 1}}, []bool{false, true}
		holder = 1
	}
	a, b := c.dir+"/a.go", c.dir+"/b.go"
	script := []op{
		{kind: 'p', base: holder, path: a, content: "X1", how: c.hows[0]},
		{kind: 'w', path: ""},
	}
	if c.variant == "delete-empty-dirs" {
		// Delete of the object, then of each leftover EMPTY directory from the innermost upwards (a
		// disk bucket removes it and returns nil, a memory bucket answers not-exist: as coded), down
		// to — not including — the prefix; then a put into the removed directory
		script = append(script, op{kind: 'd', base: holder, path: a})
		for d := c.dir; d != "." && d != c.prefix; d = normalpath.Dir(d) {
			script = append(script, op{kind: 'd', base: holder, path: d})
		}
		script = append(script,
			op{kind: 'w', path: ""},
			op{kind: 'p', base: holder, path: b, content: "X0", how: c.hows[1]},
			op{kind: 'g', path: view(b)},
		)
	}
	script = append(script,
		op{kind: 'D', base: holder, path: c.prefix},
		op{kind: 'w', path: ""},
	)
	if c.variant == "file-transition" {
		// the topmost removed directory comes back as a FILE: a put below it is refused by a disk
		// bucket (a tree) and accepted by a memory bucket (a map), as coded; after the file is
		// deleted both accept it again
		top := c.prefix
		if top == "" || top == "." {
			top = "g"
		}
		script = append(script,
			op{kind: 'p', base: holder, path: top, content: "F1", how: c.hows[1]},
			op{kind: 'p', base: holder, path: b, content: "X0", how: c.hows[1]},
			op{kind: 'g', path: view(b)},
			op{kind: 'd', base: holder, path: top},
			op{kind: 'D', base: holder, path: c.prefix},
		)
	}
	script = append(script,
		op{kind: 'p', base: holder, path: b, content: "X2", how: c.hows[1]},
		op{kind: 'g', path: view(b)},
		op{kind: 'w', path: view(c.dir)},
		op{kind: 'p', base: holder, path: a, content: "X3", how: c.hows[0]},
		op{kind: 'w', path: ""},
		op{kind: 'D', base: holder, path: "."},
		op{kind: 'p', base: holder, path: a, content: "X4", how: c.hows[1]},
		op{kind: 'g', path: view(a)},
		op{kind: 'd', base: holder, path: a},
		op{kind: 'p', base: holder, path: b, content: "X5", how: c.hows[0]},
		op{kind: 'w', path: ""},
	)
	v := ancVocab
	run.Count("anc:sweep:" + c.backend + ":" + c.variant)
	runCaseCfg(run, i, r, tmpRoot, caseCfg{vocab: &v, forceDisk: kinds, forceExpr: e, script: script, onlyIdx: ancSweepBase + i, tag: "s", writeView: writeView})
}
